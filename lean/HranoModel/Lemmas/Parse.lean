import HranoModel.Model.App
/-
  Helper lemmas about the scanner and the parser's event sequence.
-/
namespace Hrano

namespace Scanner

theorem takeFitting_false (ls : List Bytes) (h : (takeFitting ls).2 = false) : (takeFitting ls).1 = ls := by
  induction ls with
  | nil => rfl
  | cons l r ih =>
    unfold takeFitting at h ⊢
    by_cases hl : l.length ≥ PConst.maxToken
    · simp [hl] at h
    · simp only [hl, if_false] at h ⊢
      rw [ih h]

theorem takeFitting_true_iff (ls : List Bytes) : (takeFitting ls).2 = true ↔ ∃ l ∈ ls, l.length ≥ PConst.maxToken := by
  induction ls with
  | nil => simp [takeFitting]
  | cons l r ih =>
    unfold takeFitting
    by_cases hl : l.length ≥ PConst.maxToken
    · simp [hl]
    · simp only [hl, if_false]
      rw [ih]
      constructor
      · rintro ⟨x, hx, hxl⟩
        exact ⟨x, List.mem_cons_of_mem _ hx, hxl⟩
      · rintro ⟨x, hx, hxl⟩
        rcases List.mem_cons.mp hx with rfl | hx
        · exact absurd hxl hl
        · exact ⟨x, hx, hxl⟩

theorem takeFitting_false_iff (ls : List Bytes) : (takeFitting ls).2 = false ↔ ∀ l ∈ ls, l.length < PConst.maxToken := by
  constructor
  · intro h l hm
    rcases Nat.lt_or_ge l.length PConst.maxToken with h1 | h1
    · exact h1
    · have := (takeFitting_true_iff ls).mpr ⟨l, hm, h1⟩
      rw [h] at this; cases this
  · intro h
    cases hc : (takeFitting ls).2 with
    | false => rfl
    | true =>
      obtain ⟨l, hm, hl⟩ := (takeFitting_true_iff ls).mp hc
      have := h l hm
      omega

theorem served_ok (s : Bytes) (fa : Option Nat) (h : (served s fa).2 = false) :
    (served s fa).1 = s ∧ ∀ k, fa = some k → s.length < k := by
  unfold served at h ⊢
  cases fa with
  | none => simp
  | some k =>
    by_cases hk : k ≤ s.length
    · simp [hk] at h
    · simp [hk]; omega

/-- no error ⇒ nothing was cut: the reader did not fail and no line was too long -/
theorem scan_ok (s : Bytes) (fa : Option Nat) (h : (scan s fa).2 = none) :
    (scan s fa).1 = (rawLines s).map dropCR
    ∧ (∀ k, fa = some k → s.length < k)
    ∧ ∀ l ∈ rawLines s, l.length < PConst.maxToken := by
  simp only [scan] at h ⊢
  have hlong : (takeFitting (rawLines (served s fa).1)).2 = false := by
    cases hc : (takeFitting (rawLines (served s fa).1)).2 with
    | false => rfl
    | true => simp [hc] at h
  have hserved : (served s fa).2 = false := by
    cases hc : (served s fa).2 with
    | false => rfl
    | true => simp [hlong, hc] at h
  obtain ⟨hs1, hs2⟩ := served_ok s fa hserved
  rw [hs1] at hlong ⊢
  exact ⟨by rw [takeFitting_false _ hlong], hs2, (takeFitting_false_iff _).mp hlong⟩

theorem scan_fail_of_fault (s : Bytes) (k : Nat) (hk : k ≤ s.length) : (scan s (some k)).2 ≠ none := by
  simp only [scan, served, hk, if_true]
  cases (takeFitting (rawLines (List.take k s))).2 <;> simp

theorem scan_fail_of_long (s : Bytes) (fa : Option Nat) (l : Bytes) (hm : l ∈ rawLines s) (hl : l.length ≥ PConst.maxToken)
    (hfa : ∀ k, fa = some k → s.length < k) : (scan s fa).2 = some .tooLong := by
  have hdata : (served s fa).1 = s := by
    unfold served
    cases fa with
    | none => rfl
    | some k =>
      have := hfa k rfl
      have : ¬ k ≤ s.length := by omega
      simp [this]
  simp only [scan, hdata]
  have := (takeFitting_true_iff (rawLines s)).mpr ⟨l, hm, hl⟩
  simp [this]

end Scanner

namespace Parser

theorem eventsFaulty_ok (cc : UInt8) (s : Bytes) (fa : Option Nat) (h : (eventsFaulty cc s fa).2 = none) :
    (eventsFaulty cc s fa).1 = events cc s := by
  have hs : (Scanner.scan s fa).2 = none := by simpa [eventsFaulty] using h
  have h1 := Scanner.scan_ok s fa hs
  have h2 : (Scanner.scan s none).2 = none := by
    have : (Scanner.takeFitting (Scanner.rawLines s)).2 = false := (Scanner.takeFitting_false_iff _).mpr h1.2.2
    simp [Scanner.scan, Scanner.served, this]
  have h3 := Scanner.scan_ok s none h2
  simp only [eventsFaulty, events, hs, h1.1, h3.1, Option.isNone_none]

end Parser
end Hrano

namespace Hrano
namespace Parser

theorem eventsFaulty_eq_of_ok (cc : UInt8) (s : Bytes) (fa : Option Nat) (h : (eventsFaulty cc s fa).2 = none) :
    eventsFaulty cc s fa = eventsFaulty cc s none := by
  have hs : (Scanner.scan s fa).2 = none := by simpa [eventsFaulty] using h
  have h1 := Scanner.scan_ok s fa hs
  have h2 : (Scanner.scan s none).2 = none := by
    have : (Scanner.takeFitting (Scanner.rawLines s)).2 = false := (Scanner.takeFitting_false_iff _).mpr h1.2.2
    simp [Scanner.scan, Scanner.served, this]
  have h3 := Scanner.scan_ok s none h2
  simp only [eventsFaulty, hs, h2, h1.1, h3.1]

end Parser

namespace App

theorem walk_ok_se (l : Layout) (b e : Option Int) (se : Option ScanErr) : ∀ evs : List Event,
    (walk l b e se evs).2 = none → se = none := by
  intro evs
  induction evs with
  | nil => intro h; cases se <;> simp [walk] at h ⊢
  | cons ev r ih =>
    cases ev with
    | error pe => simp [walk]
    | node n =>
      cases hp : Date.parse l n.header with
      | none => simp [walk, hp]
      | some c => simp only [walk, hp]; exact ih

theorem loadBook_go_ok_se (se : Option ScanErr) : ∀ (evs : List Event) (acc : List Node) (b : Book),
    loadBook.go se evs acc = .ok b → se = none := by
  intro evs
  induction evs with
  | nil => intro acc b h; cases se <;> simp [loadBook.go] at h ⊢
  | cons ev r ih =>
    intro acc b h
    cases ev with
    | error pe => simp [loadBook.go] at h
    | node n => exact ih (n :: acc) b (by simpa [loadBook.go] using h)

theorem loadBook_ok_se (evs : List Event) (se : Option ScanErr) (b : Book) (h : loadBook evs se = .ok b) : se = none :=
  loadBook_go_ok_se se evs [] b h

end App
end Hrano
