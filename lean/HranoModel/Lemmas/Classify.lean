import HranoModel.Spec.Doc
import HranoModel.Lemmas.Trim
/-
  Helper lemmas for C04: how the tokenizer classifies each kind of line of a well-formed file.
-/
namespace Hrano
namespace Doc
open Bytes Parser

/-! facts about the generated constants (re-checked whenever `Facts.lean` is regenerated) -/
theorem cc_facts : PConst.trimText.contains PConst.commentChar = false ∧ PConst.commentChar ≠ Facts.runeSpace
    ∧ PConst.commentChar ≠ Facts.runeTab ∧ PConst.commentChar ≠ Facts.runeArrayItem := by decide

theorem mem_indent (b : UInt8) (h : indentBytes.contains b = true) : b = 32 ∨ b = 9 ∨ b = 45 := by
  simpa [indentBytes] using h
theorem mem_blank (b : UInt8) (h : blankBytes.contains b = true) : b = 32 ∨ b = 9 := by
  simpa [blankBytes] using h

theorem indent_in_trimText (b : UInt8) (h : indentBytes.contains b = true) : PConst.trimText.contains b = true := by
  rcases mem_indent b h with rfl | rfl | rfl <;> decide
theorem blank_in_trimText (b : UInt8) (h : blankBytes.contains b = true) : PConst.trimText.contains b = true := by
  rcases mem_blank b h with rfl | rfl <;> decide
theorem blank_in_trimQty (b : UInt8) (h : blankBytes.contains b = true) : PConst.trimQty.contains b = true := by
  rcases mem_blank b h with rfl | rfl <;> decide
theorem blank_in_blanks (b : UInt8) (h : blankBytes.contains b = true) : PConst.blanks.contains b = true := by
  rcases mem_blank b h with rfl | rfl <;> decide
theorem blank_is_indent (b : UInt8) (h : blankBytes.contains b = true) : indentBytes.contains b = true := by
  rcases mem_blank b h with rfl | rfl <;> decide
theorem quote_colon_in_trimText : PConst.trimText.contains 34 = true ∧ PConst.trimText.contains 58 = true := by decide
theorem indent_starts (b : UInt8) (h : indentBytes.contains b = true) :
    (b = Facts.runeSpace ∨ b = Facts.runeTab ∨ b = Facts.runeArrayItem) ∧ b ≠ PConst.commentChar := by
  rcases mem_indent b h with rfl | rfl | rfl <;> decide
theorem outside_not_indent (b : UInt8) (h : PConst.trimText.contains b = false) :
    b ≠ Facts.runeSpace ∧ b ≠ Facts.runeTab ∧ b ≠ Facts.runeArrayItem := by
  refine ⟨fun e => ?_, fun e => ?_, fun e => ?_⟩ <;> subst e <;> revert h <;> decide
theorem quote_not_indent : (34 : UInt8) ≠ Facts.runeSpace ∧ (34 : UInt8) ≠ Facts.runeTab ∧ (34 : UInt8) ≠ Facts.runeArrayItem
    ∧ (34 : UInt8) ≠ PConst.commentChar := by decide

theorem allIn_append {cut : List UInt8} {a b : Bytes} (ha : AllIn cut a) (hb : AllIn cut b) : AllIn cut (a ++ b) := by
  intro x hx
  rcases List.mem_append.mp hx with h | h
  · exact ha x h
  · exact hb x h

theorem allIn_quote (q : Bool) : AllIn PConst.trimText (if q then [34] else []) := by
  intro x hx
  cases q <;> simp at hx
  subst hx; exact quote_colon_in_trimText.1

theorem allIn_colon (c : Bool) : AllIn PConst.trimText (if c then [58] else []) := by
  intro x hx
  cases c <;> simp at hx
  subst hx; exact quote_colon_in_trimText.2

theorem trimLeft_append_stop (cut : List UInt8) (x : UInt8) (hx : cut.contains x = false) : ∀ l : Bytes,
    trimLeft cut (l ++ [x]) = trimLeft cut l ++ [x] := by
  intro l
  induction l with
  | nil => simp only [List.nil_append, trimLeft, hx]; rfl
  | cons y ys ih =>
    simp only [List.cons_append, trimLeft]
    split
    · exact ih
    · rfl

theorem trimRight_cons_stop (cut : List UInt8) (x : UInt8) (xs : Bytes) (hx : cut.contains x = false) :
    trimRight cut (x :: xs) = x :: trimRight cut xs := by
  unfold trimRight
  rw [List.reverse_cons, trimLeft_append_stop cut x hx]
  simp

/-- a heading line is a heading with exactly its name -/
theorem classify_heading (h : HeadingLine) (hw : h.WF PConst.commentChar) :
    classify PConst.commentChar h.render = .heading h.name := by
  obtain ⟨⟨x, xs, hn, hxt, hxc⟩, ⟨ys, y, hn', hyt, _⟩⟩ := hw.name
  have htrim : trim PConst.trimText h.render = h.name := by
    have : h.render = (if h.quoted then [34] else []) ++ h.name ++ ((if h.quoted then [34] else []) ++ (if h.colon then [58] else []) ++ h.trail) := by
      simp [HeadingLine.render, List.append_assoc]
    rw [this]
    apply trim_core
    · exact allIn_quote _
    · exact allIn_append (allIn_append (allIn_quote _) (allIn_colon _)) (fun b hb => blank_in_trimText b (hw.trailBytes b hb))
    · exact ⟨x, xs, hn, hxt⟩
    · exact ⟨ys, y, hn', hyt⟩
  unfold classify
  simp only [htrim]
  have hne : h.name.isEmpty = false := by rw [hn]; rfl
  simp only [hne, Bool.false_eq_true, if_false]
  have hout := outside_not_indent x hxt
  cases hq : h.quoted with
  | true =>
    have : h.render = 34 :: (h.name ++ ([34] ++ (if h.colon then [58] else []) ++ h.trail)) := by
      simp [HeadingLine.render, hq, List.append_assoc]
    rw [this]
    have q := quote_not_indent
    simp [q.1, q.2.1, q.2.2.1, q.2.2.2]
  | false =>
    have : h.render = x :: (xs ++ ((if h.colon then [58] else []) ++ h.trail)) := by
      simp [HeadingLine.render, hq, hn, List.append_assoc]
    rw [this]
    simp [hxc, hout.1, hout.2.1, hout.2.2]

/-- a comment line or a line of blanks / separators only is skipped -/
theorem classify_skip (s : SkipLine) (hw : s.WF) : classify PConst.commentChar (s.render PConst.commentChar) = .skip := by
  cases s with
  | comment t =>
    show classify PConst.commentChar (PConst.commentChar :: t) = .skip
    unfold classify
    by_cases he : (trim PConst.trimText (PConst.commentChar :: t)).isEmpty = true
    · simp [he]
    · simp [he]
  | blank b =>
    simp only [SkipLine.render, classify]
    have : trim PConst.trimText b = [] := trim_allIn _ b hw
    simp [this]

/-- an indented comment is a note (never an entry) -/
theorem classify_note (ind t : Bytes) (hind : (∃ x xs, ind = x :: xs ∧ blankBytes.contains x = true) ∧ (∀ b ∈ ind, blankBytes.contains b = true)) :
    classify PConst.commentChar (ind ++ PConst.commentChar :: t)
      = .indented (.note (metadataPair (trim PConst.trimText (ind ++ PConst.commentChar :: t)))) := by
  obtain ⟨⟨x, xs, hi, hx⟩, hall⟩ := hind
  have htrim : trim PConst.trimText (ind ++ PConst.commentChar :: t) = PConst.commentChar :: trimRight PConst.trimText t := by
    unfold trim
    rw [trimLeft_allIn _ ind _ (fun b hb => blank_in_trimText b (hall b hb)), trimLeft_stop _ _ _ cc_facts.1,
      trimRight_cons_stop _ _ _ cc_facts.1]
  unfold classify
  simp only [htrim]
  have hne : (PConst.commentChar :: trimRight PConst.trimText t).isEmpty = false := rfl
  simp only [hne, Bool.false_eq_true, if_false]
  rw [hi]
  simp only [List.cons_append]
  have hxi := indent_starts x (blank_is_indent x hx)
  have hxc : (x == PConst.commentChar) = false := by simpa using hxi.2
  simp only [hxc, Bool.false_eq_true, if_false]
  have hnh : (x != Facts.runeSpace && x != Facts.runeTab && x != Facts.runeArrayItem) = false := by
    rcases hxi.1 with h | h | h <;> simp [h]
  simp only [hnh, Bool.false_eq_true, if_false]
  simp [classifyIndented]

/-- an entry line yields exactly its name and the value of its literal, whatever its layout -/
theorem classify_entry (e : EntryLine) (hw : e.WF PConst.commentChar) :
    classify PConst.commentChar e.render = .indented (.entry e.name e.value) := by
  obtain ⟨ix, ixs, hi⟩ := hw.indentNonEmpty
  obtain ⟨⟨x, xs, hn, hxt, hxc⟩, ⟨ys, y, hn', hyt, _⟩⟩ := hw.name
  obtain ⟨bs, bl, hb⟩ := hw.blanksNonEmpty
  obtain ⟨lx, lxs, hl, hlq⟩ := hw.lit.starts
  obtain ⟨lys, ly, hl', hlyt, hlyq, _⟩ := hw.lit.ends
  let q : Bytes := if e.quoted then [34] else []
  let c : Bytes := if e.colon then [58] else []
  -- the trimmed line
  have hcore : trim PConst.trimText e.render = e.name ++ q ++ c ++ e.blanks ++ e.lit := by
    have : e.render = (e.indent ++ q) ++ (e.name ++ q ++ c ++ e.blanks ++ e.lit) ++ e.trail := by
      simp [EntryLine.render, q, c, List.append_assoc]
    rw [this]
    apply trim_core
    · exact allIn_append (fun b hb => indent_in_trimText b (hw.indentBytes b hb)) (allIn_quote _)
    · exact fun b hb => blank_in_trimText b (hw.trailBytes b hb)
    · exact ⟨x, xs ++ q ++ c ++ e.blanks ++ e.lit, by simp [hn, List.append_assoc], hxt⟩
    · exact ⟨e.name ++ q ++ c ++ e.blanks ++ lys, ly, by simp [hl', List.append_assoc], hlyt⟩
  unfold classify
  simp only [hcore]
  have hne : (e.name ++ q ++ c ++ e.blanks ++ e.lit).isEmpty = false := by rw [hn]; rfl
  simp only [hne, Bool.false_eq_true, if_false]
  -- first byte of the physical line: indentation
  have hrender : e.render = ix :: (ixs ++ q ++ e.name ++ q ++ c ++ e.blanks ++ e.lit ++ e.trail) := by
    simp [EntryLine.render, hi, q, c, List.append_assoc]
  rw [hrender]
  have hixi := indent_starts ix (hw.indentBytes ix (by rw [hi]; exact List.mem_cons_self))
  have hixc : (ix == PConst.commentChar) = false := by simpa using hixi.2
  have hnh : (ix != Facts.runeSpace && ix != Facts.runeTab && ix != Facts.runeArrayItem) = false := by
    rcases hixi.1 with h | h | h <;> simp [h]
  simp only [hixc, hnh, Bool.false_eq_true, if_false]
  -- inside the record
  unfold classifyIndented
  have hhead : (e.name ++ q ++ c ++ e.blanks ++ e.lit).head? = some x := by rw [hn]; rfl
  have hxcc : (some x == some PConst.commentChar) = false := by simpa using hxc
  simp only [hhead, hxcc, Bool.false_eq_true, if_false]
  -- split at the last blank
  have hsplit : splitLastAny PConst.blanks (e.name ++ q ++ c ++ e.blanks ++ e.lit) = some (e.name ++ q ++ c ++ bs, bl :: e.lit) := by
    have : e.name ++ q ++ c ++ e.blanks ++ e.lit = (e.name ++ q ++ c ++ bs) ++ bl :: e.lit := by
      simp [hb, List.append_assoc]
    rw [this]
    exact splitLastAny_at _ _ _ bl (blank_in_blanks bl (hw.blanksBytes bl (by rw [hb]; simp))) hw.lit.noBlank
  simp only [hsplit]
  -- the name
  have htitle : trim PConst.trimText (e.name ++ q ++ c ++ bs) = e.name := by
    have : e.name ++ q ++ c ++ bs = [] ++ e.name ++ (q ++ c ++ bs) := by simp [List.append_assoc]
    rw [this]
    apply trim_core
    · intro b hb'; cases hb'
    · exact allIn_append (allIn_append (allIn_quote _) (allIn_colon _))
        (fun b hb' => blank_in_trimText b (hw.blanksBytes b (by rw [hb]; exact List.mem_append_left _ hb')))
    · exact ⟨x, xs, hn, hxt⟩
    · exact ⟨ys, y, hn', hyt⟩
  -- the quantity
  have hqty : trim PConst.trimQty (bl :: e.lit) = e.lit := by
    have : bl :: e.lit = [bl] ++ e.lit ++ [] := by simp
    rw [this]
    apply trim_core
    · intro b hb'; simp at hb'; subst hb'; exact blank_in_trimQty _ (hw.blanksBytes _ (by rw [hb]; simp))
    · intro b hb'; cases hb'
    · exact ⟨lx, lxs, hl, hlq⟩
    · exact ⟨lys, ly, hl', hlyq⟩
  simp only [htitle, hqty, hw.lit.parses]

end Doc
end Hrano
