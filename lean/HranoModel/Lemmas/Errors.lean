import HranoModel.Lemmas.Parse
/-
  Helper lemmas for C09: which error events the parser produces.
-/
namespace Hrano
namespace Parser

/-- the specification: malformed entry lines inside a record, with their physical line number and raw text.
    `opened` says whether a heading has been seen; `ln` is the 1-based number of the first line. -/
def specErrors (cc : UInt8) : Bool → Nat → List Bytes → List PErr
  | _, _, [] => []
  | opened, ln, l :: ls =>
    match classify cc l with
    | .skip => specErrors cc opened (ln + 1) ls
    | .heading _ => specErrors cc true (ln + 1) ls
    | .indented k =>
      if opened then
        (match k with
         | .badSyntax => [PErr.badSyntax ln l]
         | .conversion t => [PErr.conversion t ln l]
         | _ => []) ++ specErrors cc true (ln + 1) ls
      else specErrors cc false (ln + 1) ls

theorem errorsOf_append (a b : List Event) : errorsOf (a ++ b) = errorsOf a ++ errorsOf b := by
  simp [errorsOf, List.filterMap_append]

theorem errorsOf_flush (cur : Option Node) : errorsOf (flush cur) = [] := by
  cases cur <;> rfl

theorem errors_spec (cc : UInt8) (fin : Bool) : ∀ (ls : List Bytes) (cur : Option Node) (ln : Nat),
    errorsOf (parseLines cc fin cur ln ls) = specErrors cc cur.isSome ln ls := by
  intro ls
  induction ls with
  | nil =>
    intro cur ln
    cases fin
    · simp [parseLines, specErrors, errorsOf]
    · simp only [parseLines, specErrors, if_true]; exact errorsOf_flush cur
  | cons l r ih =>
    intro cur ln
    unfold parseLines specErrors
    cases hc : classify cc l with
    | skip => simp only; exact ih cur (ln + 1)
    | heading h => simp only [errorsOf_append, errorsOf_flush, List.nil_append]; exact ih _ (ln + 1)
    | indented k =>
      cases cur with
      | none => simp only [Option.isSome_none, Bool.false_eq_true, if_false]; exact ih none (ln + 1)
      | some n =>
        simp only [Option.isSome_some, if_true]
        cases k with
        | note m => exact ih (some _) (ln + 1)
        | badSyntax => simpa [errorsOf] using ih (some n) (ln + 1)
        | conversion t => simpa [errorsOf] using ih (some n) (ln + 1)
        | entry name v => exact ih (some _) (ln + 1)
        | entryNonFinite name => exact ih (some _) (ln + 1)

def lineOf : PErr → Nat
  | .badSyntax ln _ => ln
  | .conversion _ ln _ => ln

def rawOf : PErr → Bytes
  | .badSyntax _ raw => raw
  | .conversion _ _ raw => raw

/-- every reported error carries the 1-based physical number of its line (blank and comment lines
    counted) and quotes that line verbatim -/
theorem spec_line_exact (cc : UInt8) : ∀ (ls : List Bytes) (opened : Bool) (start : Nat) (e : PErr),
    e ∈ specErrors cc opened start ls → start ≤ lineOf e ∧ ls[lineOf e - start]? = some (rawOf e) := by
  intro ls
  induction ls with
  | nil => intro opened start e h; simp [specErrors] at h
  | cons l r ih =>
    intro opened start e h
    unfold specErrors at h
    have shift : ∀ opened', e ∈ specErrors cc opened' (start + 1) r → start ≤ lineOf e ∧ (l :: r)[lineOf e - start]? = some (rawOf e) := by
      intro opened' h'
      obtain ⟨h1, h2⟩ := ih opened' (start + 1) e h'
      refine ⟨by omega, ?_⟩
      have : lineOf e - start = (lineOf e - (start + 1)) + 1 := by omega
      rw [this, List.getElem?_cons_succ]
      exact h2
    cases hc : classify cc l with
    | skip => rw [hc] at h; exact shift _ h
    | heading hd => rw [hc] at h; exact shift _ h
    | indented k =>
      rw [hc] at h
      simp only at h
      cases opened with
      | false => simp only [Bool.false_eq_true, if_false] at h; exact shift _ h
      | true =>
        simp only [if_true] at h
        rcases List.mem_append.mp h with h | h
        · cases k <;> simp at h <;> subst h <;> simp [lineOf, rawOf]
        · exact shift _ h

/-- errors come in file order, each malformed line once: line numbers strictly increase -/
theorem spec_lines_increasing (cc : UInt8) : ∀ (ls : List Bytes) (opened : Bool) (start : Nat),
    ((specErrors cc opened start ls).map lineOf).Pairwise (· < ·) := by
  intro ls
  induction ls with
  | nil => intro opened start; simp [specErrors]
  | cons l r ih =>
    intro opened start
    unfold specErrors
    cases hc : classify cc l with
    | skip => exact ih _ _
    | heading hd => exact ih _ _
    | indented k =>
      simp only
      cases opened with
      | false => simp only [Bool.false_eq_true, if_false]; exact ih _ _
      | true =>
        simp only [if_true, List.map_append]
        refine List.pairwise_append.mpr ⟨?_, ih _ _, ?_⟩
        · cases k <;> simp
        · intro a ha b hb
          obtain ⟨e, he, rfl⟩ := List.mem_map.mp hb
          have := (spec_line_exact cc r true (start + 1) e he).1
          cases k <;> simp [lineOf] at ha <;> omega

end Parser
end Hrano
