import HranoModel.Spec.Balance
import HranoModel.Lemmas.Order
/-
  Helper lemmas for C03: printing is pre-order; `addPath` adds the value at every non-empty prefix of the path
  and keeps siblings strictly sorted.
-/
namespace Hrano
namespace Spec
open Tree

/-! ### printing -/

theorem printChild_plain (level : Nat) (n : Bytes) (t : Q) (cs : List Tree) :
    printChild false level (node n t cs) = row t level n ++ printChildren false (level + 1) cs := by
  cases cs with
  | nil => simp [printChild, printChildren]
  | cons c rest =>
    cases rest with
    | nil =>
      cases c with
      | node gn gt gcs =>
        cases gcs with
        | nil => simp [printChild]
        | cons g gs => simp [printChild]
    | cons c2 rest2 => simp [printChild]

mutual
theorem print_is_preorder (level : Nat) : ∀ t : Tree, printChild false level t = ((preorder level t).map rowOf).flatten
  | node n t cs => by
    rw [printChild_plain, preorder]
    simp only [List.map_cons, List.flatten_cons, rowOf]
    rw [printList_is_preorder (level + 1) cs]
theorem printList_is_preorder (level : Nat) : ∀ cs : List Tree, printChildren false level cs = ((preorderList level cs).map rowOf).flatten
  | [] => by simp [printChildren, preorderList]
  | c :: cs => by
    rw [printChildren, preorderList, print_is_preorder level c, printList_is_preorder level cs]
    simp
end

/-- a collapsed row joins the labels of a chain of sole children, shows the amount of the chain's head, and
    printing continues below the end of the chain: nothing is dropped -/
theorem collapsed_child (level : Nat) : ∀ (c : Tree) (pre : List Bytes) (t : Q),
    printCollapsedChild pre t level c
      = row t level (Bytes.join Tree.sep (pre ++ chainNames c)) ++ printCollapsedChildren (level + 1) (chainEnd c).children
  | node n t0 [], pre, t => by simp [printCollapsedChild, chainNames, chainEnd, Tree.children, printCollapsedChildren]
  | node n t0 [c], pre, t => by
    rw [printCollapsedChild, collapsed_child level c (pre ++ [n]) t]
    simp [chainNames, chainEnd, List.append_assoc]
  | node n t0 (c1 :: c2 :: cs), pre, t => by
    simp [printCollapsedChild, chainNames, chainEnd, Tree.children, printCollapsedChildren, List.append_assoc]

/-! ### building -/

/-- siblings strictly increasing by name, at every level -/
inductive WFList : List Tree → Prop where
  | nil : WFList []
  | cons (n : Bytes) (t : Q) (ch cs : List Tree) :
      WFList ch → WFList cs → (∀ d ∈ cs, Bytes.lt n d.name = true) → WFList (node n t ch :: cs)

theorem findChild_nil (m : Bytes) : findChild [] m = none := rfl

theorem totalAt_nil : ∀ q : List Bytes, totalAt [] q = 0
  | [] => rfl
  | [_] => rfl
  | _ :: _ :: _ => rfl

theorem lt_irrefl (a : Bytes) : Bytes.lt a a = false := by simp [Bytes.lt]

theorem lt_of_le_ne (a b : Bytes) (h1 : Bytes.le a b = true) (h2 : a ≠ b) : Bytes.lt a b = true := by
  simp [Bytes.lt, h1, h2]

theorem lt_trans (a b c : Bytes) (h1 : Bytes.lt a b = true) (h2 : Bytes.lt b c = true) : Bytes.lt a c = true := by
  simp only [Bytes.lt, Bool.and_eq_true, Bool.not_eq_true', beq_eq_false_iff_ne, ne_eq] at *
  refine ⟨Bytes.le_trans a b c h1.1 h2.1, ?_⟩
  intro hac
  subst hac
  exact h1.2 (Bytes.le_antisymm a b h1.1 h2.1)

/-- when no sibling is called `m`, nothing is found -/
theorem findChild_none_of_lt (cs : List Tree) (m : Bytes) (h : ∀ d ∈ cs, Bytes.lt m d.name = true) : findChild cs m = none := by
  induction cs with
  | nil => rfl
  | cons c r ih =>
    have hc := h c (List.mem_cons_self)
    have hne : (c.name == m) = false := by
      have : c.name ≠ m := by intro e; rw [e, lt_irrefl] at hc; cases hc
      simpa using this
    simp only [findChild, List.find?, hne] at ih ⊢
    exact ih (fun d hd => h d (List.mem_cons_of_mem _ hd))

/-- what `ins` leaves under each name -/
theorem findChild_ins (n : Bytes) (ns : List Bytes) (v : Q) : ∀ (cs : List Tree), WFList cs → ∀ m,
    findChild (Tree.ins (addPath ns v) n v cs) m =
      if m == n then
        some (match findChild cs n with
          | some c => node n (c.total + v) (addPath ns v c.children)
          | none => node n v (addPath ns v []))
      else findChild cs m := by
  intro cs hw
  induction hw with
  | nil =>
    intro m
    by_cases hm : (m == n) = true
    · have : m = n := by simpa using hm
      subst this
      simp [Tree.ins, findChild, List.find?, Tree.name]
    · have hm' : (m == n) = false := by simpa using hm
      have hnm : (n == m) = false := by
        have : m ≠ n := by simpa using hm
        simpa using this.symm
      simp [Tree.ins, findChild, List.find?, Tree.name, hm', hnm]
  | cons cn ct ch cs hch hcs hlt _ ih =>
    intro m
    unfold Tree.ins
    by_cases h1 : (cn == n) = true
    · -- the existing child is updated
      have hcn : cn = n := by simpa using h1
      subst hcn
      simp only [Tree.name, BEq.rfl, if_true, Tree.total, Tree.children]
      by_cases hm : (m == cn) = true
      · have : m = cn := by simpa using hm
        subst this
        simp [findChild, List.find?, Tree.name, Tree.total, Tree.children]
      · have hm' : (m == cn) = false := by simpa using hm
        have hcm : (cn == m) = false := by
          have : m ≠ cn := by simpa using hm
          simpa using this.symm
        simp [findChild, List.find?, Tree.name, hm', hcm]
    · have h1' : (cn == n) = false := by simpa using h1
      simp only [Tree.name, h1', Bool.false_eq_true, if_false]
      by_cases h2 : Bytes.le n cn = true
      · -- inserted before: no sibling is called n
        simp only [h2, if_true]
        have hncn : Bytes.lt n cn = true := lt_of_le_ne n cn h2 (by intro e; simp [e] at h1')
        have hnone : findChild (node cn ct ch :: cs) n = none := by
          apply findChild_none_of_lt
          intro d hd
          rcases List.mem_cons.mp hd with rfl | hd
          · exact hncn
          · exact lt_trans n cn d.name hncn (hlt d hd)
        rw [hnone]
        by_cases hm : (m == n) = true
        · have : m = n := by simpa using hm
          subst this
          simp [findChild, List.find?, Tree.name]
        · have hm' : (m == n) = false := by simpa using hm
          have hnm : (n == m) = false := by
            have : m ≠ n := by simpa using hm
            simpa using this.symm
          simp [findChild, List.find?, Tree.name, hm', hnm]
      · -- look further
        simp only [h2, Bool.false_eq_true, if_false]
        have hrec := ih m
        by_cases hm : (m == n) = true
        · have : m = n := by simpa using hm
          subst this
          simp only [BEq.rfl, if_true] at hrec ⊢
          have hcm : (cn == m) = false := h1'
          simp only [findChild, List.find?, Tree.name, hcm] at hrec ⊢
          exact hrec
        · have hm' : (m == n) = false := by simpa using hm
          simp only [hm', Bool.false_eq_true, if_false] at hrec ⊢
          simp only [findChild, List.find?, Tree.name] at hrec ⊢
          split
          · rfl
          · exact hrec

end Spec
end Hrano

namespace Hrano
namespace Spec
open Tree

theorem mem_ins_name (n : Bytes) (ns : List Bytes) (v : Q) : ∀ (cs : List Tree) (d : Tree),
    d ∈ Tree.ins (addPath ns v) n v cs → d.name = n ∨ ∃ d' ∈ cs, d'.name = d.name := by
  intro cs
  induction cs with
  | nil => intro d hd; simp [Tree.ins] at hd; subst hd; exact Or.inl rfl
  | cons c r ih =>
    intro d hd
    unfold Tree.ins at hd
    by_cases h1 : (c.name == n) = true
    · simp only [h1, if_true] at hd
      rcases List.mem_cons.mp hd with rfl | hd
      · exact Or.inl (by show c.name = n; simpa using h1)
      · exact Or.inr ⟨d, List.mem_cons_of_mem _ hd, rfl⟩
    · have h1' : (c.name == n) = false := by simpa using h1
      simp only [h1', Bool.false_eq_true, if_false] at hd
      by_cases h2 : Bytes.le n c.name = true
      · simp only [h2, if_true] at hd
        rcases List.mem_cons.mp hd with rfl | hd
        · exact Or.inl rfl
        · exact Or.inr ⟨d, hd, rfl⟩
      · simp only [h2, Bool.false_eq_true, if_false] at hd
        rcases List.mem_cons.mp hd with rfl | hd
        · exact Or.inr ⟨d, List.mem_cons_self, rfl⟩
        · rcases ih d hd with h | ⟨d', hd', he⟩
          · exact Or.inl h
          · exact Or.inr ⟨d', List.mem_cons_of_mem _ hd', he⟩

theorem wf_ins (n : Bytes) (ns : List Bytes) (v : Q) (hsub : ∀ ch, WFList ch → WFList (addPath ns v ch)) :
    ∀ cs : List Tree, WFList cs → WFList (Tree.ins (addPath ns v) n v cs) := by
  intro cs hw
  induction hw with
  | nil =>
    rw [Tree.ins]
    exact WFList.cons n v _ [] (hsub [] WFList.nil) WFList.nil (by intro d hd; cases hd)
  | cons cn ct ch cs hch hcs hlt _ ih =>
    unfold Tree.ins
    by_cases h1 : (cn == n) = true
    · have hcn : cn = n := by simpa using h1
      subst hcn
      simp only [Tree.name, BEq.rfl, if_true, Tree.total, Tree.children]
      exact WFList.cons cn _ _ cs (hsub ch hch) hcs hlt
    · have h1' : (cn == n) = false := by simpa using h1
      simp only [Tree.name, h1', Bool.false_eq_true, if_false]
      by_cases h2 : Bytes.le n cn = true
      · simp only [h2, if_true]
        have hncn : Bytes.lt n cn = true := lt_of_le_ne n cn h2 (by intro e; simp [e] at h1')
        refine WFList.cons n v _ _ (hsub [] WFList.nil) (WFList.cons cn ct ch cs hch hcs hlt) ?_
        intro d hd
        rcases List.mem_cons.mp hd with rfl | hd
        · exact hncn
        · exact lt_trans n cn d.name hncn (hlt d hd)
      · simp only [h2, Bool.false_eq_true, if_false]
        have hcnn : Bytes.lt cn n = true := by
          rcases Bytes.le_total n cn with h | h
          · exact absurd h h2
          · exact lt_of_le_ne cn n h (by intro e; simp [e] at h1')
        refine WFList.cons cn ct ch _ hch ih ?_
        intro d hd
        rcases mem_ins_name n ns v cs d hd with h | ⟨d', hd', he⟩
        · rw [h]; exact hcnn
        · rw [← he]; exact hlt d' hd'

theorem wf_addPath (v : Q) : ∀ (p : List Bytes) (cs : List Tree), WFList cs → WFList (addPath p v cs)
  | [], cs, h => by simpa [addPath] using h
  | n :: ns, cs, h => by
    rw [addPath]
    exact wf_ins n ns v (fun ch hch => wf_addPath v ns ch hch) cs h

theorem wf_children_of_find : ∀ (cs : List Tree), WFList cs → ∀ n c, findChild cs n = some c → WFList c.children := by
  intro cs hw
  induction hw with
  | nil => intro n c h; cases h
  | cons cn ct ch cs hch hcs hlt _ ih =>
    intro n c h
    by_cases h1 : (cn == n) = true
    · simp only [findChild, List.find?, Tree.name, h1, Option.some.injEq] at h
      subst h
      exact hch
    · have h1' : (cn == n) = false := by simpa using h1
      simp only [findChild, List.find?, Tree.name, h1'] at h
      exact ih n c h

/-- **adding a path adds the value at every non-empty prefix of the path, and nowhere else** -/
theorem totalAt_addPath (v : Q) : ∀ (p : List Bytes) (cs : List Tree), WFList cs → ∀ q : List Bytes,
    totalAt (addPath p v cs) q = totalAt cs q + (if isPrefix q p then v else 0)
  | [], cs, _, q => by
    have : isPrefix q [] = false := by cases q with
      | nil => rfl
      | cons a as => cases as <;> rfl
    simp [addPath, this, Rat.add_zero]
  | n :: ns, cs, hw, q => by
    rw [addPath]
    match q with
    | [] => simp [totalAt, isPrefix, Rat.add_zero]
    | [m] =>
      simp only [totalAt, isPrefix]
      rw [findChild_ins n ns v cs hw m]
      by_cases hm : (m == n) = true
      · have : m = n := by simpa using hm
        subst this
        simp only [BEq.rfl, if_true]
        cases hf : findChild cs m with
        | none => simp [Tree.total, Rat.zero_add]
        | some c => simp [Tree.total]
      · have hm' : (m == n) = false := by simpa using hm
        simp [hm', Rat.add_zero]
    | m :: m' :: rest =>
      simp only [totalAt, isPrefix]
      rw [findChild_ins n ns v cs hw m]
      by_cases hm : (m == n) = true
      · have : m = n := by simpa using hm
        subst this
        simp only [BEq.rfl, if_true, Bool.true_and]
        cases hf : findChild cs m with
        | none =>
          simp only [Tree.children]
          rw [totalAt_addPath v ns [] WFList.nil (m' :: rest), totalAt_nil]
        | some c =>
          simp only [Tree.children]
          exact totalAt_addPath v ns c.children (wf_children_of_find cs hw m c hf) (m' :: rest)
      · have hm' : (m == n) = false := by simpa using hm
        simp [hm', Rat.add_zero]

/-- the tree built from the logged elements holds, at every category path, the sum of the quantities logged at
    or below it; and its siblings are strictly sorted at every level -/
theorem build_spec (es : Elements) : ∀ (cs : List Tree), WFList cs →
    WFList (es.foldl addDeep cs) ∧ ∀ q, totalAt (es.foldl addDeep cs) q = totalAt cs q + prefixSum Tree.sep q es := by
  induction es with
  | nil => intro cs h; exact ⟨h, fun q => by simp [prefixSum, Rat.add_zero]⟩
  | cons e r ih =>
    intro cs h
    have hw : WFList (addDeep cs e) := wf_addPath e.value _ cs h
    obtain ⟨h1, h2⟩ := ih (addDeep cs e) hw
    refine ⟨h1, fun q => ?_⟩
    simp only [List.foldl]
    rw [h2 q]
    simp only [addDeep, prefixSum]
    rw [totalAt_addPath e.value _ cs h q, Rat.add_assoc]

end Spec
end Hrano
