import HranoModel.Lemmas.Collapse
/-
  Helper lemmas for C03: the tree built from a log in which no food name is a path-prefix of another has no amount
  of its own at inner nodes — every node with children carries exactly the sum of its children (`chainOKList`).
-/
namespace Hrano
namespace Spec
open Tree

def sumTotals : List Tree → Q
  | [] => 0
  | c :: cs => c.total + sumTotals cs

theorem sumTotals_ins (sub : List Tree → List Tree) (n : Bytes) (v : Q) : ∀ cs : List Tree,
    sumTotals (Tree.ins sub n v cs) = sumTotals cs + v := by
  intro cs
  induction cs with
  | nil => simp [Tree.ins, sumTotals, Tree.total, Rat.add_zero, Rat.zero_add]
  | cons c r ih =>
    unfold Tree.ins
    by_cases h1 : (c.name == n) = true
    · simp only [h1, if_true, sumTotals, Tree.total]
      rw [Rat.add_assoc, Rat.add_comm v, ← Rat.add_assoc]
    · have h1' : (c.name == n) = false := by simpa using h1
      simp only [h1', Bool.false_eq_true, if_false]
      by_cases h2 : Bytes.le n c.name = true
      · simp only [h2, if_true, sumTotals, Tree.total]
        rw [Rat.add_comm v]
      · simp only [h2, Bool.false_eq_true, if_false, sumTotals, ih]
        rw [Rat.add_assoc]

theorem ins_ne_nil (sub : List Tree → List Tree) (n : Bytes) (v : Q) : ∀ cs : List Tree, Tree.ins sub n v cs ≠ [] := by
  intro cs
  cases cs with
  | nil => simp [Tree.ins]
  | cons c r =>
    unfold Tree.ins
    split
    · simp
    · split <;> simp

theorem addPath_cons_ne_nil (n : Bytes) (ns : List Bytes) (v : Q) (cs : List Tree) : addPath (n :: ns) v cs ≠ [] := by
  rw [addPath]; exact ins_ne_nil _ n v cs

theorem sumTotals_addPath_cons (n : Bytes) (ns : List Bytes) (v : Q) (cs : List Tree) :
    sumTotals (addPath (n :: ns) v cs) = sumTotals cs + v := by
  rw [addPath]; exact sumTotals_ins _ n v cs

/-- `q` is a proper prefix of `p` -/
def ProperPrefix (q p : List Bytes) : Prop := ∃ r, r ≠ [] ∧ p = q ++ r

/-- no path of the set is a proper prefix of another -/
def PrefixFree (S : List (List Bytes)) : Prop := ∀ a ∈ S, ∀ b ∈ S, ¬ ProperPrefix a b

mutual
/-- relative to the paths `P` inserted so far: a leaf is the end of an inserted path; an inner node lies strictly above
    the end of an inserted path and carries exactly the sum of its children -/
def Good (P : List (List Bytes)) (q : List Bytes) : Tree → Prop
  | node n _ [] => (q ++ [n]) ∈ P
  | node n t (c :: cs) => t = sumTotals (c :: cs) ∧ (∃ p ∈ P, ProperPrefix (q ++ [n]) p) ∧ GoodList P (q ++ [n]) (c :: cs)
def GoodList (P : List (List Bytes)) (q : List Bytes) : List Tree → Prop
  | [] => True
  | c :: cs => Good P q c ∧ GoodList P q cs
end

theorem good_leaf (P : List (List Bytes)) (q : List Bytes) (n : Bytes) (t : Q) : Good P q (node n t []) ↔ (q ++ [n]) ∈ P := by
  rw [Good]

theorem good_inner (P : List (List Bytes)) (q : List Bytes) (n : Bytes) (t : Q) (ch : List Tree) (h : ch ≠ []) :
    Good P q (node n t ch) ↔ (t = sumTotals ch ∧ (∃ p ∈ P, ProperPrefix (q ++ [n]) p) ∧ GoodList P (q ++ [n]) ch) := by
  cases ch with
  | nil => exact absurd rfl h
  | cons c cs => rw [Good]

theorem goodList_nil (P : List (List Bytes)) (q : List Bytes) : GoodList P q [] := by rw [GoodList]; trivial
theorem goodList_cons (P : List (List Bytes)) (q : List Bytes) (c : Tree) (cs : List Tree) :
    GoodList P q (c :: cs) ↔ Good P q c ∧ GoodList P q cs := by rw [GoodList]

mutual
theorem good_mono (P P' : List (List Bytes)) (hsub : ∀ p ∈ P, p ∈ P') : ∀ (t : Tree) (q : List Bytes), Good P q t → Good P' q t
  | node n t [], q, h => by rw [good_leaf] at h ⊢; exact hsub _ h
  | node n t (c :: cs), q, h => by
    rw [good_inner _ _ _ _ _ (by simp)] at h ⊢
    obtain ⟨h1, ⟨p, hp, hpp⟩, h3⟩ := h
    exact ⟨h1, ⟨p, hsub p hp, hpp⟩, goodList_mono P P' hsub (c :: cs) _ h3⟩
theorem goodList_mono (P P' : List (List Bytes)) (hsub : ∀ p ∈ P, p ∈ P') : ∀ (cs : List Tree) (q : List Bytes), GoodList P q cs → GoodList P' q cs
  | [], q, _ => goodList_nil P' q
  | c :: cs, q, h => by
    rw [goodList_cons] at h ⊢
    exact ⟨good_mono P P' hsub c q h.1, goodList_mono P P' hsub cs q h.2⟩
end

theorem append_singleton_assoc (q : List Bytes) (n : Bytes) (ns : List Bytes) : (q ++ [n]) ++ ns = q ++ n :: ns := by simp

/-- the node that a new path creates -/
theorem good_new (P : List (List Bytes)) (q : List Bytes) (n : Bytes) (ns : List Bytes) (v : Q)
    (hsub : ns ≠ [] → ∀ ch, GoodList P (q ++ [n]) ch → GoodList ((q ++ n :: ns) :: P) (q ++ [n]) (addPath ns v ch)) :
    Good ((q ++ n :: ns) :: P) q (node n v (addPath ns v [])) := by
  cases ns with
  | nil =>
    rw [addPath, good_leaf]
    exact List.mem_cons_self
  | cons m ms =>
    rw [good_inner _ _ _ _ _ (addPath_cons_ne_nil m ms v [])]
    refine ⟨?_, ⟨q ++ n :: m :: ms, List.mem_cons_self, m :: ms, by simp, (append_singleton_assoc q n (m :: ms)).symm⟩, ?_⟩
    · rw [sumTotals_addPath_cons, sumTotals, Rat.zero_add]
    · exact hsub (by simp) [] (goodList_nil _ _)

theorem goodList_ins (S : List (List Bytes)) (hpf : PrefixFree S) (P : List (List Bytes)) (hP : ∀ p ∈ P, p ∈ S)
    (q : List Bytes) (n : Bytes) (ns : List Bytes) (v : Q) (hin : (q ++ n :: ns) ∈ S)
    (hsub : ns ≠ [] → ∀ ch, GoodList P (q ++ [n]) ch → GoodList ((q ++ n :: ns) :: P) (q ++ [n]) (addPath ns v ch)) :
    ∀ cs : List Tree, GoodList P q cs → GoodList ((q ++ n :: ns) :: P) q (Tree.ins (addPath ns v) n v cs) := by
  have hmono : ∀ p ∈ P, p ∈ (q ++ n :: ns) :: P := fun p hp => List.mem_cons_of_mem _ hp
  intro cs
  induction cs with
  | nil =>
    intro _
    rw [Tree.ins, goodList_cons]
    exact ⟨good_new P q n ns v hsub, goodList_nil _ _⟩
  | cons c r ih =>
    intro h
    rw [goodList_cons] at h
    unfold Tree.ins
    by_cases h1 : (c.name == n) = true
    · simp only [h1, if_true]
      rw [goodList_cons]
      refine ⟨?_, goodList_mono P _ hmono r q h.2⟩
      cases c with
      | node cn ct ch =>
        have hcn : cn = n := by simpa [Tree.name] using h1
        subst hcn
        simp only [Tree.name, Tree.total, Tree.children]
        have hc := h.1
        cases ns with
        | nil =>
          rw [addPath]
          cases ch with
          | nil =>
            rw [good_leaf] at hc ⊢
            exact List.mem_cons_of_mem _ hc
          | cons d ds =>
            rw [good_inner _ _ _ _ _ (by simp)] at hc
            obtain ⟨_, ⟨p, hp, hpp⟩, _⟩ := hc
            exact absurd hpp (hpf _ hin _ (hP p hp))
        | cons m ms =>
          cases ch with
          | nil =>
            rw [good_leaf] at hc
            exact absurd ⟨m :: ms, by simp, (append_singleton_assoc q cn (m :: ms)).symm⟩ (hpf _ (hP _ hc) _ hin)
          | cons d ds =>
            rw [good_inner _ _ _ _ _ (by simp)] at hc
            obtain ⟨ht, ⟨p, hp, hpp⟩, hg⟩ := hc
            rw [good_inner _ _ _ _ _ (addPath_cons_ne_nil m ms v (d :: ds))]
            refine ⟨?_, ⟨p, hmono p hp, hpp⟩, hsub (by simp) _ hg⟩
            rw [sumTotals_addPath_cons, ht]
    · have h1' : (c.name == n) = false := by simpa using h1
      simp only [h1', Bool.false_eq_true, if_false]
      by_cases h2 : Bytes.le n c.name = true
      · simp only [h2, if_true]
        rw [goodList_cons, goodList_cons]
        exact ⟨good_new P q n ns v hsub, good_mono P _ hmono c q h.1, goodList_mono P _ hmono r q h.2⟩
      · simp only [h2, Bool.false_eq_true, if_false]
        rw [goodList_cons]
        exact ⟨good_mono P _ hmono c q h.1, ih h.2⟩

theorem goodList_addPath (S : List (List Bytes)) (hpf : PrefixFree S) (v : Q) :
    ∀ (p : List Bytes) (P : List (List Bytes)), (∀ x ∈ P, x ∈ S) → ∀ (q : List Bytes) (cs : List Tree), p ≠ [] → (q ++ p) ∈ S →
      GoodList P q cs → GoodList ((q ++ p) :: P) q (addPath p v cs)
  | [], _, _, _, _, h, _, _ => absurd rfl h
  | n :: ns, P, hP, q, cs, _, hin, hg => by
    rw [addPath]
    refine goodList_ins S hpf P hP q n ns v hin ?_ cs hg
    intro hne ch hch
    have := goodList_addPath S hpf v ns P hP (q ++ [n]) ch hne (by rw [append_singleton_assoc]; exact hin) hch
    rw [append_singleton_assoc] at this
    exact this

/-- the category path of a logged name -/
def pathOf (e : Element) : List Bytes := Bytes.splitOn Tree.sep e.name

theorem pathOf_ne_nil (e : Element) : pathOf e ≠ [] := by
  unfold pathOf
  generalize e.name = s
  induction s with
  | nil => simp [Bytes.splitOn]
  | cons b bs ih =>
    unfold Bytes.splitOn
    cases h : Bytes.splitOn Tree.sep bs with
    | nil => simp
    | cons p ps => simp only; split <;> simp

theorem goodList_fold (S : List (List Bytes)) (hpf : PrefixFree S) : ∀ (es : Elements) (P : List (List Bytes)) (cs : List Tree),
    (∀ x ∈ P, x ∈ S) → (∀ e ∈ es, pathOf e ∈ S) → GoodList P [] cs →
    ∃ P', (∀ x ∈ P', x ∈ S) ∧ GoodList P' [] (es.foldl Tree.addDeep cs)
  | [], P, cs, hP, _, hg => ⟨P, hP, hg⟩
  | e :: es, P, cs, hP, hS, hg => by
    have he : pathOf e ∈ S := hS e List.mem_cons_self
    have h1 := goodList_addPath S hpf e.value (pathOf e) P hP [] cs (pathOf_ne_nil e) (by simpa using he) hg
    simp only [List.nil_append] at h1
    have hP' : ∀ x ∈ pathOf e :: P, x ∈ S := by
      intro x hx
      rcases List.mem_cons.mp hx with rfl | hx
      · exact he
      · exact hP x hx
    exact goodList_fold S hpf es (pathOf e :: P) (Tree.addDeep cs e) hP' (fun e' he' => hS e' (List.mem_cons_of_mem _ he')) h1

mutual
theorem chainOK_of_good (P : List (List Bytes)) : ∀ (t : Tree) (q : List Bytes), Good P q t → chainOK t = true
  | node n t [], q, _ => by simp [chainOK]
  | node n t [c], q, h => by
    rw [good_inner _ _ _ _ _ (by simp)] at h
    obtain ⟨ht, _, hg⟩ := h
    rw [goodList_cons] at hg
    have hc := chainOK_of_good P c _ hg.1
    simp only [chainOK, hc, Bool.and_true, beq_iff_eq]
    rw [ht, sumTotals, sumTotals, Rat.add_zero]
  | node n t (c1 :: c2 :: cs), q, h => by
    rw [good_inner _ _ _ _ _ (by simp)] at h
    obtain ⟨_, _, hg⟩ := h
    rw [goodList_cons, goodList_cons] at hg
    simp only [chainOK, chainOK_of_good P c1 _ hg.1, chainOK_of_good P c2 _ hg.2.1, chainOKList_of_good P cs _ hg.2.2, Bool.and_self]
theorem chainOKList_of_good (P : List (List Bytes)) : ∀ (cs : List Tree) (q : List Bytes), GoodList P q cs → chainOKList cs = true
  | [], _, _ => by simp [chainOKList]
  | c :: cs, q, h => by
    rw [goodList_cons] at h
    simp only [chainOKList, chainOK_of_good P c q h.1, chainOKList_of_good P cs q h.2, Bool.and_self]
end

/-- **a log in which no food name is a path-prefix of another builds a tree whose inner nodes carry exactly the sum of
    their children** -/
theorem build_chainOK (es : Elements) (hpf : PrefixFree (es.map pathOf)) : chainOKList (Tree.build es) = true := by
  obtain ⟨P', _, hg⟩ := goodList_fold (es.map pathOf) hpf es [] [] (by intro x hx; cases hx)
    (fun e he => List.mem_map_of_mem he) (goodList_nil _ _)
  exact chainOKList_of_good P' _ [] hg

end Spec
end Hrano
