import HranoModel.Lemmas.Present
/-
  Helper lemmas for C15: removing the escape codes from a whole coloured register day gives the plain day.
-/
namespace Hrano
namespace Report
open Bytes

/-- rows rendered one after the other: if stripping turns each coloured row into its plain row, it does so for the block -/
theorem strip_rows {α : Type} (fT fF : α → Bytes) : ∀ (xs : List α) (rest : Bytes),
    (∀ x ∈ xs, ∀ r, strip .normal (fT x ++ r) = fF x ++ strip .normal r) →
    strip .normal ((xs.map fT).flatten ++ rest) = (xs.map fF).flatten ++ strip .normal rest
  | [], rest, _ => rfl
  | x :: xs, rest, h => by
    simp only [List.map_cons, List.flatten_cons, List.append_assoc]
    rw [h x List.mem_cons_self, strip_rows fT fF xs rest (fun y hy => h y (List.mem_cons_of_mem _ hy))]

theorem noEsc_dashes (n : Nat) : noEsc (dashes n) := noEsc_replicate n 45 (by decide)

theorem noEsc_lit (l : Bytes) (h : l.all (fun c => c != 0x1B) = true) : noEsc l := by
  intro c hc
  have := List.all_eq_true.mp h c hc
  simpa using this

/-- the names a register day shows: the logged foods, the elements they contribute, the names of the totals -/
def NamesPlain (db : Book) (d : LogDay) : Prop :=
  (∀ e ∈ d.elements, noEsc e.name) ∧ (∀ e ∈ d.elements, ∀ i ∈ contributions db e, noEsc i.name)
  ∧ (∀ t ∈ totalsOf (d.elements.foldl (fun a e => accumulate a (contributions db e)) []), noEsc t.name)

/-- the left-aligned template -/
theorem strip_renderLeft (cfg : RCfg) (d : LogDay) (db : Book) (hdate : noEsc (Date.format cfg.dateLayout d.date))
    (hn : NamesPlain db d) :
    stripAnsi (renderLeft { cfg with color := true } d db) = renderLeft { cfg with color := false } d db := by
  obtain ⟨hfood, hing, htot⟩ := hn
  unfold stripAnsi renderLeft reportItem
  simp only [List.append_assoc]
  rw [strip_noEsc_append _ _ hdate]
  congr 1
  -- the foods with their ingredients
  have hels : ∀ (els : List ReportElement) (rest : Bytes),
      (∀ el ∈ els, noEsc el.name ∧ ∀ i ∈ el.ingredients, noEsc i.name) →
      strip .normal ((els.map (fun el => [10, 32, 32] ++ (fmtVal true el.value ++ ([32, 32] ++ (el.name
          ++ (el.ingredients.map (fun ing => [10, 32, 32] ++ (fmtVal true ing.value ++ ([32, 32, 32, 32] ++ ing.name)))).flatten))))).flatten ++ rest)
      = (els.map (fun el => [10, 32, 32] ++ (fmtVal false el.value ++ ([32, 32] ++ (el.name
          ++ (el.ingredients.map (fun ing => [10, 32, 32] ++ (fmtVal false ing.value ++ ([32, 32, 32, 32] ++ ing.name)))).flatten))))).flatten
        ++ strip .normal rest := by
    intro els rest hok
    apply strip_rows
    intro el hel r
    simp only [List.append_assoc]
    rw [strip_noEsc_append _ _ (noEsc_lit [10, 32, 32] (by decide)), strip_fmtVal, strip_noEsc_append _ _ (noEsc_lit [32, 32] (by decide)),
      strip_noEsc_append _ _ (hok el hel).1]
    congr 4
    apply strip_rows
    intro ing hing' r'
    simp only [List.append_assoc]
    rw [strip_noEsc_append _ _ (noEsc_lit [10, 32, 32] (by decide)), strip_fmtVal,
      strip_noEsc_append _ _ (noEsc_lit [32, 32, 32, 32] (by decide)), strip_noEsc_append _ _ ((hok el hel).2 ing hing')]
  have hokels : ∀ el ∈ (if cfg.totalsOnly = true then [] else
      List.map (fun e => ({ name := e.name, value := e.value, ingredients := contributions db e } : ReportElement)) d.elements),
      noEsc el.name ∧ ∀ i ∈ el.ingredients, noEsc i.name := by
    intro el hel
    split at hel
    · cases hel
    · obtain ⟨e, he, rfl⟩ := List.mem_map.mp hel
      exact ⟨hfood e he, hing e he⟩
  rw [hels _ _ hokels]
  congr 1
  have h10 : strip .normal [10] = [10] := by decide
  cases cfg.totals with
  | false => simpa using h10
  | true =>
    simp only [if_true, List.append_assoc]
    rw [strip_noEsc_append _ _ (noEsc_lit [10] (by decide)), strip_noEsc_append _ _ (noEsc_dashes 55),
      strip_noEsc_append _ _ (noEsc_lit (ofString " TOTAL --") (by decide +kernel))]
    congr 3
    rw [strip_rows _ _ _ _ ?_, h10]
    intro t ht r
    simp only [List.append_assoc]
    rw [strip_noEsc_append _ _ (noEsc_lit [10, 32, 32] (by decide)), strip_fmtVal, strip_noEsc_append _ _ (noEsc_lit [32] (by decide)),
      strip_fmtVal, strip_noEsc_append _ _ (noEsc_lit [32, 61, 32] (by decide)), strip_fmtVal,
      strip_noEsc_append _ _ (noEsc_lit [32, 32] (by decide)), strip_noEsc_append _ _ (htot t ht)]

/-! ### shortened names -/

theorem noEsc_runes_go : ∀ (fuel : Nat) (s : Bytes), noEsc s → ∀ r ∈ Bytes.runes.go fuel s, noEsc r
  | 0, _, _, r, hr => by simp [Bytes.runes.go] at hr
  | _ + 1, [], _, r, hr => by simp [Bytes.runes.go] at hr
  | fuel + 1, b :: bs, hs, r, hr => by
    rw [Bytes.runes.go] at hr
    rcases List.mem_cons.mp hr with rfl | hr
    · intro c hc; exact hs c (List.mem_of_mem_take hc)
    · exact noEsc_runes_go fuel _ (fun c hc => hs c (List.mem_of_mem_drop hc)) r hr

theorem noEsc_reencode (r : Bytes) (h : noEsc r) : noEsc (reencode r) := by
  unfold reencode
  split
  · split
    · exact h
    · exact noEsc_lit _ (by decide)
  · exact h

theorem noEsc_flatten_map (f : Bytes → Bytes) (l : List Bytes) (h : ∀ r ∈ l, noEsc (f r)) : noEsc ((l.map f).flatten) := by
  intro c hc
  obtain ⟨x, hx, hcx⟩ := List.mem_flatten.mp hc
  obtain ⟨r, hr, rfl⟩ := List.mem_map.mp hx
  exact h r hr c hcx

theorem noEsc_shorten (on : Bool) (t : Bytes) (max : Nat) (h : noEsc t) : noEsc (shorten on t max) := by
  unfold shorten
  split
  · have hr : ∀ r ∈ Bytes.runes t, noEsc r := noEsc_runes_go _ t h
    unfold truncateMiddle
    simp only []
    split
    · exact h
    · split
      · exact noEsc_flatten_map _ _ (fun r hr' => noEsc_reencode r (hr r (List.mem_of_mem_take hr')))
      · refine noEsc_append _ _ (noEsc_append _ _ ?_ (noEsc_lit _ (by decide))) ?_
        · exact noEsc_flatten_map _ _ (fun r hr' => noEsc_reencode r (hr r (List.mem_of_mem_take hr')))
        · exact noEsc_flatten_map _ _ (fun r hr' => noEsc_reencode r (hr r (List.mem_of_mem_drop hr')))
  · exact h

theorem noEsc_padRight (w : Nat) (s : Bytes) (h : noEsc s) : noEsc (Bytes.padRight 32 w s) :=
  noEsc_append _ _ h (noEsc_replicate _ 32 (by decide))

theorem noEsc_padLeft (w : Nat) (s : Bytes) (h : noEsc s) : noEsc (Bytes.padLeft 32 w s) :=
  noEsc_append _ _ (noEsc_replicate _ 32 (by decide)) h

/-- the default template, with or without `--shorten` -/
theorem strip_renderDefault (cfg : RCfg) (d : LogDay) (db : Book) (hdate : noEsc (Date.format cfg.dateLayout d.date))
    (hn : NamesPlain db d) :
    stripAnsi (renderDefault { cfg with color := true } d db) = renderDefault { cfg with color := false } d db := by
  obtain ⟨hfood, hing, htot⟩ := hn
  unfold stripAnsi renderDefault reportItem
  simp only [List.append_assoc]
  rw [strip_noEsc_append _ _ hdate]
  congr 1
  have hels : ∀ (els : List ReportElement) (rest : Bytes),
      (∀ el ∈ els, noEsc el.name ∧ ∀ i ∈ el.ingredients, noEsc i.name) →
      strip .normal ((els.map (fun el => [10, 9] ++ (padRight 32 27 (shorten cfg.shorten el.name 27) ++ ([32, 58] ++ (fmtVal true el.value
          ++ (el.ingredients.map (fun ing => [10, 9, 9] ++ (padLeft 32 20 (shorten cfg.shorten ing.name 20) ++ ([32] ++ fmtVal true ing.value)))).flatten))))).flatten ++ rest)
      = (els.map (fun el => [10, 9] ++ (padRight 32 27 (shorten cfg.shorten el.name 27) ++ ([32, 58] ++ (fmtVal false el.value
          ++ (el.ingredients.map (fun ing => [10, 9, 9] ++ (padLeft 32 20 (shorten cfg.shorten ing.name 20) ++ ([32] ++ fmtVal false ing.value)))).flatten))))).flatten
        ++ strip .normal rest := by
    intro els rest hok
    apply strip_rows
    intro el hel r
    simp only [List.append_assoc]
    rw [strip_noEsc_append _ _ (noEsc_lit [10, 9] (by decide)),
      strip_noEsc_append _ _ (noEsc_padRight 27 _ (noEsc_shorten cfg.shorten el.name 27 (hok el hel).1)),
      strip_noEsc_append _ _ (noEsc_lit [32, 58] (by decide)), strip_fmtVal]
    congr 4
    apply strip_rows
    intro ing hing' r'
    simp only [List.append_assoc]
    rw [strip_noEsc_append _ _ (noEsc_lit [10, 9, 9] (by decide)),
      strip_noEsc_append _ _ (noEsc_padLeft 20 _ (noEsc_shorten cfg.shorten ing.name 20 ((hok el hel).2 ing hing'))),
      strip_noEsc_append _ _ (noEsc_lit [32] (by decide)), strip_fmtVal]
  have hokels : ∀ el ∈ (if cfg.totalsOnly = true then [] else
      List.map (fun e => ({ name := e.name, value := e.value, ingredients := contributions db e } : ReportElement)) d.elements),
      noEsc el.name ∧ ∀ i ∈ el.ingredients, noEsc i.name := by
    intro el hel
    split at hel
    · cases hel
    · obtain ⟨e, he, rfl⟩ := List.mem_map.mp hel
      exact ⟨hfood e he, hing e he⟩
  rw [hels _ _ hokels]
  congr 1
  have h10 : strip .normal [10] = [10] := by decide
  cases cfg.totals with
  | false => simpa using h10
  | true =>
    simp only [if_true, List.append_assoc]
    rw [strip_noEsc_append _ _ (noEsc_lit [10, 9] (by decide)),
      strip_noEsc_append _ _ (noEsc_lit (ofString "-- TOTAL  ") (by decide +kernel)), strip_noEsc_append _ _ (noEsc_dashes 52)]
    congr 3
    rw [strip_rows _ _ _ _ ?_, h10]
    intro t ht r
    simp only [List.append_assoc]
    rw [strip_noEsc_append _ _ (noEsc_lit [10, 9, 9] (by decide)),
      strip_noEsc_append _ _ (noEsc_padLeft 20 _ (noEsc_shorten cfg.shorten t.name 20 (htot t ht))),
      strip_noEsc_append _ _ (noEsc_lit [32] (by decide)), strip_fmtVal, strip_noEsc_append _ _ (noEsc_lit [32] (by decide)),
      strip_fmtVal, strip_noEsc_append _ _ (noEsc_lit [32, 61] (by decide)), strip_fmtVal]

theorem strip_nil : strip .normal [] = [] := by decide

/-- the old register reporter -/
theorem strip_renderOld (cfg : RCfg) (d : LogDay) (db : Book) (hdate : noEsc (Date.format cfg.dateLayout d.date))
    (hn : NamesPlain db d) :
    stripAnsi (renderOld { cfg with color := true } d db) = renderOld { cfg with color := false } d db := by
  obtain ⟨hfood, hing, htot⟩ := hn
  unfold stripAnsi renderOld
  simp only [List.append_assoc]
  rw [strip_noEsc_append _ _ hdate, strip_noEsc_append _ _ (noEsc_lit [10] (by decide))]
  congr 2
  rw [strip_rows (fun e => if cfg.totalsOnly = true then [] else
        [9] ++ (padRight 32 27 e.name ++ ([32, 58] ++ (fmtVal true e.value ++ ([10]
        ++ ((contributions db e).map (fun ing => [9, 9] ++ (padLeft 32 20 ing.name ++ ([32] ++ (fmtVal true ing.value ++ [10]))))).flatten)))))
      (fun e => if cfg.totalsOnly = true then [] else
        [9] ++ (padRight 32 27 e.name ++ ([32, 58] ++ (fmtVal false e.value ++ ([10]
        ++ ((contributions db e).map (fun ing => [9, 9] ++ (padLeft 32 20 ing.name ++ ([32] ++ (fmtVal false ing.value ++ [10]))))).flatten)))))]
  · congr 1
    cases hT : (cfg.totals && !(d.elements.foldl (fun a e => accumulate a (contributions db e)) []).isEmpty) with
    | false => simp [strip_nil]
    | true =>
      simp only [if_true, List.append_assoc]
      rw [strip_noEsc_append _ _ (noEsc_lit [9] (by decide)),
        strip_noEsc_append _ _ (noEsc_lit (ofString "-- TOTAL  ") (by decide +kernel)), strip_noEsc_append _ _ (noEsc_dashes 52),
        strip_noEsc_append _ _ (noEsc_lit [10] (by decide))]
      congr 4
      have := strip_rows
        (fun a : Acc => [9, 9] ++ (padLeft 32 20 a.name ++ ([32] ++ (fmtVal true a.pos ++ ([32] ++ (fmtVal true a.neg ++ ([32, 61] ++ (fmtVal true (a.pos + a.neg) ++ [10]))))))))
        (fun a : Acc => [9, 9] ++ (padLeft 32 20 a.name ++ ([32] ++ (fmtVal false a.pos ++ ([32] ++ (fmtVal false a.neg ++ ([32, 61] ++ (fmtVal false (a.pos + a.neg) ++ [10]))))))))
        (d.elements.foldl (fun a e => accumulate a (contributions db e)) []).sorted [] ?_
      · simpa [strip_nil] using this
      · intro a ha r
        have hname : noEsc a.name := by
          apply htot ⟨a.name, a.pos, a.neg, a.pos + a.neg⟩
          unfold totalsOf
          exact List.mem_map.mpr ⟨a, ha, rfl⟩
        simp only [List.append_assoc]
        rw [strip_noEsc_append _ _ (noEsc_lit [9, 9] (by decide)), strip_noEsc_append _ _ (noEsc_padLeft 20 _ hname),
          strip_noEsc_append _ _ (noEsc_lit [32] (by decide)), strip_fmtVal, strip_noEsc_append _ _ (noEsc_lit [32] (by decide)),
          strip_fmtVal, strip_noEsc_append _ _ (noEsc_lit [32, 61] (by decide)), strip_fmtVal,
          strip_noEsc_append _ _ (noEsc_lit [10] (by decide))]
  · intro e he r
    cases cfg.totalsOnly with
    | true => simp
    | false =>
      simp only [Bool.false_eq_true, if_false, List.append_assoc]
      rw [strip_noEsc_append _ _ (noEsc_lit [9] (by decide)), strip_noEsc_append _ _ (noEsc_padRight 27 _ (hfood e he)),
        strip_noEsc_append _ _ (noEsc_lit [32, 58] (by decide)), strip_fmtVal, strip_noEsc_append _ _ (noEsc_lit [10] (by decide))]
      congr 5
      apply strip_rows
      intro ing hing' r'
      simp only [List.append_assoc]
      rw [strip_noEsc_append _ _ (noEsc_lit [9, 9] (by decide)), strip_noEsc_append _ _ (noEsc_padLeft 20 _ (hing e he ing hing')),
        strip_noEsc_append _ _ (noEsc_lit [32] (by decide)), strip_fmtVal, strip_noEsc_append _ _ (noEsc_lit [10] (by decide))]

/-- `summary` -/
theorem strip_renderSummary (cfg : RCfg) (d : LogDay) (db : Book) (hdate : noEsc (Date.format cfg.dateLayout d.date))
    (hn : NamesPlain db d) :
    stripAnsi (renderSummary { cfg with color := true } d db) = renderSummary { cfg with color := false } d db := by
  obtain ⟨hfood, _, htot⟩ := hn
  unfold stripAnsi renderSummary reportItem
  simp only [List.append_assoc]
  rw [strip_noEsc_append _ _ hdate, strip_noEsc_append _ _ (noEsc_lit [32, 58] (by decide))]
  congr 2
  have h10 : strip .normal [10] = [10] := by decide
  have hfoods : ∀ (els : List ReportElement), (∀ el ∈ els, noEsc el.name) →
      strip .normal ([10] ++ (dashes 12 ++ ((els.map (fun el => [10] ++ (fmtVal true el.value ++ ([32, 58, 32] ++ el.name)))).flatten ++ [10])))
      = [10] ++ (dashes 12 ++ ((els.map (fun el => [10] ++ (fmtVal false el.value ++ ([32, 58, 32] ++ el.name)))).flatten ++ [10])) := by
    intro els hok
    rw [strip_noEsc_append _ _ (noEsc_lit [10] (by decide)), strip_noEsc_append _ _ (noEsc_dashes 12)]
    congr 2
    rw [strip_rows _ _ _ _ ?_, h10]
    intro el hel r
    simp only [List.append_assoc]
    rw [strip_noEsc_append _ _ (noEsc_lit [10] (by decide)), strip_fmtVal, strip_noEsc_append _ _ (noEsc_lit [32, 58, 32] (by decide)),
      strip_noEsc_append _ _ (hok el hel)]
  have hokels : ∀ el ∈ (if cfg.totalsOnly = true then [] else
      List.map (fun e => ({ name := e.name, value := e.value, ingredients := contributions db e } : ReportElement)) d.elements),
      noEsc el.name := by
    intro el hel
    split at hel
    · cases hel
    · obtain ⟨e, he, rfl⟩ := List.mem_map.mp hel
      exact hfood e he
  cases cfg.totals with
  | false =>
    simp only [Bool.false_eq_true, if_false, List.nil_append]
    exact hfoods _ hokels
  | true =>
    simp only [if_true]
    rw [strip_rows (fun t : Total => [10] ++ (fmtVal true t.pos ++ ([32, 58, 32] ++ t.name))) (fun t : Total => [10] ++ (fmtVal false t.pos ++ ([32, 58, 32] ++ t.name)))]
    · congr 1
      exact hfoods _ hokels
    · intro t ht r
      simp only [List.append_assoc]
      rw [strip_noEsc_append _ _ (noEsc_lit [10] (by decide)), strip_fmtVal, strip_noEsc_append _ _ (noEsc_lit [32, 58, 32] (by decide)),
        strip_noEsc_append _ _ (htot t ht)]

end Report
end Hrano
