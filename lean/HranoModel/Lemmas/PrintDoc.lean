import HranoModel.Lemmas.Append
import HranoModel.Lemmas.Classify
import HranoModel.Lemmas.DateRT
import HranoModel.Lemmas.Merge
import HranoModel.Lemmas.Walk
import HranoModel.Model.Reports
import HranoModel.Lemmas.Space
/-
  Helper lemmas for C14: what `print` writes is a well-formed file in the sense of `Spec/Doc.lean`.
-/
namespace Hrano

namespace Scanner
open Bytes

theorem splitOn_no_sep (sep : UInt8) : ∀ (l : Bytes), (∀ b ∈ l, b ≠ sep) → splitOn sep l = [l] := by
  intro l
  induction l with
  | nil => intro _; simp [splitOn]
  | cons b bs ih =>
    intro h
    have hb : (b == sep) = false := by
      cases hh : b == sep
      · rfl
      · exact absurd (eq_of_beq hh) (h b List.mem_cons_self)
    rw [splitOn, ih (fun x hx => h x (List.mem_cons_of_mem _ hx))]
    simp [hb]

/-- a text made of LF-terminated lines is scanned into exactly those lines -/
theorem rawLines_lines : ∀ (ls : List Bytes), (∀ l ∈ ls, ∀ b ∈ l, b ≠ 10) → rawLines ((ls.map (· ++ [10])).flatten) = ls := by
  intro ls
  induction ls with
  | nil => intro _; simp [rawLines_nil]
  | cons l r ih =>
    intro h
    simp only [List.map_cons, List.flatten_cons, List.append_assoc, List.singleton_append]
    rw [rawLines_append, splitOn_no_sep 10 l (h l List.mem_cons_self), ih (fun x hx => h x (List.mem_cons_of_mem _ hx))]
    rfl

theorem dropCR_id (l : Bytes) (h : l.getLast? ≠ some 13) : dropCR l = l := by
  unfold dropCR
  split
  · rename_i heq; exact absurd heq h
  · rfl

end Scanner

namespace Parser

/-- the events of a text given by its lines: no LF inside a line, no CR at the end of a line, no over-long line -/
theorem events_of_lines (cc : UInt8) (ls : List Bytes) (hlf : ∀ l ∈ ls, ∀ b ∈ l, b ≠ 10) (hcr : ∀ l ∈ ls, l.getLast? ≠ some 13)
    (hfit : ∀ l ∈ ls, l.length < PConst.maxToken) :
    events cc ((ls.map (· ++ [10])).flatten) = parseLines cc true none 1 ls := by
  unfold events
  have hraw := Scanner.rawLines_lines ls hlf
  have hf := (Scanner.takeFitting_false_iff ls).mpr hfit
  simp only [Scanner.scan, Scanner.served, hraw, Scanner.takeFitting_false _ hf]
  congr 1
  rw [List.map_congr_left (g := id) (fun l hl => Scanner.dropCR_id l (hcr l hl))]
  simp

end Parser

namespace Elements

theorem addTo_fresh : ∀ (acc : Elements) (n : Bytes) (v : Q), n ∉ names acc → addTo acc n v = acc ++ [⟨n, v⟩] := by
  intro acc
  induction acc with
  | nil => intro n v _; rfl
  | cons e es ih =>
    intro n v h
    simp only [names, List.map_cons, List.mem_cons, not_or] at h
    have hne : (e.name == n) = false := by
      cases hh : e.name == n
      · rfl
      · exact absurd (eq_of_beq hh).symm h.1
    simp only [addTo, hne, Bool.false_eq_true, if_false, List.cons_append]
    rw [ih n v h.2]

theorem foldl_addTo_nodup : ∀ (es acc : Elements), (names (acc ++ es)).Nodup →
    es.foldl (fun a e => addTo a e.name e.value) acc = acc ++ es := by
  intro es
  induction es with
  | nil => intro acc _; simp
  | cons e es ih =>
    intro acc h
    have hfresh : e.name ∉ names acc := by
      simp only [names, List.map_append, List.map_cons] at h
      have := (List.nodup_append.mp h).2.2
      intro hm
      exact this _ hm _ List.mem_cons_self rfl
    simp only [List.foldl_cons]
    rw [addTo_fresh acc e.name e.value hfresh, ih (acc ++ [e])]
    · simp
    · simpa using h

/-- merging a day whose foods are already distinct changes nothing -/
theorem mergeDay_of_nodup (es : Elements) (h : (names es).Nodup) : mergeDay es = es := by
  unfold mergeDay
  have := foldl_addTo_nodup es [] (by simpa using h)
  simpa using this

end Elements
end Hrano

namespace Hrano
namespace PrintDoc
open Doc Report Num Parser

abbrev cc : UInt8 := PConst.commentChar
abbrev P : Nat := Facts.printPrecision

/-- the text of a printed note after the comment character -/
def noteText (m : MetaPair) : Bytes :=
  if !m.name.isEmpty then [32] ++ m.name ++ [58, 32] ++ m.value else [32] ++ m.value

/-- what the note reader makes of a printed note -/
def reread (m : MetaPair) : MetaPair := metadataPair (Bytes.trim PConst.trimText ([32, 32] ++ cc :: noteText m))

def entryDoc (e : Element) : EntryLine :=
  ⟨[32, 32, 45, 32], false, e.name, true, [32], fmtFixed P e.value, printedValue P e.value, []⟩

def dayRecord (l : Layout) (d : LogDay) : Record :=
  ⟨⟨false, Date.format l d.date, true, []⟩,
   d.notes.map (fun m => BodyLine.note [32, 32] (noteText m)) ++ d.elements.map (fun e => BodyLine.entry (entryDoc e))
     ++ [BodyLine.skip (.blank [])]⟩

def printFile (l : Layout) (days : List LogDay) : File := ⟨[], days.map (dayRecord l)⟩

theorem filterMap_some_of_mem {α β : Type} (f : α → Option β) (g : α → β) : ∀ (l : List α), (∀ a ∈ l, f a = some (g a)) →
    l.filterMap f = l.map g := by
  intro l
  induction l with
  | nil => intro _; rfl
  | cons a as ih =>
    intro h
    rw [List.filterMap_cons, h a List.mem_cons_self, ih (fun x hx => h x (List.mem_cons_of_mem _ hx))]
    rfl

theorem flatten_map_flatten {α β : Type} (f : α → List β) (L : List (List α)) :
    (L.flatten.map f).flatten = (L.map (fun x => (x.map f).flatten)).flatten := by
  induction L with
  | nil => rfl
  | cons x xs ih => simp only [List.flatten_cons, List.map_append, List.flatten_append, List.map_cons, ih]

/-- the printed day is the lines of its record, each terminated by LF -/
theorem renderPrint_lines (cfg : RCfg) (d : LogDay) :
    renderPrint cfg d = ((Record.lines cc (dayRecord cfg.dateLayout d)).map (· ++ [10])).flatten := by
  unfold renderPrint Record.lines dayRecord
  simp only [HeadingLine.render, List.map_cons, List.map_append, List.map_map, List.flatten_cons, List.flatten_append,
    Bool.false_eq_true, if_false, if_true, List.nil_append, List.append_nil, List.map_nil, List.flatten_nil, List.append_assoc]
  have hn : ∀ m : MetaPair, (if !m.name.isEmpty then [32, 32, 35, 32] ++ (m.name ++ ([58, 32] ++ (m.value ++ [10])))
        else [32, 32, 35, 32] ++ (m.value ++ [10]))
      = ((fun x => x ++ [10]) ∘ BodyLine.render cc ∘ fun m => BodyLine.note [32, 32] (noteText m)) m := by
    intro m
    simp only [Function.comp, BodyLine.render, noteText]
    cases m.name.isEmpty <;> simp [cc, PConst.commentChar, Facts.commentChar]
  have he : ∀ e : Element, [32, 32, 45, 32] ++ (e.name ++ ([58, 32] ++ (fmtFixed Facts.printPrecision e.value ++ [10])))
      = ((fun x => x ++ [10]) ∘ BodyLine.render cc ∘ fun e => BodyLine.entry (entryDoc e)) e := by
    intro e
    simp [Function.comp, BodyLine.render, EntryLine.render, entryDoc]
  rw [List.map_congr_left (fun m _ => hn m), List.map_congr_left (fun e _ => he e)]
  simp [BodyLine.render, SkipLine.render]

theorem perDay_lines (cfg : RCfg) (days : List LogDay) :
    App.perDay (renderPrint cfg) days = ((File.lines cc (printFile cfg.dateLayout days)).map (· ++ [10])).flatten := by
  unfold App.perDay File.lines printFile
  simp only [List.map_nil, List.nil_append, List.map_map]
  rw [flatten_map_flatten]
  congr 1
  simp only [List.map_map]
  apply List.map_congr_left
  intro d _
  exact renderPrint_lines cfg d

/-! ### the literal `print` writes is a well-formed number literal -/

theorem beq_false_of_toNat (c x : UInt8) (h : c.toNat ≠ x.toNat) : (c == x) = false := by
  cases hh : c == x
  · rfl
  · exact absurd (congrArg UInt8.toNat (eq_of_beq hh)) h

theorem digit_outside (c : UInt8) (hc : Bytes.isDigit c = true) :
    PConst.trimText.contains c = false ∧ PConst.trimQty.contains c = false ∧ PConst.blanks.contains c = false ∧ c ≠ 13 ∧ c ≠ 10 := by
  have h : 48 ≤ c.toNat ∧ c.toNat ≤ 57 := by simpa [Bytes.isDigit] using hc
  have e : ∀ x : UInt8, (x.toNat < 48 ∨ 57 < x.toNat) → (c == x) = false := fun x hx => beq_false_of_toNat c x (by omega)
  refine ⟨?_, ?_, ?_, ?_, ?_⟩
  · simp [PConst.trimText, Facts.trimText, List.contains, List.elem, e]
  · simp [PConst.trimQty, Facts.trimQty, List.contains, List.elem, e]
  · simp [PConst.blanks, Facts.blanks, List.contains, List.elem, e]
  · intro h13; subst h13; simp at h
  · intro h10; subst h10; simp at h

theorem fmtFixed_bytes (q : Q) : ∀ b ∈ fmtFixed P q, Bytes.isDigit b = true ∨ b = 46 ∨ b = 45 := by
  intro b hb
  have hform : fmtFixed P q = (if q.num < 0 then [45] else []) ++ (Bytes.natDigits (roundedAt P q / 10 ^ P) ++ 46 :: Bytes.natPad P (roundedAt P q % 10 ^ P)) := by
    unfold fmtFixed fixedDigits
    have : (P == 0) = false := by decide
    simp [this]
  rw [hform] at hb
  rcases List.mem_append.mp hb with hb | hb
  · split at hb
    · simp only [List.mem_singleton] at hb; exact Or.inr (Or.inr hb)
    · simp at hb
  · rcases List.mem_append.mp hb with hb | hb
    · exact Or.inl (natDigits_isDigit _ b hb)
    · rcases List.mem_cons.mp hb with hb | hb
      · exact Or.inr (Or.inl hb)
      · exact Or.inl (natPad_isDigit _ _ b hb)

theorem fmtFixed_no_eol (q : Q) : (∀ b ∈ fmtFixed P q, b ≠ 10) ∧ ∀ b ∈ fmtFixed P q, b ≠ 13 := by
  constructor <;> intro b hb <;> rcases fmtFixed_bytes q b hb with h | h | h
  · exact (digit_outside b h).2.2.2.2
  · subst h; decide
  · subst h; decide
  · exact (digit_outside b h).2.2.2.1
  · subst h; decide
  · subst h; decide

theorem fmtFixed_litOK (q : Q) (hq : roundedAt P q < 10 ^ (308 + P)) : LitOK (fmtFixed P q) (printedValue P q) := by
  have hp : 0 < P := by decide
  have hmod : roundedAt P q % 10 ^ P < 10 ^ P := Nat.mod_lt _ (pow10_pos P)
  have hd1 := natDigits_isDigit (roundedAt P q / 10 ^ P)
  have hd2 := natPad_isDigit P (roundedAt P q % 10 ^ P)
  have hl2 := natPad_length P _ hp hmod
  have hform : fmtFixed P q = (if q.num < 0 then [45] else []) ++ (Bytes.natDigits (roundedAt P q / 10 ^ P) ++ 46 :: Bytes.natPad P (roundedAt P q % 10 ^ P)) := by
    unfold fmtFixed fixedDigits
    have : (P == 0) = false := by decide
    simp [this]
  constructor
  · exact parseFloat_fmtFixed P q hp (by decide) hq
  · intro b hb
    rw [hform] at hb
    rcases List.mem_append.mp hb with hb | hb
    · split at hb
      · simp only [List.mem_singleton] at hb; subst hb; decide
      · simp at hb
    · rcases List.mem_append.mp hb with hb | hb
      · exact (digit_outside b (hd1 b hb)).2.2.1
      · rcases List.mem_cons.mp hb with hb | hb
        · subst hb; decide
        · exact (digit_outside b (hd2 b hb)).2.2.1
  · rw [hform]
    by_cases hneg : q.num < 0
    · exact ⟨45, Bytes.natDigits (roundedAt P q / 10 ^ P) ++ 46 :: Bytes.natPad P (roundedAt P q % 10 ^ P), by simp [hneg], by decide⟩
    · cases hnd : Bytes.natDigits (roundedAt P q / 10 ^ P) with
      | nil => exact absurd hnd (natDigits_ne_nil _)
      | cons x xs =>
        refine ⟨x, xs ++ 46 :: Bytes.natPad P (roundedAt P q % 10 ^ P), by simp [hneg], ?_⟩
        exact (digit_outside x (hd1 x (by rw [hnd]; exact List.mem_cons_self))).2.1
  · rw [hform]
    have hne : Bytes.natPad P (roundedAt P q % 10 ^ P) ≠ [] := by
      intro h; rw [h] at hl2; simp at hl2; omega
    obtain ⟨ys, y, hy⟩ : ∃ ys y, Bytes.natPad P (roundedAt P q % 10 ^ P) = ys ++ [y] :=
      ⟨_, _, (List.dropLast_concat_getLast hne).symm⟩
    have hyd := hd2 y (by rw [hy]; simp)
    have ho := digit_outside y hyd
    refine ⟨(if q.num < 0 then [45] else []) ++ (Bytes.natDigits (roundedAt P q / 10 ^ P) ++ 46 :: ys), y, ?_, ho.1, ho.2.1, ho.2.2.2.1⟩
    rw [hy]; simp

/-! ### the printed file is well formed and says what the days say -/

/-- a note that survives printing and reading: the note reader maps its printed line to itself; the text has no line
    feed and does not end with a carriage return (the scanner would cut it there) -/
structure NoteOK (m : MetaPair) : Prop where
  stable : reread m = m
  noLF : ∀ b ∈ noteText m, b ≠ 10
  noCR : (noteText m).getLast? ≠ some 13

/-- a day `print` can write so that it reads back: an accepted date whose text is a legal heading, legal and distinct food
    names, amounts in float64's range, stable notes, no line longer than the scanner reads -/
structure DayOK (l : Layout) (d : LogDay) : Prop where
  date : Date.CivilOK d.date
  heading : NameOK cc (Date.format l d.date)
  headingLF : ∀ b ∈ Date.format l d.date, b ≠ 10
  names : ∀ e ∈ d.elements, NameOK cc e.name ∧ ∀ b ∈ e.name, b ≠ 10
  values : ∀ e ∈ d.elements, roundedAt P e.value < 10 ^ (308 + P)
  distinct : (Elements.names d.elements).Nodup
  notes : ∀ m ∈ d.notes, NoteOK m
  fit : ∀ ln ∈ Record.lines cc (dayRecord l d), ln.length < PConst.maxToken

/-- the amounts as printed -/
def printedDay (d : LogDay) : LogDay := { d with elements := d.elements.map (fun e => ⟨e.name, printedValue P e.value⟩) }

theorem entryDoc_wf (e : Element) (hn : NameOK cc e.name) (hv : roundedAt P e.value < 10 ^ (308 + P)) : (entryDoc e).WF cc := by
  refine ⟨⟨32, [32, 45, 32], rfl⟩, ?_, hn, ⟨[], 32, rfl⟩, ?_, ?_, fmtFixed_litOK e.value hv⟩
  · intro b hb; simp only [entryDoc, List.mem_cons, List.not_mem_nil, or_false] at hb
    rcases hb with h | h | h | h <;> subst h <;> decide
  · intro b hb; simp only [entryDoc, List.mem_singleton] at hb; subst hb; decide
  · intro b hb; simp [entryDoc] at hb

theorem dayRecord_wf (l : Layout) (d : LogDay) (h : DayOK l d) : (dayRecord l d).WF cc := by
  constructor
  · exact ⟨h.heading, by intro b hb; simp [dayRecord] at hb⟩
  · intro bl hbl
    simp only [dayRecord, List.mem_append, List.mem_map, List.mem_singleton] at hbl
    rcases hbl with (⟨m, _, rfl⟩ | ⟨e, he, rfl⟩) | rfl
    · refine ⟨⟨32, [32], rfl, by decide⟩, ?_⟩
      intro b hb; simp only [List.mem_cons, List.not_mem_nil, or_false] at hb
      rcases hb with h | h <;> subst h <;> decide
    · exact entryDoc_wf e (h.names e he).1 (h.values e he)
    · intro x hx; simp at hx

theorem printFile_wf (l : Layout) (days : List LogDay) (h : ∀ d ∈ days, DayOK l d) : (printFile l days).WF cc := by
  constructor
  · intro s hs; simp [printFile] at hs
  · intro r hr
    simp only [printFile, List.mem_map] at hr
    obtain ⟨d, hd, rfl⟩ := hr
    exact dayRecord_wf l d (h d hd)

theorem dayRecord_node (l : Layout) (d : LogDay) (h : ∀ m ∈ d.notes, reread m = m) :
    Record.node cc (dayRecord l d) = ⟨Date.format l d.date, (printedDay d).elements, d.notes⟩ := by
  unfold Record.node dayRecord printedDay
  simp only [List.filterMap_append, List.filterMap_map]
  congr 1
  · have h1 : List.filterMap (BodyLine.entryOf ∘ fun m => BodyLine.note [32, 32] (noteText m)) d.notes = [] := by
      rw [List.filterMap_eq_nil_iff]; intro m _; rfl
    have h2 : List.filterMap (BodyLine.entryOf ∘ fun e => BodyLine.entry (entryDoc e)) d.elements
        = d.elements.map (fun e => (⟨e.name, printedValue P e.value⟩ : Element)) :=
      filterMap_some_of_mem _ _ _ (fun e _ => rfl)
    rw [h1, h2]; simp [BodyLine.entryOf]
  · have h1 : List.filterMap (BodyLine.noteOf cc ∘ fun m => BodyLine.note [32, 32] (noteText m)) d.notes = d.notes := by
      have : ∀ m ∈ d.notes, (BodyLine.noteOf cc ∘ fun m => BodyLine.note [32, 32] (noteText m)) m = some m := by
        intro m hm
        show some (reread m) = some m
        rw [h m hm]
      rw [filterMap_some_of_mem _ id _ this]
      simp
    have h2 : List.filterMap (BodyLine.noteOf cc ∘ fun e => BodyLine.entry (entryDoc e)) d.elements = [] := by
      rw [List.filterMap_eq_nil_iff]; intro e _; rfl
    rw [h1, h2]; simp [BodyLine.noteOf]

theorem getLast?_append_concat (a xs : Bytes) (x : UInt8) : (a ++ (xs ++ [x])).getLast? = some x := by
  rw [← List.append_assoc]; simp

/-- the hypotheses `events_of_lines` needs, from the days -/
theorem printFile_lines_ok (l : Layout) (days : List LogDay) (h : ∀ d ∈ days, DayOK l d) :
    ∀ ln ∈ File.lines cc (printFile l days), (∀ b ∈ ln, b ≠ 10) ∧ ln.getLast? ≠ some 13 ∧ ln.length < PConst.maxToken := by
  intro ln hln
  simp only [File.lines, printFile, List.map_nil, List.nil_append, List.map_map, List.mem_flatten, List.mem_map,
    Function.comp] at hln
  obtain ⟨lines, ⟨d, hd, rfl⟩, hmem⟩ := hln
  have hok := h d hd
  refine ⟨?_, ?_, hok.fit ln hmem⟩
  · simp only [Record.lines, dayRecord, HeadingLine.render, List.mem_cons, List.map_append, List.map_map, List.mem_append,
      List.mem_map, Function.comp, List.map_cons, List.map_nil, List.mem_singleton] at hmem
    rcases hmem with rfl | (⟨m, hm, rfl⟩ | ⟨e, he, rfl⟩) | (rfl | hf)
    · intro b hb
      simp only [Bool.false_eq_true, if_false, if_true, List.nil_append, List.append_nil, List.mem_append, List.mem_singleton] at hb
      rcases hb with hb | hb
      · exact hok.headingLF b hb
      · subst hb; decide
    · intro b hb
      simp only [BodyLine.render, List.mem_append, List.mem_cons, List.not_mem_nil, or_false] at hb
      rcases hb with (hb | hb) | hb | hb
      · subst hb; decide
      · subst hb; decide
      · subst hb; decide
      · exact (hok.notes m hm).noLF b hb
    · intro b hb
      simp only [BodyLine.render, EntryLine.render, entryDoc, Bool.false_eq_true, if_false, if_true, List.nil_append,
        List.append_nil, List.mem_append, List.mem_cons, List.not_mem_nil, or_false] at hb
      rcases hb with (((hb | hb) | hb) | hb) | hb
      · rcases hb with hb | hb | hb | hb <;> subst hb <;> decide
      · exact (hok.names e he).2 b hb
      · subst hb; decide
      · subst hb; decide
      · exact (fmtFixed_no_eol e.value).1 b hb
    · intro b hb; simp [BodyLine.render, SkipLine.render] at hb
    · simp at hf
  · simp only [Record.lines, dayRecord, HeadingLine.render, List.mem_cons, List.map_append, List.map_map, List.mem_append,
      List.mem_map, Function.comp, List.map_cons, List.map_nil] at hmem
    rcases hmem with rfl | (⟨m, hm, rfl⟩ | ⟨e, he, rfl⟩) | (rfl | hf)
    · simp
    · have hne : noteText m ≠ [] := by unfold noteText; split <;> simp
      obtain ⟨ys, y, hy⟩ : ∃ ys y, noteText m = ys ++ [y] := ⟨_, _, (List.dropLast_concat_getLast hne).symm⟩
      have hcr := (hok.notes m hm).noCR
      rw [hy] at hcr
      simp only [BodyLine.render]
      rw [hy, show cc :: (ys ++ [y]) = (cc :: ys) ++ [y] from rfl, getLast?_append_concat]
      simpa using hcr
    · obtain ⟨xs, x, hx, _, _, h13⟩ := (fmtFixed_litOK e.value (hok.values e he)).ends
      simp only [BodyLine.render, EntryLine.render, entryDoc, Bool.false_eq_true, if_false, if_true, List.append_nil]
      rw [hx, getLast?_append_concat]
      simpa using h13
    · simp [BodyLine.render, SkipLine.render]
    · simp at hf

theorem printFile_nodes (l : Layout) (days : List LogDay) (h : ∀ d ∈ days, DayOK l d) :
    File.nodes cc (printFile l days) = days.map (fun d => (⟨Date.format l d.date, (printedDay d).elements, d.notes⟩ : Node)) := by
  unfold File.nodes printFile
  simp only [List.map_map]
  apply List.map_congr_left
  intro d hd
  exact dayRecord_node l d (fun m hm => ((h d hd).notes m hm).stable)

/-- walking the records of a printed file gives the days back, with the amounts as printed -/
theorem walk_nodes (l : Layout) (hl : Date.roundTrips l = true) : ∀ (days : List LogDay), (∀ d ∈ days, DayOK l d) →
    App.walk l none none none (days.map (fun d => Event.node ⟨Date.format l d.date, (printedDay d).elements, d.notes⟩))
      = (days.map printedDay, none) := by
  intro days
  induction days with
  | nil => intro _; rfl
  | cons d ds ih =>
    intro h
    have hd := h d List.mem_cons_self
    simp only [List.map_cons, App.walk]
    rw [Date.parse_format l d.date hl hd.date, ih (fun x hx => h x (List.mem_cons_of_mem _ hx))]
    have hnames : Elements.names (printedDay d).elements = Elements.names d.elements := by
      simp [printedDay, Elements.names, List.map_map, Function.comp]
    have hm : mergeDay (printedDay d).elements = (printedDay d).elements :=
      Elements.mergeDay_of_nodup _ (by rw [hnames]; exact hd.distinct)
    simp only [App.inInterval_none, if_true, hm]
    rfl

end PrintDoc
end Hrano

/-! ## date texts as headings -/

namespace Hrano
namespace PrintDoc
open Doc Num

/-- the bytes of a numeric token are digits, and there is at least one -/
theorem tokText_numeric (c : Civil) (t : LTok) (h : ∀ b, t ≠ .lit b) :
    (∀ x ∈ Date.tokText c t, Bytes.isDigit x = true) ∧ Date.tokText c t ≠ [] := by
  cases t with
  | year4 => exact ⟨natPad_isDigit 4 c.y, by unfold Date.tokText Bytes.natPad; have := natDigits_ne_nil c.y; simp [this]⟩
  | month2 => exact ⟨natPad_isDigit 2 c.m, by unfold Date.tokText Bytes.natPad; have := natDigits_ne_nil c.m; simp [this]⟩
  | month1 => exact ⟨natDigits_isDigit c.m, natDigits_ne_nil c.m⟩
  | day2 => exact ⟨natPad_isDigit 2 c.d, by unfold Date.tokText Bytes.natPad; have := natDigits_ne_nil c.d; simp [this]⟩
  | day1 => exact ⟨natDigits_isDigit c.d, natDigits_ne_nil c.d⟩
  | lit b => exact absurd rfl (h b)

theorem numeric_first (c : Civil) (t : LTok) (h : ∀ b, t ≠ .lit b) (rest : Bytes) :
    ∃ x xs, Date.tokText c t ++ rest = x :: xs ∧ PConst.trimText.contains x = false ∧ x ≠ cc := by
  obtain ⟨hd, hne⟩ := tokText_numeric c t h
  generalize Date.tokText c t = tt at hd hne
  cases tt with
  | nil => exact absurd rfl hne
  | cons x xs =>
    have hx := digit_outside x (hd x List.mem_cons_self)
    refine ⟨x, xs ++ rest, rfl, hx.1, ?_⟩
    have : 48 ≤ x.toNat ∧ x.toNat ≤ 57 := by simpa [Bytes.isDigit] using hd x List.mem_cons_self
    intro hc; rw [hc] at this; revert this; decide

theorem numeric_last (c : Civil) (t : LTok) (h : ∀ b, t ≠ .lit b) (pre : Bytes) :
    ∃ ys y, pre ++ Date.tokText c t = ys ++ [y] ∧ PConst.trimText.contains y = false ∧ y ≠ 13 := by
  obtain ⟨hd, hne⟩ := tokText_numeric c t h
  generalize Date.tokText c t = tt at hd hne
  obtain ⟨ys, y, hy⟩ : ∃ ys y, tt = ys ++ [y] := ⟨_, _, (List.dropLast_concat_getLast hne).symm⟩
  have hx := digit_outside y (hd y (by rw [hy]; simp))
  exact ⟨pre ++ ys, y, by rw [hy, List.append_assoc], hx.1, hx.2.2.2.1⟩

/-- a separator byte that may stand at the start / at the end / inside a heading -/
def litFirstOK (b : UInt8) : Bool := !PConst.trimText.contains b && b != cc
def litLastOK (b : UInt8) : Bool := !PConst.trimText.contains b && b != 13

/-- layouts whose date texts are legal headings: the first and last token are numbers or harmless separators, no
    separator is a line feed -/
def headingOK : Layout → Bool
  | [] => false
  | t :: ts =>
    (match t with | .lit b => litFirstOK b | _ => true)
    && (match (t :: ts).getLast? with | some (.lit b) => litLastOK b | _ => true)
    && (t :: ts).all (fun t => match t with | .lit b => b != 10 | _ => true)

theorem format_append (a b : Layout) (c : Civil) : Date.format (a ++ b) c = Date.format a c ++ Date.format b c := by
  induction a with
  | nil => simp [Date.format]
  | cons t ts ih => rw [List.cons_append, Date.format_cons, Date.format_cons, ih, List.append_assoc]

theorem format_noLF (l : Layout) (c : Civil) (h : l.all (fun t => match t with | .lit b => b != 10 | _ => true) = true) :
    ∀ x ∈ Date.format l c, x ≠ 10 := by
  induction l with
  | nil => intro x hx; simp [Date.format] at hx
  | cons t ts ih =>
    intro x hx
    simp only [List.all_cons, Bool.and_eq_true] at h
    rw [Date.format_cons] at hx
    rcases List.mem_append.mp hx with hx | hx
    · cases t with
      | lit b =>
        simp only [Date.tokText, List.mem_singleton] at hx
        subst hx
        simpa using h.1
      | _ =>
        all_goals
          first
          | exact (digit_outside x ((tokText_numeric c _ (by intro b hb; cases hb)).1 x hx)).2.2.2.2
    · exact ih h.2 x hx

/-- **the date text of such a layout is a legal heading** (and holds no line feed) -/
theorem format_nameOK (l : Layout) (c : Civil) (h : headingOK l = true) :
    NameOK cc (Date.format l c) ∧ ∀ x ∈ Date.format l c, x ≠ 10 := by
  cases l with
  | nil => simp [headingOK] at h
  | cons t ts =>
    simp only [headingOK, Bool.and_eq_true] at h
    obtain ⟨⟨hfirst, hlast⟩, hlf⟩ := h
    refine ⟨⟨?_, ?_⟩, format_noLF (t :: ts) c hlf⟩
    · -- first byte
      rw [Date.format_cons]
      cases t with
      | lit b =>
        simp only [litFirstOK, Bool.and_eq_true, Bool.not_eq_true', bne_iff_ne, ne_eq] at hfirst
        exact ⟨b, Date.format ts c, rfl, hfirst.1, hfirst.2⟩
      | _ => all_goals exact numeric_first c _ (by intro b hb; cases hb) _
    · -- last byte
      have hne : (t :: ts) ≠ [] := by simp
      obtain ⟨ini, tl, hsplit⟩ : ∃ ini tl, t :: ts = ini ++ [tl] := ⟨_, _, (List.dropLast_concat_getLast hne).symm⟩
      rw [hsplit] at hlast ⊢
      rw [format_append, Date.format_cons]
      simp only [List.getLast?_append, List.getLast?_singleton, Option.some_or] at hlast
      have hnil : Date.format [] c = [] := rfl
      rw [hnil, List.append_nil]
      cases tl with
      | lit b =>
        simp only [litLastOK, Bool.and_eq_true, Bool.not_eq_true', bne_iff_ne, ne_eq] at hlast
        exact ⟨Date.format ini c, b, by simp [Date.tokText], hlast.1, hlast.2⟩
      | _ => all_goals exact numeric_last c _ (by intro b hb; cases hb) _

example : (Date.parseLayout Facts.defaultDateFormat).map headingOK = some true := by decide

end PrintDoc
end Hrano

/-! ## notes of the documented forms -/

namespace Hrano
namespace PrintDoc
open Doc Bytes Parser

/-- a piece of note text that the note reader leaves alone at both ends: it does not start with a space rune or `#`, and
    does not end with a space rune, a byte the tokenizer trims, or `#` -/
structure WordOK (s : Bytes) : Prop where
  first : ∃ x xs, s = x :: xs ∧ (∀ z ∈ spaceLead, x ≠ z) ∧ x ≠ 35
  last : ∃ ys y, s = ys ++ [y] ∧ (∀ z ∈ spaceTail, y ≠ z) ∧ PConst.trimText.contains y = false ∧ y ≠ 35

theorem trimSpace_wordOK (s : Bytes) (h : WordOK s) : trimSpace s = s := by
  obtain ⟨x, xs, hs1, hx, _⟩ := h.first
  obtain ⟨ys, y, hs2, hy, _, _⟩ := h.last
  unfold trimSpace
  rw [hs1, trimSpaceLeft_stop x xs hx, ← hs1, hs2, trimSpaceRight_stop ys y hy]

theorem trimSpace_blank_wordOK (s : Bytes) (h : WordOK s) : trimSpace (32 :: s) = s := by
  have := trimSpace_wordOK s h
  unfold trimSpace at this ⊢
  rw [trimSpaceLeft_blank]; exact this

theorem splitFirst_none (sep : UInt8) : ∀ s : Bytes, (∀ b ∈ s, b ≠ sep) → splitFirst sep s = none
  | [], _ => rfl
  | c :: r, h => by
    have hc : (c == sep) = false := by
      cases hh : c == sep
      · rfl
      · exact absurd (eq_of_beq hh) (h c List.mem_cons_self)
    rw [splitFirst]
    simp only [hc, Bool.false_eq_true, if_false]
    rw [splitFirst_none sep r (fun b hb => h b (List.mem_cons_of_mem _ hb))]

theorem splitFirst_at (sep : UInt8) (post : Bytes) : ∀ pre : Bytes, (∀ b ∈ pre, b ≠ sep) → splitFirst sep (pre ++ sep :: post) = some (pre, post)
  | [], _ => by simp [splitFirst]
  | c :: r, h => by
    have hc : (c == sep) = false := by
      cases hh : c == sep
      · rfl
      · exact absurd (eq_of_beq hh) (h c List.mem_cons_self)
    rw [List.cons_append, splitFirst]
    simp only [hc, Bool.false_eq_true, if_false]
    rw [splitFirst_at sep post r (fun b hb => h b (List.mem_cons_of_mem _ hb))]

theorem mem32 : (32 : UInt8) ∈ spaceLead ∧ (9 : UInt8) ∈ spaceLead ∧ (32 : UInt8) ∈ spaceTail ∧ (9 : UInt8) ∈ spaceTail
    ∧ (13 : UInt8) ∈ spaceTail ∧ (10 : UInt8) ∈ spaceTail := by decide

/-- the core of a printed note line: `#`, a blank, then text that ends in a byte the tokenizer keeps -/
theorem trim_note_line (body : Bytes) (hend : ∃ ys y, body = ys ++ [y] ∧ PConst.trimText.contains y = false) :
    trim PConst.trimText ([32, 32] ++ cc :: ([32] ++ body)) = 35 :: 32 :: body := by
  obtain ⟨ys, y, hb, hy⟩ := hend
  have := trim_core PConst.trimText [32, 32] (35 :: 32 :: body) []
    (by intro b hb'; simp only [List.mem_cons, List.not_mem_nil, or_false] at hb'; rcases hb' with rfl | rfl <;> decide)
    (by intro b hb'; cases hb')
    ⟨35, 32 :: body, rfl, by decide⟩
    ⟨35 :: 32 :: ys, y, by rw [hb]; rfl, hy⟩
  simpa [cc, PConst.commentChar, Facts.commentChar] using this

theorem trim_hash (body : Bytes) (hend : ∃ ys y, body = ys ++ [y] ∧ y ≠ 35) : trim [35] (35 :: 32 :: body) = 32 :: body := by
  obtain ⟨ys, y, hb, hy⟩ := hend
  have hy' : ([35] : List UInt8).contains y = false := by
    simp only [List.contains, List.elem]
    cases hh : y == 35
    · rfl
    · exact absurd (eq_of_beq hh) hy
  have := trim_core [35] [35] (32 :: body) [] (by intro b hb'; simp only [List.mem_singleton] at hb'; subst hb'; decide)
    (by intro b hb'; cases hb') ⟨32, body, rfl, by decide⟩ ⟨32 :: ys, y, by rw [hb]; rfl, hy'⟩
  simpa using this

/-- a text note `# text` survives printing and reading -/
theorem note_text_ok (v : Bytes) (hw : WordOK v) (hc : ∀ b ∈ v, b ≠ 58) (hlf : ∀ b ∈ v, b ≠ 10) : NoteOK ⟨[], v⟩ := by
  obtain ⟨ys, y, hv, hy, hyt, hy35⟩ := hw.last
  refine ⟨?_, ?_, ?_⟩
  · unfold reread noteText
    simp only [List.isEmpty_nil, Bool.not_true, Bool.false_eq_true, if_false]
    rw [trim_note_line v ⟨ys, y, hv, hyt⟩]
    unfold metadataPair
    simp only []
    rw [trim_hash v ⟨ys, y, hv, hy35⟩, trimSpace_blank_wordOK v hw, splitFirst_none 58 v hc]
  · intro b hb
    simp only [noteText, List.isEmpty_nil, Bool.not_true, Bool.false_eq_true, if_false, List.singleton_append, List.mem_cons] at hb
    rcases hb with rfl | hb
    · decide
    · exact hlf b hb
  · simp only [noteText, List.isEmpty_nil, Bool.not_true, Bool.false_eq_true, if_false]
    rw [hv, ← List.append_assoc, List.getLast?_append]
    simp only [List.getLast?_singleton, Option.some_or, ne_eq, Option.some.injEq]
    exact hy 13 mem32.2.2.2.2.1

/-- a note `# name: value` survives printing and reading -/
theorem note_named_ok (n v : Bytes) (hn : WordOK n) (hv : WordOK v) (hcn : ∀ b ∈ n, b ≠ 58)
    (hlfn : ∀ b ∈ n, b ≠ 10) (hlfv : ∀ b ∈ v, b ≠ 10) : NoteOK ⟨n, v⟩ := by
  obtain ⟨x, xs, hn1, hx, hx35⟩ := hn.first
  obtain ⟨ns, nl, hn2, hnl, _, hnl35⟩ := hn.last
  obtain ⟨ys, y, hv2, hy, hyt, hy35⟩ := hv.last
  have hne : n.isEmpty = false := by rw [hn1]; rfl
  have hbody : [32] ++ n ++ [58, 32] ++ v = [32] ++ (n ++ 58 :: 32 :: v) := by simp
  refine ⟨?_, ?_, ?_⟩
  · unfold reread noteText
    simp only [hne, Bool.not_false, if_true]
    rw [hbody, trim_note_line (n ++ 58 :: 32 :: v) ⟨n ++ 58 :: 32 :: ys, y, by rw [hv2]; simp, hyt⟩]
    unfold metadataPair
    simp only []
    rw [trim_hash (n ++ 58 :: 32 :: v) ⟨n ++ 58 :: 32 :: ys, y, by rw [hv2]; simp, hy35⟩]
    -- the whole text starts like the name and ends like the value
    have hwhole : WordOK (n ++ 58 :: 32 :: v) :=
      ⟨⟨x, xs ++ 58 :: 32 :: v, by rw [hn1]; rfl, hx, hx35⟩, ⟨n ++ 58 :: 32 :: ys, y, by rw [hv2]; simp, hy, hyt, hy35⟩⟩
    rw [trimSpace_blank_wordOK _ hwhole, splitFirst_at 58 (32 :: v) n hcn]
    simp only []
    have hc3 : ∀ z : UInt8, z ≠ 35 → z ≠ 32 → z ≠ 9 → ([35, 32, 9] : List UInt8).contains z = false := by
      intro z h1 h2 h3
      simp only [List.contains, List.elem]
      have e : ∀ w : UInt8, z ≠ w → (z == w) = false := fun w hw => by
        cases hh : z == w
        · rfl
        · exact absurd (eq_of_beq hh) hw
      simp [e 35 h1, e 32 h2, e 9 h3]
    have htn := trim_core [35, 32, 9] [] n [] (by intro b hb; cases hb) (by intro b hb; cases hb)
      ⟨x, xs, hn1, hc3 x hx35 (hx 32 mem32.1) (hx 9 mem32.2.1)⟩
      ⟨ns, nl, hn2, hc3 nl hnl35 (hnl 32 mem32.2.2.1) (hnl 9 mem32.2.2.2.1)⟩
    simp only [List.nil_append, List.append_nil] at htn
    rw [htn, trimSpace_blank_wordOK v hv]
  · intro b hb
    simp only [noteText, hne, Bool.not_false, if_true, List.mem_append, List.mem_cons, List.not_mem_nil, or_false] at hb
    rcases hb with ((rfl | hb) | (rfl | rfl)) | hb
    · decide
    · exact hlfn b hb
    · decide
    · decide
    · exact hlfv b hb
  · simp only [noteText, hne, Bool.not_false, if_true]
    rw [hv2, ← List.append_assoc, List.getLast?_append]
    simp only [List.getLast?_singleton, Option.some_or, ne_eq, Option.some.injEq]
    exact hy 13 mem32.2.2.2.2.1

end PrintDoc
end Hrano
