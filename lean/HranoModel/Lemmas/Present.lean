import HranoModel.Model.Options
import HranoModel.Lemmas.Accum
/-
  Helper lemmas for C15: colour codes, stable sort by value, middle truncation.
-/
namespace Hrano
namespace Report

inductive StripSt where
  | normal | sawEsc | inEsc

/-- remove `ESC [ … m` sequences -/
def strip : StripSt → Bytes → Bytes
  | .normal, [] => []
  | .sawEsc, [] => [0x1B]
  | .inEsc, [] => []
  | .normal, c :: r => if c == 0x1B then strip .sawEsc r else c :: strip .normal r
  | .sawEsc, c :: r =>
    if c == 0x5B then strip .inEsc r
    else if c == 0x1B then 0x1B :: strip .sawEsc r
    else 0x1B :: c :: strip .normal r
  | .inEsc, c :: r => if c == 0x6D then strip .normal r else strip .inEsc r

def stripAnsi (s : Bytes) : Bytes := strip .normal s

def noEsc (s : Bytes) : Prop := ∀ c ∈ s, c ≠ 0x1B

theorem strip_noEsc_append (a b : Bytes) (h : noEsc a) : strip .normal (a ++ b) = a ++ strip .normal b := by
  induction a with
  | nil => rfl
  | cons c r ih =>
    have hc : (c == 0x1B) = false := by simpa using h c (List.mem_cons_self)
    simp only [List.cons_append, strip, hc, Bool.false_eq_true, if_false]
    rw [ih (fun x hx => h x (List.mem_cons_of_mem _ hx))]

theorem strip_inEsc_code (code rest : Bytes) (h : ∀ c ∈ code, c ≠ 0x6D) :
    strip .inEsc (code ++ 0x6D :: rest) = strip .normal rest := by
  induction code with
  | nil => simp [strip]
  | cons c r ih =>
    have hc : (c == 0x6D) = false := by simpa using h c (List.mem_cons_self)
    simp only [List.cons_append, strip, hc, Bool.false_eq_true, if_false]
    exact ih (fun x hx => h x (List.mem_cons_of_mem _ hx))

theorem strip_esc (code rest : Bytes) (h : ∀ c ∈ code, c ≠ 0x6D) : strip .normal (esc code ++ rest) = strip .normal rest := by
  have : esc code ++ rest = 0x1B :: 0x5B :: (code ++ 0x6D :: rest) := by simp [esc, List.append_assoc]
  rw [this]
  simp only [strip, BEq.rfl, if_true]
  exact strip_inEsc_code code rest h

theorem noEsc_natDigits (n : Nat) : noEsc (Bytes.natDigits n) := by
  intro c hc
  simp only [Bytes.natDigits, List.mem_map] at hc
  obtain ⟨ch, hch, rfl⟩ := hc
  have hd := Nat.isDigit_of_mem_toDigits (b := 10) (by omega) (by omega) hch
  simp only [Char.isDigit, Bool.and_eq_true, decide_eq_true_eq] at hd
  intro heq
  have h1 : ch.val.toNat ≥ 48 := by
    have := hd.1; simpa [UInt32.le_iff_toNat_le] using this
  have h2 : ch.val.toNat ≤ 57 := by
    have := hd.2; simpa [UInt32.le_iff_toNat_le] using this
  have : (UInt8.ofNat ch.toNat).toNat = 27 := by rw [heq]; rfl
  simp only [UInt8.toNat_ofNat', Char.toNat] at this
  omega

end Report
end Hrano

namespace Hrano
namespace Report

theorem noEsc_append (a b : Bytes) (ha : noEsc a) (hb : noEsc b) : noEsc (a ++ b) := by
  intro c hc
  rcases List.mem_append.mp hc with h | h
  · exact ha c h
  · exact hb c h

theorem noEsc_replicate (n : Nat) (c : UInt8) (hc : c ≠ 0x1B) : noEsc (List.replicate n c) := by
  intro x hx
  rw [(List.mem_replicate.mp hx).2]; exact hc

theorem noEsc_fmtFixed (p : Nat) (q : Q) : noEsc (Num.fmtFixed p q) := by
  unfold Num.fmtFixed Num.fixedDigits
  apply noEsc_append
  · split <;> intro c hc <;> simp at hc; subst hc; decide
  · apply noEsc_append
    · exact noEsc_natDigits _
    · split
      · intro c hc; cases hc
      · intro c hc
        rcases List.mem_cons.mp hc with rfl | hc
        · decide
        · unfold Bytes.natPad at hc
          rcases List.mem_append.mp hc with h | h
          · exact noEsc_replicate _ 48 (by decide) c h
          · exact noEsc_natDigits _ c h

theorem noEsc_fmtFixedW (w p : Nat) (q : Q) : noEsc (Num.fmtFixedW w p q) := by
  unfold Num.fmtFixedW Bytes.padLeft
  exact noEsc_append _ _ (noEsc_replicate _ 32 (by decide)) (noEsc_fmtFixed p q)

/-- coloured figure minus the escape codes = plain figure -/
theorem strip_fmtVal (v : Q) (rest : Bytes) :
    strip .normal (fmtVal true v ++ rest) = fmtVal false v ++ strip .normal rest := by
  have hn := noEsc_fmtFixedW 10 2 v
  have hreset : strip .normal (reset ++ rest) = strip .normal rest := strip_esc [48] rest (by decide)
  unfold fmtVal
  simp only [if_true, Bool.false_eq_true, if_false]
  split
  · simp only [red, List.append_assoc]
    rw [strip_esc [51, 49] _ (by decide), strip_noEsc_append _ _ hn, hreset]
  · split
    · simp only [green, List.append_assoc]
      rw [strip_esc [51, 50] _ (by decide), strip_noEsc_append _ _ hn, hreset]
    · exact strip_noEsc_append _ _ hn

/-! ### stable sort by value -/

theorem insertByValue_perm (desc : Bool) (e : Element) : ∀ l, (insertByValue desc e l).Perm (e :: l)
  | [] => List.Perm.refl _
  | x :: xs => by
    unfold insertByValue
    by_cases hc : (if desc = true then e.value > x.value else e.value < x.value)
    · rw [if_pos hc]
    · rw [if_neg hc]
      exact ((insertByValue_perm desc e xs).cons x).trans (List.Perm.swap e x xs)

theorem stableByValue_perm (desc : Bool) (es : Elements) : (stableByValue desc es).Perm es := by
  unfold stableByValue
  suffices ∀ (es acc : Elements), (es.foldl (fun acc e => insertByValue desc e acc) acc).Perm (acc ++ es) by
    simpa using this es []
  intro es
  induction es with
  | nil => intro acc; simp
  | cons e r ih =>
    intro acc
    simp only [List.foldl]
    refine (ih _).trans ?_
    have h1 := insertByValue_perm desc e acc
    refine (h1.append_right r).trans ?_
    simp only [List.cons_append]
    exact (List.perm_middle).symm

end Report
end Hrano
