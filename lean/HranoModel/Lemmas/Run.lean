import HranoModel.Lemmas.Parse
/-
  Helper lemmas for C10: a command that succeeds has not lost any input to a read fault.
-/
namespace Hrano
namespace App

theorem faultOf_nil (p : Bytes) : faultOf [] p = none := rfl

/-- if the parse of a file reported no scanner error, it is the parse of the complete file -/
theorem parsed_ok (fs : Files) (rf : ReadFaults) (path : Bytes) (p : List Event × Option ScanErr)
    (h : parsed fs rf path = .ok p) (hse : p.2 = none) : parsed fs [] path = .ok p := by
  unfold parsed at h ⊢
  cases hr : readFile fs path with
  | error e => rw [hr] at h; cases h
  | ok src =>
    rw [hr] at h
    simp only [Except.ok.injEq] at h
    subst h
    simp only [faultOf_nil]
    rw [Parser.eventsFaulty_eq_of_ok cc src _ hse]

theorem parsed_error (fs : Files) (rf : ReadFaults) (path : Bytes) (e : Err)
    (h : parsed fs rf path = .error e) : parsed fs [] path = .error e := by
  unfold parsed at h ⊢
  cases hr : readFile fs path with
  | error e' => rw [hr] at h; exact h
  | ok src => rw [hr] at h; cases h

theorem bookOf_ok_se (n : Int) (ord : List Bytes → List Bytes) (p : List Event × Option ScanErr) (b : Book)
    (h : bookOf n ord p = .ok b) : p.2 = none := by
  unfold bookOf at h
  cases hl : loadBook p.1 p.2 with
  | error e => rw [hl] at h; cases h
  | ok book => exact loadBook_ok_se p.1 p.2 book hl

theorem resolvedBook_ok (o : Opts) (fs : Files) (rf : ReadFaults) (ord : List Bytes → List Bytes) (b : Book)
    (h : resolvedBook o fs rf ord = .ok b) : resolvedBook o fs [] ord = .ok b := by
  unfold resolvedBook at h ⊢
  cases hp : parsed fs rf o.dbFile with
  | error e => rw [hp] at h; cases h
  | ok p =>
    rw [hp] at h
    rw [parsed_ok fs rf _ p hp (bookOf_ok_se _ _ p b h)]
    exact h

theorem logDays_ok (o : Opts) (fs : Files) (rf : ReadFaults) (days : List LogDay)
    (h : logDays o fs rf = .ok (days, none)) : logDays o fs [] = .ok (days, none) := by
  unfold logDays at h ⊢
  cases hp : parsed fs rf o.logFile with
  | error e => rw [hp] at h; cases h
  | ok p =>
    rw [hp] at h
    simp only [Except.ok.injEq] at h
    have hse : p.2 = none := walk_ok_se o.layout o.begin_ o.end_ p.2 p.1 (by rw [h])
    rw [parsed_ok fs rf _ p hp hse]
    simp [h]

theorem withLog_ok (o : Opts) (fs : Files) (rf : ReadFaults) (render : List LogDay → Bytes)
    (h : (withLog o fs rf render).err = none) : withLog o fs rf render = withLog o fs [] render := by
  unfold withLog at h ⊢
  cases hl : logDays o fs rf with
  | error e => rw [hl] at h; cases h
  | ok r =>
    obtain ⟨days, err⟩ := r
    rw [hl] at h
    simp only at h
    subst h
    rw [logDays_ok o fs rf days hl]

theorem withBook_ok (o : Opts) (fs : Files) (rf : ReadFaults) (ord : List Bytes → List Bytes) (render : Book → Bytes)
    (h : (withBook o fs rf ord render).err = none) : withBook o fs rf ord render = withBook o fs [] ord render := by
  unfold withBook at h ⊢
  cases hb : resolvedBook o fs rf ord with
  | error e => rw [hb] at h; cases h
  | ok b => rw [resolvedBook_ok o fs rf ord b hb]

theorem withBookAndLog_ok (o : Opts) (fs : Files) (rf : ReadFaults) (ord : List Bytes → List Bytes)
    (render : Book → List LogDay → Bytes)
    (h : (withBookAndLog o fs rf ord render).err = none) :
    withBookAndLog o fs rf ord render = withBookAndLog o fs [] ord render := by
  unfold withBookAndLog at h ⊢
  cases hd : readFile fs o.dbFile with
  | error e => simp [hd] at h
  | ok _ =>
    cases hlf : readFile fs o.logFile with
    | error e => simp [hd, hlf] at h
    | ok _ =>
      rw [hd, hlf] at h
      simp only at h ⊢
      cases hb : resolvedBook o fs rf ord with
      | error e => rw [hb] at h; cases h
      | ok b =>
        rw [hb] at h
        rw [resolvedBook_ok o fs rf ord b hb]
        simp only at h ⊢
        cases hl : logDays o fs rf with
        | error e => rw [hl] at h; cases h
        | ok r =>
          obtain ⟨days, err⟩ := r
          rw [hl] at h
          simp only at h
          subst h
          rw [logDays_ok o fs rf days hl]

theorem csvDatabaseOut_ok_se (p : List Event × Option ScanErr) (h : (csvDatabaseOut p).err = none) : p.2 = none := by
  unfold csvDatabaseOut at h
  simp only at h
  cases hf : firstErr p.1 with
  | some e => rw [hf] at h; cases h
  | none =>
    rw [hf] at h
    cases hs : p.2 with
    | none => rfl
    | some e => rw [hs] at h; cases h

theorem lintOut_ok_se (silent : Bool) (p : List Event × Option ScanErr) (h : (lintOut silent p).err = none) : p.2 = none := by
  unfold lintOut at h
  cases hs : p.2 with
  | none => rfl
  | some e => rw [hs] at h; cases h

end App
end Hrano
