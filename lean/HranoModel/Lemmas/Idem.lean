import HranoModel.Lemmas.ResolveAll
/-
  Helper lemmas for C01: a resolved book is a fixed point of resolution.
-/
namespace Hrano
namespace Spec
open Resolver

/-- a sorted duplicate-free list is the resolved form of itself -/
theorem resolved_self (els : Elements) (hs : (els.map (·.name)).Pairwise (fun a b => Bytes.le a b = true))
    (hn : (els.map (·.name)).Nodup) : Resolved els els :=
  ⟨hs, hn, fun leaf => (Elements.valueAt_eq_sumOf_of_nodup els hn leaf).symm, fun _ => Iff.rfl⟩

/-- the ingredient loop over names the book does not define: the paths are the ingredients themselves -/
theorem specList_undefined (B : Book) (f : Nat) : ∀ (es : Elements) (h : Nat) (ps : Elements),
    (∀ e ∈ es, B.lookup e.name = none) →
    ∃ h', specList (specNode B (f + 1)) es (h, ps) = some (h', ps ++ es) := by
  intro es
  induction es with
  | nil => intro h ps _; exact ⟨h, by simp [specList]⟩
  | cons e es ih =>
    intro h ps hu
    have he := hu e List.mem_cons_self
    obtain ⟨h', hh⟩ := ih (max h (0 + 1)) (ps ++ [e]) (fun x hx => hu x (List.mem_cons_of_mem _ hx))
    refine ⟨h', ?_⟩
    have hsn : specNode B (f + 1) e.name = some (0, [⟨e.name, 1⟩]) := by simp [specNode, he]
    have : List.map (scale e.value) [(⟨e.name, 1⟩ : Element)] = [e] := by
      simp [scale, Rat.one_mul]
    rw [specList, hsn]
    simp only []
    rw [this, hh]
    simp

/-- in a book whose recipes only list undefined names, no chain of two references exists -/
theorem no_chain_two (B : Book) (hflat : ∀ n els, B.lookup n = some els → ∀ e ∈ els, B.lookup e.name = none)
    (n : Bytes) (k : Nat) : ¬ Chain B n (k + 2) := by
  intro hc
  cases hc with
  | step x els e k1 hl he hc1 =>
    cases hc1 with
    | step x2 els2 e2 k2 hl2 he2 hc2 =>
      have := hflat n els hl e he
      rw [this] at hl2
      cases hl2

end Spec
end Hrano
