import HranoModel.Lemmas.Chain
import HranoModel.Lemmas.Append
import HranoModel.Spec.Sums

namespace Hrano
namespace Spec
open Tree

theorem join_splitOn (sep : UInt8) : ∀ s : Bytes, Bytes.join sep (Bytes.splitOn sep s) = s
  | [] => by simp [Bytes.splitOn, Bytes.join]
  | b :: bs => by
    have ih := join_splitOn sep bs
    unfold Bytes.splitOn
    cases h : Bytes.splitOn sep bs with
    | nil => exact absurd h (Bytes.splitOn_ne_nil sep bs)
    | cons p ps =>
      rw [h] at ih
      simp only
      split
      · rename_i hb
        have : b = sep := by simpa using hb
        subst this
        simp [Bytes.join, ih]
      · cases ps with
        | nil => simp [Bytes.join] at ih ⊢; rw [ih]
        | cons q qs => simp [Bytes.join] at ih ⊢; rw [ih]

theorem pathOf_injective (a b : Element) (h : pathOf a = pathOf b) : a.name = b.name := by
  have ha := join_splitOn Tree.sep a.name
  have hb := join_splitOn Tree.sep b.name
  unfold pathOf at h
  rw [← ha, ← hb, h]

theorem isPrefix_self : ∀ q : List Bytes, q ≠ [] → isPrefix q q = true
  | [], h => absurd rfl h
  | [a], _ => by simp [isPrefix]
  | a :: b :: r, _ => by simp [isPrefix, isPrefix_self (b :: r) (by simp)]

theorem isPrefix_append : ∀ (q p : List Bytes), isPrefix q p = true → ∃ r, p = q ++ r
  | [], _, h => by simp [isPrefix] at h
  | [a], [], h => by simp [isPrefix] at h
  | [a], b :: bs, h => by
    have : a = b := by simpa [isPrefix] using h
    exact ⟨bs, by rw [this]; rfl⟩
  | a :: a' :: as, [], h => by simp [isPrefix] at h
  | a :: a' :: as, b :: bs, h => by
    simp only [isPrefix, Bool.and_eq_true, beq_iff_eq] at h
    obtain ⟨r, hr⟩ := isPrefix_append (a' :: as) bs h.2
    exact ⟨r, by rw [h.1, hr]; rfl⟩

/-- under prefix-freeness, "at or below the path of food `e`" means "food `e` itself" -/
theorem prefixSum_eq_sumOf (S : Elements) (hpf : PrefixFree (S.map pathOf)) (e : Element) (he : e ∈ S) :
    ∀ es : Elements, (∀ x ∈ es, x ∈ S) → prefixSum Tree.sep (pathOf e) es = sumOf e.name es := by
  intro es
  induction es with
  | nil => intro _; rfl
  | cons x xs ih =>
    intro hsub
    have hx : x ∈ S := hsub x List.mem_cons_self
    rw [prefixSum, sumOf, ih (fun y hy => hsub y (List.mem_cons_of_mem _ hy))]
    congr 1
    have hiff : isPrefix (pathOf e) (Bytes.splitOn Tree.sep x.name) = (x.name == e.name) := by
      cases hp : isPrefix (pathOf e) (Bytes.splitOn Tree.sep x.name) with
      | true =>
        obtain ⟨r, hr⟩ := isPrefix_append _ _ hp
        have hrnil : r = [] := by
          cases r with
          | nil => rfl
          | cons r0 rs =>
            exact absurd ⟨r0 :: rs, by simp, hr⟩ (hpf _ (List.mem_map_of_mem he) _ (List.mem_map_of_mem hx))
        subst hrnil
        have : pathOf x = pathOf e := by unfold pathOf at hr ⊢; simpa using hr
        have := pathOf_injective x e this
        simp [this]
      | false =>
        cases hn : x.name == e.name with
        | false => rfl
        | true =>
          have hne : x.name = e.name := by simpa using hn
          have : isPrefix (pathOf e) (Bytes.splitOn Tree.sep x.name) = true := by
            rw [hne]; exact isPrefix_self (pathOf e) (pathOf_ne_nil e)
          rw [this] at hp; cases hp
    rw [hiff]

end Spec
end Hrano
