import HranoModel.Lemmas.ResolveSpec
import HranoModel.Lemmas.Merge
/-
  Helper lemmas: the resolver model refines the resolution specification (C01, C11).
-/
namespace Hrano
open Spec

namespace Book

theorem lookup_set_same : ∀ (b : Book) (n : Bytes) (v : Elements), (set b n v).lookup n = some v := by
  intro b n v
  induction b with
  | nil => simp [set, lookup, List.find?]
  | cons kv r ih =>
    obtain ⟨k, w⟩ := kv
    unfold set
    by_cases h : (k == n) = true
    · simp [h, lookup, List.find?]
    · have h' : (k == n) = false := by simpa using h
      simp only [h', Bool.false_eq_true, if_false]
      simp only [lookup, List.find?, h'] at ih ⊢
      exact ih

theorem lookup_set_other : ∀ (b : Book) (n m : Bytes) (v : Elements), (n == m) = false → (set b n v).lookup m = b.lookup m := by
  intro b n m v hnm
  induction b with
  | nil => simp [set, lookup, List.find?, hnm]
  | cons kv r ih =>
    obtain ⟨k, w⟩ := kv
    unfold set
    by_cases h : (k == n) = true
    · have hkn : k = n := by simpa using h
      have hkm : (k == m) = false := by rw [hkn]; exact hnm
      simp [h, lookup, List.find?, hkm]
    · have h' : (k == n) = false := by simpa using h
      simp only [h', Bool.false_eq_true, if_false]
      simp only [lookup, List.find?] at ih ⊢
      split
      · rfl
      · exact ih

theorem mem_keys_of_lookup : ∀ (b : Book) (n : Bytes) (v : Elements), b.lookup n = some v → n ∈ b.keys := by
  intro b n v h
  induction b with
  | nil => simp [lookup] at h
  | cons kv r ih =>
    obtain ⟨k, w⟩ := kv
    by_cases hk : (k == n) = true
    · have : k = n := by simpa using hk
      simp [keys, this]
    · have hk' : (k == n) = false := by simpa using hk
      simp only [lookup, List.find?, hk'] at h ih
      simp only [keys, List.map_cons, List.mem_cons]
      exact Or.inr (ih h)

theorem lookup_none_of_not_mem : ∀ (b : Book) (n : Bytes), n ∉ b.keys → b.lookup n = none := by
  intro b n h
  induction b with
  | nil => rfl
  | cons kv r ih =>
    obtain ⟨k, w⟩ := kv
    simp only [keys, List.map_cons, List.mem_cons, not_or] at h
    have hk' : (k == n) = false := by
      have : k ≠ n := fun e => h.1 e.symm
      simpa using this
    simp only [lookup, List.find?, hk'] at ih ⊢
    exact ih h.2

theorem lookup_isSome_of_mem : ∀ (b : Book) (n : Bytes), n ∈ b.keys → (b.lookup n).isSome := by
  intro b n h
  induction b with
  | nil => simp [keys] at h
  | cons kv r ih =>
    obtain ⟨k, w⟩ := kv
    by_cases hk : (k == n) = true
    · simp [lookup, List.find?, hk]
    · have hk' : (k == n) = false := by simpa using hk
      simp only [keys, List.map_cons, List.mem_cons] at h
      have : n ∈ keys r := by
        rcases h with h | h
        · exact absurd h.symm (by simpa using hk)
        · exact h
      simp only [lookup, List.find?, hk'] at ih ⊢
      exact ih this

theorem keys_set_of_mem : ∀ (b : Book) (n : Bytes) (v : Elements), n ∈ b.keys → (set b n v).keys = b.keys := by
  intro b n v h
  induction b with
  | nil => simp [keys] at h
  | cons kv r ih =>
    obtain ⟨k, w⟩ := kv
    unfold set
    by_cases hk : (k == n) = true
    · simp [hk, keys]
    · have hk' : (k == n) = false := by simpa using hk
      simp only [hk', Bool.false_eq_true, if_false]
      simp only [keys, List.map_cons, List.mem_cons] at h ih ⊢
      have : n ∈ List.map (·.1) r := by
        rcases h with h | h
        · exact absurd h.symm (by simpa using hk)
        · exact h
      rw [ih this]

/-- two books with the same keys agree on which names they define -/
theorem lookup_none_iff_of_keys (b b' : Book) (hk : b.keys = b'.keys) (n : Bytes) : b.lookup n = none ↔ b'.lookup n = none := by
  constructor
  · intro h
    cases h' : b'.lookup n with
    | none => rfl
    | some v =>
      have := mem_keys_of_lookup b' n v h'
      rw [← hk] at this
      have := lookup_isSome_of_mem b n this
      rw [h] at this; cases this
  · intro h
    cases h' : b.lookup n with
    | none => rfl
    | some v =>
      have := mem_keys_of_lookup b n v h'
      rw [hk] at this
      have := lookup_isSome_of_mem b' n this
      rw [h] at this; cases this

end Book

namespace Elements

theorem valueAt_eq_sumOf_of_nodup : ∀ (es : Elements), (names es).Nodup → ∀ n, sumOf n es = valueAt es n := by
  intro es
  induction es with
  | nil => intro _ n; rfl
  | cons e r ih =>
    intro hnd n
    simp only [names, List.map_cons, List.nodup_cons] at hnd
    by_cases h : (e.name == n) = true
    · have hen : e.name = n := by simpa using h
      have hnot : n ∉ List.map (·.name) r := hen ▸ hnd.1
      have hz : sumOf n r = 0 := by
        rw [ih hnd.2 n]
        simp only [valueAt]
        have : List.find? (fun x => x.name == n) r = none := by
          apply List.find?_eq_none.mpr
          intro x hx hxn
          exact hnot (List.mem_map.mpr ⟨x, hx, by simpa using hxn⟩)
        rw [this]
      simp [sumOf, valueAt, List.find?, h, hz, Rat.add_zero]
    · have h' : (e.name == n) = false := by simpa using h
      simp only [sumOf, valueAt, List.find?, h', Bool.false_eq_true, if_false, Rat.zero_add]
      exact ih hnd.2 n

theorem sumOf_map_scale (q : Q) (n : Bytes) : ∀ ps : Elements, sumOf n (ps.map (scale q)) = sumOf n ps * q := by
  intro ps
  induction ps with
  | nil => simp [sumOf, Rat.zero_mul]
  | cons p r ih =>
    simp only [List.map_cons, sumOf, scale, ih]
    by_cases h : (p.name == n) = true
    · simp [h]; grind
    · have h' : (p.name == n) = false := by simpa using h
      simp [h']; grind

theorem sumOf_zero_of_not_mem (n : Bytes) : ∀ ps : Elements, n ∉ names ps → sumOf n ps = 0 := by
  intro ps
  induction ps with
  | nil => intro _; rfl
  | cons p r ih =>
    intro h
    simp only [names, List.map_cons, List.mem_cons, not_or] at h
    have h' : (p.name == n) = false := by
      have : p.name ≠ n := fun e => h.1 e.symm
      simpa using this
    simp [sumOf, h', Rat.zero_add]
    exact ih h.2

/-- with distinct names, the amount under a name does not depend on the arrangement -/
theorem valueAt_perm (a b : Elements) (hp : a.Perm b) (hnd : (names a).Nodup) (n : Bytes) : valueAt a n = valueAt b n := by
  have hndb : (names b).Nodup := (hp.map _).nodup_iff.mp hnd
  rw [← valueAt_eq_sumOf_of_nodup a hnd, ← valueAt_eq_sumOf_of_nodup b hndb]
  induction hp with
  | nil => rfl
  | cons x _ ih =>
    simp only [names, List.map_cons, List.nodup_cons] at hnd hndb
    simp only [sumOf]
    rw [ih hnd.2 hndb.2]
  | swap x y l => simp only [sumOf]; grind
  | trans h1 h2 ih1 ih2 =>
    have hmid : (names _).Nodup := (h1.map (fun x : Element => x.name)).nodup_iff.mp hnd
    rw [ih1 hnd hmid, ih2 hmid hndb]

end Elements
end Hrano
