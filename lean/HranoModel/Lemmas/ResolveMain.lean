import HranoModel.Lemmas.ResolveImpl
/-
  The resolver model refines the specification: the main induction (C01, C11).
-/
namespace Hrano
open Spec
namespace Resolver

def doneAt (st : RState) (y : Bytes) : Option Nat := heightOf st.heights y

theorem heightOf_cons (n m : Bytes) (h : Nat) (hs : List (Bytes × Nat)) :
    heightOf ((n, h) :: hs) m = if n == m then some h else heightOf hs m := by
  by_cases hnm : (n == m) = true <;> simp [heightOf, List.find?, hnm]

/-- what the accumulated element list must be with respect to the accumulated paths -/
structure AccRel (nel ps : Elements) : Prop where
  nodup : (Elements.names nel).Nodup
  value : ∀ leaf, Elements.valueAt nel leaf = sumOf leaf ps
  names : ∀ leaf, leaf ∈ Elements.names nel ↔ leaf ∈ Elements.names ps

/-- the state is consistent with the original book `B`: finished recipes hold their resolved list and
    true height, unfinished ones their original entry -/
structure Inv (B : Book) (st : RState) : Prop where
  keys : st.db.keys = B.keys
  done : ∀ n h, doneAt st n = some h →
    ∃ f ps els, specNode B f n = some (h, ps) ∧ (B.lookup n).isSome ∧ st.db.lookup n = some els ∧ Resolved ps els
  todo : ∀ n, doneAt st n = none → st.db.lookup n = B.lookup n

/-- finished recipes stay finished -/
def Keeps (st st' : RState) : Prop := ∀ y h, doneAt st y = some h → doneAt st' y = some h

theorem accRel_nil : AccRel [] [] :=
  ⟨by simp [Elements.names], fun _ => rfl, fun _ => by simp [Elements.names]⟩

theorem resolved_of_accRel (nel ps : Elements) (h : AccRel nel ps) : Resolved ps (Elements.sort nel) := by
  have hp : (Elements.sort nel).Perm nel := by rw [Srt.elements_sort_eq]; exact Srt.sortBy_perm _ nel
  have hs := Srt.sortBy_sorted (fun e : Element => e.name) nel
  refine ⟨?_, ?_, ?_, ?_⟩
  · rw [Srt.elements_sort_eq]; exact List.pairwise_map.mpr hs
  · exact (hp.map _).nodup_iff.mpr h.nodup
  · intro leaf
    rw [← h.value leaf]
    exact (Elements.valueAt_perm nel _ hp.symm h.nodup leaf).symm
  · intro leaf
    rw [(hp.map _).mem_iff]
    exact h.names leaf

/-- one ingredient merged into the accumulator, given what the map holds for it -/
theorem accRel_merge (B : Book) (db : Book) (nel ps : Elements) (e : Element) (he : Nat) (pe : Elements)
    (hacc : AccRel nel ps)
    (hrec : ∀ els, B.lookup e.name = some els → ∃ r, db.lookup e.name = some r ∧ Resolved pe r)
    (hleaf : B.lookup e.name = none → db.lookup e.name = none ∧ pe = [⟨e.name, 1⟩])
    (_hhe : he = he) :
    AccRel (mergeIngredient db nel e) (ps ++ pe.map (scale e.value)) := by
  cases hl : B.lookup e.name with
  | some els =>
    obtain ⟨r, hr, hres⟩ := hrec els hl
    have hm : mergeIngredient db nel e = Elements.sumMerge nel r e.value := by simp [mergeIngredient, hr]
    rw [hm]
    refine ⟨Elements.nodup_sumMerge r e.value nel hacc.nodup, ?_, ?_⟩
    · intro leaf
      rw [Elements.valueAt_sumMerge, hacc.value, sumOf_append, Elements.sumOf_map_scale]
      rw [Elements.valueAt_eq_sumOf_of_nodup r hres.nodup leaf, hres.value]
    · intro leaf
      rw [Elements.mem_names_sumMerge, hacc.names]
      simp only [Elements.names, List.map_append, List.mem_append, List.map_map]
      have : leaf ∈ List.map (fun x => x.name) r ↔ leaf ∈ List.map ((fun x => x.name) ∘ scale e.value) pe := by
        rw [hres.names leaf]
        simp [Function.comp, scale]
      rw [this]
  | none =>
    obtain ⟨hdb, hpe⟩ := hleaf hl
    have hm : mergeIngredient db nel e = Elements.sumMerge nel [⟨e.name, e.value⟩] 1 := by simp [mergeIngredient, hdb]
    rw [hm, hpe]
    refine ⟨Elements.nodup_sumMerge _ 1 nel hacc.nodup, ?_, ?_⟩
    · intro leaf
      rw [Elements.valueAt_sumMerge, hacc.value, sumOf_append]
      simp [sumOf, scale, Rat.mul_one, Rat.one_mul]
    · intro leaf
      rw [Elements.mem_names_sumMerge, hacc.names]
      simp [Elements.names, scale]

/-- the contract of one recursive call, as the loop sees it -/
def NodeOK (B : Book) (rn : Bytes → RState → Except RErr (Nat × RState)) (sn : Bytes → Option (Nat × Elements)) : Prop :=
  ∀ x st, Inv B st →
    match sn x with
    | none => rn x st = .error .depth
    | some (h, _) => ∃ st', rn x st = .ok (h, st') ∧ Inv B st' ∧ Keeps st st' ∧ ((B.lookup x).isSome → doneAt st' x = some h)

theorem list_ok (B : Book) (rn : Bytes → RState → Except RErr (Nat × RState)) (sn : Bytes → Option (Nat × Elements))
    (hsnB : ∀ x h ps, sn x = some (h, ps) → ∃ f, specNode B f x = some (h, ps))
    (hnode : NodeOK B rn sn) : ∀ (es : List Element) (hacc : Nat) (nel ps : Elements) (st : RState),
    Inv B st → AccRel nel ps →
    match specList sn es (hacc, ps) with
    | none => resolveList rn es (hacc, nel, st) = .error .depth
    | some (h', ps') => ∃ nel' st', resolveList rn es (hacc, nel, st) = .ok (h', nel', st') ∧ Inv B st' ∧ AccRel nel' ps' ∧ Keeps st st' := by
  intro es
  induction es with
  | nil =>
    intro hacc nel ps st hinv hrel
    simp only [specList, resolveList]
    exact ⟨nel, st, rfl, hinv, hrel, fun _ _ h => h⟩
  | cons e es ih =>
    intro hacc nel ps st hinv hrel
    have hn := hnode e.name st hinv
    unfold specList resolveList
    cases hs : sn e.name with
    | none =>
      rw [hs] at hn
      simp only [hn]
    | some v =>
      obtain ⟨he, pe⟩ := v
      rw [hs] at hn
      obtain ⟨st1, hrn, hinv1, hkeep1, hdone1⟩ := hn
      simp only [hrn]
      obtain ⟨f, hspec⟩ := hsnB _ _ _ hs
      have hrel1 : AccRel (mergeIngredient st1.db nel e) (ps ++ pe.map (scale e.value)) := by
        apply accRel_merge B st1.db nel ps e he pe hrel
        · intro els hl
          have hd := hdone1 (by simp [hl])
          obtain ⟨f', ps', r, hsp', _, hr, hres⟩ := hinv1.done _ _ hd
          have := specNode_det B e.name f' f _ _ hsp' hspec
          simp at this
          exact ⟨r, hr, this ▸ hres⟩
        · intro hl
          constructor
          · -- not a recipe: not in the map either
            exact (Book.lookup_none_iff_of_keys st1.db B hinv1.keys e.name).mpr hl
          · -- its only path is itself
            have : specNode B (0 + 1) e.name = some (0, [⟨e.name, 1⟩]) := by simp [specNode, hl]
            have := specNode_det B e.name f 1 _ _ hspec this
            simp at this
            exact this.2
        · rfl
      have hrest := ih (max hacc (he + 1)) _ _ st1 hinv1 hrel1
      cases hsl : specList sn es (max hacc (he + 1), ps ++ pe.map (scale e.value)) with
      | none => rw [hsl] at hrest; simpa using hrest
      | some v' =>
        obtain ⟨h', ps'⟩ := v'
        rw [hsl] at hrest
        obtain ⟨nel', st', hrl, hinv', hrel', hkeep'⟩ := hrest
        exact ⟨nel', st', hrl, hinv', hrel', fun y h hy => hkeep' y h (hkeep1 y h hy)⟩

theorem resolveNode_succ (f : Nat) (x : Bytes) (st : RState) :
    resolveNode (f + 1) x st =
      (match st.db.lookup x with
       | none => .ok (0, st)
       | some els =>
         match heightOf st.heights x with
         | some h => if h ≥ f + 1 then .error .depth else .ok (h, st)
         | none =>
           match resolveList (resolveNode f) els (0, [], st) with
           | .error err => .error err
           | .ok (height, nel, st') =>
             .ok (height, { db := st'.db.set x (Elements.sort nel), heights := (x, height) :: st'.heights })) := by
  rfl

/-- **the resolver refines the specification**, for every fuel, name and consistent state -/
theorem node_ok (B : Book) : ∀ f : Nat, NodeOK B (resolveNode f) (specNode B f) := by
  intro f
  induction f with
  | zero =>
    intro x st _
    simp [specNode, resolveNode]
  | succ f ih =>
    intro x st hinv
    rw [resolveNode_succ]
    cases hlB : B.lookup x with
    | none =>
      have hdb : st.db.lookup x = none := (Book.lookup_none_iff_of_keys st.db B hinv.keys x).mpr hlB
      simp only [specNode, hlB, hdb]
      exact ⟨st, rfl, hinv, fun _ _ h => h, by simp⟩
    | some elsB =>
      have hsome : (st.db.lookup x).isSome := by
        cases hc : st.db.lookup x with
        | some _ => rfl
        | none => have := (Book.lookup_none_iff_of_keys st.db B hinv.keys x).mp hc; rw [hlB] at this; cases this
      cases hd : heightOf st.heights x with
      | some h0 =>
        -- already finished: the recorded height decides
        obtain ⟨f0, ps0, r0, hsp0, _, hr0, _⟩ := hinv.done x h0 hd
        have hat := specNode_at_fuel B x f0 h0 ps0 hsp0 (f + 1)
        cases hdb : st.db.lookup x with
        | none => rw [hdb] at hsome; cases hsome
        | some els' =>
          simp only
          by_cases hge : h0 ≥ f + 1
          · rw [hat.2 hge]
            simp [hge]
          · have hlt : h0 < f + 1 := by omega
            rw [hat.1 hlt]
            simp only [hge, if_false]
            exact ⟨st, rfl, hinv, fun _ _ h => h, fun _ => hd⟩
      | none =>
        -- not finished: walk the original elements
        have hdb : st.db.lookup x = some elsB := by rw [hinv.todo x hd]; exact hlB
        simp only [hdb]
        have hl := list_ok B (resolveNode f) (specNode B f) (fun y h ps hy => ⟨f, hy⟩) ih elsB 0 [] [] st hinv accRel_nil
        have hspecx : specNode B (f + 1) x = specList (specNode B f) elsB (0, []) := by simp [specNode, hlB]
        rw [hspecx]
        cases hsl : specList (specNode B f) elsB (0, []) with
        | none => rw [hsl] at hl; simp only [hl]
        | some v =>
          obtain ⟨h, ps⟩ := v
          rw [hsl] at hl
          obtain ⟨nel, st', hrl, hinv', hrel', hkeep'⟩ := hl
          simp only [hrl]
          have hxkey : x ∈ st'.db.keys := by rw [hinv'.keys]; exact Book.mem_keys_of_lookup B x elsB hlB
          refine ⟨_, rfl, ⟨?_, ?_, ?_⟩, ?_, ?_⟩
          · -- keys
            simp only
            rw [Book.keys_set_of_mem _ _ _ hxkey]; exact hinv'.keys
          · -- finished recipes
            intro n hn hdn
            simp only [doneAt, heightOf_cons] at hdn
            by_cases hxn : (x == n) = true
            · have hxn' : x = n := by simpa using hxn
              subst hxn'
              simp only [BEq.rfl, if_true, Option.some.injEq] at hdn
              subst hdn
              refine ⟨f + 1, ps, Elements.sort nel, ?_, by simp [hlB], Book.lookup_set_same _ _ _, resolved_of_accRel nel ps hrel'⟩
              rw [hspecx, hsl]
            · have hxn' : (x == n) = false := by simpa using hxn
              simp only [hxn', Bool.false_eq_true, if_false] at hdn
              obtain ⟨f1, ps1, r1, a, b, c, d⟩ := hinv'.done n hn hdn
              exact ⟨f1, ps1, r1, a, b, by simp only; rw [Book.lookup_set_other _ _ _ _ hxn']; exact c, d⟩
          · -- unfinished recipes
            intro n hdn
            simp only [doneAt, heightOf_cons] at hdn
            by_cases hxn : (x == n) = true
            · simp [hxn] at hdn
            · have hxn' : (x == n) = false := by simpa using hxn
              simp only [hxn', Bool.false_eq_true, if_false] at hdn
              simp only
              rw [Book.lookup_set_other _ _ _ _ hxn']
              exact hinv'.todo n hdn
          · -- finished stay finished
            intro y hy hdy
            have := hkeep' y hy hdy
            simp only [doneAt, heightOf_cons]
            by_cases hxy : (x == y) = true
            · have : x = y := by simpa using hxy
              subst this
              simp only [doneAt] at hdy
              rw [hd] at hdy; cases hdy
            · have hxy' : (x == y) = false := by simpa using hxy
              simp only [hxy', Bool.false_eq_true, if_false]
              exact this
          · intro _
            simp [doneAt, heightOf_cons]

end Resolver
end Hrano
