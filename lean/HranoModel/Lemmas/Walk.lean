import HranoModel.Model.App
/-
  Helper lemmas about `App.walk` (WalkNodesInStream): filtering, appending.
-/
namespace Hrano
namespace App

/-- does the record belong to the period?  (records whose heading is not a date are kept: they stop the walk) -/
def inPeriod (l : Layout) (b e : Option Int) : Event → Bool
  | .node n => match Date.parse l n.header with
    | some c => inInterval b e (Date.instant c)
    | none => true
  | .error _ => true

theorem inInterval_none (t : Int) : inInterval none none t = true := rfl

theorem walk_filter (l : Layout) (b e : Option Int) (se : Option ScanErr) : ∀ evs : List Event,
    walk l b e se evs = walk l none none se (evs.filter (inPeriod l b e)) := by
  intro evs
  induction evs with
  | nil => rfl
  | cons ev r ih =>
    cases ev with
    | error pe => simp [walk, inPeriod, List.filter_cons]
    | node n =>
      cases hp : Date.parse l n.header with
      | none => simp [walk, inPeriod, List.filter_cons, hp]
      | some c =>
        by_cases hin : inInterval b e (Date.instant c) = true
        · simp [walk, inPeriod, List.filter_cons, hp, hin, ih, inInterval_none]
        · have hin' : inInterval b e (Date.instant c) = false := by simpa using hin
          simp [walk, inPeriod, List.filter_cons, hp, hin', ih]

theorem walk_append (l : Layout) (b e : Option Int) (se : Option ScanErr) (evs₂ : List Event) : ∀ evs₁ : List Event,
    walk l b e se (evs₁ ++ evs₂) =
      (match walk l b e none evs₁ with
       | (d₁, none) => ((d₁ ++ (walk l b e se evs₂).1), (walk l b e se evs₂).2)
       | (d₁, some err) => (d₁, some err)) := by
  intro evs₁
  induction evs₁ with
  | nil => simp [walk]
  | cons ev r ih =>
    cases ev with
    | error pe => simp [walk]
    | node n =>
      cases hp : Date.parse l n.header with
      | none => simp [walk, hp]
      | some c =>
        simp only [List.cons_append, walk, hp, ih]
        rcases hw : walk l b e none r with ⟨d₁, _ | err⟩
        · by_cases hin : inInterval b e (Date.instant c) = true <;> simp [hin]
        · by_cases hin : inInterval b e (Date.instant c) = true <;> simp [hin]

theorem perDay_append (f : LogDay → Bytes) (a b : List LogDay) : perDay f (a ++ b) = perDay f a ++ perDay f b := by
  simp [perDay]

theorem allElements_append (a b : List LogDay) : Report.allElements (a ++ b) = Report.allElements a ++ Report.allElements b := by
  simp [Report.allElements]

end App
end Hrano
