import HranoModel.Lemmas.Accum
/-
  Helper lemmas: `Elements.addTo` / `mergeDay` / `sumMerge` compute per-name sums and keep the
  first-appearance order of names.
-/
namespace Hrano
open Spec

namespace Elements

theorem names_addTo (es : Elements) (n : Bytes) (v : Q) :
    names (addTo es n v) = if n ∈ names es then names es else names es ++ [n] := by
  induction es with
  | nil => simp [addTo, names]
  | cons x xs ih =>
    unfold addTo
    by_cases hx : (x.name == n) = true
    · have hxn : x.name = n := by simpa using hx
      simp [hx, names, hxn]
    · have hx' : (x.name == n) = false := by simpa using hx
      have hne : x.name ≠ n := by simpa using hx
      simp only [hx', Bool.false_eq_true, if_false]
      simp only [names, List.map_cons] at ih ⊢
      rw [ih]
      by_cases hm : n ∈ List.map (·.name) xs
      · have : n ∈ x.name :: List.map (·.name) xs := List.mem_cons_of_mem _ hm
        simp [hm, this]
      · have : n ∉ x.name :: List.map (·.name) xs := by
          intro h; rcases List.mem_cons.mp h with h | h
          · exact hne h.symm
          · exact hm h
        simp [hm, this]

theorem valueAt_addTo (es : Elements) (n m : Bytes) (v : Q) :
    valueAt (addTo es n v) m = valueAt es m + (if n == m then v else 0) := by
  induction es with
  | nil =>
    by_cases h : (n == m) = true
    · simp [addTo, valueAt, List.find?, h, Rat.zero_add]
    · have h' : (n == m) = false := by simpa using h
      simp [addTo, valueAt, List.find?, h', Rat.add_zero]
  | cons x xs ih =>
    unfold addTo
    by_cases hx : (x.name == n) = true
    · have hxn : x.name = n := by simpa using hx
      simp only [hx, if_true]
      by_cases h : (n == m) = true
      · have hnm : n = m := by simpa using h
        simp [valueAt, List.find?, hxn, hnm]
      · have h' : (n == m) = false := by simpa using h
        have hxm : (x.name == m) = false := by rw [hxn]; exact h'
        simp [valueAt, List.find?, hxm, h', Rat.add_zero]
    · have hx' : (x.name == n) = false := by simpa using hx
      simp only [hx', Bool.false_eq_true, if_false]
      by_cases hxm : (x.name == m) = true
      · have h1 : x.name = m := by simpa using hxm
        have hnm : (n == m) = false := by
          have : n ≠ m := by intro h; subst h; simp at hx'; exact hx' h1
          simpa using this
        simp [valueAt, List.find?, hxm, hnm, Rat.add_zero]
      · have hxm' : (x.name == m) = false := by simpa using hxm
        simp only [valueAt, List.find?, hxm'] at ih ⊢
        exact ih

theorem nodup_addTo (es : Elements) (n : Bytes) (v : Q) (h : (names es).Nodup) : (names (addTo es n v)).Nodup := by
  rw [names_addTo]
  split
  · exact h
  · rename_i hn
    exact List.nodup_append.mpr ⟨h, by simp, by intro x hx y hy; simp at hy; subst hy; intro hxy; exact hn (hxy ▸ hx)⟩

theorem mem_names_addTo (es : Elements) (n m : Bytes) (v : Q) :
    m ∈ names (addTo es n v) ↔ m ∈ names es ∨ m = n := by
  rw [names_addTo]
  split
  · rename_i hn
    exact ⟨Or.inl, fun h => h.elim id (fun h => h ▸ hn)⟩
  · simp

/-- `acc.foldl addTo` over scaled entries: what `SumMerge(left, mult)` does -/
theorem valueAt_sumMerge (left : Elements) (mult : Q) : ∀ (acc : Elements) (m : Bytes),
    valueAt (sumMerge acc left mult) m = valueAt acc m + sumOf m left * mult := by
  induction left with
  | nil => intro acc m; simp [sumMerge, sumOf, Rat.zero_mul, Rat.add_zero]
  | cons e es ih =>
    intro acc m
    have := ih (addTo acc e.name (e.value * mult)) m
    simp only [sumMerge, List.foldl] at this ⊢
    rw [this, valueAt_addTo, sumOf]
    by_cases h : (e.name == m) = true
    · simp [h]; grind
    · have h' : (e.name == m) = false := by simpa using h
      simp [h']; grind

theorem nodup_sumMerge (left : Elements) (mult : Q) : ∀ acc : Elements, (names acc).Nodup → (names (sumMerge acc left mult)).Nodup := by
  induction left with
  | nil => intro acc h; exact h
  | cons e es ih => intro acc h; exact ih _ (nodup_addTo acc e.name _ h)

theorem mem_names_sumMerge (left : Elements) (mult : Q) : ∀ (acc : Elements) (m : Bytes),
    m ∈ names (sumMerge acc left mult) ↔ m ∈ names acc ∨ m ∈ names left := by
  induction left with
  | nil => intro acc m; simp [sumMerge, names]
  | cons e es ih =>
    intro acc m
    have := ih (addTo acc e.name (e.value * mult)) m
    simp only [sumMerge, List.foldl] at this ⊢
    rw [this, mem_names_addTo]
    simp only [names, List.map_cons, List.mem_cons]
    constructor
    · rintro ((h | h) | h)
      · exact Or.inl h
      · exact Or.inr (Or.inl h)
      · exact Or.inr (Or.inr h)
    · rintro (h | h | h)
      · exact Or.inl (Or.inl h)
      · exact Or.inl (Or.inr h)
      · exact Or.inr h

end Elements

/-! ### `mergeDay` -/

theorem mergeDay_eq (es : Elements) : mergeDay es = Elements.sumMerge [] es 1 := by
  unfold mergeDay Elements.sumMerge
  congr 1
  funext a e
  rw [Rat.mul_one]

theorem mergeDay_value (es : Elements) (n : Bytes) : Elements.valueAt (mergeDay es) n = sumOf n es := by
  rw [mergeDay_eq, Elements.valueAt_sumMerge]
  simp [Elements.valueAt, Rat.zero_add, Rat.mul_one]

theorem mergeDay_nodup (es : Elements) : (Elements.names (mergeDay es)).Nodup := by
  rw [mergeDay_eq]
  exact Elements.nodup_sumMerge es 1 [] (by simp [Elements.names])

theorem mergeDay_mem (es : Elements) (n : Bytes) : n ∈ Elements.names (mergeDay es) ↔ n ∈ Elements.names es := by
  rw [mergeDay_eq, Elements.mem_names_sumMerge]
  simp [Elements.names]

/-- first-appearance order: the names of the merged day are the distinct names of the entries in order -/
theorem names_foldl_addTo (es : Elements) : ∀ acc : Elements,
    Elements.names (es.foldl (fun a e => Elements.addTo a e.name e.value) acc)
      = Elements.names acc ++ (distinctNames es).filter (fun n => !(Elements.names acc).contains n) := by
  induction es with
  | nil => intro acc; simp [distinctNames]
  | cons e es ih =>
    intro acc
    simp only [List.foldl]
    rw [ih, Elements.names_addTo]
    by_cases hm : e.name ∈ Elements.names acc
    · simp only [hm, if_true, distinctNames, List.filter_cons]
      have : (Elements.names acc).contains e.name = true := by simpa using hm
      simp only [this, Bool.not_true, Bool.false_eq_true, if_false, List.filter_filter]
      congr 1
      apply List.filter_congr
      intro x _
      by_cases hx : x = e.name
      · subst hx; simp [hm]
      · simp [hx]
    · simp only [hm, if_false, distinctNames, List.filter_cons]
      have : (Elements.names acc).contains e.name = false := by simpa using hm
      simp only [this, Bool.not_false, if_true, List.append_assoc, List.singleton_append, List.filter_filter]
      congr 2
      apply List.filter_congr
      intro x _
      by_cases hx : x = e.name
      · subst hx; simp
      · simp [hx]

theorem mergeDay_names (es : Elements) : Elements.names (mergeDay es) = distinctNames es := by
  have := names_foldl_addTo es []
  have hf : ∀ l : List Bytes, List.filter (fun _ => true) l = l := by
    intro l; induction l with
    | nil => rfl
    | cons x xs ih => simp [List.filter_cons]
  simpa [Elements.names, mergeDay, hf] using this

end Hrano
