import HranoModel.Model.Date
namespace Hrano
namespace Date

/-- the calendar day after `c` -/
def next (c : Civil) : Civil :=
  if c.d < daysIn c.m c.y then ⟨c.y, c.m, c.d + 1⟩
  else if c.m < 12 then ⟨c.y, c.m + 1, 1⟩
  else ⟨c.y + 1, 1, 1⟩

theorem toDays_next_same_month (y m d : Nat) (hd : 1 ≤ d) : toDays ⟨y, m, d + 1⟩ = toDays ⟨y, m, d⟩ + 1 := by
  unfold toDays
  simp only []
  omega

/-- lengths of the months in the March-based numbering used by the day count -/
theorem month_step (mp : Nat) (h : mp < 11) :
    (153 * (mp + 1) + 2) / 5 = (153 * mp + 2) / 5 + (if mp = 0 ∨ mp = 2 ∨ mp = 4 ∨ mp = 5 ∨ mp = 7 ∨ mp = 9 ∨ mp = 10 then 31 else 30) := by
  have : mp = 0 ∨ mp = 1 ∨ mp = 2 ∨ mp = 3 ∨ mp = 4 ∨ mp = 5 ∨ mp = 6 ∨ mp = 7 ∨ mp = 8 ∨ mp = 9 ∨ mp = 10 := by omega
  rcases this with rfl | rfl | rfl | rfl | rfl | rfl | rfl | rfl | rfl | rfl | rfl <;> decide

/-- last day of a month other than February and December → first of the next month -/
theorem toDays_next_month (y m : Nat) (hm1 : 1 ≤ m) (hm2 : m ≤ 11) (hm3 : m ≠ 2) :
    toDays ⟨y, m + 1, 1⟩ = toDays ⟨y, m, daysIn m y⟩ + 1 := by
  have hm : m = 1 ∨ m = 3 ∨ m = 4 ∨ m = 5 ∨ m = 6 ∨ m = 7 ∨ m = 8 ∨ m = 9 ∨ m = 10 ∨ m = 11 := by omega
  rcases hm with rfl | rfl | rfl | rfl | rfl | rfl | rfl | rfl | rfl | rfl <;>
    (unfold toDays daysIn; simp only []; simp; omega)

theorem toDays_next_year (y : Nat) : toDays ⟨y + 1, 1, 1⟩ = toDays ⟨y, 12, 31⟩ + 1 := by
  unfold toDays
  simp only []
  simp
  omega

/-- the last day of February → 1 March (the year of the March-based count turns, possibly the 400-year era too) -/
theorem toDays_next_feb (y : Nat) : toDays ⟨y, 3, 1⟩ = toDays ⟨y, 2, daysIn 2 y⟩ + 1 := by
  unfold toDays daysIn isLeap
  simp only []
  simp
  have h400 : (y + 400 - 1) / 400 = (y + 399) / 400 := by omega
  by_cases hera : (y + 399) % 400 = 399
  · -- the era turns
    have h1 : (y + 400) / 400 = (y + 399) / 400 + 1 := by omega
    have h2 : y % 4 = 0 ∧ y % 100 = 0 ∧ y % 400 = 0 := by omega
    simp [h2]
    omega
  · have h1 : (y + 400) / 400 = (y + 399) / 400 := by omega
    by_cases h4 : y % 4 = 0
    · by_cases h100 : y % 100 = 0
      · have h400' : y % 400 ≠ 0 := by omega
        simp [h4, h100, h400']
        omega
      · simp [h4, h100]
        omega
    · simp [h4]
      omega

/-- **the day count advances by exactly one per calendar day**: for every accepted civil date, the day after it is
    one day later in the count (month ends, leap days, year ends and the 400-year era included) -/
theorem toDays_next (c : Civil) (hm1 : 1 ≤ c.m) (hm2 : c.m ≤ 12) (hd1 : 1 ≤ c.d) (hd2 : c.d ≤ daysIn c.m c.y) :
    toDays (next c) = toDays c + 1 := by
  obtain ⟨y, m, d⟩ := c
  simp only at hm1 hm2 hd1 hd2
  unfold next
  simp only []
  by_cases h1 : d < daysIn m y
  · simp only [h1, if_true]
    exact toDays_next_same_month y m d hd1
  · have hd : d = daysIn m y := by omega
    simp only [h1, if_false]
    by_cases h2 : m < 12
    · simp only [h2, if_true]
      subst hd
      by_cases h3 : m = 2
      · subst h3; exact toDays_next_feb y
      · exact toDays_next_month y m hm1 (by omega) h3
    · have hm : m = 12 := by omega
      subst hm
      simp only [show ¬ (12 < 12) from by omega, if_false]
      have : daysIn 12 y = 31 := by simp [daysIn]
      rw [hd, this]
      exact toDays_next_year y

/-- … so the instant of the next day is one day (in nanoseconds) later -/
theorem instant_next (c : Civil) (hm1 : 1 ≤ c.m) (hm2 : c.m ≤ 12) (hd1 : 1 ≤ c.d) (hd2 : c.d ≤ daysIn c.m c.y) :
    instant (next c) = instant c + nsPerDay := by
  unfold instant
  rw [toDays_next c hm1 hm2 hd1 hd2, Int.add_mul, Int.one_mul]

/-- the next day is again an accepted civil date -/
theorem next_valid (c : Civil) (hm1 : 1 ≤ c.m) (hm2 : c.m ≤ 12) (hd1 : 1 ≤ c.d) (hd2 : c.d ≤ daysIn c.m c.y) :
    1 ≤ (next c).m ∧ (next c).m ≤ 12 ∧ 1 ≤ (next c).d ∧ (next c).d ≤ daysIn (next c).m (next c).y := by
  obtain ⟨y, m, d⟩ := c
  simp only at hm1 hm2 hd1 hd2
  unfold next
  simp only []
  have h28 : ∀ m' y', 28 ≤ daysIn m' y' := by intro m' y'; unfold daysIn; split <;> (try split) <;> omega
  split
  · simp only; omega
  · split
    · simp only; have := h28 (m + 1) y; omega
    · simp only; have := h28 1 (y + 1); omega

example : toDays ⟨1970, 1, 1⟩ = 0 ∧ toDays ⟨2000, 3, 1⟩ = 11017 ∧ next ⟨2000, 2, 29⟩ = ⟨2000, 3, 1⟩ ∧ next ⟨1900, 2, 28⟩ = ⟨1900, 3, 1⟩ := by
  decide

end Date
end Hrano
