import HranoModel.Model.Date
import HranoModel.Facts
import HranoModel.Lemmas.Number
/-
  Helper lemmas: a date written in a layout is read back by the same layout.
-/
namespace Hrano
namespace Date
open Bytes Num

/-- a civil date the library accepts, with a four-digit year -/
structure CivilOK (c : Civil) : Prop where
  year : c.y < 10000
  monthLo : 1 ≤ c.m
  monthHi : c.m ≤ 12
  dayLo : 1 ≤ c.d
  dayHi : c.d ≤ daysIn c.m c.y

/-- a token that is written with a variable number of digits must be followed by a separator (or end the layout),
    otherwise the text is ambiguous -/
def sepFollows : Layout → Bool
  | [] => true
  | .lit b :: _ => !isDigit b
  | _ => false

def unambiguous : Layout → Bool
  | [] => true
  | .month1 :: ts => sepFollows ts && unambiguous ts
  | .day1 :: ts => sepFollows ts && unambiguous ts
  | _ :: ts => unambiguous ts

def hasYear (l : Layout) : Bool := l.any (· == .year4)
def hasMonth (l : Layout) : Bool := l.any (fun t => t == .month2 || t == .month1)
def hasDay (l : Layout) : Bool := l.any (fun t => t == .day2 || t == .day1)

/-- layouts whose texts determine the date: every field present, no variable-width number runs into the next digit -/
def roundTrips (l : Layout) : Bool := hasYear l && hasMonth l && hasDay l && unambiguous l

/-- the fields a layout sets -/
def upd (l : Layout) (c : Civil) (p : Partial) : Partial :=
  { y := if hasYear l then c.y else p.y, m := if hasMonth l then c.m else p.m, d := if hasDay l then c.d else p.d }

/-! ### two- and four-digit fields -/

theorem two_digits (n : Nat) (h : n < 100) :
    natPad 2 n = [UInt8.ofNat (48 + n / 10), UInt8.ofNat (48 + n % 10)] := by
  unfold natPad
  rw [natDigits_eq_if]
  split
  · rename_i h10
    have : n / 10 = 0 := by omega
    have : n % 10 = n := by omega
    simp [*]
  · rename_i h10
    rw [natDigits_eq_if]
    have : n / 10 < 10 := by omega
    simp [*]

theorem getnum_two (n : Nat) (h : n < 100) (fixed : Bool) (rest : Bytes) :
    getnum (natPad 2 n ++ rest) fixed = some (n, rest) := by
  rw [two_digits n h]
  have h1 := digit_byte_props (n / 10) (by omega)
  have h2 := digit_byte_props (n % 10) (Nat.mod_lt _ (by omega))
  simp only [List.cons_append, List.nil_append, getnum, h1.1, h2.1, Bool.not_true, Bool.false_eq_true, if_false, if_true]
  have e1 : (UInt8.ofNat (48 + n / 10)).toNat - 48 = n / 10 := h1.2
  have e2 : (UInt8.ofNat (48 + n % 10)).toNat - 48 = n % 10 := h2.2
  rw [e1, e2]
  congr 2
  omega

theorem getnum_one (n : Nat) (h : n < 10) (rest : Bytes) (hr : ∀ x xs, rest = x :: xs → isDigit x = false) :
    getnum (natDigits n ++ rest) false = some (n, rest) := by
  rw [natDigits_eq_if]
  have h1 := digit_byte_props n h
  have e1 : (UInt8.ofNat (48 + n)).toNat - 48 = n := h1.2
  simp only [h, if_true, List.cons_append, List.nil_append, getnum, h1.1, Bool.not_true, Bool.false_eq_true, if_false]
  cases rest with
  | nil => simp; omega
  | cons x xs => simp [hr x xs rfl]; omega

theorem natDigits_two (n : Nat) (h1 : 10 ≤ n) (h2 : n < 100) : natDigits n = natPad 2 n := by
  unfold natPad
  have : (natDigits n).length = 2 := by
    rw [natDigits_eq_if]
    have : ¬ n < 10 := by omega
    simp only [this, if_false, List.length_append, List.length_singleton]
    rw [natDigits_eq_if]
    have : n / 10 < 10 := by omega
    simp [this]
  simp [this]

/-- a month or day number written without padding is read back when a separator (or nothing) follows -/
theorem getnum_var (n : Nat) (h : n < 100) (rest : Bytes) (hr : ∀ x xs, rest = x :: xs → isDigit x = false) :
    getnum (natDigits n ++ rest) false = some (n, rest) := by
  by_cases h10 : n < 10
  · exact getnum_one n h10 rest hr
  · rw [natDigits_two n (by omega) h]
    exact getnum_two n h false rest

theorem four_digits (n : Nat) (h : n < 10000) :
    natPad 4 n = [UInt8.ofNat (48 + n / 1000), UInt8.ofNat (48 + n / 100 % 10), UInt8.ofNat (48 + n / 10 % 10), UInt8.ofNat (48 + n % 10)] := by
  have hv : valOf (natPad 4 n) 0 = n := by
    rw [valOf_natPad 4 n (by omega) (by omega)]; omega
  have hl : (natPad 4 n).length = 4 := natPad_length 4 n (by omega) (by omega)
  have hd := natPad_isDigit 4 n
  match hm : natPad 4 n, hl with
  | [a, b, c, d], _ =>
    rw [hm] at hv hd
    have ha : 48 ≤ a.toNat ∧ a.toNat ≤ 57 := by simpa [isDigit] using hd a (by simp)
    have hb : 48 ≤ b.toNat ∧ b.toNat ≤ 57 := by simpa [isDigit] using hd b (by simp)
    have hc : 48 ≤ c.toNat ∧ c.toNat ≤ 57 := by simpa [isDigit] using hd c (by simp)
    have hdd : 48 ≤ d.toNat ∧ d.toNat ≤ 57 := by simpa [isDigit] using hd d (by simp)
    simp only [valOf, List.foldl_cons, List.foldl_nil, digitVal] at hv
    have e : ∀ (x : UInt8) (k : Nat), x.toNat = 48 + k → k < 10 → x = UInt8.ofNat (48 + k) := by
      intro x k hx hk
      apply UInt8.toNat_inj.mp
      rw [hx]
      simp [UInt8.toNat_ofNat]
      omega
    rw [e a (n / 1000) (by omega) (by omega), e b (n / 100 % 10) (by omega) (by omega), e c (n / 10 % 10) (by omega) (by omega),
      e d (n % 10) (by omega) (by omega)]

/-! ### the whole layout -/

def tokText (c : Civil) : LTok → Bytes
  | .year4 => natPad 4 c.y
  | .month2 => natPad 2 c.m
  | .month1 => natDigits c.m
  | .day2 => natPad 2 c.d
  | .day1 => natDigits c.d
  | .lit b => [b]

theorem format_cons (t : LTok) (ts : Layout) (c : Civil) : format (t :: ts) c = tokText c t ++ format ts c := by
  cases t <;> rfl

theorem format_starts (ts : Layout) (c : Civil) (h : sepFollows ts = true) : ∀ x xs, format ts c = x :: xs → isDigit x = false := by
  intro x xs hx
  cases ts with
  | nil => simp [format] at hx
  | cons t ts =>
    cases t with
    | lit b =>
      rw [format_cons] at hx
      simp only [tokText, List.cons_append, List.nil_append, List.cons.injEq] at hx
      simp only [sepFollows, Bool.not_eq_true'] at h
      rw [← hx.1]; exact h
    | _ => simp [sepFollows] at h

theorem parseToks_year (ts : Layout) (y : Nat) (hy : y < 10000) (rest : Bytes) (p : Partial) :
    parseToks (.year4 :: ts) (natPad 4 y ++ rest) p = parseToks ts rest { p with y := y } := by
  rw [four_digits y hy]
  have h1 := digit_byte_props (y / 1000) (by omega)
  have h2 := digit_byte_props (y / 100 % 10) (Nat.mod_lt _ (by omega))
  have h3 := digit_byte_props (y / 10 % 10) (Nat.mod_lt _ (by omega))
  have h4 := digit_byte_props (y % 10) (Nat.mod_lt _ (by omega))
  have e1 : (UInt8.ofNat (48 + y / 1000)).toNat - 48 = y / 1000 := h1.2
  have e2 : (UInt8.ofNat (48 + y / 100 % 10)).toNat - 48 = y / 100 % 10 := h2.2
  have e3 : (UInt8.ofNat (48 + y / 10 % 10)).toNat - 48 = y / 10 % 10 := h3.2
  have e4 : (UInt8.ofNat (48 + y % 10)).toNat - 48 = y % 10 := h4.2
  simp only [List.cons_append, List.nil_append, parseToks, h1.1, h2.1, h3.1, h4.1, Bool.and_self, if_true, e1, e2, e3, e4]
  congr 2
  omega

theorem parseToks_format (c : Civil) (hc : CivilOK c) : ∀ (l : Layout) (p : Partial), unambiguous l = true →
    parseToks l (format l c) p = some (upd l c p) := by
  intro l
  induction l with
  | nil => intro p _; simp [format, parseToks, upd, hasYear, hasMonth, hasDay]
  | cons t ts ih =>
    intro p hu
    rw [format_cons]
    have hm : c.m < 100 := by have := hc.monthHi; omega
    have hd : c.d < 100 := by
      have := hc.dayHi
      have : daysIn c.m c.y ≤ 31 := by unfold daysIn; split <;> (try split) <;> omega
      omega
    cases t with
    | year4 =>
      simp only [unambiguous] at hu
      rw [tokText, parseToks_year ts c.y hc.year, ih _ hu]
      simp [upd, hasYear, hasMonth, hasDay]
    | month2 =>
      simp only [unambiguous] at hu
      rw [tokText, parseToks, getnum_two c.m hm]
      simp only []
      rw [ih _ hu]
      simp [upd, hasYear, hasMonth, hasDay]
    | month1 =>
      simp only [unambiguous, Bool.and_eq_true] at hu
      rw [tokText, parseToks, getnum_var c.m hm _ (format_starts ts c hu.1)]
      simp only []
      rw [ih _ hu.2]
      simp [upd, hasYear, hasMonth, hasDay]
    | day2 =>
      simp only [unambiguous] at hu
      rw [tokText, parseToks, getnum_two c.d hd]
      simp only []
      rw [ih _ hu]
      simp [upd, hasYear, hasMonth, hasDay]
    | day1 =>
      simp only [unambiguous, Bool.and_eq_true] at hu
      rw [tokText, parseToks, getnum_var c.d hd _ (format_starts ts c hu.1)]
      simp only []
      rw [ih _ hu.2]
      simp [upd, hasYear, hasMonth, hasDay]
    | lit b =>
      simp only [unambiguous] at hu
      simp only [tokText, List.cons_append, List.nil_append, parseToks, beq_self_eq_true, if_true]
      rw [ih _ hu]
      simp [upd, hasYear, hasMonth, hasDay]

/-- **a date written in a layout is read back by the same layout**, for every accepted civil date with a four-digit
    year and every layout that names year, month and day and keeps variable-width numbers apart from the next digit -/
theorem parse_format (l : Layout) (c : Civil) (hl : roundTrips l = true) (hc : CivilOK c) : parse l (format l c) = some c := by
  simp only [roundTrips, Bool.and_eq_true] at hl
  obtain ⟨⟨⟨hy, hm⟩, hd⟩, hu⟩ := hl
  unfold parse
  rw [parseToks_format c hc l {} hu]
  simp only [upd, hy, hm, hd, if_true]
  have := hc.monthLo; have := hc.monthHi; have := hc.dayLo; have := hc.dayHi
  simp
  omega

/-- the default layout and the CSV layout qualify -/
example : (parseLayout Facts.defaultDateFormat).map roundTrips = some true := by decide
example : (parseLayout Facts.csvTimeFormat).map roundTrips = some true := by decide
example : parse [.day1, .lit 46, .month1, .lit 46, .year4] (format [.day1, .lit 46, .month1, .lit 46, .year4] ⟨2021, 3, 7⟩) = some ⟨2021, 3, 7⟩ := by
  decide +kernel

/-- whatever the date reader accepts is a date of the calendar -/
theorem parse_valid (l : Layout) (s : Bytes) (c : Civil) (h : parse l s = some c) :
    1 ≤ c.m ∧ c.m ≤ 12 ∧ 1 ≤ c.d ∧ c.d ≤ daysIn c.m c.y := by
  unfold parse at h
  cases hp : parseToks l s {} with
  | none => rw [hp] at h; cases h
  | some p =>
    rw [hp] at h
    simp only at h
    split at h
    · cases h
    · split at h
      · cases h
      · rename_i h1 h2
        simp only [Option.some.injEq] at h
        subst h
        simp only [Bool.or_eq_true, decide_eq_true_eq, not_or, Nat.not_lt] at h1 h2
        refine ⟨?_, ?_, ?_, ?_⟩ <;> simp only [] <;> omega

end Date
end Hrano
