import HranoModel.Lemmas.ResolveMain
/-
  Helper lemmas: the outer loop `Resolve` over a visiting order; uniqueness of resolved lists.
-/
namespace Hrano
open Spec
namespace Resolver

theorem inv_init (B : Book) : Inv B { db := B, heights := [] } :=
  ⟨rfl, fun n h hd => by simp [doneAt, heightOf] at hd, fun _ _ => rfl⟩

/-- the outer loop: succeeds iff every visited name resolves within the fuel; the final state is consistent
    and every visited recipe is finished -/
theorem go_ok (B : Book) (N : Nat) : ∀ (order : List Bytes) (st : RState), Inv B st →
    (∀ n ∈ order, specNode B N n ≠ none) →
    ∃ st', resolveAll.go (N : Int) order st = .ok st'.db ∧ Inv B st' ∧ Keeps st st'
      ∧ ∀ n ∈ order, (B.lookup n).isSome → (doneAt st' n).isSome := by
  intro order
  induction order with
  | nil => intro st hinv _; exact ⟨st, rfl, hinv, fun _ _ h => h, by simp⟩
  | cons x xs ih =>
    intro st hinv hall
    have hx := hall x (List.mem_cons_self)
    have hn := node_ok B N x st hinv
    cases hs : specNode B N x with
    | none => exact absurd hs hx
    | some v =>
      obtain ⟨h, ps⟩ := v
      rw [hs] at hn
      obtain ⟨st1, hrn, hinv1, hkeep1, hdone1⟩ := hn
      obtain ⟨st', hgo, hinv', hkeep', hdone'⟩ := ih st1 hinv1 (fun n hn => hall n (List.mem_cons_of_mem _ hn))
      refine ⟨st', ?_, hinv', fun y hy h' => hkeep' y hy (hkeep1 y hy h'), ?_⟩
      · simp only [resolveAll.go, Int.toNat_natCast, hrn]
        exact hgo
      · intro n hn hrec
        rcases List.mem_cons.mp hn with rfl | hn
        · have := hkeep' _ _ (hdone1 hrec)
          simp [this]
        · exact hdone' n hn hrec

theorem go_err (B : Book) (N : Nat) : ∀ (order : List Bytes) (st : RState), Inv B st →
    (∃ n ∈ order, specNode B N n = none) → resolveAll.go (N : Int) order st = .error .depth := by
  intro order
  induction order with
  | nil => intro st _ h; obtain ⟨n, hn, _⟩ := h; cases hn
  | cons x xs ih =>
    intro st hinv hex
    have hn := node_ok B N x st hinv
    cases hs : specNode B N x with
    | none =>
      rw [hs] at hn
      simp only [resolveAll.go, Int.toNat_natCast, hn]
    | some v =>
      obtain ⟨h, ps⟩ := v
      rw [hs] at hn
      obtain ⟨st1, hrn, hinv1, _, _⟩ := hn
      simp only [resolveAll.go, Int.toNat_natCast, hrn]
      apply ih st1 hinv1
      obtain ⟨n, hn, hnone⟩ := hex
      rcases List.mem_cons.mp hn with rfl | hn
      · rw [hs] at hnone; cases hnone
      · exact ⟨n, hn, hnone⟩

end Resolver

namespace Spec

/-- a resolved list is determined by the paths -/
theorem resolved_unique (ps a b : Elements) (ha : Resolved ps a) (hb : Resolved ps b) : a = b := by
  have hperm : (a.map (·.name)).Perm (b.map (·.name)) :=
    (List.perm_ext_iff_of_nodup ha.nodup hb.nodup).mpr (fun x => by rw [ha.names, hb.names])
  have hnames : a.map (·.name) = b.map (·.name) := by
    refine List.Perm.eq_of_pairwise ?_ ha.sorted hb.sorted hperm
    intro x y _ _ hxy hyx
    exact Bytes.le_antisymm _ _ hxy hyx
  -- same names in the same order, same amount under every name
  have hval : ∀ n, Elements.valueAt a n = Elements.valueAt b n := fun n => by rw [ha.value, hb.value]
  clear hperm
  have hnda := ha.nodup
  clear ha hb
  induction a generalizing b with
  | nil => cases b with
    | nil => rfl
    | cons y ys => simp at hnames
  | cons x xs ih =>
    cases b with
    | nil => simp at hnames
    | cons y ys =>
      simp only [List.map_cons, List.cons.injEq] at hnames
      simp only [List.map_cons, List.nodup_cons] at hnda
      have hxy : x = y := by
        have := hval x.name
        simp only [Elements.valueAt, List.find?, BEq.rfl] at this
        have hyx : (y.name == x.name) = true := by simp [hnames.1]
        simp only [hyx] at this
        cases x; cases y
        simp only at hnames this
        simp [hnames.1, this]
      subst hxy
      congr 1
      apply ih ys hnames.2 ?_ hnda.2
      intro n
      have := hval n
      by_cases hn : (x.name == n) = true
      · -- n is the head's name: it occurs in neither tail
        have hxn : x.name = n := by simpa using hn
        have h1 : n ∉ xs.map (·.name) := hxn ▸ hnda.1
        have h2 : n ∉ ys.map (·.name) := hnames.2 ▸ h1
        have z1 : Elements.valueAt xs n = 0 := by
          rw [← Elements.valueAt_eq_sumOf_of_nodup xs hnda.2]; exact Elements.sumOf_zero_of_not_mem n xs h1
        have z2 : Elements.valueAt ys n = 0 := by
          have hndy : (Elements.names ys).Nodup := by simp only [Elements.names]; rw [← hnames.2]; exact hnda.2
          rw [← Elements.valueAt_eq_sumOf_of_nodup ys hndy]; exact Elements.sumOf_zero_of_not_mem n ys h2
        rw [z1, z2]
      · have hn' : (x.name == n) = false := by simpa using hn
        simpa [Elements.valueAt, List.find?, hn'] using this

end Spec
end Hrano
