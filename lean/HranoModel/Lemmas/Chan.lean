import HranoModel.Model.Chan
/-
  Helper lemmas for C18: the invariant of the producer/consumer transition system.
-/
namespace Hrano
namespace Chan

def remaining : PState → List Msg
  | .working r => r
  | .offering m r => m :: r
  | .exited => []

def pm : PState → Nat
  | .working r => 2 * r.length + 1
  | .offering _ r => 2 * r.length + 2
  | .exited => 0

def cm : CState → Nat
  | .handling _ => 1
  | _ => 0

/-- strictly decreases along every transition, so every execution is finite -/
def measure (cfg : Config) : Nat := 2 * pm cfg.p + cm cfg.c

theorem step_measure (pol : Policy) (cfg cfg' : Config) (ch : Choice) (h : step pol cfg ch = some cfg') :
    measure cfg' < measure cfg := by
  obtain ⟨p, c, rcv⟩ := cfg
  cases ch with
  | producerStep =>
    cases p with
    | working r =>
      cases r with
      | nil => simp [step] at h; subst h; simp [measure, pm]
      | cons m r => simp [step] at h; subst h; simp [measure, pm]; omega
    | offering m r => simp [step] at h
    | exited => simp [step] at h
  | consumerStep =>
    cases c with
    | handling m =>
      simp [step] at h; subst h
      by_cases hst : stops pol m = true <;> simp [measure, cm, hst]
    | selecting => simp [step] at h
    | returned => simp [step] at h
  | rendezvous =>
    cases p with
    | offering m r =>
      cases c with
      | selecting => simp [step] at h; subst h; simp [measure, pm, cm]; omega
      | handling _ => simp [step] at h
      | returned => simp [step] at h
    | working r => simp [step] at h
    | exited => simp [step] at h

/-- the consumer's view is consistent with what the producer still has to send -/
structure Inv (pol : Policy) (ms : List Msg) (cfg : Config) : Prop where
  split : cfg.received ++ remaining cfg.p = ms
  cons : match cfg.c with
    | .selecting => ∀ m ∈ cfg.received, stops pol m = false
    | .handling m => ∃ ini, cfg.received = ini ++ [m] ∧ ∀ x ∈ ini, stops pol x = false
    | .returned => ∃ ini m, cfg.received = ini ++ [m] ∧ stops pol m = true ∧ ∀ x ∈ ini, stops pol x = false

theorem inv_init (pol : Policy) (ms : List Msg) : Inv pol ms (init ms) :=
  ⟨by simp [init, remaining], by simp [init]⟩

theorem inv_step (pol : Policy) (ms : List Msg) (cfg cfg' : Config) (ch : Choice)
    (hi : Inv pol ms cfg) (h : step pol cfg ch = some cfg') : Inv pol ms cfg' := by
  obtain ⟨hs, hc⟩ := hi
  obtain ⟨p, c, rcv⟩ := cfg
  simp only at hs hc
  cases ch with
  | producerStep =>
    cases p with
    | working r =>
      cases r with
      | nil => simp [step] at h; subst h; exact ⟨by simpa [remaining] using hs, hc⟩
      | cons m r => simp [step] at h; subst h; exact ⟨by simpa [remaining] using hs, hc⟩
    | offering m r => simp [step] at h
    | exited => simp [step] at h
  | consumerStep =>
    cases c with
    | handling m =>
      simp [step] at h; subst h
      obtain ⟨ini, hr, hini⟩ := hc
      refine ⟨hs, ?_⟩
      by_cases hst : stops pol m = true
      · simp only [hst, if_true]
        exact ⟨ini, m, hr, hst, hini⟩
      · have hst' : stops pol m = false := by simpa using hst
        simp only [hst', Bool.false_eq_true, if_false]
        intro x hx
        rw [hr] at hx
        rcases List.mem_append.mp hx with hx | hx
        · exact hini x hx
        · simp at hx; rw [hx]; exact hst'
    | selecting => simp [step] at h
    | returned => simp [step] at h
  | rendezvous =>
    cases p with
    | offering m r =>
      cases c with
      | selecting =>
        simp [step] at h; subst h
        refine ⟨?_, ?_⟩
        · simpa [remaining] using hs
        · exact ⟨rcv, rfl, hc⟩
      | handling _ => simp [step] at h
      | returned => simp [step] at h
    | working r => simp [step] at h
    | exited => simp [step] at h

/-- configurations reachable from the initial one by any sequence of enabled transitions -/
inductive Reachable (pol : Policy) (ms : List Msg) : Config → Prop where
  | init : Reachable pol ms (init ms)
  | step (cfg cfg' : Config) (ch : Choice) : Reachable pol ms cfg → step pol cfg ch = some cfg' → Reachable pol ms cfg'

theorem inv_reachable (pol : Policy) (ms : List Msg) (cfg : Config) (h : Reachable pol ms cfg) : Inv pol ms cfg := by
  induction h with
  | init => exact inv_init pol ms
  | step cfg cfg' ch _ hstep ih => exact inv_step pol ms cfg cfg' ch ih hstep

theorem expected_prefix (pol : Policy) : ∀ (ini : List Msg) (m : Msg) (rest : List Msg),
    (∀ x ∈ ini, stops pol x = false) → stops pol m = true → expected pol (ini ++ m :: rest) = ini ++ [m]
  | [], m, rest, _, hm => by simp [expected, hm]
  | x :: ini, m, rest, hini, hm => by
    have hx : stops pol x = false := hini x (List.mem_cons_self)
    have := expected_prefix pol ini m rest (fun y hy => hini y (List.mem_cons_of_mem _ hy)) hm
    simp [expected, hx, this]

theorem runSchedule_reachable (pol : Policy) (ms : List Msg) : ∀ (sched : List Choice) (cfg : Config),
    Reachable pol ms cfg → Reachable pol ms (runSchedule pol sched cfg)
  | [], _, h => h
  | ch :: r, cfg, h => by
    unfold runSchedule
    split
    · rename_i cfg' hs
      exact runSchedule_reachable pol ms r cfg' (Reachable.step cfg cfg' ch h hs)
    · exact runSchedule_reachable pol ms r cfg h

end Chan
end Hrano
