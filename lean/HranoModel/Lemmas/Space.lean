import HranoModel.Lemmas.Trim
namespace Hrano
namespace Bytes

/-- first bytes of the encodings of the `unicode.IsSpace` runes -/
def spaceLead : List UInt8 := [0x09, 0x0A, 0x0B, 0x0C, 0x0D, 0x20, 0xC2, 0xE1, 0xE2, 0xE3]
/-- last bytes of those encodings -/
def spaceTail : List UInt8 := [0x09, 0x0A, 0x0B, 0x0C, 0x0D, 0x20, 0x85, 0xA0, 0x80, 0x81, 0x82, 0x83, 0x84, 0x86, 0x87, 0x88, 0x89, 0x8A, 0xA8, 0xA9, 0xAF, 0x9F]

theorem leadingSpaceWidth_none (x : UInt8) (xs : Bytes) (h : ∀ y ∈ spaceLead, x ≠ y) : leadingSpaceWidth (x :: xs) = none := by
  have e : ∀ y : UInt8, y ∈ spaceLead → (y == x) = false := fun y hy => by
    have := h y hy
    cases hh : y == x
    · rfl
    · exact absurd (eq_of_beq hh).symm this
  have e1 := e 0x09 (by decide); have e2 := e 0x0A (by decide); have e3 := e 0x0B (by decide); have e4 := e 0x0C (by decide)
  have e5 := e 0x0D (by decide); have e6 := e 0x20 (by decide); have e7 := e 0xC2 (by decide); have e8 := e 0xE1 (by decide)
  have e9 := e 0xE2 (by decide); have e10 := e 0xE3 (by decide)
  unfold leadingSpaceWidth spaceRunes
  simp only [List.find?, List.isPrefixOf, e1, e2, e3, e4, e5, e6, e7, e8, e9, e10, Bool.false_and]

theorem trimSpaceLeft_stop (x : UInt8) (xs : Bytes) (h : ∀ y ∈ spaceLead, x ≠ y) : trimSpaceLeft (x :: xs) = x :: xs := by
  unfold trimSpaceLeft
  simp only [List.length_cons]
  rw [trimSpaceLeft.go, leadingSpaceWidth_none x xs h]

theorem trimSpaceLeft_blank (s : Bytes) : trimSpaceLeft (32 :: s) = trimSpaceLeft s := by
  unfold trimSpaceLeft
  simp only [List.length_cons]
  rw [trimSpaceLeft.go]
  have : leadingSpaceWidth (32 :: s) = some 1 := by
    simp [leadingSpaceWidth, spaceRunes, List.find?, List.isPrefixOf]
  rw [this]
  simp

theorem trimSpaceRight_stop (xs : Bytes) (x : UInt8) (h : ∀ y ∈ spaceTail, x ≠ y) : trimSpaceRight (xs ++ [x]) = xs ++ [x] := by
  have e : ∀ y : UInt8, y ∈ spaceTail → (y == x) = false := fun y hy => by
    have := h y hy
    cases hh : y == x
    · rfl
    · exact absurd (eq_of_beq hh).symm this
  unfold trimSpaceRight
  have hlen : (xs ++ [x]).length = xs.length + 1 := by simp
  have hrev : (xs ++ [x]).reverse = x :: xs.reverse := by simp
  rw [hlen, hrev, trimSpaceRight.go]
  have hfind : spaceRunes.find? (fun sp => sp.reverse.isPrefixOf (x :: xs.reverse)) = none := by
    unfold spaceRunes
    simp only [List.find?, List.reverse_cons, List.reverse_nil, List.nil_append, List.cons_append, List.isPrefixOf,
      e 0x09 (by decide), e 0x0A (by decide), e 0x0B (by decide), e 0x0C (by decide), e 0x0D (by decide), e 0x20 (by decide),
      e 0x85 (by decide), e 0xA0 (by decide), e 0x80 (by decide), e 0x81 (by decide), e 0x82 (by decide), e 0x83 (by decide),
      e 0x84 (by decide), e 0x86 (by decide), e 0x87 (by decide), e 0x88 (by decide), e 0x89 (by decide), e 0x8A (by decide),
      e 0xA8 (by decide), e 0xA9 (by decide), e 0xAF (by decide), e 0x9F (by decide), Bool.false_and]
  rw [hfind]
  simp

theorem trimSpace_plain (x : UInt8) (mid : Bytes) (y : UInt8) (hx : ∀ z ∈ spaceLead, x ≠ z) (hy : ∀ z ∈ spaceTail, y ≠ z) :
    trimSpace (x :: (mid ++ [y])) = x :: (mid ++ [y]) := by
  unfold trimSpace
  rw [trimSpaceLeft_stop x _ hx, show x :: (mid ++ [y]) = (x :: mid) ++ [y] from rfl, trimSpaceRight_stop _ y hy]

theorem trimSpace_single (x : UInt8) (hx : ∀ z ∈ spaceLead, x ≠ z) (hy : ∀ z ∈ spaceTail, x ≠ z) : trimSpace [x] = [x] := by
  unfold trimSpace
  rw [trimSpaceLeft_stop x _ hx, show [x] = [] ++ [x] from rfl, trimSpaceRight_stop _ x hy]

end Bytes
end Hrano
