import HranoModel.Model.Sink
/-
  Helper lemmas for C17: bufio.Writer over a failing sink.
-/
namespace Hrano
namespace BufW

/-- no error so far: everything offered is either accepted by the sink or still buffered -/
structure Ok (k : Nat) (D : Bytes) (w : BufW) : Prop where
  noerr : w.err = false
  data : w.sink.got ++ w.buf = D
  cap : w.sink.cap + w.sink.got.length = k

/-- an error has happened: the sink holds exactly the first `k` bytes and more than `k` were offered -/
structure Lost (k : Nat) (D : Bytes) (w : BufW) : Prop where
  err : w.err = true
  got : w.sink.got = D.take k
  short : k < D.length

def Good (k : Nat) (D : Bytes) (w : BufW) : Prop := Ok k D w ∨ Lost k D w

theorem sink_write_fits (s : Sink) (p : Bytes) (h : p.length ≤ s.cap) :
    s.write p = ({ cap := s.cap - p.length, got := s.got ++ p }, p.length, false) := by
  simp [Sink.write, h]

theorem sink_write_over (s : Sink) (p : Bytes) (h : ¬ p.length ≤ s.cap) :
    s.write p = ({ cap := 0, got := s.got ++ p.take s.cap }, s.cap, true) := by
  simp [Sink.write, h]

theorem lost_mono (k : Nat) (D p : Bytes) (w : BufW) (h : Lost k D w) : Lost k (D ++ p) w :=
  ⟨h.err, by rw [h.got, List.take_append_of_le_length (Nat.le_of_lt h.short)], by
    have := h.short; simp; omega⟩

theorem take_got_append (got buf : Bytes) (c : Nat) : (got ++ buf).take (c + got.length) = got ++ buf.take c := by
  rw [List.take_append]
  have h1 : List.take (c + got.length) got = got := List.take_of_length_le (by omega)
  have h2 : c + got.length - got.length = c := by omega
  rw [h1, h2]

theorem flush_good (k : Nat) (D : Bytes) (w : BufW) (h : Ok k D w) :
    (Ok k D (flush w) ∧ (flush w).buf = [] ∧ (flush w).size = w.size) ∨ Lost k D (flush w) := by
  obtain ⟨he, hd, hc⟩ := h
  by_cases hb : w.buf.isEmpty = true
  · have hfl : flush w = w := by simp [flush, he, hb]
    have : w.buf = [] := by simpa using hb
    rw [hfl]
    exact Or.inl ⟨⟨he, hd, hc⟩, this, rfl⟩
  · by_cases hf : w.buf.length ≤ w.sink.cap
    · have hfl : flush w = { w with sink := { cap := w.sink.cap - w.buf.length, got := w.sink.got ++ w.buf }, buf := [] } := by
        simp [flush, he, hb, sink_write_fits _ _ hf]
      rw [hfl]
      refine Or.inl ⟨⟨he, by simpa using hd, ?_⟩, rfl, rfl⟩
      simp only [List.length_append]
      omega
    · have hfl : flush w = { w with sink := { cap := 0, got := w.sink.got ++ w.buf.take w.sink.cap }, buf := w.buf.drop w.sink.cap, err := true } := by
        simp [flush, he, hb, sink_write_over _ _ hf]
      rw [hfl]
      refine Or.inr ⟨rfl, ?_, ?_⟩
      · show w.sink.got ++ w.buf.take w.sink.cap = D.take k
        rw [← hd, ← hc, take_got_append]
      · rw [← hd, ← hc]; simp only [List.length_append]; omega

theorem direct_good (k : Nat) (D p : Bytes) (w : BufW) (h : Ok k D w) (hb : w.buf = []) :
    (Ok k (D ++ p) (direct w p) ∧ (direct w p).buf = [] ∧ (direct w p).size = w.size) ∨ Lost k (D ++ p) (direct w p) := by
  obtain ⟨he, hd, hc⟩ := h
  rw [hb, List.append_nil] at hd
  unfold direct
  by_cases hf : p.length ≤ w.sink.cap
  · rw [sink_write_fits _ _ hf]
    refine Or.inl ⟨⟨rfl, by simp [hb, hd], ?_⟩, hb, rfl⟩
    simp only [List.length_append]; omega
  · rw [sink_write_over _ _ hf]
    refine Or.inr ⟨rfl, ?_, ?_⟩
    · simp only
      rw [← hd, ← hc, take_got_append]
    · rw [← hd, ← hc]; simp only [List.length_append]; omega

theorem write_good (k : Nat) (D p : Bytes) (w : BufW) (h : Good k D w) : Good k (D ++ p) (write w p) := by
  rcases h with h | h
  · -- no error so far
    have he := h.noerr
    by_cases h1 : p.length ≤ w.size - w.buf.length
    · have hw : write w p = { w with buf := w.buf ++ p } := by simp [write, he, h1]
      rw [hw]
      exact Or.inl ⟨he, by simp [← h.data, List.append_assoc], h.cap⟩
    · by_cases h2 : w.buf.isEmpty = true
      · have hw : write w p = direct w p := by simp [write, he, h1, h2]
        rw [hw]
        have hb : w.buf = [] := by simpa using h2
        rcases direct_good k D p w h hb with h' | h'
        · exact Or.inl h'.1
        · exact Or.inr h'
      · -- fill the buffer and flush
        let avail := w.size - w.buf.length
        let w1 : BufW := { w with buf := w.buf ++ p.take avail }
        have hfill : Ok k (D ++ p.take avail) w1 :=
          ⟨he, by simp [w1, ← h.data, List.append_assoc], h.cap⟩
        have hsplit : D ++ p = (D ++ p.take avail) ++ p.drop avail := by simp [List.append_assoc]
        have hw : write w p =
            (if (flush w1).err then flush w1
             else if (p.drop avail).length ≤ (flush w1).size - (flush w1).buf.length then { flush w1 with buf := (flush w1).buf ++ p.drop avail }
             else direct (flush w1) (p.drop avail)) := by
          simp [write, he, h1, h2, w1, avail]
        rw [hw, hsplit]
        rcases flush_good k _ _ hfill with ⟨hok, hbuf, _⟩ | hlost
        · have hne : (flush w1).err = false := hok.noerr
          simp only [hne, Bool.false_eq_true, if_false]
          by_cases h3 : (p.drop avail).length ≤ (flush w1).size - (flush w1).buf.length
          · simp only [h3, if_true]
            exact Or.inl ⟨rfl, by simp [← hok.data, List.append_assoc], hok.cap⟩
          · simp only [h3, if_false]
            rcases direct_good k _ (p.drop avail) _ hok hbuf with h' | h'
            · exact Or.inl h'.1
            · exact Or.inr h'
        · have : (flush w1).err = true := hlost.err
          simp only [this, if_true]
          exact Or.inr (lost_mono k _ _ _ hlost)
  · -- already failed: sticky
    have hw : write w p = w := by simp [write, h.err]
    rw [hw]
    exact Or.inr (lost_mono k D p w h)

theorem foldl_write_good (k : Nat) : ∀ (chunks : List Bytes) (D : Bytes) (w : BufW),
    Good k D w → Good k (D ++ chunks.flatten) (chunks.foldl write w) := by
  intro chunks
  induction chunks with
  | nil => intro D w h; simpa using h
  | cons c cs ih =>
    intro D w h
    have := ih (D ++ c) (write w c) (write_good k D c w h)
    simpa [List.append_assoc] using this

theorem new_good (size k : Nat) : Good k [] (new size k) :=
  Or.inl ⟨rfl, rfl, by simp [new]⟩

end BufW
end Hrano
