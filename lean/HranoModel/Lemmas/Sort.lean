import HranoModel.Lemmas.Order
import HranoModel.Model.Reports
/-
  Helper lemmas: insertion sort by a byte-string key.  The three sorts of the model
  (Elements.sort, Accumulator.sorted, Report.sortBook) are instances.
-/
namespace Hrano
namespace Srt

variable {α : Type}

def insertBy (key : α → Bytes) (e : α) : List α → List α
  | [] => [e]
  | x :: xs => if Bytes.le (key e) (key x) then e :: x :: xs else x :: insertBy key e xs

def sortBy (key : α → Bytes) (l : List α) : List α := l.foldr (insertBy key) []

def Sorted (key : α → Bytes) (l : List α) : Prop := l.Pairwise (fun a b => Bytes.le (key a) (key b) = true)

theorem insertBy_perm (key : α → Bytes) (e : α) : ∀ l, (insertBy key e l).Perm (e :: l)
  | [] => List.Perm.refl _
  | x :: xs => by
    unfold insertBy
    split
    · exact List.Perm.refl _
    · exact ((insertBy_perm key e xs).cons x).trans (List.Perm.swap e x xs)

theorem sortBy_perm (key : α → Bytes) : ∀ l, (sortBy key l).Perm l
  | [] => List.Perm.refl _
  | x :: xs => by
    show (insertBy key x (sortBy key xs)).Perm (x :: xs)
    exact (insertBy_perm key x _).trans ((sortBy_perm key xs).cons x)

theorem insertBy_sorted (key : α → Bytes) (e : α) : ∀ l, Sorted key l → Sorted key (insertBy key e l)
  | [], _ => by simp [insertBy, Sorted]
  | x :: xs, h => by
    unfold insertBy
    have hx : ∀ b ∈ xs, Bytes.le (key x) (key b) = true := (List.pairwise_cons.mp h).1
    have hxs : Sorted key xs := (List.pairwise_cons.mp h).2
    split
    · rename_i hle
      refine List.pairwise_cons.mpr ⟨?_, h⟩
      intro b hb
      rcases List.mem_cons.mp hb with rfl | hb
      · exact hle
      · exact Bytes.le_trans _ _ _ hle (hx b hb)
    · rename_i hnle
      have hxe : Bytes.le (key x) (key e) = true := by
        rcases Bytes.le_total (key e) (key x) with h1 | h1
        · exact absurd h1 hnle
        · exact h1
      refine List.pairwise_cons.mpr ⟨?_, insertBy_sorted key e xs hxs⟩
      intro b hb
      have := (insertBy_perm key e xs).mem_iff.mp hb
      rcases List.mem_cons.mp this with rfl | hb'
      · exact hxe
      · exact hx b hb'

theorem sortBy_sorted (key : α → Bytes) : ∀ l, Sorted key (sortBy key l)
  | [] => List.Pairwise.nil
  | x :: xs => insertBy_sorted key x _ (sortBy_sorted key xs)

/-- two sorted arrangements of the same elements coincide when keys are distinct -/
theorem sorted_unique (key : α → Bytes) (l₁ l₂ : List α)
    (hinj : ∀ a ∈ l₁, ∀ b ∈ l₁, key a = key b → a = b)
    (h₁ : Sorted key l₁) (h₂ : Sorted key l₂) (hp : l₁.Perm l₂) : l₁ = l₂ := by
  refine List.Perm.eq_of_pairwise ?_ h₁ h₂ hp
  intro a b ha hb hab hba
  exact hinj a ha b (hp.mem_iff.mpr hb) (Bytes.le_antisymm _ _ hab hba)

/-- the result of sorting does not depend on the order in which the elements were collected -/
theorem sortBy_perm_eq (key : α → Bytes) (l₁ l₂ : List α) (hp : l₁.Perm l₂)
    (hinj : ∀ a ∈ l₁, ∀ b ∈ l₁, key a = key b → a = b) : sortBy key l₁ = sortBy key l₂ := by
  apply sorted_unique key _ _ _ (sortBy_sorted key l₁) (sortBy_sorted key l₂)
  · exact (sortBy_perm key l₁).trans (hp.trans (sortBy_perm key l₂).symm)
  · intro a ha b hb
    exact hinj a ((sortBy_perm key l₁).mem_iff.mp ha) b ((sortBy_perm key l₁).mem_iff.mp hb)

/-- sorting an already sorted list changes nothing -/
theorem sortBy_of_sorted (key : α → Bytes) : ∀ l, Sorted key l → sortBy key l = l
  | [], _ => rfl
  | x :: xs, h => by
    have hx : ∀ b ∈ xs, Bytes.le (key x) (key b) = true := (List.pairwise_cons.mp h).1
    have hxs : Sorted key xs := (List.pairwise_cons.mp h).2
    show insertBy key x (sortBy key xs) = x :: xs
    rw [sortBy_of_sorted key xs hxs]
    cases xs with
    | nil => rfl
    | cons y ys => simp [insertBy, hx y (List.mem_cons_self)]

/-! ### the model's sorts are instances -/

theorem elements_insert_eq (e : Element) : ∀ l, Elements.insertSorted e l = insertBy (·.name) e l
  | [] => rfl
  | x :: xs => by simp [Elements.insertSorted, insertBy, elements_insert_eq e xs]

theorem elements_sort_eq (l : Elements) : Elements.sort l = sortBy (·.name) l := by
  induction l with
  | nil => rfl
  | cons x xs ih =>
    show Elements.insertSorted x (Elements.sort xs) = insertBy (·.name) x (sortBy (·.name) xs)
    rw [ih, elements_insert_eq]

theorem acc_insert_eq (e : Acc) : ∀ l, Accumulator.insertSorted e l = insertBy (·.name) e l
  | [] => rfl
  | x :: xs => by simp [Accumulator.insertSorted, insertBy, acc_insert_eq e xs]

theorem acc_sorted_eq (l : Accumulator) : Accumulator.sorted l = sortBy (·.name) l := by
  induction l with
  | nil => rfl
  | cons x xs ih =>
    show Accumulator.insertSorted x (Accumulator.sorted xs) = insertBy (·.name) x (sortBy (·.name) xs)
    rw [ih, acc_insert_eq]

theorem book_ins_eq (e : Bytes × Elements) : ∀ l, Report.sortBook.ins e l = insertBy (·.1) e l
  | [] => rfl
  | x :: xs => by simp [Report.sortBook.ins, insertBy, book_ins_eq e xs]

theorem sortBook_eq (l : Book) : Report.sortBook l = sortBy (·.1) l := by
  induction l with
  | nil => rfl
  | cons x xs ih =>
    show Report.sortBook.ins x (Report.sortBook xs) = insertBy (·.1) x (sortBy (·.1) xs)
    rw [ih, book_ins_eq]

end Srt
end Hrano
