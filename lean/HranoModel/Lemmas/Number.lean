import HranoModel.Lemmas.Fixed
/-
  Helper lemmas: the number reader applied to what the fixed-point printer writes.
-/
namespace Hrano
namespace Num
open Bytes

/-! ### decimal digits of a natural number -/

def digitVal (c : UInt8) : Nat := c.toNat - 48

theorem digitChar_byte : ∀ d, d < 10 → UInt8.ofNat (Nat.digitChar d).toNat = UInt8.ofNat (48 + d) := by decide

theorem natDigits_eq_if (n : Nat) :
    natDigits n = if n < 10 then [UInt8.ofNat (48 + n)] else natDigits (n / 10) ++ [UInt8.ofNat (48 + n % 10)] := by
  unfold natDigits
  rw [Nat.toDigits_eq_if (by omega : 1 < 10)]
  split
  · rename_i h; simp [digitChar_byte n h]
  · simp [digitChar_byte (n % 10) (Nat.mod_lt _ (by omega))]

theorem digit_byte_props : ∀ d, d < 10 → isDigit (UInt8.ofNat (48 + d)) = true ∧ digitVal (UInt8.ofNat (48 + d)) = d := by decide

theorem natDigits_isDigit (n : Nat) : ∀ c ∈ natDigits n, isDigit c = true := by
  induction n using Nat.strongRecOn with
  | _ n ih =>
    rw [natDigits_eq_if]
    split
    · rename_i h
      intro c hc
      simp only [List.mem_singleton] at hc
      subst hc
      exact (digit_byte_props n h).1
    · rename_i h
      intro c hc
      rcases List.mem_append.mp hc with hc | hc
      · exact ih (n / 10) (by omega) c hc
      · simp only [List.mem_singleton] at hc
        subst hc
        exact (digit_byte_props (n % 10) (Nat.mod_lt _ (by omega))).1

theorem natDigits_ne_nil (n : Nat) : natDigits n ≠ [] := by
  rw [natDigits_eq_if]; split <;> simp

/-- the value of a digit string read onto `init` -/
def valOf (ds : Bytes) (init : Nat) : Nat := ds.foldl (fun a c => a * 10 + digitVal c) init

theorem valOf_append (a b : Bytes) (init : Nat) : valOf (a ++ b) init = valOf b (valOf a init) := by
  simp [valOf, List.foldl_append]

theorem valOf_natDigits (n : Nat) : ∀ init, valOf (natDigits n) init = init * 10 ^ (natDigits n).length + n := by
  induction n using Nat.strongRecOn with
  | _ n ih =>
    intro init
    rw [natDigits_eq_if]
    split
    · rename_i h
      simp only [valOf, List.foldl_cons, List.foldl_nil, (digit_byte_props n h).2, List.length_singleton, Nat.pow_one]
    · rename_i h
      rw [valOf_append, ih (n / 10) (by omega)]
      simp only [valOf, List.foldl_cons, List.foldl_nil, (digit_byte_props (n % 10) (Nat.mod_lt _ (by omega))).2,
        List.length_append, List.length_singleton, Nat.pow_succ]
      have := Nat.div_add_mod n 10
      rw [Nat.add_mul, Nat.mul_assoc, Nat.add_assoc]
      omega

theorem natDigits_length_le (n k : Nat) (hk : 0 < k) (h : n < 10 ^ k) : (natDigits n).length ≤ k := by
  unfold natDigits
  rw [List.length_map]
  exact (Nat.length_toDigits_le_iff (by omega) hk).mpr h

theorem valOf_replicate_zero (j : Nat) (init : Nat) : valOf (List.replicate j 48) init = init * 10 ^ j := by
  induction j generalizing init with
  | zero => simp [valOf]
  | succ j ih =>
    rw [List.replicate_succ]
    show valOf (List.replicate j 48) (init * 10 + digitVal 48) = _
    rw [ih]
    simp [digitVal, Nat.pow_succ, Nat.mul_assoc, Nat.mul_comm 10]

theorem natPad_isDigit (w n : Nat) : ∀ c ∈ natPad w n, isDigit c = true := by
  intro c hc
  unfold natPad at hc
  rcases List.mem_append.mp hc with hc | hc
  · rw [List.mem_replicate] at hc
    rw [hc.2]; decide
  · exact natDigits_isDigit n c hc

theorem natPad_length (w n : Nat) (hw : 0 < w) (h : n < 10 ^ w) : (natPad w n).length = w := by
  unfold natPad
  have := natDigits_length_le n w hw h
  simp only [List.length_append, List.length_replicate]
  omega

theorem valOf_natPad (w n : Nat) (hw : 0 < w) (h : n < 10 ^ w) (init : Nat) : valOf (natPad w n) init = init * 10 ^ w + n := by
  unfold natPad
  have hl := natDigits_length_le n w hw h
  simp only []
  rw [valOf_append, valOf_replicate_zero, valOf_natDigits, Nat.mul_assoc, ← Nat.pow_add]
  congr 3
  omega

/-! ### the mantissa scanner on digit strings -/

theorem isDigit_ne (c : UInt8) (h : isDigit c = true) : (c == 95) = false ∧ (c == 46) = false ∧ c ≠ 43 ∧ c ≠ 45 ∧ lower c = c := by
  have h1 : 48 ≤ c.toNat ∧ c.toNat ≤ 57 := by simpa [isDigit] using h
  refine ⟨?_, ?_, ?_, ?_, ?_⟩
  · cases hc : c == 95
    · rfl
    · have := eq_of_beq hc; subst this; simp at h1
  · cases hc : c == 46
    · rfl
    · have := eq_of_beq hc; subst this; simp at h1
  · intro hc; subst hc; simp at h1
  · intro hc; subst hc; simp at h1
  · unfold lower
    have : ¬ (65 ≤ c.toNat ∧ c.toNat ≤ 90) := by omega
    simp [this]

theorem scanMantissa_digits (ds : Bytes) (hd : ∀ c ∈ ds, isDigit c = true) : ∀ (rest : Bytes) (sawDot : Bool) (acc : List Nat) (frac : Nat),
    scanMantissa false (ds ++ rest) sawDot acc frac
      = scanMantissa false rest sawDot ((ds.map digitVal).reverse ++ acc) (if sawDot then frac + ds.length else frac) := by
  induction ds with
  | nil => intro rest sawDot acc frac; simp
  | cons c ds ih =>
    intro rest sawDot acc frac
    have hc := hd c List.mem_cons_self
    obtain ⟨h95, h46, _, _, _⟩ := isDigit_ne c hc
    simp only [List.cons_append]
    rw [scanMantissa]
    simp only [h95, h46, hc, Bool.false_eq_true, if_false, if_true]
    rw [ih (fun c' h => hd c' (List.mem_cons_of_mem _ h))]
    cases sawDot
    · simp [digitVal]
    · simp [digitVal]
      rw [show frac + 1 + ds.length = frac + (ds.length + 1) from by omega]

/-- `D1 . D2` with digit strings `D1`, `D2`: all digits, `|D2|` of them after the dot, nothing left -/
theorem scanMantissa_fixed (d1 d2 : Bytes) (h1 : ∀ c ∈ d1, isDigit c = true) (h2 : ∀ c ∈ d2, isDigit c = true) :
    scanMantissa false (d1 ++ 46 :: d2) false [] 0 = (d1.map digitVal ++ d2.map digitVal, d2.length, true, []) := by
  rw [scanMantissa_digits d1 h1]
  rw [scanMantissa]
  simp only [show ((46 : UInt8) == 95) = false from by decide, show ((46 : UInt8) == 46) = true from by decide,
    Bool.false_eq_true, if_false, if_true]
  have := scanMantissa_digits d2 h2 [] true ((d1.map digitVal).reverse ++ []) 0
  rw [List.append_nil] at this
  rw [this, scanMantissa]
  simp

theorem foldl_vals (ds : Bytes) (init : Nat) : (ds.map digitVal).foldl (fun a d => a * 10 + d) init = valOf ds init := by
  simp [valOf, List.foldl_map]

/-! ### the number reader on `[-]D1.D2` -/

theorem ofString_inf : ofString "inf" = [105, 110, 102] := by decide +kernel
theorem ofString_infinity : ofString "infinity" = [105, 110, 102, 105, 110, 105, 116, 121] := by decide +kernel
theorem ofString_nan : ofString "nan" = [110, 97, 110] := by decide +kernel

theorem contains95_false (t : Bytes) (h : ∀ c ∈ t, isDigit c = true ∨ c = 46 ∨ c = 45) : t.contains 95 = false := by
  induction t with
  | nil => rfl
  | cons c t ih =>
    rw [List.contains_cons, ih (fun c' hc' => h c' (List.mem_cons_of_mem _ hc'))]
    rcases h c List.mem_cons_self with hc | hc | hc
    · have := (isDigit_ne c hc).1
      cases h95 : (95 : UInt8) == c
      · rfl
      · have e := eq_of_beq h95; subst e; exact absurd this (by decide)
    · subst hc; decide
    · subst hc; decide

/-- the reader on an optional minus sign, a non-empty digit string, a dot and a digit string -/
theorem parseFloat_shape (neg : Bool) (x : UInt8) (xs d2 : Bytes)
    (h1 : ∀ c ∈ x :: xs, isDigit c = true) (h2 : ∀ c ∈ d2, isDigit c = true) :
    parseFloat ((if neg then [45] else []) ++ ((x :: xs) ++ 46 :: d2))
      = finish neg false (valOf d2 (valOf (x :: xs) 0)) d2.length 0 := by
  have hx := h1 x List.mem_cons_self
  obtain ⟨hx95, hx46, hx43, hx45, hxl⟩ := isDigit_ne x hx
  have hxn : 48 ≤ x.toNat ∧ x.toNat ≤ 57 := by simpa [isDigit] using hx
  generalize htext : (x :: xs) ++ 46 :: d2 = text
  have htext' : text = x :: (xs ++ 46 :: d2) := by rw [← htext]; rfl
  -- sign handling
  have hstrip : stripSign ((if neg then [45] else []) ++ text) = text := by
    cases neg
    · simp only [Bool.false_eq_true, if_false, List.nil_append]
      rw [htext']
      unfold stripSign
      split
      · rename_i r heq; exact absurd (List.cons.inj heq).1 hx43
      · rename_i r heq; exact absurd (List.cons.inj heq).1 hx45
      · rfl
    · simp [stripSign]
  have hneg : isNeg ((if neg then [45] else []) ++ text) = neg := by
    cases neg
    · simp only [Bool.false_eq_true, if_false, List.nil_append]
      rw [htext']
      unfold isNeg
      split
      · rename_i r heq; exact absurd (List.cons.inj heq).1 hx45
      · rfl
    · simp [isNeg]
  have hempty : ((if neg then [45] else []) ++ text).isEmpty = false := by
    cases neg <;> simp [htext']
  -- no special spelling
  have hlow : text.map lower = x :: (xs ++ 46 :: d2).map lower := by rw [htext']; simp [hxl]
  have hinf : (text.map lower == ofString "inf") = false := by
    rw [hlow, ofString_inf]
    cases h : (x :: (xs ++ 46 :: d2).map lower == [105, 110, 102])
    · rfl
    · have := (List.cons.inj (eq_of_beq h)).1; subst this; simp at hxn
  have hinfinity : (text.map lower == ofString "infinity") = false := by
    rw [hlow, ofString_infinity]
    cases h : (x :: (xs ++ 46 :: d2).map lower == [105, 110, 102, 105, 110, 105, 116, 121])
    · rfl
    · have := (List.cons.inj (eq_of_beq h)).1; subst this; simp at hxn
  have hnan : (text.map lower == ofString "nan") = false := by
    rw [hlow, ofString_nan]
    cases h : (x :: (xs ++ 46 :: d2).map lower == [110, 97, 110])
    · rfl
    · have := (List.cons.inj (eq_of_beq h)).1; subst this; simp at hxn
  -- not hexadecimal
  have hall : ∀ c ∈ text, isDigit c = true ∨ c = 46 ∨ c = 45 := by
    intro c hc
    rw [← htext] at hc
    rcases List.mem_append.mp hc with hc | hc
    · exact Or.inl (h1 c hc)
    · rcases List.mem_cons.mp hc with hc | hc
      · exact Or.inr (Or.inl hc)
      · exact Or.inl (h2 c hc)
  have hhex : hexSplit text = (false, text) := by
    unfold hexSplit
    split
    · rename_i y r
      have hy : lower y ≠ 120 := by
        rcases hall y (by simp) with hy | hy | hy
        · rw [(isDigit_ne y hy).2.2.2.2]
          have : 48 ≤ y.toNat ∧ y.toNat ≤ 57 := by simpa [isDigit] using hy
          intro h; subst h; simp at this
        · subst hy; decide
        · subst hy; decide
      have : (lower y == 120) = false := by
        cases h : lower y == 120
        · rfl
        · exact absurd (eq_of_beq h) hy
      simp [this]
    · rfl
  have hscan := scanMantissa_fixed (x :: xs) d2 h1 h2
  rw [htext] at hscan
  have hc95 : ((if neg then [45] else []) ++ text).contains 95 = false := by
    apply contains95_false
    intro c hc
    rcases List.mem_append.mp hc with hc | hc
    · cases neg
      · simp at hc
      · simp at hc; exact Or.inr (Or.inr hc)
    · exact hall c hc
  have hexp : expPart false [] = some (0, []) := rfl
  unfold parseFloat
  simp only [hempty, hstrip, hneg, hinf, hinfinity, hnan, hhex, hscan, hc95, hexp, Bool.false_eq_true, if_false, Bool.or_self,
    Bool.and_false, Bool.false_and, List.isEmpty_nil, Bool.not_true, List.map_cons, List.cons_append, List.isEmpty_cons]
  rw [show digitVal x :: (List.map digitVal xs ++ List.map digitVal d2) = ((x :: xs) ++ d2).map digitVal from by simp,
    foldl_vals, valOf_append]

/-! ### value and range of a fixed-point text -/

set_option exponentiation.threshold 2000 in
theorem overflow_big : 10 ^ 308 ≤ 2 ^ 1024 - 2 ^ 970 := by decide +kernel

theorem scale_neg (k p : Nat) (hp : 0 < p) : scale 10 k (0 - (p : Int)) = mkRat k (10 ^ p) := by
  unfold scale
  have h1 : ¬ (0 - (p : Int) ≥ 0) := by omega
  have h2 : (-(0 - (p : Int))).toNat = p := by omega
  simp only [h1, if_false, h2]
  rw [Rat.mkRat_eq_div]
  rfl

theorem cast_sub (a b : Nat) (h : b ≤ a) : (((a : Int)) : Q) - ((b : Int) : Q) = ((a - b : Nat) : Q) := by
  rw [← Rat.intCast_sub, ← Int.natCast_sub h, Rat.intCast_natCast]

set_option exponentiation.threshold 2000 in
theorem fixed_lt_overflow (k p : Nat) (hk : k < 10 ^ (308 + p)) : ¬ (mkRat k (10 ^ p) ≥ overflowBound) := by
  rw [ge_iff_le, Rat.not_le, Rat.mkRat_eq_div]
  have hpos : (0 : Q) < ((10 ^ p : Nat) : Q) := Rat.natCast_pos.mpr (pow10_pos p)
  rw [Rat.div_lt_iff hpos]
  have hb : overflowBound = ((2 ^ 1024 - 2 ^ 970 : Nat) : Q) :=
    cast_sub (2 ^ 1024) (2 ^ 970) (Nat.pow_le_pow_right (by omega) (by omega))
  have hkc : (((k : Int)) : Q) = ((k : Nat) : Q) := Rat.intCast_natCast _
  rw [hb, hkc, ← Rat.natCast_mul, Rat.natCast_lt_natCast]
  calc k < 10 ^ (308 + p) := hk
    _ = 10 ^ 308 * 10 ^ p := Nat.pow_add _ _ _
    _ ≤ (2 ^ 1024 - 2 ^ 970) * 10 ^ p := Nat.mul_le_mul_right _ overflow_big

set_option exponentiation.threshold 2000 in
theorem pow10_lt_pow2 : 10 ^ 300 < 2 ^ 1075 := by decide +kernel

theorem rat_lt_of_lt_of_le {a b c : Q} (h1 : a < b) (h2 : b ≤ c) : a < c := by
  rw [← Rat.not_le]
  intro h3
  exact (Rat.not_le.mpr h1) (Rat.le_trans h2 h3)

set_option exponentiation.threshold 2000 in
/-- a non-zero `p`-decimal (`p ≤ 300`) is far above the underflow threshold -/
theorem fixed_gt_underflow (k p : Nat) (hk : 0 < k) (hp2 : p ≤ 300) : ¬ (mkRat k (10 ^ p) ≤ underflowBound) := by
  rw [Rat.not_le, Rat.mkRat_eq_div]
  have hB : (0 : Q) < ((10 ^ p : Nat) : Q) := Rat.natCast_pos.mpr (pow10_pos p)
  have hA : (0 : Q) < ((2 ^ 1075 : Nat) : Q) := Rat.natCast_pos.mpr (Nat.pow_pos (by omega))
  have hub : underflowBound = 1 / ((2 ^ 1075 : Nat) : Q) := by
    unfold underflowBound pow2
    rw [Rat.intCast_natCast]
  rw [hub, Rat.lt_div_iff hB]
  have h1 : (1 : Q) / ((2 ^ 1075 : Nat) : Q) * ((10 ^ p : Nat) : Q) < 1 := by
    rw [Rat.div_def, Rat.one_mul, Rat.mul_comm, ← Rat.div_def, Rat.div_lt_iff hA, Rat.one_mul, Rat.natCast_lt_natCast]
    calc 10 ^ p ≤ 10 ^ 300 := Nat.pow_le_pow_right (by omega) hp2
      _ < 2 ^ 1075 := pow10_lt_pow2
  have h2 : (1 : Q) ≤ (((k : Int)) : Q) := by
    have : ((1 : Int) : Q) ≤ ((k : Int) : Q) := Rat.intCast_le_intCast.mpr (by omega)
    simpa using this
  exact rat_lt_of_lt_of_le h1 h2

theorem finish_fixed (neg : Bool) (p k : Nat) (hp : 0 < p) (hp2 : p ≤ 300) (hk : k < 10 ^ (308 + p)) :
    finish neg false k p 0 = .value (mkRat (if neg then -(k : Int) else (k : Int)) (10 ^ p)) := by
  unfold finish
  by_cases hk0 : k = 0
  · subst hk0; cases neg <;> simp
  · have hbeq : (k == 0) = false := by simp [hk0]
    have hlen1 : 0 < (Nat.toDigits 10 k).length := Nat.length_toDigits_pos
    have hlen2 : (Nat.toDigits 10 k).length ≤ 308 + p := (Nat.length_toDigits_le_iff (by omega) (by omega)).mpr hk
    have c1 : ¬ ((0 : Int) - (p : Int) + ((Nat.toDigits 10 k).length : Int) > 1200) := by omega
    have c2 : ¬ ((0 : Int) - (p : Int) + ((Nat.toDigits 10 k).length : Int) < -1500) := by omega
    simp only [hbeq, Bool.false_eq_true, if_false, c1, c2, scale_neg k p hp, fixed_lt_overflow k p hk,
      fixed_gt_underflow k p (by omega) hp2]
    cases neg
    · rfl
    · simp [Rat.neg_mkRat]

/-- **what the fixed-point printer writes, the number reader reads back exactly**: the text `[-]I.F` of
    `k / 10^p` (as printed by `%.<p>f`) is accepted with the value `±k / 10^p`.  The bounds are those of the
    program's numbers: `k / 10^p < 10^308` (a float64 is smaller than 1.8·10^308). -/
theorem parseFloat_fixedDigits (neg : Bool) (p k : Nat) (hp : 0 < p) (hp2 : p ≤ 300) (hk : k < 10 ^ (308 + p)) :
    parseFloat ((if neg then [45] else []) ++ fixedDigits p k)
      = .value (mkRat (if neg then -(k : Int) else (k : Int)) (10 ^ p)) := by
  have hpz : (p == 0) = false := by
    cases h : p == 0
    · rfl
    · have := eq_of_beq h; omega
  unfold fixedDigits
  simp only [hpz, Bool.false_eq_true, if_false]
  cases hd : natDigits (k / 10 ^ p) with
  | nil => exact absurd hd (natDigits_ne_nil _)
  | cons x xs =>
    have h1 : ∀ c ∈ x :: xs, isDigit c = true := by rw [← hd]; exact natDigits_isDigit _
    have hmod : k % 10 ^ p < 10 ^ p := Nat.mod_lt _ (pow10_pos p)
    have h2 := natPad_isDigit p (k % 10 ^ p)
    rw [parseFloat_shape neg x xs _ h1 h2, natPad_length p _ hp hmod, valOf_natPad p _ hp hmod, ← hd, valOf_natDigits]
    have hk' : 0 * 10 ^ (natDigits (k / 10 ^ p)).length + k / 10 ^ p = k / 10 ^ p := by omega
    rw [hk']
    have hdm : k / 10 ^ p * 10 ^ p + k % 10 ^ p = k := by
      rw [Nat.mul_comm]; exact Nat.div_add_mod k (10 ^ p)
    rw [hdm]
    exact finish_fixed neg p k hp hp2 hk

/-- the same for a rational: reading `%.<p>f` of `q` gives `printedValue p q` -/
theorem parseFloat_fmtFixed (p : Nat) (q : Q) (hp : 0 < p) (hp2 : p ≤ 300) (hq : roundedAt p q < 10 ^ (308 + p)) :
    parseFloat (fmtFixed p q) = .value (printedValue p q) := by
  unfold fmtFixed printedValue
  have := parseFloat_fixedDigits (decide (q.num < 0)) p (roundedAt p q) hp hp2 hq
  simpa using this

end Num
end Hrano
