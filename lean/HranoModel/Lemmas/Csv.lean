import HranoModel.Spec.Csv
/-
  Helper lemmas for C13: the independent reader inverts the writer.
-/
namespace Hrano
namespace Csv
open Report

def escape (f : Bytes) : Bytes := (f.map (fun c => if c == 34 then [34, 34] else [c])).flatten

/-- the reader recognises the end of a field: the rest is empty or starts with something that is not a quote -/
def endsField (rest : Bytes) : Prop := rest = [] ∨ ∃ c r, rest = c :: r ∧ c ≠ 34

theorem readQuoted_close (acc rest : Bytes) (he : endsField rest) : readQuoted (34 :: rest) acc = some (acc.reverse, rest) := by
  rcases he with rfl | ⟨c, r, rfl, hc⟩
  · simp [readQuoted]
  · have : (c == 34) = false := by simpa using hc
    simp [readQuoted, this]

theorem readQuoted_other (c : UInt8) (r acc : Bytes) (h : (c == 34) = false) :
    readQuoted (c :: r) acc = readQuoted r (c :: acc) := by
  cases r <;> simp [readQuoted, h]

theorem readQuoted_doubled (r acc : Bytes) : readQuoted (34 :: 34 :: r) acc = readQuoted r (34 :: acc) := by
  simp [readQuoted]

theorem readQuoted_escape (f : Bytes) : ∀ (acc rest : Bytes), endsField rest →
    readQuoted (escape f ++ 34 :: rest) acc = some (acc.reverse ++ f, rest) := by
  induction f with
  | nil =>
    intro acc rest he
    simp only [escape, List.map_nil, List.flatten_nil, List.nil_append, List.append_nil]
    exact readQuoted_close acc rest he
  | cons c cs ih =>
    intro acc rest he
    by_cases hq : c = 34
    · subst hq
      have : escape (34 :: cs) = 34 :: 34 :: escape cs := by simp [escape]
      rw [this]
      simp only [List.cons_append]
      rw [readQuoted_doubled, ih (34 :: acc) rest he]
      simp
    · have hne : (c == 34) = false := by simpa using hq
      have : escape (c :: cs) = c :: escape cs := by simp [escape, hq]
      rw [this]
      simp only [List.cons_append]
      rw [readQuoted_other _ _ _ hne, ih (c :: acc) rest he]
      simp

theorem readUnquoted_plain (sep : UInt8) (f : Bytes) (hf : ∀ c ∈ f, c ≠ sep ∧ c ≠ 10) : ∀ (acc rest : Bytes),
    (rest = [] ∨ ∃ c r, rest = c :: r ∧ (c = sep ∨ c = 10)) →
    readUnquoted sep (f ++ rest) acc = (acc.reverse ++ f, rest) := by
  induction f with
  | nil =>
    intro acc rest hr
    rcases hr with rfl | ⟨c, r, rfl, hc⟩
    · simp [readUnquoted]
    · have : (c == sep || c == 10) = true := by rcases hc with h | h <;> simp [h]
      simp [readUnquoted, this]
  | cons c cs ih =>
    intro acc rest hr
    have hc := hf c (List.mem_cons_self)
    have : (c == sep || c == 10) = false := by simp [hc.1, hc.2]
    simp only [List.cons_append, readUnquoted, this, Bool.false_eq_true, if_false]
    rw [ih (fun x hx => hf x (List.mem_cons_of_mem _ hx)) (c :: acc) rest hr]
    simp

end Csv
end Hrano

namespace Hrano
namespace Csv
open Report

def sep : UInt8 := Facts.csvSeparator

theorem sep_facts : sep ≠ 10 ∧ sep ≠ 34 := by decide

/-- what follows a field in a record: the separator or the end of the record -/
def afterField (rest : Bytes) : Prop := ∃ c r, rest = c :: r ∧ (c = sep ∨ c = 10)

theorem readField_csvField (f rest : Bytes) (hr : afterField rest) :
    readField sep (csvField f ++ rest) = some (f, rest) := by
  obtain ⟨c, r, rfl, hc⟩ := hr
  have hc34 : c ≠ 34 := by rcases hc with h | h <;> rw [h] <;> simp [sep_facts.2]
  unfold csvField
  by_cases hq : csvNeedsQuotes f = true
  · simp only [hq, if_true]
    have : ([34] ++ (List.map (fun c => if c == 34 then [34, 34] else [c]) f).flatten ++ [34]) ++ c :: r
        = 34 :: (escape f ++ 34 :: c :: r) := by simp [escape]
    rw [this]
    simp only [readField]
    rw [readQuoted_escape f [] (c :: r) (Or.inr ⟨c, r, rfl, hc34⟩)]
    simp
  · have hq' : csvNeedsQuotes f = false := by simpa using hq
    simp only [hq', Bool.false_eq_true, if_false]
    cases f with
    | nil =>
      simp only [List.nil_append]
      have hne : ∀ r', c :: r ≠ 34 :: r' := fun r' h => hc34 (List.cons.inj h).1
      unfold readField
      split
      · rename_i heq; exact absurd heq (hne _)
      · have : (c == sep || c == 10) = true := by rcases hc with h | h <;> simp [h]
        simp [readUnquoted, this]
    | cons x xs =>
      -- no byte of the field needs quoting
      have hany : (x :: xs).any (fun c => c == 10 || c == 13 || c == 34 || c == Facts.csvSeparator) = false := by
        unfold csvNeedsQuotes at hq'
        simp only [List.isEmpty_cons, Bool.false_eq_true, if_false] at hq'
        split at hq'
        · cases hq'
        · split at hq'
          · cases hq'
          · rename_i h2; simpa using h2
      have hall : ∀ c' ∈ x :: xs, c' ≠ sep ∧ c' ≠ 10 ∧ c' ≠ 34 := by
        intro c' hm
        have := List.any_eq_false.mp hany c' hm
        simp only [Bool.or_eq_true, beq_iff_eq, not_or] at this
        exact ⟨this.2, this.1.1.1, this.1.2⟩
      have hx := hall x (List.mem_cons_self)
      unfold readField
      split
      · rename_i heq; simp at heq; exact absurd heq.1 hx.2.2
      · rw [readUnquoted_plain sep (x :: xs) (fun c' hm => ⟨(hall c' hm).1, (hall c' hm).2.1⟩) [] (c :: r) (Or.inr ⟨c, r, rfl, hc⟩)]
        simp

theorem readRecord_csv : ∀ (fs : List Bytes) (fuel : Nat) (acc : List Bytes) (more : Bytes), fs ≠ [] → fs.length ≤ fuel →
    readRecord sep fuel (Bytes.join sep (fs.map csvField) ++ 10 :: more) acc = some (acc.reverse ++ fs, more) := by
  intro fs
  induction fs with
  | nil => intro _ _ _ h; exact absurd rfl h
  | cons f gs ih =>
    intro fuel acc more _ hlen
    cases fuel with
    | zero => simp at hlen
    | succ fuel =>
      cases gs with
      | nil =>
        simp only [List.map_cons, List.map_nil, Bytes.join]
        simp only [readRecord]
        rw [readField_csvField f (10 :: more) ⟨10, more, rfl, Or.inr rfl⟩]
        simp
      | cons g gs' =>
        have hj : Bytes.join sep ((f :: g :: gs').map csvField) ++ 10 :: more
            = csvField f ++ (sep :: (Bytes.join sep ((g :: gs').map csvField) ++ 10 :: more)) := by
          simp [Bytes.join, List.append_assoc]
        rw [hj]
        simp only [readRecord]
        rw [readField_csvField f _ ⟨sep, _, rfl, Or.inl rfl⟩]
        have hs : (sep == (10 : UInt8)) = false := by simpa using sep_facts.1
        simp only
        split
        · rename_i heq; simp at heq; exact absurd heq.1 sep_facts.1
        · rename_i c more' heq
          simp only [List.cons.injEq] at heq
          obtain ⟨rfl, rfl⟩ := heq
          simp only [BEq.rfl, if_true]
          rw [ih fuel (f :: acc) more (by simp) (by simp at hlen ⊢; omega)]
          simp
        · rename_i heq; simp at heq

theorem csvRecord_eq (fs : List Bytes) : csvRecord fs = Bytes.join sep (fs.map csvField) ++ [10] := rfl

theorem length_join_ge (fs : List Bytes) : fs.length ≤ (Bytes.join sep (fs.map csvField)).length + 1 := by
  induction fs with
  | nil => simp
  | cons f gs ih =>
    cases gs with
    | nil => simp [Bytes.join]
    | cons g gs' =>
      simp only [List.map_cons, Bytes.join, List.length_append, List.length_cons] at ih ⊢
      omega

/-- **the reader inverts the writer** for every list of non-empty records -/
theorem readAll_write : ∀ (rows : List (List Bytes)) (fuel : Nat), (∀ r ∈ rows, r ≠ []) → rows.length < fuel →
    readAll sep fuel (rows.map csvRecord).flatten = some rows := by
  intro rows
  induction rows with
  | nil => intro fuel _ hf; cases fuel with
    | zero => cases hf
    | succ fuel => simp [readAll]
  | cons r rs ih =>
    intro fuel hne hf
    cases fuel with
    | zero => cases hf
    | succ fuel =>
      have hr : r ≠ [] := hne r (List.mem_cons_self)
      have hs : (List.map csvRecord (r :: rs)).flatten = Bytes.join sep (r.map csvField) ++ 10 :: (rs.map csvRecord).flatten := by
        simp [csvRecord_eq, List.append_assoc]
      rw [hs]
      cases hcs : Bytes.join sep (r.map csvField) ++ 10 :: (rs.map csvRecord).flatten with
      | nil => simp at hcs
      | cons x xs =>
        simp only [readAll]
        rw [← hcs, readRecord_csv r _ [] _ hr (by
          have := length_join_ge r
          simp only [List.length_append, List.length_cons]
          omega)]
        simp only [List.reverse_nil, List.nil_append]
        rw [ih fuel (fun r' hr' => hne r' (List.mem_cons_of_mem _ hr')) (by simp at hf; omega)]

end Csv
end Hrano
