import HranoModel.Model.Num
/-
  Helper lemmas about `%.Nf`: rounding to nearest with ties to even.
-/
namespace Hrano
namespace Num

/-- the rounded integer is within half a unit of the exact quotient: `|k·d − n| · 2 ≤ d` -/
theorem roundHalfEven_close (n d : Nat) (hd : 0 < d) :
    2 * (roundHalfEven n d * d) ≤ 2 * n + d ∧ 2 * n ≤ 2 * (roundHalfEven n d * d) + d := by
  have h := Nat.div_add_mod n d
  have hr : n % d < d := Nat.mod_lt n hd
  have hm : n / d * d = d * (n / d) := Nat.mul_comm _ _
  unfold roundHalfEven
  simp only
  split
  · rename_i hup
    have h2 : 2 * (n % d) ≥ d := by
      simp only [Bool.or_eq_true, decide_eq_true_eq, Bool.and_eq_true, beq_iff_eq] at hup
      rcases hup with h1 | h1 <;> omega
    rw [Nat.add_mul, Nat.one_mul, hm]
    generalize d * (n / d) = x at h
    omega
  · rename_i hup
    have h2 : 2 * (n % d) ≤ d := by
      simp only [Bool.or_eq_true, decide_eq_true_eq, Bool.and_eq_true, beq_iff_eq, not_or, not_and] at hup
      omega
    rw [hm]
    generalize d * (n / d) = x at h
    omega

/-- an exact multiple is not rounded -/
theorem roundHalfEven_exact (k d : Nat) (hd : 0 < d) : roundHalfEven (k * d) d = k := by
  unfold roundHalfEven
  have h1 : k * d / d = k := Nat.mul_div_cancel k hd
  have h2 : k * d % d = 0 := Nat.mul_mod_left k d
  simp [h1, h2]
  omega

end Num
end Hrano

namespace Hrano
namespace Num

theorem pow10_pos (p : Nat) : 0 < 10 ^ p := Nat.pow_pos (by omega)

/-- numerator and denominator of `k / 10^p` in lowest terms -/
theorem mkRat_cross (k : Int) (p : Nat) :
    (mkRat k (10 ^ p)).num * ((10 ^ p : Nat) : Int) = k * ((mkRat k (10 ^ p)).den : Int) := by
  have h1 : mkRat (mkRat k (10 ^ p)).num (mkRat k (10 ^ p)).den = mkRat k (10 ^ p) := Rat.mkRat_self _
  exact (Rat.mkRat_eq_iff (Rat.den_nz _) (Nat.ne_of_gt (pow10_pos p))).mp h1

/-- an exact `p`-decimal is not rounded at `p` decimals -/
theorem roundedAt_exact (k : Int) (p : Nat) : roundedAt p (mkRat k (10 ^ p)) = k.natAbs := by
  unfold roundedAt
  have h := congrArg Int.natAbs (mkRat_cross k p)
  simp only [Int.natAbs_mul, Int.natAbs_natCast] at h
  rw [h]
  exact roundHalfEven_exact _ _ (Rat.den_pos _)

theorem mkRat_num_neg_iff (k : Int) (p : Nat) : (mkRat k (10 ^ p)).num < 0 ↔ k < 0 := by
  have h := mkRat_cross k p
  have hP : (0 : Int) < ((10 ^ p : Nat) : Int) := by exact_mod_cast pow10_pos p
  have hD : (0 : Int) < ((mkRat k (10 ^ p)).den : Int) := by exact_mod_cast Rat.den_pos _
  constructor
  · intro hn
    by_cases hk : k < 0
    · exact hk
    · have hk : 0 ≤ k := by omega
      have h1 : (mkRat k (10 ^ p)).num * ((10 ^ p : Nat) : Int) < 0 := Int.mul_neg_of_neg_of_pos hn hP
      have h2 : 0 ≤ k * ((mkRat k (10 ^ p)).den : Int) := Int.mul_nonneg hk (Int.le_of_lt hD)
      omega
  · intro hk
    by_cases hn : (mkRat k (10 ^ p)).num < 0
    · exact hn
    · have hn : 0 ≤ (mkRat k (10 ^ p)).num := by omega
      have h1 : k * ((mkRat k (10 ^ p)).den : Int) < 0 := Int.mul_neg_of_neg_of_pos hk hD
      have h2 : 0 ≤ (mkRat k (10 ^ p)).num * ((10 ^ p : Nat) : Int) := Int.mul_nonneg hn (Int.le_of_lt hP)
      omega

/-- printing an exact `p`-decimal prints its digits -/
theorem fmtFixed_exact (k : Int) (p : Nat) :
    fmtFixed p (mkRat k (10 ^ p)) = (if k < 0 then [45] else []) ++ fixedDigits p k.natAbs := by
  unfold fmtFixed
  rw [roundedAt_exact]
  by_cases hk : k < 0
  · simp [hk, (mkRat_num_neg_iff k p).mpr hk]
  · have : ¬ (mkRat k (10 ^ p)).num < 0 := fun h => hk ((mkRat_num_neg_iff k p).mp h)
    simp [hk, this]

/-- the exact value of what `%.<p>f` prints for `q` -/
def printedValue (p : Nat) (q : Q) : Q :=
  mkRat (if q.num < 0 then -(roundedAt p q : Int) else (roundedAt p q : Int)) (10 ^ p)

/-- printing what was printed prints the same (unless a negative value was rounded to zero: the program keeps
    the sign in a float's negative zero, which exact arithmetic does not have) -/
theorem fmtFixed_stable (p : Nat) (q : Q) (h : q.num < 0 → roundedAt p q ≠ 0) :
    fmtFixed p (printedValue p q) = fmtFixed p q := by
  unfold printedValue
  rw [fmtFixed_exact]
  unfold fmtFixed
  by_cases hq : q.num < 0
  · have hne := h hq
    have : (-(roundedAt p q : Int)) < 0 := by omega
    have hpos : 0 < roundedAt p q := by omega
    simp [hq, this, hpos]
  · have : ¬ ((roundedAt p q : Int)) < 0 := by omega
    simp [hq, this]

end Num
end Hrano
