import HranoModel.Model.Bytes
/-
  Helper lemmas about byte-wise trimming and splitting at the last blank.
-/
namespace Hrano
namespace Bytes

/-- every byte of `s` belongs to the cut set -/
def AllIn (cut : List UInt8) (s : Bytes) : Prop := ∀ b ∈ s, cut.contains b = true

theorem trimLeft_allIn (cut : List UInt8) (a b : Bytes) (h : AllIn cut a) : trimLeft cut (a ++ b) = trimLeft cut b := by
  induction a with
  | nil => rfl
  | cons x xs ih =>
    simp only [List.cons_append, trimLeft, h x (List.mem_cons_self), if_true]
    exact ih (fun y hy => h y (List.mem_cons_of_mem _ hy))

theorem trimLeft_stop (cut : List UInt8) (x : UInt8) (xs : Bytes) (h : cut.contains x = false) : trimLeft cut (x :: xs) = x :: xs := by
  show (if cut.contains x then trimLeft cut xs else x :: xs) = x :: xs
  rw [h]; rfl

theorem trimLeft_nil (cut : List UInt8) : trimLeft cut [] = [] := rfl

theorem trimRight_allIn (cut : List UInt8) (a b : Bytes) (h : AllIn cut b) : trimRight cut (a ++ b) = trimRight cut a := by
  unfold trimRight
  rw [List.reverse_append, trimLeft_allIn cut b.reverse a.reverse (fun y hy => h y (List.mem_reverse.mp hy))]

theorem trimRight_stop (cut : List UInt8) (xs : Bytes) (x : UInt8) (h : cut.contains x = false) : trimRight cut (xs ++ [x]) = xs ++ [x] := by
  unfold trimRight
  rw [List.reverse_append]
  simp only [List.reverse_cons, List.reverse_nil, List.nil_append, List.singleton_append]
  rw [trimLeft_stop cut x _ h]
  simp

/-- a non-empty string whose last byte is not in the cut set -/
def EndsOutside (cut : List UInt8) (s : Bytes) : Prop := ∃ xs x, s = xs ++ [x] ∧ cut.contains x = false

/-- a non-empty string whose first byte is not in the cut set -/
def StartsOutside (cut : List UInt8) (s : Bytes) : Prop := ∃ x xs, s = x :: xs ∧ cut.contains x = false

theorem trimRight_endsOutside (cut : List UInt8) (a s : Bytes) (h : EndsOutside cut s) : trimRight cut (a ++ s) = a ++ s := by
  obtain ⟨xs, x, rfl, hx⟩ := h
  rw [← List.append_assoc]
  exact trimRight_stop cut (a ++ xs) x hx

theorem trimLeft_startsOutside (cut : List UInt8) (s : Bytes) (h : StartsOutside cut s) : trimLeft cut s = s := by
  obtain ⟨x, xs, rfl, hx⟩ := h
  exact trimLeft_stop cut x xs hx

/-- `strings.Trim` of  (cut bytes) ++ core ++ (cut bytes)  is the core, when the core starts and ends outside the cut set -/
theorem trim_core (cut : List UInt8) (pre core post : Bytes) (hpre : AllIn cut pre) (hpost : AllIn cut post)
    (hs : StartsOutside cut core) (he : EndsOutside cut core) : trim cut (pre ++ core ++ post) = core := by
  unfold trim
  rw [List.append_assoc, trimLeft_allIn cut pre _ hpre]
  have : StartsOutside cut (core ++ post) := by
    obtain ⟨x, xs, rfl, hx⟩ := hs
    exact ⟨x, xs ++ post, rfl, hx⟩
  rw [trimLeft_startsOutside cut _ this, trimRight_allIn cut core post hpost]
  have := trimRight_endsOutside cut [] core he
  simpa using this

theorem trim_allIn (cut : List UInt8) (s : Bytes) (h : AllIn cut s) : trim cut s = [] := by
  unfold trim
  have := trimLeft_allIn cut s [] h
  simp only [List.append_nil] at this
  rw [this]; rfl

theorem splitLastAny_none (cut : List UInt8) (b : Bytes) (hb : ∀ x ∈ b, cut.contains x = false) : splitLastAny cut b = none := by
  induction b with
  | nil => rfl
  | cons y ys ih =>
    simp only [splitLastAny, ih (fun x hx => hb x (List.mem_cons_of_mem _ hx)), hb y (List.mem_cons_self)]
    rfl

/-- the split at the last byte of the cut set: `a ++ [sep] ++ b` with `sep` in the set and no byte of `b` in it -/
theorem splitLastAny_at (cut : List UInt8) (a b : Bytes) (sep : UInt8) (hsep : cut.contains sep = true)
    (hb : ∀ x ∈ b, cut.contains x = false) : splitLastAny cut (a ++ sep :: b) = some (a, sep :: b) := by
  induction a with
  | nil => simp only [List.nil_append, splitLastAny, splitLastAny_none cut b hb, hsep]; rfl
  | cons y ys ih => simp only [List.cons_append, splitLastAny, ih]

end Bytes
end Hrano
