import HranoModel.Lemmas.Parse
/-
  Helper lemmas for C12: parsing a concatenation of texts.
-/
namespace Hrano

namespace Bytes

theorem splitOn_ne_nil (sep : UInt8) : ∀ s : Bytes, splitOn sep s ≠ [] := by
  intro s
  induction s with
  | nil => simp [splitOn]
  | cons b bs ih =>
    unfold splitOn
    cases h : splitOn sep bs with
    | nil => simp
    | cons p ps => simp only; split <;> simp

/-- splitting at a separator splits the list of pieces -/
theorem splitOn_append_sep (sep : UInt8) : ∀ (a b : Bytes), splitOn sep (a ++ sep :: b) = splitOn sep a ++ splitOn sep b := by
  intro a b
  induction a with
  | nil =>
    simp only [List.nil_append, splitOn]
    cases h : splitOn sep b with
    | nil => exact absurd h (splitOn_ne_nil sep b)
    | cons p ps => simp
  | cons x xs ih =>
    simp only [List.cons_append]
    rw [splitOn, ih]
    cases h : splitOn sep xs with
    | nil => exact absurd h (splitOn_ne_nil sep xs)
    | cons p ps =>
      simp only [List.cons_append]
      rw [splitOn, h]
      split <;> simp

end Bytes

namespace Scanner
open Bytes

theorem rawLines_nil : rawLines [] = [] := by simp [rawLines, splitOn]

/-- a text that ends with LF contributes exactly its lines; what follows starts on a new line -/
theorem rawLines_append (u t₂ : Bytes) : rawLines (u ++ 10 :: t₂) = splitOn 10 u ++ rawLines t₂ := by
  unfold rawLines
  rw [splitOn_append_sep]
  cases h2 : splitOn 10 t₂ with
  | nil => exact absurd h2 (splitOn_ne_nil 10 t₂)
  | cons p ps =>
    have hne : (splitOn 10 u ++ p :: ps).getLast? = (p :: ps).getLast? := by
      rw [List.getLast?_append]
      cases hq : (p :: ps).getLast? with
      | none => simp at hq
      | some v => rfl
    simp only [hne]
    cases hl : (p :: ps).getLast? with
    | none => simp at hl
    | some l =>
      cases l with
      | nil => rw [List.dropLast_append_of_ne_nil (by simp)]
      | cons x xs => rfl

theorem rawLines_terminated (u : Bytes) : rawLines (u ++ [10]) = splitOn 10 u := by
  have := rawLines_append u []
  simpa [rawLines_nil] using this

end Scanner
end Hrano

namespace Hrano
namespace Parser

/-- the record that is open after a list of lines -/
def stateAfter (cc : UInt8) : Option Node → List Bytes → Option Node
  | cur, [] => cur
  | cur, l :: ls =>
    match classify cc l with
    | .skip => stateAfter cc cur ls
    | .heading h => stateAfter cc (some ⟨h, [], []⟩) ls
    | .indented k =>
      match cur with
      | none => stateAfter cc none ls
      | some n =>
        match k with
        | .note m => stateAfter cc (some { n with notes := n.notes ++ [m] }) ls
        | .badSyntax => stateAfter cc cur ls
        | .conversion _ => stateAfter cc cur ls
        | .entry name v => stateAfter cc (some { n with elements := n.elements ++ [⟨name, v⟩] }) ls
        | .entryNonFinite name => stateAfter cc (some { n with elements := n.elements ++ [⟨name, 0⟩] }) ls

theorem parseLines_append (cc : UInt8) (fin : Bool) (ls₂ : List Bytes) : ∀ (ls₁ : List Bytes) (cur : Option Node) (ln : Nat),
    parseLines cc fin cur ln (ls₁ ++ ls₂)
      = parseLines cc false cur ln ls₁ ++ parseLines cc fin (stateAfter cc cur ls₁) (ln + ls₁.length) ls₂ := by
  intro ls₁
  induction ls₁ with
  | nil => intro cur ln; simp [parseLines, stateAfter]
  | cons l r ih =>
    intro cur ln
    have hlen : ln + (l :: r).length = (ln + 1) + r.length := by simp only [List.length_cons]; omega
    simp only [List.cons_append]
    rw [parseLines, parseLines, stateAfter, hlen]
    cases classify cc l with
    | skip => exact ih cur (ln + 1)
    | heading h => simp only [ih, List.append_assoc]
    | indented k =>
      cases cur with
      | none => exact ih none (ln + 1)
      | some n =>
        cases k with
        | note m => exact ih _ (ln + 1)
        | badSyntax => simp only [ih, List.cons_append]
        | conversion t => simp only [ih, List.cons_append]
        | entry name v => exact ih _ (ln + 1)
        | entryNonFinite name => exact ih _ (ln + 1)

theorem parseLines_final (cc : UInt8) (ls : List Bytes) (cur : Option Node) (ln : Nat) :
    parseLines cc true cur ln ls = parseLines cc false cur ln ls ++ flush (stateAfter cc cur ls) := by
  have := parseLines_append cc true [] ls cur ln
  simpa [parseLines] using this

/-- the first line that is not skipped is a heading (or every line is skipped) -/
def HeadFirst (cc : UInt8) : List Bytes → Prop
  | [] => True
  | l :: ls => match classify cc l with
    | .skip => HeadFirst cc ls
    | .heading _ => True
    | .indented _ => False

theorem parseLines_headFirst (cc : UInt8) : ∀ (ls : List Bytes) (cur : Option Node) (ln : Nat), HeadFirst cc ls →
    parseLines cc true cur ln ls = flush cur ++ parseLines cc true none ln ls := by
  intro ls
  induction ls with
  | nil => intro cur ln _; simp [parseLines, flush]
  | cons l r ih =>
    intro cur ln h
    unfold HeadFirst at h
    rw [parseLines, parseLines]
    cases hc : classify cc l with
    | skip => rw [hc] at h; exact ih cur (ln + 1) h
    | heading hd => simp [flush]
    | indented k => rw [hc] at h; exact absurd h id

def shiftErr (k : Nat) : PErr → PErr
  | .badSyntax ln raw => .badSyntax (ln + k) raw
  | .conversion t ln raw => .conversion t (ln + k) raw

def shiftEvent (k : Nat) : Event → Event
  | .node n => .node n
  | .error e => .error (shiftErr k e)

theorem parseLines_shift (cc : UInt8) (fin : Bool) (k : Nat) : ∀ (ls : List Bytes) (cur : Option Node) (ln : Nat),
    parseLines cc fin cur (ln + k) ls = (parseLines cc fin cur ln ls).map (shiftEvent k) := by
  intro ls
  induction ls with
  | nil => intro cur ln; cases fin <;> cases cur <;> simp [parseLines, flush, shiftEvent]
  | cons l r ih =>
    intro cur ln
    have h1 : ln + k + 1 = (ln + 1) + k := by omega
    rw [parseLines, parseLines, h1]
    cases classify cc l with
    | skip => exact ih cur (ln + 1)
    | heading h => cases cur <;> simp [ih, flush, shiftEvent]
    | indented kk =>
      cases cur with
      | none => exact ih none (ln + 1)
      | some n =>
        cases kk with
        | note m => exact ih _ (ln + 1)
        | badSyntax => simp [ih, shiftEvent, shiftErr]
        | conversion t => simp [ih, shiftEvent, shiftErr]
        | entry name v => exact ih _ (ln + 1)
        | entryNonFinite name => exact ih _ (ln + 1)

/-- **parsing a concatenation**: when the second list of lines starts (after comments and blank lines) with a
    heading, the events are those of the first list followed by those of the second, whose error line numbers
    are shifted by the number of lines of the first -/
theorem parse_lines_concat (cc : UInt8) (ls₁ ls₂ : List Bytes) (h : HeadFirst cc ls₂) :
    parseLines cc true none 1 (ls₁ ++ ls₂)
      = parseLines cc true none 1 ls₁ ++ (parseLines cc true none 1 ls₂).map (shiftEvent ls₁.length) := by
  rw [parseLines_append, parseLines_headFirst cc ls₂ _ _ h, ← List.append_assoc, ← parseLines_final]
  congr 1
  exact parseLines_shift cc true ls₁.length ls₂ none 1

end Parser
end Hrano
