import HranoModel.Model.Template
/-!
Helper lemmas for the regenerated row formats of the register (`Facts.reg*Formats`): what each format
parses to, and what `sprintf` over it prints for arbitrary arguments.  These are the proof obligations a
change of a template's `printf` format, `shorten` width or totals line breaks.
-/
namespace Hrano.Tmpl
open Hrano Hrano.Bytes Hrano.Report

@[simp] theorem padLeft_zero (a : Bytes) : padLeft 32 0 a = a := by simp [padLeft]

/-! default template -/
theorem parse_d0 : parseFmt (Facts.regDefaultFormats.getD 0 []) = [.lit 9, .str true 27, .lit 32, .lit 58, .str false 0] := by decide +kernel
theorem parse_d1 : parseFmt (Facts.regDefaultFormats.getD 1 []) = [.lit 9, .lit 9, .str false 20, .lit 32, .str false 0] := by decide +kernel
theorem parse_d2 : parseFmt (Facts.regDefaultFormats.getD 2 [])
    = [.lit 9, .lit 9, .str false 20, .lit 32, .str false 0, .lit 32, .str false 0, .lit 32, .lit 61, .str false 0] := by decide +kernel

theorem row_d0 (n v : Bytes) : sprintf (Facts.regDefaultFormats.getD 0 []) [n, v] = [9] ++ padRight 32 27 n ++ [32, 58] ++ v := by
  unfold sprintf; rw [parse_d0]; simp [render]
theorem row_d1 (n v : Bytes) : sprintf (Facts.regDefaultFormats.getD 1 []) [n, v] = [9, 9] ++ padLeft 32 20 n ++ [32] ++ v := by
  unfold sprintf; rw [parse_d1]; simp [render]
theorem row_d2 (n a b c : Bytes) : sprintf (Facts.regDefaultFormats.getD 2 []) [n, a, b, c]
    = [9, 9] ++ padLeft 32 20 n ++ [32] ++ a ++ [32] ++ b ++ [32, 61] ++ c := by
  unfold sprintf; rw [parse_d2]; simp [render]
theorem head_d : Facts.regDefaultTotalsHead = [9] ++ ofString "-- TOTAL  " ++ dashes 52 := by decide +kernel
theorem widths_d : Facts.regDefaultShorten = [27, 20, 20] := by decide

/-! left-aligned template -/
theorem parse_l0 : parseFmt (Facts.regLeftFormats.getD 0 []) = [.lit 32, .lit 32, .str false 0, .lit 32, .lit 32, .str false 0] := by decide +kernel
theorem parse_l1 : parseFmt (Facts.regLeftFormats.getD 1 [])
    = [.lit 32, .lit 32, .str false 0, .lit 32, .lit 32, .lit 32, .lit 32, .str false 0] := by decide +kernel
theorem parse_l2 : parseFmt (Facts.regLeftFormats.getD 2 [])
    = [.lit 32, .lit 32, .str false 0, .lit 32, .str false 0, .lit 32, .lit 61, .lit 32, .str false 0, .lit 32, .lit 32, .str false 0] := by decide +kernel

theorem row_l0 (v n : Bytes) : sprintf (Facts.regLeftFormats.getD 0 []) [v, n] = [32, 32] ++ v ++ [32, 32] ++ n := by
  unfold sprintf; rw [parse_l0]; simp [render]
theorem row_l1 (v n : Bytes) : sprintf (Facts.regLeftFormats.getD 1 []) [v, n] = [32, 32] ++ v ++ [32, 32, 32, 32] ++ n := by
  unfold sprintf; rw [parse_l1]; simp [render]
theorem row_l2 (a b c n : Bytes) : sprintf (Facts.regLeftFormats.getD 2 []) [a, b, c, n]
    = [32, 32] ++ a ++ [32] ++ b ++ [32, 61, 32] ++ c ++ [32, 32] ++ n := by
  unfold sprintf; rw [parse_l2]; simp [render]
theorem head_l : Facts.regLeftTotalsHead = dashes 55 ++ ofString " TOTAL --" := by decide +kernel

/-! old reporter -/
theorem parse_o0 : parseFmt (Facts.regOldFormats.getD 0 []) = [.str false 0, .lit 10] := by decide +kernel
theorem parse_o1 : parseFmt (Facts.regOldFormats.getD 1 []) = [.lit 9, .str true 27, .lit 32, .lit 58, .str false 0, .lit 10] := by decide +kernel
theorem parse_o2 : parseFmt (Facts.regOldFormats.getD 2 []) = [.lit 9, .lit 9, .str false 20, .lit 32, .str false 0, .lit 10] := by decide +kernel
theorem parse_o3 : parseFmt (Facts.regOldFormats.getD 3 []) = [.lit 9, .lit 45, .lit 45, .lit 32, .str false 0, .lit 32, .str false 0, .lit 10] := by decide +kernel
theorem parse_o4 : parseFmt (Facts.regOldFormats.getD 4 [])
    = [.lit 9, .lit 9, .str false 20, .lit 32, .str false 0, .lit 32, .str false 0, .lit 32, .lit 61, .str false 0, .lit 10] := by decide +kernel

theorem row_o0 (t : Bytes) : sprintf (Facts.regOldFormats.getD 0 []) [t] = t ++ [10] := by
  unfold sprintf; rw [parse_o0]; simp [render]
theorem row_o1 (n v : Bytes) : sprintf (Facts.regOldFormats.getD 1 []) [n, v] = [9] ++ padRight 32 27 n ++ [32, 58] ++ v ++ [10] := by
  unfold sprintf; rw [parse_o1]; simp [render]
theorem row_o2 (n v : Bytes) : sprintf (Facts.regOldFormats.getD 2 []) [n, v] = [9, 9] ++ padLeft 32 20 n ++ [32] ++ v ++ [10] := by
  unfold sprintf; rw [parse_o2]; simp [render]
theorem row_o3 (a b : Bytes) : sprintf (Facts.regOldFormats.getD 3 []) [a, b] = [9, 45, 45, 32] ++ a ++ [32] ++ b ++ [10] := by
  unfold sprintf; rw [parse_o3]; simp [render]
theorem row_o4 (n a b c : Bytes) : sprintf (Facts.regOldFormats.getD 4 []) [n, a, b, c]
    = [9, 9] ++ padLeft 32 20 n ++ [32] ++ a ++ [32] ++ b ++ [32, 61] ++ c ++ [10] := by
  unfold sprintf; rw [parse_o4]; simp [render]
theorem head_o : ofString "-- TOTAL  " = [45, 45, 32] ++ ofString "TOTAL " ++ [32] := by decide +kernel

/-! the period reporters, the balance reporters and `print`: formats with number verbs -/
@[simp] theorem fmtFixedW_zero (p : Nat) (v : Q) : Num.fmtFixedW 0 p v = Num.fmtFixed p v := by simp [Num.fmtFixedW]

theorem parse_t0 : parseFmt (Facts.totalFormats.getD 0 [])
    = [.str false 12, .lit 32, .lit 32, .str false 12, .lit 32, .lit 32, .str false 12, .lit 32, .lit 32, .str false 0, .lit 10] := by decide +kernel
theorem parse_t1 : parseFmt (Facts.totalFormats.getD 1 [])
    = [.flt 12 2, .lit 32, .lit 32, .flt 12 2, .lit 32, .lit 32, .flt 12 2, .lit 32, .lit 32, .str false 0, .lit 10] := by decide +kernel
theorem row_t0 (a b c d : Bytes) : sprintfA (Facts.totalFormats.getD 0 []) [.s a, .s b, .s c, .s d]
    = padLeft 32 12 a ++ [32, 32] ++ padLeft 32 12 b ++ [32, 32] ++ padLeft 32 12 c ++ [32, 32] ++ d ++ [10] := by
  unfold sprintfA; rw [parse_t0]; simp [render]
theorem row_t1 (x y z : Q) (n : Bytes) : sprintfA (Facts.totalFormats.getD 1 []) [.q x, .q y, .q z, .s n]
    = Num.fmtFixedW 12 2 x ++ [32, 32] ++ Num.fmtFixedW 12 2 y ++ [32, 32] ++ Num.fmtFixedW 12 2 z ++ [32, 32] ++ n ++ [10] := by
  unfold sprintfA; rw [parse_t1]; simp [render]

theorem parse_q0 : parseFmt (Facts.quantityFormats.getD 0 []) = [.flt 0 2, .lit 9, .str false 0, .lit 10] := by decide +kernel
theorem parse_q1 : parseFmt (Facts.quantityFormats.getD 1 []) = [.flt 0 2, .lit 9, .str false 0, .lit 10] := by decide +kernel
theorem row_q0 (v : Q) (n : Bytes) : sprintfA (Facts.quantityFormats.getD 0 []) [.q v, .s n] = Num.fmtFixed 2 v ++ [9] ++ n ++ [10] := by
  unfold sprintfA; rw [parse_q0]; simp [render]
theorem row_q1 (v : Q) (n : Bytes) : sprintfA (Facts.quantityFormats.getD 1 []) [.q v, .s n] = Num.fmtFixed 2 v ++ [9] ++ n ++ [10] := by
  unfold sprintfA; rw [parse_q1]; simp [render]

theorem parse_b (i : Nat) (h : i < 4) : parseFmt (Facts.balanceFormats.getD i [])
    = [.flt 10 2, .lit 32, .lit 124, .lit 32, .str false 0, .str false 0, .lit 10] := by
  have : i = 0 ∨ i = 1 ∨ i = 2 ∨ i = 3 := by omega
  rcases this with rfl | rfl | rfl | rfl <;> decide +kernel
theorem row_b (i : Nat) (h : i < 4) (t : Q) (ind label : Bytes) : sprintfA (Facts.balanceFormats.getD i []) [.q t, .s ind, .s label]
    = Num.fmtFixedW 10 2 t ++ [32, 124, 32] ++ ind ++ label ++ [10] := by
  unfold sprintfA; rw [parse_b i h]; simp [render]

theorem parse_bs0 : parseFmt (Facts.balanceSingleFormats.getD 0 []) = [.str false 0, .lit 124, .lit 10] := by decide +kernel
theorem parse_bs1 : parseFmt (Facts.balanceSingleFormats.getD 1 []) = [.flt 10 2, .lit 32, .lit 124, .lit 32, .str false 0, .lit 10] := by decide +kernel
theorem row_bs0 (a : Bytes) : sprintfA (Facts.balanceSingleFormats.getD 0 []) [.s a] = a ++ [124, 10] := by
  unfold sprintfA; rw [parse_bs0]; simp [render]
theorem row_bs1 (t : Q) (x : Bytes) : sprintfA (Facts.balanceSingleFormats.getD 1 []) [.q t, .s x] = Num.fmtFixedW 10 2 t ++ [32, 124, 32] ++ x ++ [10] := by
  unfold sprintfA; rw [parse_bs1]; simp [render]

theorem parse_p0 : parseFmt (Facts.printFormats.getD 0 []) = [.str false 0, .lit 58, .lit 10] := by decide +kernel
theorem parse_p1 : parseFmt (Facts.printFormats.getD 1 [])
    = [.lit 32, .lit 32, .lit 35, .lit 32, .str false 0, .lit 58, .lit 32, .str false 0, .lit 10] := by decide +kernel
theorem parse_p2 : parseFmt (Facts.printFormats.getD 2 []) = [.lit 32, .lit 32, .lit 35, .lit 32, .str false 0, .lit 10] := by decide +kernel
theorem parse_p3 : parseFmt (Facts.printFormats.getD 3 [])
    = [.lit 32, .lit 32, .lit 45, .lit 32, .str false 0, .lit 58, .lit 32, .flt 0 2, .lit 10] := by decide +kernel
theorem row_p0 (d : Bytes) : sprintfA (Facts.printFormats.getD 0 []) [.s d] = d ++ [58, 10] := by
  unfold sprintfA; rw [parse_p0]; simp [render]
theorem row_p1 (n v : Bytes) : sprintfA (Facts.printFormats.getD 1 []) [.s n, .s v] = [32, 32, 35, 32] ++ n ++ [58, 32] ++ v ++ [10] := by
  unfold sprintfA; rw [parse_p1]; simp [render]
theorem row_p2 (v : Bytes) : sprintfA (Facts.printFormats.getD 2 []) [.s v] = [32, 32, 35, 32] ++ v ++ [10] := by
  unfold sprintfA; rw [parse_p2]; simp [render]
theorem row_p3 (n : Bytes) (v : Q) : sprintfA (Facts.printFormats.getD 3 []) [.s n, .q v] = [32, 32, 45, 32] ++ n ++ [58, 32] ++ Num.fmtFixed 2 v ++ [10] := by
  unfold sprintfA; rw [parse_p3]; simp [render]
theorem print_precision : Facts.printPrecision = 2 := by decide

/-! `formatValue` -/
theorem parse_v0 : parseFmt (Facts.valueFormats.getD 0 [])
    = [.lit 27, .lit 91, .lit 51, .lit 49, .lit 109, .flt 10 2, .lit 27, .lit 91, .lit 48, .lit 109] := by decide +kernel
theorem parse_v1 : parseFmt (Facts.valueFormats.getD 1 [])
    = [.lit 27, .lit 91, .lit 51, .lit 50, .lit 109, .flt 10 2, .lit 27, .lit 91, .lit 48, .lit 109] := by decide +kernel
theorem parse_v2 : parseFmt (Facts.valueFormats.getD 2 []) = [.flt 10 2] := by decide +kernel
theorem val_v0 (v : Q) : sprintfA (Facts.valueFormats.getD 0 []) [.q v] = red ++ Num.fmtFixedW 10 2 v ++ reset := by
  unfold sprintfA; rw [parse_v0]; simp [render, red, reset, esc]
theorem val_v1 (v : Q) : sprintfA (Facts.valueFormats.getD 1 []) [.q v] = green ++ Num.fmtFixedW 10 2 v ++ reset := by
  unfold sprintfA; rw [parse_v1]; simp [render, green, reset, esc]
theorem val_v2 (v : Q) : sprintfA (Facts.valueFormats.getD 2 []) [.q v] = Num.fmtFixedW 10 2 v := by
  unfold sprintfA; rw [parse_v2]; simp [render]

end Hrano.Tmpl
