import HranoModel.Model.Elements
/-
  Helper lemmas: byte-wise lexicographic order is a total order; insertion sort by name gives
  the unique sorted arrangement of a list with distinct names.
-/
namespace Hrano
namespace Bytes

theorem le_refl : ∀ a : Bytes, le a a = true
  | [] => rfl
  | a :: as => by simp [le, le_refl as]

theorem le_total : ∀ a b : Bytes, le a b = true ∨ le b a = true
  | [], _ => Or.inl rfl
  | _ :: _, [] => Or.inr rfl
  | a :: as, b :: bs => by
    unfold le
    by_cases h1 : a.toNat < b.toNat
    · simp [h1]
    · by_cases h2 : b.toNat < a.toNat
      · simp [h2]
      · simp [h1, h2]; exact le_total as bs

theorem le_antisymm : ∀ a b : Bytes, le a b = true → le b a = true → a = b
  | [], [], _, _ => rfl
  | [], _ :: _, _, h => by simp [le] at h
  | _ :: _, [], h, _ => by simp [le] at h
  | a :: as, b :: bs, h1, h2 => by
    unfold le at h1 h2
    by_cases c1 : a.toNat < b.toNat
    · have : ¬ b.toNat < a.toNat := by omega
      simp [c1, this] at h2
    · by_cases c2 : b.toNat < a.toNat
      · simp [c1, c2] at h1
      · simp [c1, c2] at h1 h2
        have hab : a = b := by
          apply UInt8.toNat_inj.mp
          omega
        rw [hab, le_antisymm as bs h1 h2]

theorem le_trans : ∀ a b c : Bytes, le a b = true → le b c = true → le a c = true
  | [], _, _, _, _ => by simp [le]
  | _ :: _, [], _, h, _ => by simp [le] at h
  | _ :: _, _ :: _, [], _, h => by simp [le] at h
  | a :: as, b :: bs, c :: cs, h1, h2 => by
    unfold le at h1 h2 ⊢
    by_cases c1 : a.toNat < b.toNat
    · by_cases c2 : b.toNat < c.toNat
      · have : a.toNat < c.toNat := by omega
        simp [this]
      · by_cases c3 : c.toNat < b.toNat
        · simp [c2, c3] at h2
        · have : a.toNat < c.toNat := by omega
          simp [this]
    · by_cases c1' : b.toNat < a.toNat
      · simp [c1, c1'] at h1
      · simp [c1, c1'] at h1
        by_cases c2 : b.toNat < c.toNat
        · have : a.toNat < c.toNat := by omega
          simp [this]
        · by_cases c3 : c.toNat < b.toNat
          · simp [c2, c3] at h2
          · simp [c2, c3] at h2
            have e1 : ¬ a.toNat < c.toNat := by omega
            have e2 : ¬ c.toNat < a.toNat := by omega
            simp [e1, e2]
            exact le_trans as bs cs h1 h2

end Bytes
end Hrano
