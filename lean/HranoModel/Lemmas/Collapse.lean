import HranoModel.Lemmas.Tree
/-
  Helper lemmas for C03: the collapsing printers print the plain rows of a tree whose chains of sole children
  have been joined, and joining keeps the leaf paths.
-/
namespace Hrano
namespace Spec
open Tree

mutual
/-- `--collapse` as a tree transformation: every chain of sole children becomes one node that carries the joined
    label and the amount of the chain's head; the children of the chain's end follow -/
def collapse : Tree → Tree
  | node n t [] => node n t []
  | node n t [c] =>
    match collapse c with
    | node m _ cs => node (n ++ Tree.sep :: m) t cs
  | node n t (c1 :: c2 :: cs) => node n t (collapse c1 :: collapse c2 :: collapseList cs)
def collapseList : List Tree → List Tree
  | [] => []
  | c :: cs => collapse c :: collapseList cs
end

mutual
/-- `--collapse-last` as a tree transformation: a node whose only child is a leaf is joined with it -/
def collapseLast : Tree → Tree
  | node n t [] => node n t []
  | node n t [node gn _ []] => node (n ++ Tree.sep :: gn) t []
  | node n t (c :: cs) => node n t (collapseLast c :: collapseLastList cs)
def collapseLastList : List Tree → List Tree
  | [] => []
  | c :: cs => collapseLast c :: collapseLastList cs
end

/-- give a node another label prefix and amount -/
def relabel (pre : List Bytes) (t : Q) : Tree → Tree
  | node m _ cs => node (Bytes.join Tree.sep (pre ++ [m])) t cs

theorem join_snoc2 (sep : UInt8) (n m : Bytes) : ∀ pre : List Bytes,
    Bytes.join sep (pre ++ [n, m]) = Bytes.join sep (pre ++ [n ++ sep :: m])
  | [] => by simp [Bytes.join]
  | [p] => by simp [Bytes.join]
  | p :: q :: ps => by
    have := join_snoc2 sep n m (q :: ps)
    simp only [List.cons_append] at this ⊢
    cases hps : ps ++ [n, m] with
    | nil => simp at hps
    | cons a as =>
      cases hps2 : ps ++ [n ++ sep :: m] with
      | nil => simp at hps2
      | cons b bs =>
        rw [hps] at this; rw [hps2] at this
        simp only [Bytes.join] at this ⊢
        rw [this]

theorem collapse_total : ∀ c : Tree, (collapse c).total = c.total
  | node n t [] => by simp [collapse, Tree.total]
  | node n t [c] => by
    rw [collapse]
    cases collapse c with
    | node m t' cs => simp [Tree.total]
  | node n t (c1 :: c2 :: cs) => by simp [collapse, Tree.total]

mutual
theorem collapsed_is_plain (level : Nat) : ∀ (c : Tree) (pre : List Bytes) (t : Q),
    printCollapsedChild pre t level c = printChild false level (relabel pre t (collapse c))
  | node n t0 [], pre, t => by
    simp [printCollapsedChild, collapse, relabel, printChild_plain, printChildren]
  | node n t0 [c], pre, t => by
    rw [printCollapsedChild, collapsed_is_plain level c (pre ++ [n]) t, collapse]
    cases collapse c with
    | node m t' cs =>
      simp only [relabel]
      rw [List.append_assoc, show [n] ++ [m] = [n, m] from rfl, join_snoc2]
  | node n t0 (c1 :: c2 :: cs), pre, t => by
    rw [printCollapsedChild, collapse]
    simp only [relabel]
    rw [printChild_plain, printChildren, printChildren, collapsedList_is_plain (level + 1) cs,
      collapsed_is_plain (level + 1) c1 [] c1.total, collapsed_is_plain (level + 1) c2 [] c2.total]
    have h1 : relabel [] c1.total (collapse c1) = collapse c1 := by
      have := collapse_total c1
      cases hc : collapse c1 with
      | node m t' cs' => rw [hc] at this; simp [relabel, Bytes.join, Tree.total] at this ⊢; exact this.symm
    have h2 : relabel [] c2.total (collapse c2) = collapse c2 := by
      have := collapse_total c2
      cases hc : collapse c2 with
      | node m t' cs' => rw [hc] at this; simp [relabel, Bytes.join, Tree.total] at this ⊢; exact this.symm
    rw [h1, h2]
    simp [List.append_assoc]
theorem collapsedList_is_plain (level : Nat) : ∀ cs : List Tree,
    printCollapsedChildren level cs = printChildren false level (collapseList cs)
  | [] => by simp [printCollapsedChildren, collapseList, printChildren]
  | c :: cs => by
    rw [printCollapsedChildren, collapseList, printChildren, collapsedList_is_plain level cs, collapsed_is_plain level c [] c.total]
    have h1 : relabel [] c.total (collapse c) = collapse c := by
      have := collapse_total c
      cases hc : collapse c with
      | node m t' cs' => rw [hc] at this; simp [relabel, Bytes.join, Tree.total] at this ⊢; exact this.symm
    rw [h1]
end

/-! ### `--collapse-last` -/

theorem printChild_true_single (level : Nat) (n gn : Bytes) (t gt : Q) (g : Tree) (gs : List Tree) :
    printChild true level (node n t [node gn gt (g :: gs)])
      = row t level n ++ printChildren true (level + 1) [node gn gt (g :: gs)] := by
  rw [printChild]
  · intro h; cases h
  · intro gn' total h; cases h

theorem printChild_true_many (level : Nat) (n : Bytes) (t : Q) (c1 c2 : Tree) (cs : List Tree) :
    printChild true level (node n t (c1 :: c2 :: cs))
      = row t level n ++ printChildren true (level + 1) (c1 :: c2 :: cs) := by
  rw [printChild]
  · intro h; cases h
  · intro gn' total h; cases h

theorem collapseLast_single (n gn : Bytes) (t gt : Q) (g : Tree) (gs : List Tree) :
    collapseLast (node n t [node gn gt (g :: gs)]) = node n t [collapseLast (node gn gt (g :: gs))] := by
  rw [collapseLast]
  · rfl
  · intro gn' total h; cases h

theorem collapseLast_many (n : Bytes) (t : Q) (c1 c2 : Tree) (cs : List Tree) :
    collapseLast (node n t (c1 :: c2 :: cs)) = node n t (collapseLast c1 :: collapseLast c2 :: collapseLastList cs) := by
  rw [collapseLast]
  · rfl
  · intro gn' total h1 h2; cases h2

mutual
theorem collapseLast_is_plain (level : Nat) : ∀ c : Tree, printChild true level c = printChild false level (collapseLast c)
  | node n t [] => by simp [printChild, collapseLast]
  | node n t [node gn gt []] => by simp [printChild, collapseLast]
  | node n t [node gn gt (g :: gs)] => by
    rw [collapseLast_single, printChild_plain, printChild_true_single]
    simp only [printChildren]
    rw [collapseLast_is_plain (level + 1) (node gn gt (g :: gs))]
  | node n t (c1 :: c2 :: cs) => by
    rw [collapseLast_many, printChild_plain, printChild_true_many, collapseLastList_is_plain (level + 1) (c1 :: c2 :: cs)]
    simp only [collapseLastList]
theorem collapseLastList_is_plain (level : Nat) : ∀ cs : List Tree,
    printChildren true level cs = printChildren false level (collapseLastList cs)
  | [] => by simp [printChildren, collapseLastList]
  | c :: cs => by
    rw [printChildren, collapseLastList, printChildren, collapseLast_is_plain level c, collapseLastList_is_plain level cs]
end

/-! ### leaf paths -/

mutual
/-- the leaves below a node with their full paths (`p` is the path so far, ending with the separator) and amounts -/
def leaves (p : Bytes) : Tree → List (Bytes × Q)
  | node n t [] => [(p ++ n, t)]
  | node n _ (c :: cs) => leavesList (p ++ n ++ [Tree.sep]) (c :: cs)
def leavesList (p : Bytes) : List Tree → List (Bytes × Q)
  | [] => []
  | c :: cs => leaves p c ++ leavesList p cs
end

mutual
/-- a node with exactly one child carries the amount of that child (nothing was logged at the node itself) -/
def chainOK : Tree → Bool
  | node _ _ [] => true
  | node _ t [c] => t == c.total && chainOK c
  | node _ _ (c1 :: c2 :: cs) => chainOK c1 && chainOK c2 && chainOKList cs
def chainOKList : List Tree → Bool
  | [] => true
  | c :: cs => chainOK c && chainOKList cs
end

theorem leaves_leaf (p n : Bytes) (t : Q) : leaves p (node n t []) = [(p ++ n, t)] := by rw [leaves]
theorem leaves_inner (p n : Bytes) (t : Q) (c : Tree) (cs : List Tree) :
    leaves p (node n t (c :: cs)) = leavesList (p ++ n ++ [Tree.sep]) (c :: cs) := by rw [leaves]
theorem leavesList_nil (p : Bytes) : leavesList p [] = [] := by rw [leavesList]
theorem leavesList_cons (p : Bytes) (c : Tree) (cs : List Tree) : leavesList p (c :: cs) = leaves p c ++ leavesList p cs := by
  rw [leavesList]

theorem collapse_single_leaves (n : Bytes) (t : Q) (c : Tree) (p : Bytes) (ht : t = c.total)
    (ih : leaves (p ++ n ++ [Tree.sep]) (collapse c) = leaves (p ++ n ++ [Tree.sep]) c) :
    leaves p (collapse (node n t [c])) = leaves p (node n t [c]) := by
  have htot := collapse_total c
  have hcol : collapse (node n t [c]) = (match collapse c with | node m _ cs => node (n ++ Tree.sep :: m) t cs) := by
    rw [collapse]
  rw [hcol, leaves_inner, leavesList_cons, leavesList_nil, List.append_nil, ← ih]
  generalize collapse c = cc at htot ⊢
  cases cc with
  | node m t' cs =>
    have ht' : t' = c.total := htot
    cases cs with
    | nil =>
      show leaves p (node (n ++ Tree.sep :: m) t []) = leaves (p ++ n ++ [Tree.sep]) (node m t' [])
      rw [leaves_leaf, leaves_leaf, ht, ht']
      simp [List.append_assoc]
    | cons d ds =>
      show leaves p (node (n ++ Tree.sep :: m) t (d :: ds)) = leaves (p ++ n ++ [Tree.sep]) (node m t' (d :: ds))
      rw [leaves_inner, leaves_inner]
      simp [List.append_assoc]

mutual
theorem collapse_leaves : ∀ (c : Tree) (p : Bytes), chainOK c = true → leaves p (collapse c) = leaves p c
  | node n t [], p, _ => by simp [collapse]
  | node n t [c], p, h => by
    have h' : t = c.total ∧ chainOK c = true := by simpa [chainOK] using h
    exact collapse_single_leaves n t c p h'.1 (collapse_leaves c (p ++ n ++ [Tree.sep]) h'.2)
  | node n t (c1 :: c2 :: cs), p, h => by
    have h' : (chainOK c1 = true ∧ chainOK c2 = true) ∧ chainOKList cs = true := by simpa [chainOK] using h
    rw [collapse]
    simp only [leaves, leavesList]
    rw [collapse_leaves c1 _ h'.1.1, collapse_leaves c2 _ h'.1.2, collapseList_leaves cs _ h'.2]
theorem collapseList_leaves : ∀ (cs : List Tree) (p : Bytes), chainOKList cs = true → leavesList p (collapseList cs) = leavesList p cs
  | [], p, _ => by simp [collapseList]
  | c :: cs, p, h => by
    have h' : chainOK c = true ∧ chainOKList cs = true := by simpa [chainOKList] using h
    rw [collapseList, leavesList, leavesList, collapse_leaves c p h'.1, collapseList_leaves cs p h'.2]
end

mutual
theorem collapseLast_leaves : ∀ (c : Tree) (p : Bytes), chainOK c = true → leaves p (collapseLast c) = leaves p c
  | node n t [], p, _ => by simp [collapseLast]
  | node n t [node gn gt []], p, h => by
    have h' : t = gt := by simpa [chainOK, Tree.total] using h
    simp [collapseLast, leaves, leavesList, h', List.append_assoc]
  | node n t [node gn gt (g :: gs)], p, h => by
    have h' : t = gt ∧ chainOK (node gn gt (g :: gs)) = true := by simpa [chainOK, Tree.total] using h
    rw [collapseLast_single]
    simp only [leaves, leavesList, List.append_nil]
    rw [collapseLast_leaves (node gn gt (g :: gs)) _ h'.2]
    simp [leaves, leavesList]
  | node n t (c1 :: c2 :: cs), p, h => by
    have h' : (chainOK c1 = true ∧ chainOK c2 = true) ∧ chainOKList cs = true := by simpa [chainOK] using h
    rw [collapseLast_many]
    simp only [leaves, leavesList]
    rw [collapseLast_leaves c1 _ h'.1.1, collapseLast_leaves c2 _ h'.1.2, collapseLastList_leaves cs _ h'.2]
theorem collapseLastList_leaves : ∀ (cs : List Tree) (p : Bytes), chainOKList cs = true → leavesList p (collapseLastList cs) = leavesList p cs
  | [], p, _ => by simp [collapseLastList]
  | c :: cs, p, h => by
    have h' : chainOK c = true ∧ chainOKList cs = true := by simpa [chainOKList] using h
    rw [collapseLastList, leavesList, leavesList, collapseLast_leaves c p h'.1, collapseLastList_leaves cs p h'.2]
end

end Spec
end Hrano
