import HranoModel.Lemmas.DateOrder
/-!
`Date.ofDays` (Hinnant's `civil_from_days`) inverts `Date.toDays` on every accepted date.  The year of the era is recovered by
a monotonicity argument between the two ends of each of the 400 years of an era (a 400-row table evaluated by the kernel),
the month by the twelve month starts.
-/
namespace Hrano
namespace Date

/-- numerator of the year-of-era formula of `ofDays` -/
def num (x : Nat) : Nat := x - x / 1460 + x / 36524 - x / 146096
/-- first day of year `r` of an era -/
def g (r : Nat) : Nat := 365 * r + r / 4 - r / 100
/-- is the March-based year after year `r` of the era a leap year (its February closes year `r`) -/
def leapAfter (r : Nat) : Bool := (r + 1) % 4 == 0 && ((r + 1) % 100 != 0 || (r + 1) % 400 == 0)

theorem num_step (x : Nat) (h : x + 1 < 146097) : num x ≤ num (x + 1) := by
  unfold num
  omega

theorem num_mono (a b : Nat) (hab : a ≤ b) (hb : b < 146097) : num a ≤ num b := by
  induction b with
  | zero => have : a = 0 := by omega
            subst this; exact Nat.le_refl _
  | succ n ih =>
    by_cases h : a = n + 1
    · subst h; exact Nat.le_refl _
    · exact Nat.le_trans (ih (by omega) (by omega)) (num_step n hb)

/-- the two ends of every year of the era give that year -/
def endsOK (r : Nat) : Bool :=
  Nat.beq (num (g r) / 365) r && Nat.beq (num (g r + 364 + (if leapAfter r then 1 else 0)) / 365) r

def endsUpTo : Nat → Bool
  | 0 => true
  | n + 1 => endsOK n && endsUpTo n

theorem endsUpTo_spec : ∀ n, endsUpTo n = true → ∀ r, r < n → endsOK r = true := by
  intro n
  induction n with
  | zero => intro _ r hr; omega
  | succ n ih =>
    intro h r hr
    unfold endsUpTo at h
    simp only [Bool.and_eq_true] at h
    by_cases e : r = n
    · subst e; exact h.1
    · exact ih h.2 r (by omega)

theorem ends_table : endsUpTo 400 = true := by decide +kernel

/-- **the year-of-era formula inverts the year start**: every day of year `r` of an era is mapped back to `r` -/
theorem yoe_of_g (r off : Nat) (hr : r ≤ 399) (ho : off ≤ 364 + (if leapAfter r then 1 else 0)) :
    num (g r + off) / 365 = r := by
  have t := endsUpTo_spec 400 ends_table r (by omega)
  unfold endsOK at t
  simp only [Bool.and_eq_true] at t
  have t1 := Nat.eq_of_beq_eq_true t.1
  have t2 := Nat.eq_of_beq_eq_true t.2
  have hb : g r + 364 + (if leapAfter r then 1 else 0) < 146097 := by
    unfold g leapAfter
    by_cases h399 : r = 399
    · subst h399; decide
    · split <;> omega
  have lo := num_mono (g r) (g r + off) (by omega) (by omega)
  have hi := num_mono (g r + off) (g r + 364 + (if leapAfter r then 1 else 0)) (by omega) hb
  have l1 := Nat.div_le_div_right (c := 365) lo
  have l2 := Nat.div_le_div_right (c := 365) hi
  omega

/-- the month formula of `ofDays` inverts the month start -/
theorem month_of_offset (mp d : Nat) (hmp : mp ≤ 11) (hd1 : 1 ≤ d)
    (hfit : (mp ≤ 10 ∧ (153 * mp + 2) / 5 + d ≤ (153 * (mp + 1) + 2) / 5) ∨ (mp = 11 ∧ d ≤ 29)) :
    (5 * ((153 * mp + 2) / 5 + d - 1) + 2) / 153 = mp := by
  have : mp = 0 ∨ mp = 1 ∨ mp = 2 ∨ mp = 3 ∨ mp = 4 ∨ mp = 5 ∨ mp = 6 ∨ mp = 7 ∨ mp = 8 ∨ mp = 9 ∨ mp = 10 ∨ mp = 11 := by omega
  rcases this with rfl | rfl | rfl | rfl | rfl | rfl | rfl | rfl | rfl | rfl | rfl | rfl <;> omega

theorem ys_eq (Y : Nat) : ys Y = Y / 400 * 146097 + g (Y % 400) := by
  unfold ys g
  have : Y % 400 / 100 ≤ Y % 400 * 365 := by omega
  omega

theorem leapAfter_iff (Y : Nat) :
    (leapAfter (Y % 400) = true) ↔ ((Y + 1) % 4 = 0 ∧ ((Y + 1) % 100 ≠ 0 ∨ (Y + 1) % 400 = 0)) := by
  unfold leapAfter
  have a : (Y % 400 + 1) % 4 = (Y + 1) % 4 := by omega
  have b : (Y % 400 + 1) % 100 = (Y + 1) % 100 := by omega
  have c : (Y % 400 + 1) % 400 = (Y + 1) % 400 := by omega
  rw [a, b, c]
  simp

theorem era_split (q t : Nat) (h : t < 146097) : (q * 146097 + t) / 146097 = q ∧ q * 146097 + t - q * 146097 = t := by omega
theorem shift_back (n : Nat) : (((n : Int) - 719468 - 146097) + 719468 + 146097).toNat = n := by omega
theorem mod_div_400 (Y : Nat) : Y % 400 + Y / 400 * 400 = Y := by omega

/-- **the date of the day number of an accepted date is that date** (`ofDays` inverts `toDays`) -/
theorem ofDays_toDays (c : Civil) (hc : Valid c) : ofDays (toDays c) = c := by
  have ob := offset_bound c hc
  have hmp : monthM c ≤ 11 := by unfold monthM; have := hc.1; have := hc.2.1; split <;> omega
  have hd1 : 1 ≤ c.d := hc.2.2.1
  have hd_eq : (153 * monthM c + 2) / 5 + c.d - 1 - (153 * monthM c + 2) / 5 + 1 = c.d := by omega
  have hfit : (monthM c ≤ 10 ∧ (153 * monthM c + 2) / 5 + c.d ≤ (153 * (monthM c + 1) + 2) / 5) ∨ (monthM c = 11 ∧ c.d ≤ 29) := by
    by_cases h : monthM c ≤ 10
    · exact Or.inl ⟨h, month_fits c hc h⟩
    · refine Or.inr ⟨by omega, ?_⟩
      have hm : c.m = 2 := by
        unfold monthM at h hmp; have := hc.1; have := hc.2.1; split at h <;> omega
      have h4 := hc.2.2.2
      rw [hm] at h4
      unfold daysIn at h4
      simp at h4
      split at h4 <;> omega
  have hmonth := month_of_offset (monthM c) c.d hmp hd1 hfit
  -- the year of the era
  have hoff : (153 * monthM c + 2) / 5 + c.d - 1 ≤ 364 + (if leapAfter (yearM c % 400) then 1 else 0) := by
    by_cases hl : leapAfter (yearM c % 400) = true
    · rw [if_pos hl]; rw [if_pos ((leapAfter_iff _).1 hl)] at ob; exact ob
    · rw [if_neg hl]; rw [if_neg (fun h => hl ((leapAfter_iff _).2 h))] at ob; exact ob
  have hr : yearM c % 400 ≤ 399 := by omega
  have hyoe := yoe_of_g (yearM c % 400) ((153 * monthM c + 2) / 5 + c.d - 1) hr hoff
  have hlt : g (yearM c % 400) + ((153 * monthM c + 2) / 5 + c.d - 1) < 146097 := by
    have : g (yearM c % 400) + 364 + (if leapAfter (yearM c % 400) then 1 else 0) < 146097 := by
      generalize yearM c % 400 = r at *
      unfold g leapAfter
      by_cases h399 : r = 399
      · subst h399; decide
      · split <;> omega
    omega
  rw [toDays_split c, ys_eq]
  unfold ofDays
  generalize hoffdef : (153 * monthM c + 2) / 5 + c.d - 1 = off at *
  generalize hgdef : g (yearM c % 400) = gr at *
  simp only [shift_back]
  have hsp := era_split (yearM c / 400) (gr + off) hlt
  rw [← Nat.add_assoc] at hsp
  rw [hsp.1, hsp.2]
  have hnum : (gr + off - (gr + off) / 1460 + (gr + off) / 36524 - (gr + off) / 146096) / 365 = yearM c % 400 := by
    have := hyoe; unfold num at this; exact this
  rw [hnum]
  have hg' : 365 * (yearM c % 400) + yearM c % 400 / 4 - yearM c % 400 / 100 = gr := by rw [← hgdef]; rfl
  rw [hg']
  rw [Nat.add_sub_cancel_left]
  rw [hmonth]
  rw [mod_div_400]
  have hm1 := hc.1
  have hm2 := hc.2.1
  have hm_eq : (if monthM c < 10 then monthM c + 3 else monthM c - 9) = c.m := by
    unfold monthM; split <;> split <;> omega
  have hy_eq : (if c.m ≤ 2 then yearM c + 1 else yearM c) - 400 = c.y := by
    unfold yearM; split <;> omega
  rw [hm_eq, hy_eq, hd_eq]

example : ofDays (toDays ⟨2024, 2, 29⟩) = ⟨2024, 2, 29⟩ ∧ ofDays 0 = ⟨1970, 1, 1⟩ := by decide

end Date
end Hrano
