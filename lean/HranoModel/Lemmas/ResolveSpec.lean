import HranoModel.Spec.Resolve
/-
  Helper lemmas about the resolution specification: monotone in the fuel, deterministic, height < fuel,
  fuel height+1 suffices, leaves are not recipes, `none` = a chain of `fuel` references exists.
-/
namespace Hrano
namespace Spec

theorem specList_mono (sn sn' : Bytes → Option (Nat × Elements))
    (h : ∀ x r, sn x = some r → sn' x = some r) : ∀ (es : List Element) (acc r : Nat × Elements),
    specList sn es acc = some r → specList sn' es acc = some r := by
  intro es
  induction es with
  | nil => intro acc r hr; exact hr
  | cons e es ih =>
    intro acc r hr
    obtain ⟨ha, ps⟩ := acc
    unfold specList at hr ⊢
    cases hs : sn e.name with
    | none => rw [hs] at hr; cases hr
    | some v =>
      rw [hs] at hr
      rw [h _ _ hs]
      exact ih _ _ hr

theorem specNode_mono_succ (B : Book) : ∀ (f : Nat) (x : Bytes) (r : Nat × Elements),
    specNode B f x = some r → specNode B (f + 1) x = some r := by
  intro f
  induction f with
  | zero => intro x r h; simp [specNode] at h
  | succ f ih =>
    intro x r h
    unfold specNode at h ⊢
    cases hl : B.lookup x with
    | none => rw [hl] at h; exact h
    | some els =>
      rw [hl] at h
      exact specList_mono _ _ ih els _ _ h

theorem specNode_mono (B : Book) (x : Bytes) (r : Nat × Elements) : ∀ (f f' : Nat), f ≤ f' →
    specNode B f x = some r → specNode B f' x = some r := by
  intro f f' hle h
  induction hle with
  | refl => exact h
  | step _ ih => exact specNode_mono_succ B _ x r ih

theorem specNode_det (B : Book) (x : Bytes) (f f' : Nat) (r r' : Nat × Elements)
    (h : specNode B f x = some r) (h' : specNode B f' x = some r') : r = r' := by
  have h1 := specNode_mono B x r f (max f f') (Nat.le_max_left _ _) h
  have h2 := specNode_mono B x r' f' (max f f') (Nat.le_max_right _ _) h'
  rw [h1] at h2
  exact Option.some.inj h2

theorem specList_height_ge (sn : Bytes → Option (Nat × Elements)) : ∀ (es : List Element) (h : Nat) (ps : Elements) (h' : Nat) (ps' : Elements),
    specList sn es (h, ps) = some (h', ps') → h ≤ h' := by
  intro es
  induction es with
  | nil => intro h ps h' ps' hr; simp [specList] at hr; omega
  | cons e es ih =>
    intro h ps h' ps' hr
    unfold specList at hr
    cases hs : sn e.name with
    | none => rw [hs] at hr; cases hr
    | some v =>
      obtain ⟨he, pe⟩ := v
      rw [hs] at hr
      have := ih _ _ _ _ hr
      omega

theorem specList_height_lt (sn : Bytes → Option (Nat × Elements)) (f : Nat)
    (hsn : ∀ x he pe, sn x = some (he, pe) → he < f) : ∀ (es : List Element) (h : Nat) (ps : Elements) (h' : Nat) (ps' : Elements),
    specList sn es (h, ps) = some (h', ps') → h < f + 1 → h' < f + 1 := by
  intro es
  induction es with
  | nil => intro h ps h' ps' hr hh; simp [specList] at hr; omega
  | cons e es ih =>
    intro h ps h' ps' hr hh
    unfold specList at hr
    cases hs : sn e.name with
    | none => rw [hs] at hr; cases hr
    | some v =>
      obtain ⟨he, pe⟩ := v
      rw [hs] at hr
      have := hsn _ _ _ hs
      exact ih _ _ _ _ hr (by omega)

theorem specNode_height_lt (B : Book) : ∀ (f : Nat) (x : Bytes) (h : Nat) (ps : Elements),
    specNode B f x = some (h, ps) → h < f := by
  intro f
  induction f with
  | zero => intro x h ps hr; simp [specNode] at hr
  | succ f ih =>
    intro x h ps hr
    unfold specNode at hr
    cases hl : B.lookup x with
    | none => rw [hl] at hr; simp at hr; omega
    | some els =>
      rw [hl] at hr
      exact specList_height_lt _ f (fun y he pe hy => ih y he pe hy) els 0 [] h ps hr (by omega)

theorem specList_transfer (sn sn' : Bytes → Option (Nat × Elements)) : ∀ (es : List Element) (h : Nat) (ps : Elements) (h' : Nat) (ps' : Elements),
    specList sn es (h, ps) = some (h', ps') →
    (∀ e ∈ es, ∀ he pe, sn e.name = some (he, pe) → he + 1 ≤ h' → sn' e.name = some (he, pe)) →
    specList sn' es (h, ps) = some (h', ps') := by
  intro es
  induction es with
  | nil => intro h ps h' ps' hr _; exact hr
  | cons e es ih =>
    intro h ps h' ps' hr htr
    unfold specList at hr ⊢
    cases hs : sn e.name with
    | none => rw [hs] at hr; cases hr
    | some v =>
      obtain ⟨he, pe⟩ := v
      rw [hs] at hr
      have hge := specList_height_ge sn es _ _ _ _ hr
      rw [htr e (List.mem_cons_self) he pe hs (by omega)]
      exact ih _ _ _ _ hr (fun e' he' => htr e' (List.mem_cons_of_mem _ he'))

/-- fuel `height + 1` is enough -/
theorem specNode_fuel_suffices (B : Book) : ∀ (f : Nat) (x : Bytes) (h : Nat) (ps : Elements),
    specNode B f x = some (h, ps) → specNode B (h + 1) x = some (h, ps) := by
  intro f
  induction f with
  | zero => intro x h ps hr; simp [specNode] at hr
  | succ f ih =>
    intro x h ps hr
    unfold specNode at hr ⊢
    cases hl : B.lookup x with
    | none => rw [hl] at hr; exact hr
    | some els =>
      rw [hl] at hr
      apply specList_transfer _ _ els 0 [] h ps hr
      intro e _ he pe hs hle
      exact specNode_mono B e.name (he, pe) (he + 1) h hle (ih e.name he pe hs)

/-- with a known height, success at fuel `f` is exactly `height < f` -/
theorem specNode_at_fuel (B : Book) (x : Bytes) (f0 h : Nat) (ps : Elements) (h0 : specNode B f0 x = some (h, ps)) (f : Nat) :
    (h < f → specNode B f x = some (h, ps)) ∧ (f ≤ h → specNode B f x = none) := by
  constructor
  · intro hlt
    exact specNode_mono B x (h, ps) (h + 1) f hlt (specNode_fuel_suffices B f0 x h ps h0)
  · intro hle
    cases hs : specNode B f x with
    | none => rfl
    | some r =>
      obtain ⟨h', ps'⟩ := r
      have := specNode_det B x f f0 _ _ hs h0
      have hlt := specNode_height_lt B f x h' ps' hs
      simp at this
      omega

theorem specList_none_iff (sn : Bytes → Option (Nat × Elements)) : ∀ (es : List Element) (acc : Nat × Elements),
    specList sn es acc = none ↔ ∃ e ∈ es, sn e.name = none := by
  intro es
  induction es with
  | nil => intro acc; simp [specList]
  | cons e es ih =>
    intro acc
    obtain ⟨h, ps⟩ := acc
    unfold specList
    cases hs : sn e.name with
    | none => simp [hs]
    | some v =>
      obtain ⟨he, pe⟩ := v
      simp only [ih, List.mem_cons, exists_eq_or_imp, hs]
      simp

/-- the specification fails at fuel `f` exactly when a chain of `f` references starts at the name -/
theorem specNode_none_iff_chain (B : Book) : ∀ (f : Nat) (x : Bytes), specNode B f x = none ↔ Chain B x f := by
  intro f
  induction f with
  | zero => intro x; simp [specNode]; exact Chain.zero x
  | succ f ih =>
    intro x
    unfold specNode
    cases hl : B.lookup x with
    | none =>
      simp only
      constructor
      · intro h; cases h
      · intro h; cases h with
        | step _ els e k hl' _ _ => rw [hl] at hl'; cases hl'
    | some els =>
      simp only [specList_none_iff]
      constructor
      · rintro ⟨e, he, hn⟩
        exact Chain.step x els e f hl he ((ih e.name).mp hn)
      · intro h
        cases h with
        | step _ els' e k hl' he hc =>
          rw [hl] at hl'
          cases hl'
          exact ⟨e, he, (ih e.name).mpr hc⟩

theorem specList_leaves (B : Book) (sn : Bytes → Option (Nat × Elements))
    (hsn : ∀ x h ps, sn x = some (h, ps) → ∀ p ∈ ps, B.lookup p.name = none) : ∀ (es : List Element) (h : Nat) (ps : Elements) (h' : Nat) (ps' : Elements),
    specList sn es (h, ps) = some (h', ps') → (∀ p ∈ ps, B.lookup p.name = none) → ∀ p ∈ ps', B.lookup p.name = none := by
  intro es
  induction es with
  | nil => intro h ps h' ps' hr hp; simp [specList] at hr; rw [← hr.2]; exact hp
  | cons e es ih =>
    intro h ps h' ps' hr hp
    unfold specList at hr
    cases hs : sn e.name with
    | none => rw [hs] at hr; cases hr
    | some v =>
      obtain ⟨he, pe⟩ := v
      rw [hs] at hr
      apply ih _ _ _ _ hr
      intro p hm
      rcases List.mem_append.mp hm with hm | hm
      · exact hp p hm
      · obtain ⟨q, hq, rfl⟩ := List.mem_map.mp hm
        exact hsn _ _ _ hs q hq

/-- no recipe name is left unexpanded: every leaf of every path is a name the book does not define -/
theorem specNode_leaves (B : Book) : ∀ (f : Nat) (x : Bytes) (h : Nat) (ps : Elements),
    specNode B f x = some (h, ps) → ∀ p ∈ ps, B.lookup p.name = none := by
  intro f
  induction f with
  | zero => intro x h ps hr; simp [specNode] at hr
  | succ f ih =>
    intro x h ps hr
    unfold specNode at hr
    cases hl : B.lookup x with
    | none =>
      rw [hl] at hr
      simp at hr
      intro p hp
      rw [← hr.2] at hp
      simp at hp
      rw [hp]; exact hl
    | some els =>
      rw [hl] at hr
      exact specList_leaves B _ (fun y h' ps' hy => ih y h' ps' hy) els 0 [] h ps hr (by simp)

end Spec
end Hrano
