import HranoModel.Lemmas.Next
/-!
The day count behind the instants is strictly monotone in calendar order (`toDays_lt`), hence injective on accepted
dates, hence comparing instants is comparing calendar dates (`instant_lt_iff`, `instant_eq_iff`).
-/
namespace Hrano
namespace Date

/-- first day of the March-based year `Y` (counted from the shifted origin) -/
def ys (Y : Nat) : Nat := Y / 400 * 146097 + (Y % 400) * 365 + (Y % 400) / 4 - (Y % 400) / 100

/-- March-based year and month of a civil date -/
def yearM (c : Civil) : Nat := if c.m ≤ 2 then c.y + 400 - 1 else c.y + 400
def monthM (c : Civil) : Nat := if c.m > 2 then c.m - 3 else c.m + 9

theorem toDays_split (c : Civil) :
    toDays c = ((ys (yearM c) + ((153 * monthM c + 2) / 5 + c.d - 1) : Nat) : Int) - 719468 - 146097 := by
  unfold toDays ys yearM monthM
  simp only []
  generalize (if c.m ≤ 2 then c.y + 400 - 1 else c.y + 400) = Y
  generalize (if c.m > 2 then c.m - 3 else c.m + 9) = mp
  have h : Y - Y / 400 * 400 = Y % 400 := by omega
  rw [h]
  omega

theorem ys_step (Y : Nat) :
    ys (Y + 1) = ys Y + 365 + (if (Y + 1) % 4 = 0 ∧ ((Y + 1) % 100 ≠ 0 ∨ (Y + 1) % 400 = 0) then 1 else 0) := by
  unfold ys
  by_cases hera : Y % 400 = 399
  · have h1 : (Y + 1) / 400 = Y / 400 + 1 := by omega
    have h2 : (Y + 1) % 400 = 0 := by omega
    have h3 : (Y + 1) % 4 = 0 := by omega
    rw [h1, h2, hera]
    simp [h3]
    omega
  · have h1 : (Y + 1) / 400 = Y / 400 := by omega
    have h2 : (Y + 1) % 400 = Y % 400 + 1 := by omega
    rw [h1, h2]
    have h4 : (Y + 1) % 4 = (Y % 400 + 1) % 4 := by omega
    have h100 : (Y + 1) % 100 = (Y % 400 + 1) % 100 := by omega
    have h400 : (Y + 1) % 400 ≠ 0 := by omega
    rw [h4, h100]
    generalize Y % 400 = r at *
    have hr : r < 399 := by omega
    by_cases c4 : (r + 1) % 4 = 0
    · have e4 : (r + 1) / 4 = r / 4 + 1 := by omega
      by_cases c100 : (r + 1) % 100 = 0
      · have e100 : (r + 1) / 100 = r / 100 + 1 := by omega
        rw [e4, e100]; simp [c4, c100]; omega
      · have e100 : (r + 1) / 100 = r / 100 := by omega
        rw [e4, e100]; simp [c4, c100]; omega
    · have e4 : (r + 1) / 4 = r / 4 := by omega
      have c100 : (r + 1) % 100 ≠ 0 := by omega
      have e100 : (r + 1) / 100 = r / 100 := by omega
      rw [e4, e100]; simp [c4]; omega

theorem ys_mono (Y Y' : Nat) (h : Y < Y') : ys (Y + 1) ≤ ys Y' := by
  induction Y' with
  | zero => omega
  | succ n ih =>
    by_cases hn : Y = n
    · subst hn; exact Nat.le_refl _
    · have := ih (by omega)
      have := ys_step n
      omega

/-- an accepted civil date: month 1..12, day 1..length of that month -/
def Valid (c : Civil) : Prop := 1 ≤ c.m ∧ c.m ≤ 12 ∧ 1 ≤ c.d ∧ c.d ≤ daysIn c.m c.y

/-- calendar order: by year, then month, then day -/
def before (a b : Civil) : Prop := a.y < b.y ∨ (a.y = b.y ∧ (a.m < b.m ∨ (a.m = b.m ∧ a.d < b.d)))

/-- the start of the month within the March-based year is monotone -/
theorem mstart_mono (a b : Nat) (h : a ≤ b) : (153 * a + 2) / 5 ≤ (153 * b + 2) / 5 := by omega

/-- day offset within the March-based year stays inside the year -/
theorem offset_bound (c : Civil) (hc : Valid c) :
    (153 * monthM c + 2) / 5 + c.d - 1 ≤ 364 + (if (yearM c + 1) % 4 = 0 ∧ ((yearM c + 1) % 100 ≠ 0 ∨ (yearM c + 1) % 400 = 0) then 1 else 0) := by
  obtain ⟨y, m, d⟩ := c
  obtain ⟨h1, h2, h3, h4⟩ := hc
  simp only at h1 h2 h3 h4
  unfold monthM yearM
  simp only []
  by_cases hm : m = 2
  · subst hm
    simp only [show (2:Nat) ≤ 2 from Nat.le_refl _, if_true, show ¬ ((2:Nat) > 2) from by omega, if_false]
    have e : y + 400 - 1 + 1 = y + 400 := by omega
    rw [e]
    unfold daysIn isLeap at h4
    simp at h4
    have m4 : (y + 400) % 4 = y % 4 := by omega
    have m100 : (y + 400) % 100 = y % 100 := by omega
    have m400 : (y + 400) % 400 = y % 400 := by omega
    rw [m4, m100, m400]
    split at h4 <;> rename_i hl
    · rw [if_pos (by omega)]; omega
    · split <;> omega
  · have : d ≤ 31 := by
      unfold daysIn at h4
      split at h4
      · split at h4 <;> omega
      · split at h4 <;> omega
    have hm' : m = 1 ∨ (3 ≤ m ∧ m ≤ 12) := by omega
    rcases hm' with rfl | ⟨ha, hb⟩
    · simp; split <;> omega
    · simp only [show ¬ (m ≤ 2) from by omega, if_false, show m > 2 from by omega, if_true]
      have : m - 3 ≤ 9 := by omega
      have := mstart_mono (m - 3) 9 this
      split <;> omega

/-- a day of a month other than February lies before the start of the next month of the March-based year -/
theorem month_fits (c : Civil) (hc : Valid c) (h : monthM c ≤ 10) :
    (153 * monthM c + 2) / 5 + c.d ≤ (153 * (monthM c + 1) + 2) / 5 := by
  obtain ⟨y, m, d⟩ := c
  obtain ⟨h1, h2, h3, h4⟩ := hc
  simp only at h1 h2 h3 h4
  unfold monthM at *
  simp only [] at *
  have hm : m = 1 ∨ m = 2 ∨ m = 3 ∨ m = 4 ∨ m = 5 ∨ m = 6 ∨ m = 7 ∨ m = 8 ∨ m = 9 ∨ m = 10 ∨ m = 11 ∨ m = 12 := by omega
  rcases hm with rfl | rfl | rfl | rfl | rfl | rfl | rfl | rfl | rfl | rfl | rfl | rfl <;>
    (unfold daysIn at h4; simp at h4 h ⊢; try omega)

/-- **the day count is strictly monotone in calendar order** -/
theorem toDays_lt (a b : Civil) (ha : Valid a) (hb : Valid b) (h : before a b) : toDays a < toDays b := by
  rw [toDays_split a, toDays_split b]
  have oa := offset_bound a ha
  have hlex : yearM a < yearM b ∨ (yearM a = yearM b ∧ (monthM a < monthM b ∨ (monthM a = monthM b ∧ a.d < b.d))) := by
    obtain ⟨a1, a2, a3, a4⟩ := ha
    obtain ⟨b1, b2, b3, b4⟩ := hb
    unfold before at h
    unfold yearM monthM
    split <;> split <;> split <;> split <;> omega
  have hb3 : 1 ≤ b.d := hb.2.2.1
  have ha3 : 1 ≤ a.d := ha.2.2.1
  rcases hlex with hy | ⟨hy, hm | ⟨hm, hd⟩⟩
  · have s := ys_step (yearM a)
    have m := ys_mono (yearM a) (yearM b) hy
    generalize ys (yearM a + 1) = u at *
    generalize ys (yearM b) = v at *
    generalize ys (yearM a) = w at *
    by_cases hc : (yearM a + 1) % 4 = 0 ∧ ((yearM a + 1) % 100 ≠ 0 ∨ (yearM a + 1) % 400 = 0)
    · rw [if_pos hc] at oa s; omega
    · rw [if_neg hc] at oa s; omega
  · have hm10 : monthM a ≤ 10 := by
      have : monthM b ≤ 11 := by
        unfold monthM; have := hb.1; have := hb.2.1; split <;> omega
      omega
    have f := month_fits a ha hm10
    have mm := mstart_mono (monthM a + 1) (monthM b) hm
    rw [hy]
    omega
  · rw [hy, hm]
    omega

theorem before_trichotomy (a b : Civil) : before a b ∨ a = b ∨ before b a := by
  obtain ⟨y1, m1, d1⟩ := a
  obtain ⟨y2, m2, d2⟩ := b
  unfold before
  simp only [Civil.mk.injEq]
  omega

theorem before_asymm (a b : Civil) (h : before a b) : ¬ before b a ∧ a ≠ b := by
  obtain ⟨y1, m1, d1⟩ := a
  obtain ⟨y2, m2, d2⟩ := b
  unfold before at *
  simp only [ne_eq, Civil.mk.injEq] at *
  omega

/-- … hence two accepted dates have the same day number only if they are the same date -/
theorem toDays_inj (a b : Civil) (ha : Valid a) (hb : Valid b) (h : toDays a = toDays b) : a = b := by
  rcases before_trichotomy a b with h1 | h1 | h1
  · have := toDays_lt a b ha hb h1; omega
  · exact h1
  · have := toDays_lt b a hb ha h1; omega

/-- … and the order of the day numbers *is* the order of the calendar -/
theorem toDays_lt_iff (a b : Civil) (ha : Valid a) (hb : Valid b) : toDays a < toDays b ↔ before a b := by
  constructor
  · intro h
    rcases before_trichotomy a b with h1 | h1 | h1
    · exact h1
    · subst h1; omega
    · have := toDays_lt b a hb ha h1; omega
  · exact toDays_lt a b ha hb

theorem instant_lt_iff (a b : Civil) (ha : Valid a) (hb : Valid b) : instant a < instant b ↔ before a b := by
  rw [← toDays_lt_iff a b ha hb]
  unfold instant nsPerDay
  omega

theorem instant_eq_iff (a b : Civil) (ha : Valid a) (hb : Valid b) : instant a = instant b ↔ a = b := by
  constructor
  · intro h
    apply toDays_inj a b ha hb
    unfold instant nsPerDay at h
    omega
  · intro h; rw [h]

example : before ⟨1999, 12, 31⟩ ⟨2000, 1, 1⟩ ∧ before ⟨2000, 2, 29⟩ ⟨2000, 3, 1⟩ ∧ Valid ⟨2000, 2, 29⟩ ∧ ¬ Valid ⟨1900, 2, 29⟩ := by
  unfold before Valid; decide

end Date
end Hrano
