import HranoModel.Spec.Sums
import HranoModel.Lemmas.Sort
/-
  Helper lemmas: the accumulator computes per-name signed sums; `addTo` computes per-name sums.
-/
namespace Hrano
open Spec

namespace Accumulator

def find (a : Accumulator) (n : Bytes) : Option Acc := List.find? (fun x => x.name == n) a

def negAt (a : Accumulator) (n : Bytes) : Q := match find a n with | some x => x.neg | none => 0
def posAt (a : Accumulator) (n : Bytes) : Q := match find a n with | some x => x.pos | none => 0
def names (a : Accumulator) : List Bytes := a.map (·.name)

theorem find_add_same (a : Accumulator) (n : Bytes) (v : Q) :
    find (add a n v) n = some (match find a n with
      | some x => if v < 0 then { x with neg := x.neg + v } else { x with pos := x.pos + v }
      | none => if v < 0 then ⟨n, v, 0⟩ else ⟨n, 0, v⟩) := by
  induction a with
  | nil => simp [add, find]; split <;> simp
  | cons x xs ih =>
    unfold add
    by_cases h : (x.name == n) = true
    · have hxn : x.name = n := by simpa using h
      by_cases hv : v < 0
      · simp [h, hv, find, List.find?, hxn]
      · simp [h, hv, find, List.find?, hxn]
    · have h' : (x.name == n) = false := by simpa using h
      simp only [h', Bool.false_eq_true, if_false]
      simp only [find, List.find?, h'] at ih ⊢
      exact ih

theorem find_add_other (a : Accumulator) (n m : Bytes) (v : Q) (h : (n == m) = false) :
    find (add a n v) m = find a m := by
  induction a with
  | nil =>
    simp only [add, find]
    split <;> simp [List.find?, h]
  | cons x xs ih =>
    unfold add
    by_cases hx : (x.name == n) = true
    · simp only [hx, if_true]
      have hxn : x.name = n := by simpa using hx
      have hxm : (x.name == m) = false := by rw [hxn]; exact h
      split <;> simp [find, List.find?, hxm]
    · have hx' : (x.name == n) = false := by simpa using hx
      simp only [hx', Bool.false_eq_true, if_false]
      simp only [find, List.find?] at ih ⊢
      split
      · rfl
      · exact ih

theorem posAt_add (a : Accumulator) (n m : Bytes) (v : Q) :
    posAt (add a n v) m = posAt a m + (if n == m && !(decide (v < 0)) then v else 0) := by
  by_cases h : (n == m) = true
  · have hnm : n = m := by simpa using h
    subst hnm
    simp only [posAt, find_add_same]
    by_cases hv : v < 0
    · cases hf : find a n <;> simp [hv, Rat.add_zero]
    · cases hf : find a n <;> simp [hv, Rat.zero_add]
  · have h' : (n == m) = false := by simpa using h
    simp [posAt, find_add_other a n m v h', h', Rat.add_zero]

theorem negAt_add (a : Accumulator) (n m : Bytes) (v : Q) :
    negAt (add a n v) m = negAt a m + (if n == m && decide (v < 0) then v else 0) := by
  by_cases h : (n == m) = true
  · have hnm : n = m := by simpa using h
    subst hnm
    simp only [negAt, find_add_same]
    by_cases hv : v < 0
    · cases hf : find a n <;> simp [hv, Rat.zero_add]
    · cases hf : find a n <;> simp [hv, Rat.add_zero]
  · have h' : (n == m) = false := by simpa using h
    simp [negAt, find_add_other a n m v h', h', Rat.add_zero]

end Accumulator

namespace Report

theorem posAt_accumulate (es : Elements) : ∀ (a : Accumulator) (m : Bytes),
    Accumulator.posAt (accumulate a es) m = Accumulator.posAt a m + posOf m es := by
  induction es with
  | nil => intro a m; simp [accumulate, posOf, Rat.add_zero]
  | cons e es ih =>
    intro a m
    have := ih (a.add e.name e.value) m
    simp only [accumulate, List.foldl] at this ⊢
    rw [this, Accumulator.posAt_add, posOf, Rat.add_assoc]

theorem negAt_accumulate (es : Elements) : ∀ (a : Accumulator) (m : Bytes),
    Accumulator.negAt (accumulate a es) m = Accumulator.negAt a m + negOf m es := by
  induction es with
  | nil => intro a m; simp [accumulate, negOf, Rat.add_zero]
  | cons e es ih =>
    intro a m
    have := ih (a.add e.name e.value) m
    simp only [accumulate, List.foldl] at this ⊢
    rw [this, Accumulator.negAt_add, negOf, Rat.add_assoc]

end Report

namespace Spec

theorem posOf_append (n : Bytes) (a b : Elements) : posOf n (a ++ b) = posOf n a + posOf n b := by
  induction a with
  | nil => simp [posOf, Rat.zero_add]
  | cons e es ih => simp [posOf, ih, Rat.add_assoc]

theorem negOf_append (n : Bytes) (a b : Elements) : negOf n (a ++ b) = negOf n a + negOf n b := by
  induction a with
  | nil => simp [negOf, Rat.zero_add]
  | cons e es ih => simp [negOf, ih, Rat.add_assoc]

theorem sumOf_append (n : Bytes) (a b : Elements) : sumOf n (a ++ b) = sumOf n a + sumOf n b := by
  induction a with
  | nil => simp [sumOf, Rat.zero_add]
  | cons e es ih => simp [sumOf, ih, Rat.add_assoc]

theorem pos_add_neg (n : Bytes) (es : Elements) : posOf n es + negOf n es = sumOf n es := by
  induction es with
  | nil => simp [posOf, negOf, sumOf, Rat.add_zero]
  | cons e es ih =>
    simp only [posOf, negOf, sumOf]
    by_cases hn : (e.name == n) = true <;> by_cases hv : e.value < 0 <;> simp [hn, hv, ← ih] <;> grind

end Spec
end Hrano

/-! ### names held by an accumulator -/
namespace Hrano
open Spec

namespace Accumulator

theorem names_add (a : Accumulator) (n : Bytes) (v : Q) :
    names (add a n v) = if n ∈ names a then names a else names a ++ [n] := by
  induction a with
  | nil => simp [add, names]; split <;> rfl
  | cons x xs ih =>
    unfold add
    by_cases hx : (x.name == n) = true
    · have hxn : x.name = n := by simpa using hx
      simp only [hx, if_true]
      have : n ∈ names (x :: xs) := by simp [names, hxn]
      simp only [this, if_true]
      split <;> simp [names]
    · have hx' : (x.name == n) = false := by simpa using hx
      have hne : x.name ≠ n := by simpa using hx
      simp only [hx', Bool.false_eq_true, if_false]
      simp only [names, List.map_cons] at ih ⊢
      rw [ih]
      by_cases hm : n ∈ List.map (·.name) xs
      · have : n ∈ x.name :: List.map (·.name) xs := List.mem_cons_of_mem _ hm
        simp [hm, this]
      · have : n ∉ x.name :: List.map (·.name) xs := by
          intro h; rcases List.mem_cons.mp h with h | h
          · exact hne h.symm
          · exact hm h
        simp [hm, this]

theorem nodup_add (a : Accumulator) (n : Bytes) (v : Q) (h : (names a).Nodup) : (names (add a n v)).Nodup := by
  rw [names_add]
  split
  · exact h
  · rename_i hn
    exact List.nodup_append.mpr ⟨h, by simp, by intro x hx y hy; simp at hy; subst hy; intro hxy; exact hn (hxy ▸ hx)⟩

theorem mem_names_add (a : Accumulator) (n m : Bytes) (v : Q) :
    m ∈ names (add a n v) ↔ m ∈ names a ∨ m = n := by
  rw [names_add]
  split
  · rename_i hn
    constructor
    · exact Or.inl
    · rintro (h | h)
      · exact h
      · exact h ▸ hn
  · simp

/-- with distinct names, an entry is what `find` returns for its name -/
theorem find_of_mem (a : Accumulator) (h : (names a).Nodup) (x : Acc) (hx : x ∈ a) : find a x.name = some x := by
  induction a with
  | nil => cases hx
  | cons y ys ih =>
    simp only [names, List.map_cons, List.nodup_cons] at h
    rcases List.mem_cons.mp hx with rfl | hx'
    · simp [find, List.find?]
    · have hne : (y.name == x.name) = false := by
        have : y.name ≠ x.name := fun heq => h.1 (heq ▸ List.mem_map_of_mem hx')
        simpa using this
      simp only [find, List.find?, hne]
      exact ih h.2 hx'

end Accumulator

namespace Report

theorem nodup_accumulate (es : Elements) : ∀ a : Accumulator, (Accumulator.names a).Nodup → (Accumulator.names (accumulate a es)).Nodup := by
  induction es with
  | nil => intro a h; exact h
  | cons e es ih => intro a h; exact ih _ (Accumulator.nodup_add a e.name e.value h)

theorem mem_names_accumulate (es : Elements) : ∀ (a : Accumulator) (m : Bytes),
    m ∈ Accumulator.names (accumulate a es) ↔ m ∈ Accumulator.names a ∨ m ∈ es.map (·.name) := by
  induction es with
  | nil => intro a m; simp [accumulate]
  | cons e es ih =>
    intro a m
    have := ih (a.add e.name e.value) m
    simp only [accumulate, List.foldl] at this ⊢
    rw [this, Accumulator.mem_names_add]
    simp only [List.map_cons, List.mem_cons]
    constructor
    · rintro ((h | h) | h)
      · exact Or.inl h
      · exact Or.inr (Or.inl h)
      · exact Or.inr (Or.inr h)
    · rintro (h | h | h)
      · exact Or.inl (Or.inl h)
      · exact Or.inl (Or.inr h)
      · exact Or.inr h

/-- accumulating food by food is accumulating the concatenated contributions -/
theorem foldl_accumulate_flatten (f : Element → Elements) (foods : Elements) : ∀ a : Accumulator,
    foods.foldl (fun a e => accumulate a (f e)) a = accumulate a (foods.map f).flatten := by
  induction foods with
  | nil => intro a; rfl
  | cons e es ih =>
    intro a
    simp only [List.foldl, List.map_cons, List.flatten_cons]
    rw [ih]
    simp [accumulate, List.foldl_append]

end Report
end Hrano
