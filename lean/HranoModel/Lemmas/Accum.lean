import HranoModel.Spec.Sums
import HranoModel.Lemmas.Sort
/-
  Helper lemmas: the accumulator computes per-name signed sums; `addTo` computes per-name sums.
-/
namespace Hrano
open Spec

namespace Accumulator

def find (a : Accumulator) (n : Bytes) : Option Acc := List.find? (fun x => x.name == n) a

def negAt (a : Accumulator) (n : Bytes) : Q := match find a n with | some x => x.neg | none => 0
def posAt (a : Accumulator) (n : Bytes) : Q := match find a n with | some x => x.pos | none => 0
def names (a : Accumulator) : List Bytes := a.map (·.name)

theorem find_add_same (a : Accumulator) (n : Bytes) (v : Q) :
    find (add a n v) n = some (match find a n with
      | some x => if v < 0 then { x with neg := x.neg + v } else { x with pos := x.pos + v }
      | none => if v < 0 then ⟨n, v, 0⟩ else ⟨n, 0, v⟩) := by
  induction a with
  | nil => simp [add, find]; split <;> simp
  | cons x xs ih =>
    unfold add
    by_cases h : (x.name == n) = true
    · have hxn : x.name = n := by simpa using h
      by_cases hv : v < 0
      · simp [h, hv, find, List.find?, hxn]
      · simp [h, hv, find, List.find?, hxn]
    · have h' : (x.name == n) = false := by simpa using h
      simp only [h', Bool.false_eq_true, if_false]
      simp only [find, List.find?, h'] at ih ⊢
      exact ih

theorem find_add_other (a : Accumulator) (n m : Bytes) (v : Q) (h : (n == m) = false) :
    find (add a n v) m = find a m := by
  induction a with
  | nil =>
    simp only [add, find]
    split <;> simp [List.find?, h]
  | cons x xs ih =>
    unfold add
    by_cases hx : (x.name == n) = true
    · simp only [hx, if_true]
      have hxn : x.name = n := by simpa using hx
      have hxm : (x.name == m) = false := by rw [hxn]; exact h
      split <;> simp [find, List.find?, hxm]
    · have hx' : (x.name == n) = false := by simpa using hx
      simp only [hx', Bool.false_eq_true, if_false]
      simp only [find, List.find?] at ih ⊢
      split
      · rfl
      · exact ih

theorem posAt_add (a : Accumulator) (n m : Bytes) (v : Q) :
    posAt (add a n v) m = posAt a m + (if n == m && !(decide (v < 0)) then v else 0) := by
  by_cases h : (n == m) = true
  · have hnm : n = m := by simpa using h
    subst hnm
    simp only [posAt, find_add_same]
    by_cases hv : v < 0
    · cases hf : find a n <;> simp [hv, Rat.add_zero]
    · cases hf : find a n <;> simp [hv, Rat.zero_add]
  · have h' : (n == m) = false := by simpa using h
    simp [posAt, find_add_other a n m v h', h', Rat.add_zero]

theorem negAt_add (a : Accumulator) (n m : Bytes) (v : Q) :
    negAt (add a n v) m = negAt a m + (if n == m && decide (v < 0) then v else 0) := by
  by_cases h : (n == m) = true
  · have hnm : n = m := by simpa using h
    subst hnm
    simp only [negAt, find_add_same]
    by_cases hv : v < 0
    · cases hf : find a n <;> simp [hv, Rat.zero_add]
    · cases hf : find a n <;> simp [hv, Rat.add_zero]
  · have h' : (n == m) = false := by simpa using h
    simp [negAt, find_add_other a n m v h', h', Rat.add_zero]

end Accumulator

namespace Report

theorem posAt_accumulate (es : Elements) : ∀ (a : Accumulator) (m : Bytes),
    Accumulator.posAt (accumulate a es) m = Accumulator.posAt a m + posOf m es := by
  induction es with
  | nil => intro a m; simp [accumulate, posOf, Rat.add_zero]
  | cons e es ih =>
    intro a m
    have := ih (a.add e.name e.value) m
    simp only [accumulate, List.foldl] at this ⊢
    rw [this, Accumulator.posAt_add, posOf, Rat.add_assoc]

theorem negAt_accumulate (es : Elements) : ∀ (a : Accumulator) (m : Bytes),
    Accumulator.negAt (accumulate a es) m = Accumulator.negAt a m + negOf m es := by
  induction es with
  | nil => intro a m; simp [accumulate, negOf, Rat.add_zero]
  | cons e es ih =>
    intro a m
    have := ih (a.add e.name e.value) m
    simp only [accumulate, List.foldl] at this ⊢
    rw [this, Accumulator.negAt_add, negOf, Rat.add_assoc]

end Report

namespace Spec

theorem posOf_append (n : Bytes) (a b : Elements) : posOf n (a ++ b) = posOf n a + posOf n b := by
  induction a with
  | nil => simp [posOf, Rat.zero_add]
  | cons e es ih => simp [posOf, ih, Rat.add_assoc]

theorem negOf_append (n : Bytes) (a b : Elements) : negOf n (a ++ b) = negOf n a + negOf n b := by
  induction a with
  | nil => simp [negOf, Rat.zero_add]
  | cons e es ih => simp [negOf, ih, Rat.add_assoc]

theorem sumOf_append (n : Bytes) (a b : Elements) : sumOf n (a ++ b) = sumOf n a + sumOf n b := by
  induction a with
  | nil => simp [sumOf, Rat.zero_add]
  | cons e es ih => simp [sumOf, ih, Rat.add_assoc]

theorem pos_add_neg (n : Bytes) (es : Elements) : posOf n es + negOf n es = sumOf n es := by
  induction es with
  | nil => simp [posOf, negOf, sumOf, Rat.add_zero]
  | cons e es ih =>
    simp only [posOf, negOf, sumOf]
    by_cases hn : (e.name == n) = true <;> by_cases hv : e.value < 0 <;> simp [hn, hv, ← ih] <;> grind

end Spec
end Hrano
