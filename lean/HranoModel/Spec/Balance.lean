import HranoModel.Model.Tree
/-
  Specification vocabulary for the balance tree (C03): the total at a category path, the prefix sum of the
  logged quantities, the rows in pre-order, the chain of sole children that a collapsed row joins.
-/
namespace Hrano
namespace Spec
open Tree

def findChild (cs : List Tree) (n : Bytes) : Option Tree := cs.find? (fun c => c.name == n)

/-- the amount the tree holds at a category path (0 when there is no such node) -/
def totalAt : List Tree → List Bytes → Q
  | _, [] => 0
  | cs, [n] => match findChild cs n with
    | some c => c.total
    | none => 0
  | cs, n :: m :: rest => match findChild cs n with
    | some c => totalAt c.children (m :: rest)
    | none => 0

/-- is there a node at the path? -/
def hasPath : List Tree → List Bytes → Bool
  | _, [] => false
  | cs, [n] => (findChild cs n).isSome
  | cs, n :: m :: rest => match findChild cs n with
    | some c => hasPath c.children (m :: rest)
    | none => false

/-- `q` is a non-empty prefix of `p` -/
def isPrefix : List Bytes → List Bytes → Bool
  | [], _ => false
  | [a], b :: _ => a == b
  | a :: a' :: as, b :: bs => a == b && isPrefix (a' :: as) bs
  | _ :: _, [] => false

/-- the sum of the quantities of all logged foods at or below the path -/
def prefixSum (sep : UInt8) (q : List Bytes) : Elements → Q
  | [] => 0
  | e :: es => (if isPrefix q (Bytes.splitOn sep e.name) then e.value else 0) + prefixSum sep q es

mutual
/-- rows in pre-order: (indent, label, amount) -/
def preorder (level : Nat) : Tree → List (Nat × Bytes × Q)
  | node n t cs => (level, n, t) :: preorderList (level + 1) cs
def preorderList (level : Nat) : List Tree → List (Nat × Bytes × Q)
  | [] => []
  | c :: cs => preorder level c ++ preorderList level cs
end

def rowOf (r : Nat × Bytes × Q) : Bytes := Tree.row r.2.2 r.1 r.2.1

/-- the labels of the chain of sole children starting at a node, and the node the chain ends at -/
def chainNames : Tree → List Bytes
  | node n _ [c] => n :: chainNames c
  | node n _ _ => [n]

def chainEnd : Tree → Tree
  | node _ _ [c] => chainEnd c
  | t => t

end Spec
end Hrano
