import HranoModel.Model.Reports
/-
  Specification vocabulary: what a list of (name, amount) contributions adds up to, per name,
  split by sign as the properties state it (C02, C07, C12).
-/
namespace Hrano
namespace Spec

/-- sum of the non-negative amounts contributed under name `n` ("positive contributions") -/
def posOf (n : Bytes) : Elements → Q
  | [] => 0
  | e :: es => (if e.name == n && !(decide (e.value < 0)) then e.value else 0) + posOf n es

/-- sum of the negative amounts contributed under name `n` -/
def negOf (n : Bytes) : Elements → Q
  | [] => 0
  | e :: es => (if e.name == n && decide (e.value < 0) then e.value else 0) + negOf n es

/-- sum of all amounts contributed under name `n` -/
def sumOf (n : Bytes) : Elements → Q
  | [] => 0
  | e :: es => (if e.name == n then e.value else 0) + sumOf n es

/-- the names that occur, each once, in order of first appearance -/
def distinctNames : Elements → List Bytes
  | [] => []
  | e :: es => e.name :: (distinctNames es).filter (· != e.name)

/-- everything the foods of a day contribute, in order: quantity × resolved elements, or the food itself -/
def dayContributions (db : Book) (foods : Elements) : Elements :=
  (foods.map (Report.contributions db)).flatten

end Spec

/-- the amount listed under `n` (0 when `n` is not listed) -/
def Elements.valueAt (es : Elements) (n : Bytes) : Q := match List.find? (fun x => x.name == n) es with
  | some x => x.value
  | none => 0

end Hrano
