import HranoModel.Model.Resolver
import HranoModel.Spec.Sums
/-
  Specification of recipe resolution (C01, C11): a pure recursion over the *original* book that
  returns, for a name, the length of the longest chain of references below it and one
  `(leaf, product of the quantities along the path)` entry per ingredient path — or `none` when
  a chain of `fuel` or more references starts at the name.
-/
namespace Hrano
namespace Spec

/-- one path entry scaled by the quantity of the ingredient it was reached through -/
def scale (q : Q) (p : Element) : Element := ⟨p.name, p.value * q⟩

/-- the loop over the ingredients of a recipe: longest chain so far, paths so far -/
def specList (sn : Bytes → Option (Nat × Elements)) : List Element → Nat × Elements → Option (Nat × Elements)
  | [], acc => some acc
  | e :: es, (h, ps) =>
    match sn e.name with
    | none => none
    | some (he, pe) => specList sn es (max h (he + 1), ps ++ pe.map (scale e.value))

/-- `specNode B fuel x = some (height, paths)`; names the book does not define stand for themselves -/
def specNode (B : Book) : Nat → Bytes → Option (Nat × Elements)
  | 0, _ => none
  | f + 1, x =>
    match B.lookup x with
    | none => some (0, [⟨x, 1⟩])
    | some els => specList (specNode B f) els (0, [])

/-- a chain of `k` ingredient references starts at `x` -/
inductive Chain (B : Book) : Bytes → Nat → Prop where
  | zero (x : Bytes) : Chain B x 0
  | step (x : Bytes) (els : Elements) (e : Element) (k : Nat) :
      B.lookup x = some els → e ∈ els → Chain B e.name k → Chain B x (k + 1)

/-- a resolved element list: sorted by name, no duplicates, one amount per leaf equal to the sum over the
    paths, and exactly the leaves that occur on some path -/
structure Resolved (ps els : Elements) : Prop where
  sorted : (els.map (·.name)).Pairwise (fun a b => Bytes.le a b = true)
  nodup : (els.map (·.name)).Nodup
  value : ∀ leaf, Elements.valueAt els leaf = sumOf leaf ps
  names : ∀ leaf, leaf ∈ els.map (·.name) ↔ leaf ∈ ps.map (·.name)

end Spec
end Hrano
