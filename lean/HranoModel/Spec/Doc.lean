import HranoModel.Model.Parser
/-
  The documented file format as a data type with explicit layout choices, and its rendering to lines
  (specification side of C04).
-/
namespace Hrano
namespace Doc
open Bytes

def indentBytes : List UInt8 := [32, 9, 45]      -- blanks, tabs, YAML list dashes
def blankBytes : List UInt8 := [32, 9]

def AllInSet (set : List UInt8) (s : Bytes) : Prop := ∀ b ∈ s, set.contains b = true

/-- a name as the format allows it: not empty, does not start or end with a byte the tokenizer trims, does not
    start with the comment character, does not end with CR -/
structure NameOK (cc : UInt8) (n : Bytes) : Prop where
  starts : ∃ x xs, n = x :: xs ∧ PConst.trimText.contains x = false ∧ x ≠ cc
  ends : ∃ xs x, n = xs ++ [x] ∧ PConst.trimText.contains x = false ∧ x ≠ 13

/-- a number literal: accepted by the number grammar with value `v`, without blanks, not starting or ending with a
    byte trimmed around quantities -/
structure LitOK (lit : Bytes) (v : Q) : Prop where
  parses : Num.parseFloat lit = .value v
  noBlank : ∀ b ∈ lit, PConst.blanks.contains b = false
  starts : ∃ x xs, lit = x :: xs ∧ PConst.trimQty.contains x = false
  ends : ∃ xs x, lit = xs ++ [x] ∧ PConst.trimText.contains x = false ∧ PConst.trimQty.contains x = false ∧ x ≠ 13

/-- an entry line with its layout: indentation (blanks / tabs / dashes), optional quotes, optional colon, one or
    more blanks, the literal, trailing blanks -/
structure EntryLine where
  indent : Bytes
  quoted : Bool
  name : Bytes
  colon : Bool
  blanks : Bytes
  lit : Bytes
  value : Q
  trail : Bytes

def EntryLine.render (e : EntryLine) : Bytes :=
  e.indent ++ (if e.quoted then [34] else []) ++ e.name ++ (if e.quoted then [34] else []) ++ (if e.colon then [58] else [])
    ++ e.blanks ++ e.lit ++ e.trail

structure EntryLine.WF (cc : UInt8) (e : EntryLine) : Prop where
  indentNonEmpty : ∃ x xs, e.indent = x :: xs
  indentBytes : AllInSet indentBytes e.indent
  name : NameOK cc e.name
  blanksNonEmpty : ∃ xs x, e.blanks = xs ++ [x]
  blanksBytes : AllInSet blankBytes e.blanks
  trailBytes : AllInSet blankBytes e.trail
  lit : LitOK e.lit e.value

/-- a heading line: the name, optional quotes, optional colon, trailing blanks -/
structure HeadingLine where
  quoted : Bool
  name : Bytes
  colon : Bool
  trail : Bytes

def HeadingLine.render (h : HeadingLine) : Bytes :=
  (if h.quoted then [34] else []) ++ h.name ++ (if h.quoted then [34] else []) ++ (if h.colon then [58] else []) ++ h.trail

structure HeadingLine.WF (cc : UInt8) (h : HeadingLine) : Prop where
  name : NameOK cc h.name
  trailBytes : ∀ b ∈ h.trail, blankBytes.contains b = true

/-- lines that carry no entry: a comment at column 0, a line of blanks / separators only -/
inductive SkipLine where
  | comment (text : Bytes)       -- rendered as the comment character followed by the text
  | blank (bytes : Bytes)        -- only bytes the tokenizer trims (blanks, tabs, `:` `"` `-`)

def SkipLine.render (cc : UInt8) : SkipLine → Bytes
  | .comment t => cc :: t
  | .blank b => b

def SkipLine.WF : SkipLine → Prop
  | .comment _ => True
  | .blank b => ∀ x ∈ b, PConst.trimText.contains x = true

/-- a line inside a record -/
inductive BodyLine where
  | entry (e : EntryLine)
  | note (indent : Bytes) (text : Bytes)    -- indentation, then the comment character, then the text
  | skip (s : SkipLine)

def BodyLine.render (cc : UInt8) : BodyLine → Bytes
  | .entry e => e.render
  | .note ind t => ind ++ cc :: t
  | .skip s => s.render cc

def BodyLine.WF (cc : UInt8) : BodyLine → Prop
  | .entry e => e.WF cc
  | .note ind _ => (∃ x xs, ind = x :: xs ∧ blankBytes.contains x = true) ∧ (∀ b ∈ ind, blankBytes.contains b = true)
  | .skip s => s.WF

structure Record where
  heading : HeadingLine
  body : List BodyLine

structure File where
  preamble : List SkipLine
  records : List Record

def Record.lines (cc : UInt8) (r : Record) : List Bytes := r.heading.render :: r.body.map (BodyLine.render cc)

def File.lines (cc : UInt8) (f : File) : List Bytes :=
  f.preamble.map (SkipLine.render cc) ++ (f.records.map (Record.lines cc)).flatten

def Record.WF (cc : UInt8) (r : Record) : Prop := r.heading.WF cc ∧ ∀ b ∈ r.body, b.WF cc

def File.WF (cc : UInt8) (f : File) : Prop := (∀ s ∈ f.preamble, s.WF) ∧ ∀ r ∈ f.records, r.WF cc

/-- the entry a body line stands for, if it is one -/
def BodyLine.entryOf : BodyLine → Option Element
  | .entry e => some ⟨e.name, e.value⟩
  | _ => none

/-- the note a body line stands for, if it is one: whatever the note reader makes of the trimmed line -/
def BodyLine.noteOf (cc : UInt8) : BodyLine → Option MetaPair
  | .note ind t => some (Parser.metadataPair (Bytes.trim PConst.trimText (ind ++ cc :: t)))
  | _ => none

/-- what the file says: one record per heading, every entry in order with its exact name and the value of its
    literal; notes are never entries -/
def Record.node (cc : UInt8) (r : Record) : Node :=
  { header := r.heading.name
    elements := r.body.filterMap BodyLine.entryOf
    notes := r.body.filterMap (BodyLine.noteOf cc) }

def File.nodes (cc : UInt8) (f : File) : List Node := f.records.map (Record.node cc)

end Doc
end Hrano
