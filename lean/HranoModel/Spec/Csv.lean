import HranoModel.Model.Reports
/-
  An independent reader for the CSV dialect of RFC 4180 that `encoding/csv.Writer` emits (records end in
  LF; a field is quoted when it holds a separator, a quote, CR, LF or starts with white space; quotes are
  doubled).  Used only as the specification side of C13: `read (write rows) = some rows`.
-/
namespace Hrano
namespace Csv

/-- inside quotes: `""` is a quote, a single `"` closes the field -/
def readQuoted : Bytes → Bytes → Option (Bytes × Bytes)
  | [], _ => none
  | c :: r, acc =>
    if c == 34 then
      match r with
      | d :: r' => if d == 34 then readQuoted r' (34 :: acc) else some (acc.reverse, r)
      | [] => some (acc.reverse, [])
    else readQuoted r (c :: acc)

/-- outside quotes: up to (not including) the next separator or LF -/
def readUnquoted (sep : UInt8) : Bytes → Bytes → Bytes × Bytes
  | [], acc => (acc.reverse, [])
  | c :: r, acc => if c == sep || c == 10 then (acc.reverse, c :: r) else readUnquoted sep r (c :: acc)

def readField (sep : UInt8) (s : Bytes) : Option (Bytes × Bytes) :=
  match s with
  | 34 :: r => readQuoted r []
  | _ => some (readUnquoted sep s [])

/-- one record: fields separated by `sep`, ended by LF.  `fuel` bounds the number of fields. -/
def readRecord (sep : UInt8) : Nat → Bytes → List Bytes → Option (List Bytes × Bytes)
  | 0, _, _ => none
  | fuel + 1, s, acc =>
    match readField sep s with
    | none => none
    | some (f, rest) =>
      match rest with
      | 10 :: more => some ((f :: acc).reverse, more)
      | c :: more => if c == sep then readRecord sep fuel more (f :: acc) else none
      | [] => none

/-- all records of a text -/
def readAll (sep : UInt8) : Nat → Bytes → Option (List (List Bytes))
  | 0, _ => none
  | _ + 1, [] => some []
  | fuel + 1, s@(_ :: _) =>
    match readRecord sep (s.length + 1) s [] with
    | none => none
    | some (rec, rest) =>
      match readAll sep fuel rest with
      | none => none
      | some recs => some (rec :: recs)

def read (sep : UInt8) (s : Bytes) : Option (List (List Bytes)) := readAll sep (s.length + 1) s

end Csv
end Hrano
