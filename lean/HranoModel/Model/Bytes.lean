/-
  Bytes: Go strings are byte sequences.  Everything the parser and the reporters do with
  text is byte-wise (ASCII trim sets, `line[0]`, `LastIndexAny` with an ASCII cut set, `==`
  and `<` on strings), except column padding / truncation (rune counts) and
  `strings.TrimSpace` / `unicode.IsSpace` (decoded runes).  Core Lean only.
-/
namespace Hrano

abbrev Bytes := List UInt8

namespace Bytes

/-- `strings.TrimLeft` with an ASCII cut set (byte-wise). -/
def trimLeft (cut : List UInt8) : Bytes → Bytes
  | [] => []
  | b :: bs => if cut.contains b then trimLeft cut bs else b :: bs

/-- `strings.TrimRight` with an ASCII cut set. -/
def trimRight (cut : List UInt8) (s : Bytes) : Bytes :=
  (trimLeft cut s.reverse).reverse

/-- `strings.Trim` with an ASCII cut set. -/
def trim (cut : List UInt8) (s : Bytes) : Bytes :=
  trimRight cut (trimLeft cut s)

/-- split at the last byte that belongs to `cut`:  `strings.LastIndexAny` followed by
    `s[:i]`, `s[i:]` (the separator stays at the head of the second part). -/
def splitLastAny (cut : List UInt8) : Bytes → Option (Bytes × Bytes)
  | [] => none
  | c :: r =>
    match splitLastAny cut r with
    | some (pre, post) => some (c :: pre, post)
    | none => if cut.contains c then some ([], c :: r) else none

/-- `strings.Index(s, sep)` for a one-byte separator, followed by `s[:i]`, `s[i+1:]`. -/
def splitFirst (sep : UInt8) : Bytes → Option (Bytes × Bytes)
  | [] => none
  | c :: r =>
    if c == sep then some ([], r)
    else match splitFirst sep r with
      | some (pre, post) => some (c :: pre, post)
      | none => none

/-- `strings.Split(s, sep)` for a one-byte separator (always at least one part). -/
def splitOn (sep : UInt8) : Bytes → List Bytes
  | [] => [[]]
  | b :: bs =>
    match splitOn sep bs with
    | [] => [[]]          -- unreachable, keeps the function total without `head!`
    | p :: ps => if b == sep then [] :: p :: ps else (b :: p) :: ps

/-- `strings.Join(parts, sep)` for a one-byte separator. -/
def join (sep : UInt8) : List Bytes → Bytes
  | [] => []
  | [p] => p
  | p :: q :: ps => p ++ sep :: join sep (q :: ps)

/-- byte-wise lexicographic `≤` (Go's `<=` on strings). -/
def le : Bytes → Bytes → Bool
  | [], _ => true
  | _ :: _, [] => false
  | a :: as, b :: bs => if a.toNat < b.toNat then true else if b.toNat < a.toNat then false else le as bs

/-- byte-wise lexicographic `<`. -/
def lt (a b : Bytes) : Bool := le a b && !(a == b)

def ofString (s : String) : Bytes := s.toUTF8.toList

/-- lossy rendering for diagnostics only -/
def toStringLossy (b : Bytes) : String :=
  String.ofList (b.map fun c => if c.toNat < 128 then Char.ofNat c.toNat else '?')

/-! ### UTF-8 as Go decodes it (`utf8.DecodeRune`): an invalid byte is one rune of width 1 -/

private def cont (b : UInt8) : Bool := 0x80 ≤ b.toNat && b.toNat ≤ 0xBF

/-- width in bytes of the first rune of a non-empty string, following Go's acceptance table. -/
def runeWidth : Bytes → Nat
  | [] => 0
  | b0 :: rest =>
    let n := b0.toNat
    if n < 0x80 then 1
    else if 0xC2 ≤ n && n ≤ 0xDF then
      match rest with
      | b1 :: _ => if cont b1 then 2 else 1
      | _ => 1
    else if 0xE0 ≤ n && n ≤ 0xEF then
      match rest with
      | b1 :: b2 :: _ =>
        let lo := if n == 0xE0 then 0xA0 else 0x80
        let hi := if n == 0xED then 0x9F else 0xBF
        if lo ≤ b1.toNat && b1.toNat ≤ hi && cont b2 then 3 else 1
      | _ => 1
    else if 0xF0 ≤ n && n ≤ 0xF4 then
      match rest with
      | b1 :: b2 :: b3 :: _ =>
        let lo := if n == 0xF0 then 0x90 else 0x80
        let hi := if n == 0xF4 then 0x8F else 0xBF
        if lo ≤ b1.toNat && b1.toNat ≤ hi && cont b2 && cont b3 then 4 else 1
      | _ => 1
    else 1

/-- the runes of a byte string, each as its own byte chunk (`[]rune(s)` without decoding). -/
def runes (s : Bytes) : List Bytes :=
  go s.length s
where
  go : Nat → Bytes → List Bytes
    | 0, _ => []
    | _, [] => []
    | fuel + 1, s@(_ :: _) =>
      let w := max 1 (runeWidth s)
      s.take w :: go fuel (s.drop w)

/-- `utf8.RuneCountInString`. -/
def runeCount (s : Bytes) : Nat := (runes s).length

/-- the byte sequences of the runes for which `unicode.IsSpace` holds. -/
def spaceRunes : List Bytes :=
  [[0x09], [0x0A], [0x0B], [0x0C], [0x0D], [0x20], [0xC2, 0x85], [0xC2, 0xA0], [0xE1, 0x9A, 0x80],
   [0xE2, 0x80, 0x80], [0xE2, 0x80, 0x81], [0xE2, 0x80, 0x82], [0xE2, 0x80, 0x83], [0xE2, 0x80, 0x84],
   [0xE2, 0x80, 0x85], [0xE2, 0x80, 0x86], [0xE2, 0x80, 0x87], [0xE2, 0x80, 0x88], [0xE2, 0x80, 0x89],
   [0xE2, 0x80, 0x8A], [0xE2, 0x80, 0xA8], [0xE2, 0x80, 0xA9], [0xE2, 0x80, 0xAF], [0xE2, 0x81, 0x9F],
   [0xE3, 0x80, 0x80]]

/-- does the string start with a rune for which `unicode.IsSpace` holds? (width of it) -/
def leadingSpaceWidth (s : Bytes) : Option Nat :=
  match spaceRunes.find? (fun r => r.isPrefixOf s) with
  | some r => some r.length
  | none => none

/-- `strings.TrimSpace`. Leading part: strip space runes from the front. -/
def trimSpaceLeft (s : Bytes) : Bytes :=
  go s.length s
where
  go : Nat → Bytes → Bytes
    | 0, s => s
    | fuel + 1, s =>
      match leadingSpaceWidth s with
      | some w => go fuel (s.drop w)
      | none => s

/-- trailing part: strip space runes from the back (`DecodeLastRune` agrees with a suffix match for
    each of the listed encodings because all of them are complete, valid sequences). -/
def trimSpaceRight (s : Bytes) : Bytes :=
  go s.length s.reverse
where
  go : Nat → Bytes → Bytes
    | 0, r => r.reverse
    | fuel + 1, r =>
      match spaceRunes.find? (fun sp => sp.reverse.isPrefixOf r) with
      | some sp => go fuel (r.drop sp.length)
      | none => r.reverse

def trimSpace (s : Bytes) : Bytes := trimSpaceRight (trimSpaceLeft s)

/-! ### decimal numerals -/

def digit? (b : UInt8) : Option Nat :=
  if 48 ≤ b.toNat && b.toNat ≤ 57 then some (b.toNat - 48) else none

def isDigit (b : UInt8) : Bool := 48 ≤ b.toNat && b.toNat ≤ 57

/-- decimal digits of a natural number, most significant first -/
def natDigits (n : Nat) : Bytes :=
  (Nat.toDigits 10 n).map (fun c => UInt8.ofNat c.toNat)

def padLeft (c : UInt8) (w : Nat) (s : Bytes) : Bytes :=
  List.replicate (w - runeCount s) c ++ s

def padRight (c : UInt8) (w : Nat) (s : Bytes) : Bytes :=
  s ++ List.replicate (w - runeCount s) c

/-- zero-padded decimal of fixed minimal width -/
def natPad (w n : Nat) : Bytes :=
  let d := natDigits n
  List.replicate (w - d.length) 48 ++ d

def hexDigit (n : Nat) : UInt8 :=
  if n < 10 then UInt8.ofNat (48 + n) else UInt8.ofNat (87 + n)

def toHex (s : Bytes) : String :=
  String.ofList (s.foldr (fun b acc =>
    Char.ofNat (hexDigit (b.toNat / 16)).toNat :: Char.ofNat (hexDigit (b.toNat % 16)).toNat :: acc) [])

def hexVal? (c : Char) : Option Nat :=
  if '0' ≤ c && c ≤ '9' then some (c.toNat - 48)
  else if 'a' ≤ c && c ≤ 'f' then some (c.toNat - 87)
  else if 'A' ≤ c && c ≤ 'F' then some (c.toNat - 55)
  else none

def ofHex? (s : String) : Option Bytes :=
  go s.toList
where
  go : List Char → Option Bytes
    | [] => some []
    | [_] => none
    | a :: b :: rest => do
      let x ← hexVal? a
      let y ← hexVal? b
      let r ← go rest
      pure (UInt8.ofNat (x * 16 + y) :: r)

end Bytes
end Hrano
