import HranoModel.Model.Tree
import HranoModel.Model.Date
import HranoModel.Model.Resolver
/-
  The reporters of cmd/hranoprovod-cli/internal/*: each is modelled as the bytes it writes for
  the list of days it processed (per-day reporters: concatenation over days; period reporters:
  accumulate, then print in Flush).  text/template control flow of the three templates is
  expanded by hand (validated by the correspondence check).
-/
namespace Hrano
open Bytes

/-- a log record after date parsing and `NewLogNodeFromElements` -/
structure LogDay where
  date : Civil
  elements : Elements      -- merged: each food once, first-appearance order
  notes : List MetaPair
  deriving DecidableEq, Repr

/-- reporter.Config (the fields that reach a reporter) -/
structure RCfg where
  color : Bool := true
  totals : Bool := true
  totalsOnly : Bool := false
  shorten : Bool := false
  oldReg : Bool := false
  leftAligned : Bool := false
  csv : Bool := false
  collapse : Bool := false
  collapseLast : Bool := false
  groupFood : Bool := false
  singleElement : Bytes := []
  singleFood : Bytes := []
  dateLayout : Layout := []
  deriving Repr

namespace Report

def esc (code : Bytes) : Bytes := [0x1B, 0x5B] ++ code ++ [0x6D]
def red := esc [51, 49]
def green := esc [51, 50]
def reset := esc [48]

/-- `formatValue` / `cNum`: `%10.2f`, red when > 0, green when < 0 (colour on) -/
def fmtVal (color : Bool) (v : Q) : Bytes :=
  let s := Num.fmtFixedW 10 2 v
  if color then
    if v > 0 then red ++ s ++ reset
    else if v < 0 then green ++ s ++ reset
    else s
  else s

/-- a rune chunk as `string([]rune(s))` re-encodes it: invalid bytes become U+FFFD -/
def reencode (r : Bytes) : Bytes :=
  match r with
  | [b] => if b.toNat < 0x80 then r else [0xEF, 0xBF, 0xBD]
  | _ => r

/-- `truncate.Truncate(t, max, "…", PositionMiddle)` -/
def truncateMiddle (t : Bytes) (max : Nat) : Bytes :=
  let rs := runes t
  let sLen := rs.length
  if max ≥ sLen then t
  else if max < 3 then ((rs.take max).map reencode).flatten
  else
    let delta := if sLen % 2 == 0 then (max - 1 + 1) / 2 else (max - 1) / 2
    ((rs.take delta).map reencode).flatten ++ [0xE2, 0x80, 0xA6]
      ++ ((rs.drop (sLen - max + 1 + delta)).map reencode).flatten

def shorten (on : Bool) (t : Bytes) (max : Nat) : Bytes := if on then truncateMiddle t max else t

structure ReportElement where
  name : Bytes
  value : Q
  ingredients : Elements
  deriving Repr

structure Total where
  name : Bytes
  pos : Q
  neg : Q
  sum : Q
  deriving Repr

/-- what a logged food contributes: quantity × each resolved element, or the food itself -/
def contributions (db : Book) (e : Element) : Elements :=
  match db.lookup e.name with
  | some els => els.map (fun r => ⟨r.name, r.value * e.value⟩)
  | none => [⟨e.name, e.value⟩]

def accumulate (acc : Accumulator) (es : Elements) : Accumulator :=
  es.foldl (fun a e => a.add e.name e.value) acc

def totalsOf (acc : Accumulator) : List Total :=
  acc.sorted.map (fun a => ⟨a.name, a.pos, a.neg, a.pos + a.neg⟩)

/-- `GetReportItem` -/
def reportItem (db : Book) (cfg : RCfg) (d : LogDay) : List ReportElement × Option (List Total) :=
  let re := d.elements.map (fun e => (⟨e.name, e.value, contributions db e⟩ : ReportElement))
  let acc := d.elements.foldl (fun a e => accumulate a (contributions db e)) []
  (if cfg.totalsOnly then [] else re, if cfg.totals then some (totalsOf acc) else none)

def dashes (n : Nat) : Bytes := List.replicate n 45

/-- default template -/
def renderDefault (cfg : RCfg) (d : LogDay) (db : Book) : Bytes :=
  let (els, tots) := reportItem db cfg d
  Date.format cfg.dateLayout d.date
  ++ (els.map (fun el =>
        [10, 9] ++ padRight 32 27 (shorten cfg.shorten el.name 27) ++ [32, 58] ++ fmtVal cfg.color el.value
        ++ (el.ingredients.map (fun ing =>
              [10, 9, 9] ++ padLeft 32 20 (shorten cfg.shorten ing.name 20) ++ [32] ++ fmtVal cfg.color ing.value)).flatten)).flatten
  ++ (match tots with
      | none => []
      | some ts =>
        [10, 9] ++ ofString "-- TOTAL  " ++ dashes 52
        ++ (ts.map (fun t =>
              [10, 9, 9] ++ padLeft 32 20 (shorten cfg.shorten t.name 20) ++ [32] ++ fmtVal cfg.color t.pos ++ [32]
              ++ fmtVal cfg.color t.neg ++ [32, 61] ++ fmtVal cfg.color t.sum)).flatten)
  ++ [10]

/-- left-aligned template -/
def renderLeft (cfg : RCfg) (d : LogDay) (db : Book) : Bytes :=
  let (els, tots) := reportItem db cfg d
  Date.format cfg.dateLayout d.date
  ++ (els.map (fun el =>
        [10, 32, 32] ++ fmtVal cfg.color el.value ++ [32, 32] ++ el.name
        ++ (el.ingredients.map (fun ing =>
              [10, 32, 32] ++ fmtVal cfg.color ing.value ++ [32, 32, 32, 32] ++ ing.name)).flatten)).flatten
  ++ (match tots with
      | none => []
      | some ts =>
        [10] ++ dashes 55 ++ ofString " TOTAL --"
        ++ (ts.map (fun t =>
              [10, 32, 32] ++ fmtVal cfg.color t.pos ++ [32] ++ fmtVal cfg.color t.neg ++ [32, 61, 32]
              ++ fmtVal cfg.color t.sum ++ [32, 32] ++ t.name)).flatten)
  ++ [10]

/-- old reporter (`reg_reporter.go`) -/
def renderOld (cfg : RCfg) (d : LogDay) (db : Book) : Bytes :=
  let acc := d.elements.foldl (fun a e => accumulate a (contributions db e)) []
  Date.format cfg.dateLayout d.date ++ [10]
  ++ (d.elements.map (fun e =>
        if cfg.totalsOnly then [] else
        [9] ++ padRight 32 27 e.name ++ [32, 58] ++ fmtVal cfg.color e.value ++ [10]
        ++ ((contributions db e).map (fun ing =>
              [9, 9] ++ padLeft 32 20 ing.name ++ [32] ++ fmtVal cfg.color ing.value ++ [10])).flatten)).flatten
  ++ (if cfg.totals && !acc.isEmpty then
        [9] ++ ofString "-- TOTAL  " ++ dashes 52 ++ [10]
        ++ (acc.sorted.map (fun a =>
              [9, 9] ++ padLeft 32 20 a.name ++ [32] ++ fmtVal cfg.color a.pos ++ [32] ++ fmtVal cfg.color a.neg
              ++ [32, 61] ++ fmtVal cfg.color (a.pos + a.neg) ++ [10])).flatten
      else [])

/-- contributions of one day to a single element (`single_reporter.go`) -/
def singleContribs (db : Book) (x : Bytes) (d : LogDay) : Elements :=
  (d.elements.map (fun e => (contributions db e).filter (fun c => c.name == x))).flatten

/-- `reg -s X` -/
def renderSingle (cfg : RCfg) (d : LogDay) (db : Book) : Bytes :=
  let acc := accumulate [] (singleContribs db cfg.singleElement d)
  match acc with
  | [] => []
  | a :: _ =>
    let date := Date.format cfg.dateLayout d.date
    if cfg.csv then
      date ++ [59, 34] ++ cfg.singleElement ++ [34, 59] ++ Num.fmtFixed 2 a.pos ++ [59] ++ Num.fmtFixed 2 (-a.neg)
        ++ [59] ++ Num.fmtFixed 2 (a.pos + a.neg) ++ [10]
    else
      date ++ [32] ++ padLeft 32 20 cfg.singleElement ++ [32] ++ Num.fmtFixedW 10 2 a.pos ++ [32]
        ++ Num.fmtFixedW 10 2 (-a.neg) ++ [32, 61] ++ Num.fmtFixedW 10 2 (a.pos + a.neg) ++ [10]

/-- is `pat` a contiguous sub-sequence of `s`?  (`regexp.MatchString` for a pattern without metacharacters) -/
def containsSub (pat : Bytes) : Bytes → Bool
  | [] => pat.isEmpty
  | s@(_ :: r) => pat.isPrefixOf s || containsSub pat r

/-- `reg -f P` (literal patterns only) -/
def renderSingleFood (cfg : RCfg) (d : LogDay) : Bytes :=
  (d.elements.map (fun e =>
    if containsSub cfg.singleFood e.name then
      Date.format cfg.dateLayout d.date ++ [9] ++ e.name ++ [9] ++ Num.fmtFixed 2 e.value ++ [10]
    else [])).flatten

/-- `reg -s X -g`: period accumulation per food defined in the book -/
def renderByFood (cfg : RCfg) (days : List LogDay) (db : Book) : Bytes :=
  let acc := days.foldl (fun a d =>
    d.elements.foldl (fun a e =>
      match db.lookup e.name with
      | some els => (els.filter (fun r => r.name == cfg.singleElement)).foldl (fun a r => Accumulator.add a e.name (r.value * e.value)) a
      | none => a) a) ([] : Accumulator)
  ((Accumulator.sorted acc).map (fun a => Num.fmtFixedW 10 2 (a.pos + a.neg) ++ [9] ++ a.name ++ [10])).flatten

/-- all elements processed by a period reporter, in processing order -/
def allElements (days : List LogDay) : Elements := (days.map (·.elements)).flatten

/-- `bal` (plain / --collapse-last / --collapse) -/
def renderBalance (cfg : RCfg) (days : List LogDay) : Bytes :=
  let t := Tree.build (allElements days)
  if cfg.collapse then Tree.printCollapsedChildren 0 t else Tree.printChildren cfg.collapseLast 0 t

/-- what one logged food adds to the single-element balance: its amount of element X under the food's own
    name; a directly logged X counts as itself (fix for C03/C07) -/
def balanceSingleOf (db : Book) (x : Bytes) (e : Element) : Elements :=
  match db.lookup e.name with
  | some els => (els.filter (fun r => r.name == x)).map (fun r => (⟨e.name, r.value * e.value⟩ : Element))
  | none => if e.name == x then [⟨e.name, e.value⟩] else []

/-- `bal -s X` -/
def balanceSingleElements (db : Book) (x : Bytes) (days : List LogDay) : Elements :=
  ((allElements days).map (balanceSingleOf db x)).flatten

def renderBalanceSingle (cfg : RCfg) (days : List LogDay) (db : Book) : Bytes :=
  let es := balanceSingleElements db cfg.singleElement days
  let t := Tree.build es
  let total := es.foldl (fun s e => s + e.value) 0
  (if cfg.collapse then Tree.printCollapsedChildren 0 t else Tree.printChildren cfg.collapseLast 0 t)
  ++ dashes 11 ++ [124, 10]
  ++ Num.fmtFixedW 10 2 total ++ [32, 124, 32] ++ cfg.singleElement ++ [10]

/-- `report totals` -/
def renderTotals (days : List LogDay) (db : Book) : Bytes :=
  let acc := (allElements days).foldl (fun a e => accumulate a (contributions db e)) ([] : Accumulator)
  if acc.isEmpty then [] else
  padLeft 32 12 (ofString "positive") ++ [32, 32] ++ padLeft 32 12 (ofString "negative") ++ [32, 32]
    ++ padLeft 32 12 (ofString "sum") ++ [32, 32] ++ ofString "element" ++ [10]
  ++ (acc.sorted.map (fun a =>
        Num.fmtFixedW 12 2 a.pos ++ [32, 32] ++ Num.fmtFixedW 12 2 a.neg ++ [32, 32]
        ++ Num.fmtFixedW 12 2 (a.pos + a.neg) ++ [32, 32] ++ a.name ++ [10])).flatten

/-- insertion into a list sorted by value (ascending or descending), stable:
    an element goes *after* the entries it ties with -/
def insertByValue (desc : Bool) (e : Element) : Elements → Elements
  | [] => [e]
  | x :: xs =>
    if (if desc then e.value > x.value else e.value < x.value) then e :: x :: xs
    else x :: insertByValue desc e xs

/-- `sort.SliceStable` by value on a list that is already sorted by name -/
def stableByValue (desc : Bool) (es : Elements) : Elements :=
  es.foldl (fun acc e => insertByValue desc e acc) []

def valueRows (es : Elements) : Bytes :=
  (es.map (fun e => Num.fmtFixed 2 e.value ++ [9] ++ e.name ++ [10])).flatten

/-- `report quantity`: per-food sums, ordered by value, ties by name (fix for C05) -/
def renderQuantity (desc : Bool) (days : List LogDay) : Bytes :=
  let acc := (allElements days).foldl (fun a e => Elements.addTo a e.name e.value) ([] : Elements)
  valueRows (stableByValue desc (Elements.sort acc))

/-- the logged foods the book does not define, each once, in order of first appearance -/
def unresolvedNames (db : Book) (es : Elements) : Elements :=
  es.foldl (fun (a : Elements) e =>
    if (db.lookup e.name).isSome then a else if a.any (·.name == e.name) then a else a ++ [⟨e.name, 0⟩]) []

/-- `report unresolved`: logged foods the book does not define, each once, sorted (fix for C05) -/
def renderUnresolved (days : List LogDay) (db : Book) : Bytes :=
  ((Elements.sort (unresolvedNames db (allElements days))).map (fun e => e.name ++ [10])).flatten

/-- `report element-total X` on a resolved book -/
def renderElementTotal (x : Bytes) (desc : Bool) (db : Book) : Bytes :=
  let list : Elements := (db.map (fun (kv : Bytes × Elements) =>
    (kv.2.filter (fun r => r.name == x)).map (fun r => (⟨kv.1, r.value⟩ : Element)))).flatten
  valueRows (stableByValue desc (Elements.sort list))

/-! ### CSV (`encoding/csv.Writer`, separator ',', LF record end) -/

def csvNeedsQuotes (f : Bytes) : Bool :=
  if f.isEmpty then false
  else if f == [92, 46] then true
  else if f.any (fun c => c == 10 || c == 13 || c == 34 || c == Facts.csvSeparator) then true
  else (leadingSpaceWidth f).isSome

def csvField (f : Bytes) : Bytes :=
  if csvNeedsQuotes f then
    [34] ++ (f.map (fun c => if c == 34 then [34, 34] else [c])).flatten ++ [34]
  else f

def csvRecord (fields : List Bytes) : Bytes :=
  join Facts.csvSeparator (fields.map csvField) ++ [10]

/-- `csv.DefaultOutputTimeFormat` (`Props/C13` checks that it is the ISO layout) -/
def isoLayout : Layout := (Date.parseLayout Facts.csvTimeFormat).getD []

/-- `csv log` -/
def renderCsvLog (d : LogDay) : Bytes :=
  (d.elements.map (fun e => csvRecord [Date.format isoLayout d.date, e.name, Num.fmtFixed Facts.csvLogPrecision e.value])).flatten

/-- `csv database` / `csv database-resolved`: one record's rows -/
def renderCsvDb (header : Bytes) (els : Elements) : Bytes :=
  (els.map (fun e => csvRecord [header, e.name, Num.fmtFixed Facts.csvDbPrecision e.value])).flatten

/-- sort a book by recipe name -/
def sortBook (b : Book) : Book :=
  b.foldr (fun kv acc => ins kv acc) []
where
  ins (kv : Bytes × Elements) : Book → Book
    | [] => [kv]
    | x :: xs => if Bytes.le kv.1 x.1 then kv :: x :: xs else x :: ins kv xs

/-! ### summary / print -/

def renderSummary (cfg : RCfg) (d : LogDay) (db : Book) : Bytes :=
  let (els, tots) := reportItem db cfg d
  Date.format cfg.dateLayout d.date ++ [32, 58]
  ++ (match tots with
      | none => []
      | some ts => (ts.map (fun t => [10] ++ fmtVal cfg.color t.pos ++ [32, 58, 32] ++ t.name)).flatten)
  ++ [10] ++ dashes 12
  ++ (els.map (fun el => [10] ++ fmtVal cfg.color el.value ++ [32, 58, 32] ++ el.name)).flatten
  ++ [10]

def renderPrint (cfg : RCfg) (d : LogDay) : Bytes :=
  Date.format cfg.dateLayout d.date ++ [58, 10]
  ++ (d.notes.map (fun m =>
        if !m.name.isEmpty then [32, 32, 35, 32] ++ m.name ++ [58, 32] ++ m.value ++ [10]
        else [32, 32, 35, 32] ++ m.value ++ [10])).flatten
  ++ (d.elements.map (fun e => [32, 32, 45, 32] ++ e.name ++ [58, 32] ++ Num.fmtFixed Facts.printPrecision e.value ++ [10])).flatten
  ++ [10]

end Report
end Hrano
