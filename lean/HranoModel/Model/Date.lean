import HranoModel.Model.Bytes
/-
  Dates.  `time.Parse` / `Time.Format` for *numeric* layouts (the tokens 2006, 01, 1, 02, 2 and
  literal non-blank separator bytes), and the proleptic Gregorian day count.  A log heading
  parsed with a date-only layout is a UTC midnight; instants are `Int` nanoseconds since the
  Unix epoch, so `Equal/After/Before` are `=`, `>`, `<`.
  Modelled, not verified: validated against the Go library by the `date` correspondence mode.
-/
namespace Hrano
open Bytes

inductive LTok where
  | year4 | month2 | month1 | day2 | day1
  | lit (b : UInt8)
  deriving DecidableEq, Repr

abbrev Layout := List LTok

structure Civil where
  y : Nat
  m : Nat
  d : Nat
  deriving DecidableEq, Repr

namespace Date

/-- recognise the supported subset of Go layouts; `none` = outside the model -/
def parseLayout : Bytes → Option Layout
  | [] => some []
  | 50 :: 48 :: 48 :: 54 :: r => (parseLayout r).map (LTok.year4 :: ·)          -- "2006"
  | 48 :: 49 :: r => (parseLayout r).map (LTok.month2 :: ·)                     -- "01"
  | 48 :: 50 :: r => (parseLayout r).map (LTok.day2 :: ·)                       -- "02"
  | 49 :: r =>
    match r with
    | 53 :: _ => none                                                            -- "15" is the hour
    | _ => (parseLayout r).map (LTok.month1 :: ·)                                -- "1"
  | 50 :: r => (parseLayout r).map (LTok.day1 :: ·)                             -- "2"
  | b :: r =>
    -- only plain separators are taken as literals; anything that could start another Go
    -- layout token (letters, digits, '_', blanks, ',' and '.' before 0/9, '-' before 07) is outside the model
    if b == 47 || b == 45 || b == 46 then
      match b, r with
      | 45, 48 :: 55 :: _ => none
      | 46, 48 :: r' =>
        -- ".0…0" followed by a non-digit would be fractional seconds
        let rest := r'.dropWhile (· == 48)
        match rest with
        | c :: _ => if isDigit c then (parseLayout r).map (LTok.lit b :: ·) else none
        | [] => none
      | 46, 57 :: _ => none
      | _, _ => (parseLayout r).map (LTok.lit b :: ·)
    else none

def isLeap (y : Nat) : Bool := y % 4 == 0 && (y % 100 != 0 || y % 400 == 0)

def daysIn (m y : Nat) : Nat :=
  if m == 2 then (if isLeap y then 29 else 28)
  else if m == 4 || m == 6 || m == 9 || m == 11 then 30 else 31

/-- `getnum(s, fixed)` -/
def getnum (s : Bytes) (fixed : Bool) : Option (Nat × Bytes) :=
  match s with
  | a :: r =>
    if !isDigit a then none else
    match r with
    | b :: r' =>
      if isDigit b then some ((a.toNat - 48) * 10 + (b.toNat - 48), r')
      else if fixed then none else some (a.toNat - 48, r)
    | [] => if fixed then none else some (a.toNat - 48, [])
  | [] => none

structure Partial where
  y : Nat := 0
  m : Nat := 1
  d : Nat := 1

def parseToks : Layout → Bytes → Partial → Option Partial
  | [], [], p => some p
  | [], _ :: _, _ => none                     -- extra text
  | .year4 :: ts, a :: b :: c :: d :: r, p =>
    if isDigit a && isDigit b && isDigit c && isDigit d then
      parseToks ts r { p with y := (a.toNat - 48) * 1000 + (b.toNat - 48) * 100 + (c.toNat - 48) * 10 + (d.toNat - 48) }
    else none
  | .year4 :: _, _, _ => none
  | .month2 :: ts, v, p => match getnum v true with
    | some (n, r) => parseToks ts r { p with m := n }
    | none => none
  | .month1 :: ts, v, p => match getnum v false with
    | some (n, r) => parseToks ts r { p with m := n }
    | none => none
  | .day2 :: ts, v, p => match getnum v true with
    | some (n, r) => parseToks ts r { p with d := n }
    | none => none
  | .day1 :: ts, v, p => match getnum v false with
    | some (n, r) => parseToks ts r { p with d := n }
    | none => none
  | .lit b :: ts, c :: r, p => if b == c then parseToks ts r p else none
  | .lit _ :: _, [], _ => none

/-- `time.Parse(layout, value)` for a numeric layout: the civil date, validated as the library does -/
def parse (l : Layout) (v : Bytes) : Option Civil :=
  match parseToks l v {} with
  | none => none
  | some p =>
    if p.m < 1 || p.m > 12 then none
    else if p.d < 1 || p.d > daysIn p.m p.y then none
    else some ⟨p.y, p.m, p.d⟩

def format (l : Layout) (c : Civil) : Bytes :=
  l.foldr (fun t acc =>
    (match t with
     | .year4 => natPad 4 c.y
     | .month2 => natPad 2 c.m
     | .month1 => natDigits c.m
     | .day2 => natPad 2 c.d
     | .day1 => natDigits c.d
     | .lit b => [b]) ++ acc) []

/-- days since 1970-01-01 (Hinnant's `days_from_civil`, shifted by one 400-year era to stay in `Nat`) -/
def toDays (c : Civil) : Int :=
  let y := if c.m ≤ 2 then c.y + 400 - 1 else c.y + 400
  let era := y / 400
  let yoe := y - era * 400
  let mp := if c.m > 2 then c.m - 3 else c.m + 9
  let doy := (153 * mp + 2) / 5 + c.d - 1
  let doe := yoe * 365 + yoe / 4 - yoe / 100 + doy
  ((era * 146097 + doe : Nat) : Int) - 719468 - 146097

/-- inverse (`civil_from_days`), for days from year 0 on -/
def ofDays (days : Int) : Civil :=
  let z := (days + 719468 + 146097).toNat
  let era := z / 146097
  let doe := z - era * 146097
  let yoe := (doe - doe / 1460 + doe / 36524 - doe / 146096) / 365
  let y := yoe + era * 400
  let doy := doe - (365 * yoe + yoe / 4 - yoe / 100)
  let mp := (5 * doy + 2) / 153
  let d := doy - (153 * mp + 2) / 5 + 1
  let m := if mp < 10 then mp + 3 else mp - 9
  ⟨(if m ≤ 2 then y + 1 else y) - 400, m, d⟩

def nsPerDay : Int := 86400 * 1000000000

/-- the instant (ns since the epoch) of the UTC midnight of a civil date -/
def instant (c : Civil) : Int := toDays c * nsPerDay

end Date
end Hrano
