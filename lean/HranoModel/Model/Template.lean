import HranoModel.Model.Reports
import HranoModel.Facts
/-
  The row formats of the two register templates, read from the source on every run
  (`Facts.regDefaultFormats`, `Facts.regLeftFormats`, the `shorten` widths and the line that opens
  the totals block), and a model of the part of `fmt.Sprintf` they use: literal bytes, `%s`,
  `%Ns` (pad left to N runes) and `%-Ns` (pad right to N runes).  `renderDefaultT` / `renderLeftT`
  are the two templates written over these regenerated formats; `Props/C02.lean` proves them equal
  to the hand-expanded `renderDefault` / `renderLeft` the rest of the model and the driver use.
  Core Lean only.
-/
namespace Hrano.Tmpl
open Hrano Hrano.Bytes Hrano.Report

/-- one piece of a format string -/
inductive Piece where
  | lit (b : UInt8)
  | str (left : Bool) (width : Nat)     -- `%Ns` (left = false) or `%-Ns` (left = true); width 0: plain `%s`
  | flt (width prec : Nat)              -- `%N.Pf` (also written `%0.Pf` when N = 0)
  | int                                 -- `%d`
  | bad                                 -- a verb this model does not know
  deriving DecidableEq, Repr

/-- an argument of `fmt.Sprintf`: a string or a number -/
inductive Arg where
  | s (b : Bytes)
  | q (v : Q)
  | i (v : Int)

/-- a decimal number in front of the rest -/
def width : Bytes → Nat → Nat × Bytes
  | b :: rest, acc => if 48 ≤ b.toNat ∧ b.toNat ≤ 57 then width rest (acc * 10 + (b.toNat - 48)) else (acc, b :: rest)
  | [], acc => (acc, [])

/-- after `%`: optional `-`, optional width (a zero flag in front of a real width is not modelled), optional `.precision`,
    then `s` or `f` -/
def verb (s : Bytes) : Piece × Bytes :=
  let (left, s1) := match s with
    | 45 :: r => (true, r)
    | r => (false, r)
  let zeroPadded := match s1 with
    | 48 :: d :: _ => 48 ≤ d.toNat ∧ d.toNat ≤ 57
    | _ => False
  match width s1 0 with
  | (w, 115 :: r) => (if zeroPadded then .bad else .str left w, r)
  | (w, 100 :: r) => (if zeroPadded || left || w != 0 then .bad else .int, r)
  | (w, 46 :: r) =>
    (match width r 0 with
     | (p, 102 :: r') => (if zeroPadded || left then .bad else .flt w p, r')
     | (_, r') => (.bad, r'))
  | (_, r) => (.bad, r)

def pieces : Nat → Bytes → List Piece
  | 0, _ => []
  | _, [] => []
  | fuel + 1, 37 :: rest => let (p, r) := verb rest; p :: pieces fuel r
  | fuel + 1, b :: rest => .lit b :: pieces fuel rest

def parseFmt (f : Bytes) : List Piece := pieces f.length f

/-- `fmt.Sprintf` over string and number arguments.  A missing argument, a verb that does not fit its argument and an unknown
    verb print `%!…` in Go; they are outside this model (rendered as nothing) and `wellFormed` / `wellTyped` show that none
    occurs in the current formats. -/
def render : List Piece → List Arg → Bytes
  | [], _ => []
  | .lit b :: ps, args => b :: render ps args
  | .str left w :: ps, .s a :: args => (if left then padRight 32 w a else padLeft 32 w a) ++ render ps args
  | .flt w p :: ps, .q v :: args => Num.fmtFixedW w p v ++ render ps args
  | .int :: ps, .i v :: args => Num.fmtInt v ++ render ps args
  | .str _ _ :: ps, _ :: args => render ps args
  | .flt _ _ :: ps, _ :: args => render ps args
  | .int :: ps, _ :: args => render ps args
  | .str _ _ :: ps, [] => render ps []
  | .flt _ _ :: ps, [] => render ps []
  | .int :: ps, [] => render ps []
  | .bad :: ps, args => render ps args

/-- general form -/
def sprintfA (f : Bytes) (args : List Arg) : Bytes := render (parseFmt f) args

/-- string arguments only -/
def sprintf (f : Bytes) (args : List Bytes) : Bytes := render (parseFmt f) (args.map .s)

def wellFormed (f : Bytes) (nargs : Nat) : Bool :=
  let ps := parseFmt f
  !ps.contains .bad && (ps.filter (fun p => match p with | .str _ _ => true | .flt _ _ => true | .int => true | _ => false)).length == nargs

/-- the verbs of a format, in order: `true` for a number verb, `false` for a string verb; `none` when a verb is not modelled -/
def signature (f : Bytes) : Option (List Bool) :=
  let ps := parseFmt f
  if ps.contains .bad then none
  else some (ps.filterMap (fun p => match p with | .str _ _ => some false | .flt _ _ => some true | _ => none))

/-- the default template over the regenerated formats -/
def renderDefaultT (cfg : RCfg) (d : LogDay) (db : Book) : Bytes :=
  let (els, tots) := reportItem db cfg d
  let F := Facts.regDefaultFormats
  let W := Facts.regDefaultShorten
  Date.format cfg.dateLayout d.date
  ++ (els.map (fun el =>
        [10] ++ sprintf (F.getD 0 []) [shorten cfg.shorten el.name (W.getD 0 0), fmtVal cfg.color el.value]
        ++ (el.ingredients.map (fun ing =>
              [10] ++ sprintf (F.getD 1 []) [shorten cfg.shorten ing.name (W.getD 1 0), fmtVal cfg.color ing.value])).flatten)).flatten
  ++ (match tots with
      | none => []
      | some ts =>
        [10] ++ Facts.regDefaultTotalsHead
        ++ (ts.map (fun t =>
              [10] ++ sprintf (F.getD 2 []) [shorten cfg.shorten t.name (W.getD 2 0), fmtVal cfg.color t.pos,
                                              fmtVal cfg.color t.neg, fmtVal cfg.color t.sum])).flatten)
  ++ [10]

/-- the left-aligned template over the regenerated formats -/
def renderLeftT (cfg : RCfg) (d : LogDay) (db : Book) : Bytes :=
  let (els, tots) := reportItem db cfg d
  let F := Facts.regLeftFormats
  Date.format cfg.dateLayout d.date
  ++ (els.map (fun el =>
        [10] ++ sprintf (F.getD 0 []) [fmtVal cfg.color el.value, el.name]
        ++ (el.ingredients.map (fun ing =>
              [10] ++ sprintf (F.getD 1 []) [fmtVal cfg.color ing.value, ing.name])).flatten)).flatten
  ++ (match tots with
      | none => []
      | some ts =>
        [10] ++ Facts.regLeftTotalsHead
        ++ (ts.map (fun t =>
              [10] ++ sprintf (F.getD 2 []) [fmtVal cfg.color t.pos, fmtVal cfg.color t.neg, fmtVal cfg.color t.sum, t.name])).flatten)
  ++ [10]

/-- the old reporter (`reg_reporter.go`) over its regenerated `fmt.Fprintf` formats -/
def renderOldT (cfg : RCfg) (d : LogDay) (db : Book) : Bytes :=
  let F := Facts.regOldFormats
  let acc := d.elements.foldl (fun a e => accumulate a (contributions db e)) []
  sprintf (F.getD 0 []) [Date.format cfg.dateLayout d.date]
  ++ (d.elements.map (fun e =>
        if cfg.totalsOnly then [] else
        sprintf (F.getD 1 []) [e.name, fmtVal cfg.color e.value]
        ++ ((contributions db e).map (fun ing => sprintf (F.getD 2 []) [ing.name, fmtVal cfg.color ing.value])).flatten)).flatten
  ++ (if cfg.totals && !acc.isEmpty then
        sprintf (F.getD 3 []) [ofString "TOTAL ", dashes 52]
        ++ (acc.sorted.map (fun a =>
              sprintf (F.getD 4 []) [a.name, fmtVal cfg.color a.pos, fmtVal cfg.color a.neg, fmtVal cfg.color (a.pos + a.neg)])).flatten
      else [])

end Hrano.Tmpl
