import HranoModel.Model.Num
import HranoModel.Facts
/-
  bufio.Scanner/ScanLines and parser.ParseStreamCallback.

  Mirrors parser/parser.go line by line: classification order (trimmed-empty or first byte
  `#` → skip; first byte not blank/tab/dash → flush + heading; otherwise, only if a record
  is open: note / bad syntax / conversion error / entry), the two trim sets, the split at
  the last blank, 1-based physical line numbers, the final flush, and (after the fix for
  C10) the scanner's error being returned instead of the final flush.
-/
namespace Hrano
open Bytes

structure Element where
  name : Bytes
  value : Q
  deriving DecidableEq, Repr

abbrev Elements := List Element

structure MetaPair where
  name : Bytes
  value : Bytes
  deriving DecidableEq, Repr

structure Node where
  header : Bytes
  elements : Elements
  notes : List MetaPair
  deriving DecidableEq, Repr

inductive PErr where
  | badSyntax (line : Nat) (raw : Bytes)
  | conversion (text : Bytes) (line : Nat) (raw : Bytes)
  deriving DecidableEq, Repr

inductive Event where
  | node (n : Node)
  | error (e : PErr)
  deriving DecidableEq, Repr

inductive ScanErr where
  | read       -- the underlying reader returned an error
  | tooLong    -- bufio.ErrTooLong
  deriving DecidableEq, Repr

/-! ### constants of parser.go: taken from `Facts.lean`, which tools/facts regenerates from the source on every run -/
namespace PConst
def trimText : List UInt8 := Facts.trimText
def trimQty  : List UInt8 := Facts.trimQty
def commentChar : UInt8 := Facts.commentChar
def blanks : List UInt8 := Facts.blanks                  -- cut set of LastIndexAny
def maxToken : Nat := 65536                              -- bufio.MaxScanTokenSize (standard library)
end PConst

namespace Scanner

/-- pieces between LF bytes; a final unterminated non-empty piece is a line, a final empty piece is not. -/
def rawLines (s : Bytes) : List Bytes :=
  let parts := splitOn 10 s
  match parts.getLast? with
  | some [] => parts.dropLast
  | _ => parts

/-- `dropCR` -/
def dropCR (l : Bytes) : Bytes :=
  match l.getLast? with
  | some 13 => l.dropLast
  | _ => l

/-- lines delivered before the first over-long one, and whether there was one -/
def takeFitting : List Bytes → List Bytes × Bool
  | [] => ([], false)
  | l :: ls =>
    if l.length ≥ PConst.maxToken then ([], true)
    else let (r, b) := takeFitting ls; (l :: r, b)

/-- the bytes a reader serves before it fails (if `failAt = some k` with `k ≤ |s|` it returns an error
    once `k` bytes have been served), and whether it failed -/
def served (s : Bytes) (failAt : Option Nat) : Bytes × Bool :=
  match failAt with
  | some k => if k ≤ s.length then (s.take k, true) else (s, false)
  | none => (s, false)

/-- what `bufio.Scanner` delivers: the lines of the served bytes before the first over-long one, and
    the error it ends with (too long takes precedence: the buffer fills before the reader is asked again) -/
def scan (s : Bytes) (failAt : Option Nat) : List Bytes × Option ScanErr :=
  let d := served s failAt
  let t := takeFitting (rawLines d.1)
  (t.1.map dropCR, if t.2 then some .tooLong else if d.2 then some .read else none)

end Scanner

namespace Parser
open PConst

/-- `getMetadataPair` -/
def metadataPair (trimmedLine : Bytes) : MetaPair :=
  let t := trimSpace (trim [35] trimmedLine)
  match splitFirst 58 t with
  | some (pre, post) => { name := trim [35, 32, 9] pre, value := trimSpace post }
  | none => { name := [], value := t }

inductive Indented where
  | note (m : MetaPair)
  | badSyntax
  | conversion (text : Bytes)
  | entry (name : Bytes) (v : Q)
  | entryNonFinite (name : Bytes)
  deriving DecidableEq, Repr

inductive LineClass where
  | skip
  | heading (h : Bytes)
  | indented (k : Indented)
  deriving DecidableEq, Repr

/-- what an indented, non-blank line means inside a record -/
def classifyIndented (cc : UInt8) (trimmed : Bytes) : Indented :=
  if trimmed.head? == some cc then .note (metadataPair trimmed)
  else
    match splitLastAny blanks trimmed with
    | none => .badSyntax
    | some (pre, post) =>
      let title := trim trimText pre
      let sQty := trim trimQty post
      match Num.parseFloat sQty with
      | .bad => .conversion sQty
      | .nonFinite => .entryNonFinite title
      | .value v => .entry title v

def classify (cc : UInt8) (line : Bytes) : LineClass :=
  let trimmed := trim trimText line
  if trimmed.isEmpty then .skip
  else match line with
    | [] => .skip
    | b0 :: _ =>
      if b0 == cc then .skip
      else if b0 != Facts.runeSpace && b0 != Facts.runeTab && b0 != Facts.runeArrayItem then .heading trimmed
      else .indented (classifyIndented cc trimmed)

def flush : Option Node → List Event
  | some n => [.node n]
  | none => []

/-- the callback sequence of `ParseStreamCallback` for a callback that never stops.
    `ln` is the 1-based number of the first line of the list; `final` says whether the last
    record is pushed at the end (it is not when the scanner reported an error). -/
def parseLines (cc : UInt8) (final : Bool) : Option Node → Nat → List Bytes → List Event
  | cur, _, [] => if final then flush cur else []
  | cur, ln, l :: ls =>
    match classify cc l with
    | .skip => parseLines cc final cur (ln + 1) ls
    | .heading h => flush cur ++ parseLines cc final (some ⟨h, [], []⟩) (ln + 1) ls
    | .indented k =>
      match cur with
      | none => parseLines cc final none (ln + 1) ls
      | some n =>
        match k with
        | .note m => parseLines cc final (some { n with notes := n.notes ++ [m] }) (ln + 1) ls
        | .badSyntax => .error (.badSyntax ln l) :: parseLines cc final cur (ln + 1) ls
        | .conversion t => .error (.conversion t ln l) :: parseLines cc final cur (ln + 1) ls
        | .entry name v => parseLines cc final (some { n with elements := n.elements ++ [⟨name, v⟩] }) (ln + 1) ls
        | .entryNonFinite name => parseLines cc final (some { n with elements := n.elements ++ [⟨name, 0⟩] }) (ln + 1) ls

/-- events of a complete, readable text -/
def events (cc : UInt8) (src : Bytes) : List Event :=
  parseLines cc true none 1 (Scanner.scan src none).1

/-- events and scanner status under a possibly failing reader -/
def eventsFaulty (cc : UInt8) (src : Bytes) (failAt : Option Nat) : List Event × Option ScanErr :=
  let (ls, e) := Scanner.scan src failAt
  (parseLines cc e.isNone none 1 ls, e)

/-- the error events of an event list, in order -/
def errorsOf (evs : List Event) : List PErr :=
  evs.filterMap (fun ev => match ev with | .error e => some e | .node _ => none)

/-- does some entry of the text carry an Inf/NaN spelling, a magnitude of 10^30 or more (from which the program's
    float64 arithmetic can overflow to ±Inf and NaN) or a non-zero magnitude below 10^-30 (from which products can
    underflow to a signed zero)?  Exact arithmetic has none of these; such cases are compared by outcome class only. -/
def hasNonFinite (cc : UInt8) (src : Bytes) : Bool :=
  go none (Scanner.scan src none).1
where
  go : Option Unit → List Bytes → Bool
    | _, [] => false
    | cur, l :: ls =>
      match classify cc l with
      | .skip => go cur ls
      | .heading _ => go (some ()) ls
      | .indented k =>
        match cur, k with
        | some _, .entryNonFinite _ => true
        | some _, .entry _ v =>
          if v.num.natAbs ≥ 10 ^ 30 * v.den then true                              -- products may overflow to ±Inf
          else if v.num != 0 && v.num.natAbs * 10 ^ 30 < v.den then true           -- products may underflow to ±0
          else go cur ls
        | _, _ => go cur ls

inductive FmtArg where
  | int (n : Nat)
  | str (s : Bytes)

/-- `fmt.Sprintf` for the verbs `%d`, `%s` and `%%` -/
def sprintf : Bytes → List FmtArg → Bytes
  | [], _ => []
  | 37 :: 100 :: r, .int n :: as => natDigits n ++ sprintf r as
  | 37 :: 115 :: r, .str t :: as => t ++ sprintf r as
  | 37 :: 37 :: r, as => 37 :: sprintf r as
  | c :: r, as => c :: sprintf r as

/-- error messages of parser/errors.go (formats from `Facts.lean`) -/
def PErr.message : PErr → Bytes
  | .badSyntax ln raw => sprintf Facts.badSyntaxFormat [.int ln, .str raw]
  | .conversion t ln raw => sprintf Facts.conversionFormat [.str t, .int ln, .str raw]

end Parser
end Hrano
