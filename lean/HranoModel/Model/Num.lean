import HranoModel.Model.Bytes
/-
  Numbers.  Quantities are exact rationals (`Rat`, core).  `parseFloat` re-implements the
  *acceptance* of `strconv.ParseFloat(s, 64)` (decimal, hex-float, underscores, inf/nan
  spellings, range error) and the exact value of an accepted finite literal; `fmtFixed` is
  `%.Nf` on an exact value (round half to even on the decimal expansion — what `strconv`
  does for a float64, whose value is itself an exact dyadic rational).
  Modelled, not verified: validated against the Go library by the `num` correspondence mode.
-/
namespace Hrano

abbrev Q := Rat

inductive PF where
  | value (q : Q)        -- accepted, finite
  | nonFinite            -- accepted, ±Inf or NaN spelling
  | bad                  -- rejected (syntax or range): `ParseFloat` returns an error
  deriving Repr, DecidableEq

namespace Num
open Bytes

def lower (b : UInt8) : UInt8 := if 65 ≤ b.toNat && b.toNat ≤ 90 then UInt8.ofNat (b.toNat + 32) else b

def isHexDigit (b : UInt8) : Bool :=
  isDigit b || (97 ≤ (lower b).toNat && (lower b).toNat ≤ 102)

def hexVal (b : UInt8) : Nat :=
  if isDigit b then b.toNat - 48 else (lower b).toNat - 87

/-- `strconv.underscoreOK` -/
def underscoreOK (s : Bytes) : Bool :=
  let s := match s with
    | 43 :: r => r
    | 45 :: r => r
    | r => r
  -- optional base prefix
  let (st, hex, s) := match s with
    | 48 :: b :: r =>
      if lower b == 98 || lower b == 111 || lower b == 120 then ((48 : UInt8), lower b == 120, r) else ((94 : UInt8), false, s)
    | _ => ((94 : UInt8), false, s)
  go hex st s
where
  /-- state byte: '^' beginning, '0' digit or prefix, '_' underscore, '!' other -/
  go (hex : Bool) : UInt8 → Bytes → Bool
    | st, [] => st != 95
    | st, c :: r =>
      if isDigit c || (hex && isHexDigit c) then go hex 48 r
      else if c == 95 then (if st != 48 then false else go hex 95 r)
      else if st == 95 then false
      else go hex 33 r

/-- scan the mantissa: digits, underscores and at most one dot.
    returns (digit values, number of digits after the dot, saw a dot, rest) -/
def scanMantissa (hex : Bool) : Bytes → Bool → List Nat → Nat → (List Nat × Nat × Bool × Bytes)
  | [], sawDot, acc, frac => (acc.reverse, frac, sawDot, [])
  | c :: r, sawDot, acc, frac =>
    if c == 95 then scanMantissa hex r sawDot acc frac
    else if c == 46 then
      if sawDot then (acc.reverse, frac, sawDot, c :: r) else scanMantissa hex r true acc frac
    else if isDigit c then scanMantissa hex r sawDot ((c.toNat - 48) :: acc) (if sawDot then frac + 1 else frac)
    else if hex && isHexDigit c then scanMantissa hex r sawDot (hexVal c :: acc) (if sawDot then frac + 1 else frac)
    else (acc.reverse, frac, sawDot, c :: r)

/-- exponent digits (digits and underscores), value capped like the library does -/
def scanExpDigits : Bytes → Nat → (Nat × Bytes)
  | [], e => (e, [])
  | c :: r, e =>
    if c == 95 then scanExpDigits r e
    else if isDigit c then scanExpDigits r (if e < 10000 then e * 10 + (c.toNat - 48) else e)
    else (e, c :: r)

def pow2 (n : Nat) : Q := ((2 ^ n : Nat) : Int)
def pow10 (n : Nat) : Q := ((10 ^ n : Nat) : Int)

/-- the overflow threshold of float64 rounding: values of this magnitude or more round to ±Inf -/
def overflowBound : Q := pow2 1024 - pow2 970

/-- values of this magnitude or less round to zero: half of the smallest denormal `2^-1074` (the tie goes to even, i.e. to 0) -/
def underflowBound : Q := 1 / pow2 1075

def scale (base : Nat) (m : Nat) (e : Int) : Q :=
  if e ≥ 0 then ((m : Int) : Q) * (((base ^ e.toNat : Nat) : Int) : Q)
  else ((m : Int) : Q) / (((base ^ (-e).toNat : Nat) : Int) : Q)

/-- the text after an optional sign -/
def stripSign : Bytes → Bytes
  | 43 :: r => r
  | 45 :: r => r
  | r => r

def isNeg : Bytes → Bool
  | 45 :: _ => true
  | _ => false

/-- `0x` / `0X` prefix followed by something: a hexadecimal mantissa -/
def hexSplit (body : Bytes) : Bool × Bytes :=
  match body with
  | 48 :: x :: r => if lower x == 120 && !r.isEmpty then (true, r) else (false, body)
  | _ => (false, body)

/-- the optional exponent (`e` / `p`, optional sign, at least one digit); a hexadecimal mantissa requires one.
    `none`: malformed.  Otherwise the exponent and the unread rest. -/
def expPart (hex : Bool) (rest : Bytes) : Option (Int × Bytes) :=
  match rest with
  | c :: r =>
    if lower c == (if hex then 112 else 101) then
      let (esign, r) : (Int × Bytes) := match r with
        | 43 :: r' => (1, r')
        | 45 :: r' => (-1, r')
        | _ => (1, r)
      match r with
      | d :: _ => if isDigit d then
          let (e, r') := scanExpDigits r 0
          some (esign * (e : Int), r')
        else none
      | [] => none
    else if hex then none else some (0, rest)
  | [] => if hex then none else some (0, [])

/-- value and range: mantissa `m` (as an integer), `frac` digits after the dot, exponent `e` -/
def finish (neg hex : Bool) (m frac : Nat) (e : Int) : PF :=
  if m == 0 then .value 0
  else
    let nd := (Nat.toDigits 10 m).length
    let e2 : Int := if hex then e - 4 * (frac : Int) else e - (frac : Int)
    -- clamp absurd exponents before building the rational
    if e2 + (nd : Int) > 1200 then .bad
    else if e2 + (nd : Int) < -1500 then .value 0
    else
      let v := scale (if hex then 2 else 10) m e2
      if v ≥ overflowBound then .bad
      else if v ≤ underflowBound then .value 0
      else .value (if neg then -v else v)

/-- `strconv.ParseFloat(s, 64)`: acceptance and exact value. -/
def parseFloat (s : Bytes) : PF :=
  if s.isEmpty then .bad else
  -- special spellings
  let body := stripSign s
  let signed := body.length != s.length
  let lowerBody := body.map lower
  if lowerBody == ofString "inf" || lowerBody == ofString "infinity" then .nonFinite
  else if !signed && lowerBody == ofString "nan" then .nonFinite
  else
    let hr := hexSplit body
    let sm := scanMantissa hr.1 hr.2 false [] 0
    if sm.1.isEmpty then .bad else
    let m := sm.1.foldl (fun a d => a * (if hr.1 then 16 else 10) + d) 0
    match expPart hr.1 sm.2.2.2 with
    | none => .bad
    | some (e, rest) =>
      if !rest.isEmpty then .bad
      else if s.contains 95 && !underscoreOK s then .bad
      else finish (isNeg s) hr.1 m sm.2.1 e

/-- round `n / d` to the nearest integer, ties to even -/
def roundHalfEven (n d : Nat) : Nat :=
  let fl := n / d
  let r := n % d
  if 2 * r > d || (2 * r == d && fl % 2 == 1) then fl + 1 else fl

/-- `|q| · 10^prec` rounded half to even: the digits `%.<prec>f` prints -/
def roundedAt (prec : Nat) (q : Q) : Nat := roundHalfEven (q.num.natAbs * 10 ^ prec) q.den

/-- the digits of a fixed-point number `k / 10^prec` -/
def fixedDigits (prec k : Nat) : Bytes :=
  natDigits (k / 10 ^ prec) ++ (if prec == 0 then [] else 46 :: natPad prec (k % 10 ^ prec))

/-- `%.<prec>f` of an exact value: round half to even at `prec` decimals. -/
def fmtFixed (prec : Nat) (q : Q) : Bytes :=
  (if q.num < 0 then [45] else []) ++ fixedDigits prec (roundedAt prec q)

/-- `%<w>.<prec>f` -/
def fmtFixedW (w prec : Nat) (q : Q) : Bytes := padLeft 32 w (fmtFixed prec q)

/-- `%d` -/
def fmtInt (i : Int) : Bytes :=
  (if i < 0 then [45] else []) ++ natDigits i.natAbs

end Num
end Hrano
