import HranoModel.Model.Elements
/-
  resolver/resolver.go (after the fix for C05/C11): `resolveNode` walks a recipe's ingredients,
  replaces the recipe's elements in place by their expansion, and records the *height* of
  every recipe it finishes (longest chain of references below it).  A later walk that
  reaches a finished recipe at `level` fails iff `level + height ≥ maxDepth` — exactly what
  walking the original, unexpanded recipe would have done — so the depth error no longer
  depends on the visiting order.  `fuel = maxDepth - level`.
-/
namespace Hrano

inductive RErr where
  | depth
  deriving DecidableEq, Repr

structure RState where
  db : Book
  heights : List (Bytes × Nat)
  deriving Repr

namespace Resolver

def heightOf (hs : List (Bytes × Nat)) (n : Bytes) : Option Nat := (hs.find? (·.1 == n)).map (·.2)

/-- contribution of ingredient `e`, looked up in the *current* map (after the recursive call) -/
def mergeIngredient (db : Book) (nel : Elements) (e : Element) : Elements :=
  match db.lookup e.name with
  | some found => Elements.sumMerge nel found e.value
  | none => Elements.sumMerge nel [⟨e.name, e.value⟩] 1

/-- the loop over the captured ingredient list; `rn` is the recursive call one level down.
    Accumulator: (height so far, new element list, state). -/
def resolveList (rn : Bytes → RState → Except RErr (Nat × RState)) :
    List Element → Nat × Elements × RState → Except RErr (Nat × Elements × RState)
  | [], acc => .ok acc
  | e :: es, (height, nel, st) =>
    match rn e.name st with
    | .error err => .error err
    | .ok (h, st') => resolveList rn es (max height (h + 1), mergeIngredient st'.db nel e, st')

/-- `resolveNode(maxDepth, db, heights, name, level)` with `fuel = maxDepth - level`;
    returns the height of `name` and the updated state. -/
def resolveNode : Nat → Bytes → RState → Except RErr (Nat × RState)
  | 0, _, _ => .error .depth                       -- level >= maxDepth, tested before the lookup
  | fuel + 1, name, st =>
    match st.db.lookup name with
    | none => .ok (0, st)
    | some els =>
      match heightOf st.heights name with
      | some h => if h ≥ fuel + 1 then .error .depth else .ok (h, st)   -- level + h >= maxDepth
      | none =>
        match resolveList (resolveNode fuel) els (0, [], st) with
        | .error err => .error err
        | .ok (height, nel, st') =>
          .ok (height, { db := st'.db.set name (Elements.sort nel), heights := (name, height) :: st'.heights })

/-- `Resolve(c, db)`: visit every key in the order the runtime picks (`order`, any permutation of the keys). -/
def resolveAll (maxDepth : Int) (db : Book) (order : List Bytes) : Except RErr Book :=
  go order { db := db, heights := [] }
where
  go : List Bytes → RState → Except RErr Book
    | [], st => .ok st.db
    | name :: rest, st =>
      match resolveNode maxDepth.toNat name st with
      | .error e => .error e
      | .ok (_, st') => go rest st'

end Resolver
end Hrano
