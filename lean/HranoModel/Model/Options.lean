import HranoModel.Model.App
/-
  options.Load and the flag table of root.go, as far as the properties observe them:
  flag > environment > configuration file > default for database / logfile / date-format /
  maxdepth / today; explicit configuration file; --no-database; the lineage walk of
  populateFilter / populateReporter (innermost context wins); date keywords.
  urfave/cli's IsSet/String (flag, else env, else default) and gcfg's reading of the five
  documented keys are modelled, not verified (validated by the C16 correspondence product).
-/
namespace Hrano
open Bytes

structure Settings where
  cmd : List Bytes := []
  -- global flags
  gBegin : Option Bytes := none
  gEnd : Option Bytes := none
  gToday : Option Bytes := none
  gDatabase : Option Bytes := none
  gLogfile : Option Bytes := none
  gConfig : Option Bytes := none
  gDateFormat : Option Bytes := none
  gMaxdepth : Option Int := none
  gNoColor : Bool := false
  gNoDatabase : Bool := false
  -- sub-command flags
  sBegin : Option Bytes := none
  sEnd : Option Bytes := none
  sSingleFood : Option Bytes := none
  sSingleElement : Option Bytes := none
  sTemplate : Option Bytes := none
  sGroupFood : Bool := false
  sCsv : Bool := false
  sNoColor : Bool := false
  sNoTotals : Bool := false
  sTotalsOnly : Bool := false
  sShorten : Bool := false
  sOldReg : Bool := false
  sCollapse : Bool := false
  sCollapseLast : Bool := false
  sDesc : Bool := false
  sSilent : Bool := false
  -- environment
  eDatabase : Option Bytes := none
  eLogfile : Option Bytes := none
  eConfig : Option Bytes := none
  eDateFormat : Option Bytes := none
  eMaxdepth : Option Int := none
  -- configuration file at the effective path (flag, else env, else $HOME/.hranoprovod/config)
  cfgExists : Bool := false
  cNow : Option Int := none          -- instant, ns
  cDb : Option Bytes := none
  cLog : Option Bytes := none
  cDateFormat : Option Bytes := none
  cMaxDepth : Option Int := none
  /-- wall clock, used only when neither --today nor the file gives a date -/
  clock : Int := 0
  /-- offset of the process time zone, seconds east of UTC -/
  tzOffset : Int := 0
  deriving Repr

inductive LoadErr where
  | configMissing
  | badToday
  | badDate (s : Bytes)        -- begin/end/summary argument not understood (outside the model: naturaldate)
  | badLayout                  -- layout outside the modelled subset
  | badDepth
  | badCommand
  deriving DecidableEq, Repr

namespace Options

def defaultDb : Bytes := Facts.defaultDbFilename
def defaultLog : Bytes := Facts.defaultLogFilename
def defaultLayout : Bytes := Facts.defaultDateFormat
def defaultMaxDepth : Int := Facts.defaultMaxDepth
def devNull : Bytes := App.devNull
/-- upper bound accepted by validateOptions (fix for C08) -/
def maxAllowedDepth : Int := Facts.maxAllowedDepth

/-- `c.String(name)`: the flag, else the environment variable, else the flag's default -/
def cliValue {α} (flag env : Option α) (dflt : α) : α :=
  match flag, env with
  | some v, _ => v
  | none, some v => v
  | none, none => dflt

def isSet {α} (flag env : Option α) : Bool := flag.isSome || env.isSome

/-- a setting with a configuration-file entry: `if c.IsSet(x) || cfgValue == zero { cfgValue = c.String(x) }` -/
def pick {α} (flag env cfg : Option α) (dflt : α) : α :=
  if isSet flag env then cliValue flag env dflt
  else match cfg with
    | some v => v
    | none => dflt

/-- `GetTimeFromString(now, format, s)`: keywords, else a date in the layout (else naturaldate: outside the model) -/
def kwToday : Bytes := [116, 111, 100, 97, 121]
def kwYesterday : Bytes := [121, 101, 115, 116, 101, 114, 100, 97, 121]
def kwLast7 : Bytes := [108, 97, 115, 116, 55]
def kwLast30 : Bytes := [108, 97, 115, 116, 51, 48]

def timeFromString (now : Int) (l : Layout) (s : Bytes) : Except LoadErr Int :=
  if s == kwToday then .ok now
  else if s == kwYesterday then .ok (now - Date.nsPerDay)
  else if s == kwLast7 then .ok (now - 7 * Date.nsPerDay)
  else if s == kwLast30 then .ok (now - 30 * Date.nsPerDay)
  else match Date.parse l s with
    | some c => .ok (Date.instant c)
    | none => .error (.badDate s)

/-- populateFilter walks the context lineage from the root to the sub-command, each context that sets the
    bound overwriting the previous one: the innermost setting wins -/
def innermost {α} (global sub : Option α) : Option α :=
  match sub with
  | some v => some v
  | none => global

structure Loaded where
  opts : Opts
  cmd : Cmd

def optBind {α} (o : Option Bytes) (f : Bytes → Except LoadErr α) : Except LoadErr (Option α) :=
  match o with
  | none => .ok none
  | some s => (f s).map some

def floorDiv (a b : Int) : Int := a / b        -- floor for a positive divisor

/-- the window `summary` installs, given the zone offset used to read the civil day of `t` -/
def summaryWindow (civil : Civil) (offNs : Int) : Int × Int :=
  let b := Date.instant civil - offNs
  (b, b + Date.nsPerDay - 1)

/-- the settings that have a flag, an environment variable, a configuration entry and a default -/
structure Effective where
  dbFile : Bytes
  logFile : Bytes
  fmtRaw : Bytes
  maxDepth : Int
  deriving Repr

/-- an entry of the configuration file counts only if the file exists (was loaded) -/
def cfgEntry {α} (s : Settings) (v : Option α) : Option α := if s.cfgExists then v else none

/-- a zero value in the file counts as unset (`if c.IsSet(x) || value == zero`) -/
def nonEmpty (v : Option Bytes) : Option Bytes := v.bind (fun x => if x.isEmpty then none else some x)
def nonZero (v : Option Int) : Option Int := v.bind (fun x => if x == 0 then none else some x)

/-- populateGlobals / populateResolver: flag > environment > configuration file > default; --no-database
    points the book at the null device -/
def effective (s : Settings) : Effective :=
  { dbFile := if s.gNoDatabase then devNull else pick s.gDatabase s.eDatabase (nonEmpty (cfgEntry s s.cDb)) defaultDb
    logFile := pick s.gLogfile s.eLogfile (nonEmpty (cfgEntry s s.cLog)) defaultLog
    fmtRaw := pick s.gDateFormat s.eDateFormat (nonEmpty (cfgEntry s s.cDateFormat)) defaultLayout
    maxDepth := pick s.gMaxdepth s.eMaxdepth (nonZero (cfgEntry s s.cMaxDepth)) defaultMaxDepth }

/-- the current date: --today (read in the effective date format), else `Now` of the configuration file, else the clock -/
def nowOf (s : Settings) (layout : Layout) : Except LoadErr Int :=
  match s.gToday with
  | some t => match Date.parse layout t with
    | some c => .ok (Date.instant c)
    | none => .error .badToday
  | none => .ok (match cfgEntry s s.cNow with | some n => n | none => s.clock)

/-- populateFilter: root context first, then the sub-command; every value that is set must be understood -/
def boundsOf (s : Settings) (now : Int) (layout : Layout) : Except LoadErr (Option Int × Option Int) :=
  match optBind s.gBegin (timeFromString now layout), optBind s.sBegin (timeFromString now layout),
        optBind s.gEnd (timeFromString now layout), optBind s.sEnd (timeFromString now layout) with
  | .ok gb, .ok sb, .ok ge, .ok se => .ok (innermost gb sb, innermost ge se)
  | .error e, _, _, _ => .error e
  | _, .error e, _, _ => .error e
  | _, _, .error e, _ => .error e
  | _, _, _, .error e => .error e

/-- populateReporter -/
def rcOf (s : Settings) (layout : Layout) : RCfg :=
  { color := !(s.gNoColor || s.sNoColor)
    totals := !s.sNoTotals
    totalsOnly := s.sTotalsOnly
    shorten := s.sShorten
    oldReg := s.sOldReg
    leftAligned := s.sTemplate == some (ofString "left-aligned")
    csv := s.sCsv
    collapse := s.sCollapse
    collapseLast := s.sCollapseLast
    groupFood := s.sGroupFood
    singleElement := s.sSingleElement.getD []
    singleFood := s.sSingleFood.getD []
    dateLayout := layout }

/-- validateOptions, and the limits of the model (`reg -f PATTERN` is a regular expression: only patterns
    without metacharacters are modelled) -/
def validate (s : Settings) (eff : Effective) : Except LoadErr Unit :=
  if eff.maxDepth > maxAllowedDepth then .error .badDepth
  else match s.sSingleFood with
    | some pat => if pat.any (fun c => (ofString "\\.+*?()|[]{}^$").contains c) then .error .badCommand else .ok ()
    | none => .ok ()

/-- the command and its own arguments -/
def cmdOf (s : Settings) (now : Int) (layout : Layout) : Except LoadErr Cmd :=
  let str (x : String) := ofString x
  match s.cmd with
  | [c] =>
    if c == str "reg" then .ok Cmd.reg
    else if c == str "bal" then .ok Cmd.bal
    else if c == str "stats" then .ok Cmd.stats
    else if c == str "print" then .ok Cmd.print
    else .error .badCommand
  | [c, a] =>
    if c == str "summary" then
      match timeFromString now layout a with
      | .error e => .error e
      | .ok t =>
        -- Year/Month/Day are read in the location of `t`: the process zone for `today`, UTC otherwise
        let off : Int := if a == kwToday then s.tzOffset * 1000000000 else 0
        let w := summaryWindow (Date.ofDays (floorDiv (t + off) Date.nsPerDay)) off
        .ok (Cmd.summary w.1 w.2)
    else if c == str "lint" then .ok (Cmd.lint a s.sSilent)
    else if c == str "report" && a == str "unresolved" then .ok Cmd.reportUnresolved
    else if c == str "report" && a == str "quantity" then .ok (Cmd.reportQuantity s.sDesc)
    else if c == str "report" && a == str "totals" then .ok Cmd.reportTotals
    else if c == str "csv" && a == str "log" then .ok Cmd.csvLog
    else if c == str "csv" && a == str "database" then .ok Cmd.csvDatabase
    else if c == str "csv" && a == str "database-resolved" then .ok Cmd.csvDatabaseResolved
    else .error .badCommand
  | [c, a, x] =>
    if c == str "report" && a == str "element-total" then .ok (Cmd.reportElementTotal x s.sDesc)
    else .error .badCommand
  | _ => .error .badCommand

/-- `options.Load` followed by the command's own argument handling -/
def load (s : Settings) : Except LoadErr Loaded :=
  -- an explicitly named configuration file must exist
  if !s.cfgExists && isSet s.gConfig s.eConfig then .error .configMissing else
  match Date.parseLayout (effective s).fmtRaw with
  | none => .error .badLayout
  | some layout =>
    match nowOf s layout with
    | .error e => .error e
    | .ok now =>
      match boundsOf s now layout with
      | .error e => .error e
      | .ok bnd =>
        match validate s (effective s) with
        | .error e => .error e
        | .ok _ =>
          match cmdOf s now layout with
          | .error e => .error e
          | .ok cmd =>
            .ok { opts := { dbFile := (effective s).dbFile, logFile := (effective s).logFile, layout := layout,
                            maxDepth := (effective s).maxDepth, begin_ := bnd.1, end_ := bnd.2, now := now, rc := rcOf s layout },
                  cmd := cmd }

end Options
end Hrano
