import HranoModel.Model.App
/-
  options.Load and the flag table of root.go, as far as the properties observe them:
  flag > environment > configuration file > default for database / logfile / date-format /
  maxdepth / today; explicit configuration file; --no-database; the lineage walk of
  populateFilter / populateReporter (innermost context wins); date keywords.
  urfave/cli's IsSet/String (flag, else env, else default) and gcfg's reading of the five
  documented keys are modelled, not verified (validated by the C16 correspondence product).
-/
namespace Hrano
open Bytes

structure Settings where
  cmd : List Bytes := []
  -- global flags
  gBegin : Option Bytes := none
  gEnd : Option Bytes := none
  gToday : Option Bytes := none
  gDatabase : Option Bytes := none
  gLogfile : Option Bytes := none
  gConfig : Option Bytes := none
  gDateFormat : Option Bytes := none
  gMaxdepth : Option Int := none
  gNoColor : Bool := false
  gNoDatabase : Bool := false
  -- sub-command flags
  sBegin : Option Bytes := none
  sEnd : Option Bytes := none
  sSingleFood : Option Bytes := none
  sSingleElement : Option Bytes := none
  sTemplate : Option Bytes := none
  sGroupFood : Bool := false
  sCsv : Bool := false
  sNoColor : Bool := false
  sNoTotals : Bool := false
  sTotalsOnly : Bool := false
  sShorten : Bool := false
  sOldReg : Bool := false
  sCollapse : Bool := false
  sCollapseLast : Bool := false
  sDesc : Bool := false
  sSilent : Bool := false
  -- environment
  eDatabase : Option Bytes := none
  eLogfile : Option Bytes := none
  eConfig : Option Bytes := none
  eDateFormat : Option Bytes := none
  eMaxdepth : Option Int := none
  -- configuration file at the effective path (flag, else env, else $HOME/.hranoprovod/config)
  cfgExists : Bool := false
  cNow : Option Int := none          -- instant, ns
  cDb : Option Bytes := none
  cLog : Option Bytes := none
  cDateFormat : Option Bytes := none
  cMaxDepth : Option Int := none
  /-- wall clock, used only when neither --today nor the file gives a date -/
  clock : Int := 0
  /-- offset of the process time zone, seconds east of UTC -/
  tzOffset : Int := 0
  deriving Repr

inductive LoadErr where
  | configMissing
  | badToday
  | badDate (s : Bytes)        -- begin/end/summary argument not understood (outside the model: naturaldate)
  | badLayout                  -- layout outside the modelled subset
  | badDepth
  | badCommand
  deriving DecidableEq, Repr

namespace Options

def defaultDb : Bytes := Facts.defaultDbFilename
def defaultLog : Bytes := Facts.defaultLogFilename
def defaultLayout : Bytes := Facts.defaultDateFormat
def defaultMaxDepth : Int := Facts.defaultMaxDepth
def devNull : Bytes := App.devNull
/-- upper bound accepted by validateOptions (fix for C08) -/
def maxAllowedDepth : Int := Facts.maxAllowedDepth

/-- `c.String(name)`: the flag, else the environment variable, else the flag's default -/
def cliValue {α} (flag env : Option α) (dflt : α) : α :=
  match flag, env with
  | some v, _ => v
  | none, some v => v
  | none, none => dflt

def isSet {α} (flag env : Option α) : Bool := flag.isSome || env.isSome

/-- a setting with a configuration-file entry: `if c.IsSet(x) || cfgValue == zero { cfgValue = c.String(x) }` -/
def pick {α} (flag env cfg : Option α) (dflt : α) : α :=
  if isSet flag env then cliValue flag env dflt
  else match cfg with
    | some v => v
    | none => dflt

/-- `GetTimeFromString(now, format, s)`: keywords, else a date in the layout (else naturaldate: outside the model) -/
def kwToday : Bytes := [116, 111, 100, 97, 121]
def kwYesterday : Bytes := [121, 101, 115, 116, 101, 114, 100, 97, 121]
def kwLast7 : Bytes := [108, 97, 115, 116, 55]
def kwLast30 : Bytes := [108, 97, 115, 116, 51, 48]

def timeFromString (now : Int) (l : Layout) (s : Bytes) : Except LoadErr Int :=
  if s == kwToday then .ok now
  else if s == kwYesterday then .ok (now - Date.nsPerDay)
  else if s == kwLast7 then .ok (now - 7 * Date.nsPerDay)
  else if s == kwLast30 then .ok (now - 30 * Date.nsPerDay)
  else match Date.parse l s with
    | some c => .ok (Date.instant c)
    | none => .error (.badDate s)

/-- populateFilter walks the context lineage from the root to the sub-command, each context that sets the
    bound overwriting the previous one: the innermost setting wins -/
def innermost {α} (global sub : Option α) : Option α :=
  match sub with
  | some v => some v
  | none => global

structure Loaded where
  opts : Opts
  cmd : Cmd

def optBind {α} (o : Option Bytes) (f : Bytes → Except LoadErr α) : Except LoadErr (Option α) :=
  match o with
  | none => .ok none
  | some s => (f s).map some

def floorDiv (a b : Int) : Int := a / b        -- floor for a positive divisor

/-- the window `summary` installs, given the zone offset used to read the civil day of `t` -/
def summaryWindow (civil : Civil) (offNs : Int) : Int × Int :=
  let b := Date.instant civil - offNs
  (b, b + Date.nsPerDay - 1)

/-- `options.Load` followed by the command's own argument handling -/
def load (s : Settings) : Except LoadErr Loaded := do
  -- configuration file
  if !s.cfgExists && isSet s.gConfig s.eConfig then throw .configMissing
  let cfg {α : Type} (v : Option α) : Option α := if s.cfgExists then v else none
  -- a zero value in the file counts as unset
  let cDb := (cfg s.cDb).bind (fun v => if v.isEmpty then none else some v)
  let cLog := (cfg s.cLog).bind (fun v => if v.isEmpty then none else some v)
  let cFmt := (cfg s.cDateFormat).bind (fun v => if v.isEmpty then none else some v)
  let cDepth := (cfg s.cMaxDepth).bind (fun v => if v == 0 then none else some v)
  let dbFile := if s.gNoDatabase then devNull else pick s.gDatabase s.eDatabase cDb defaultDb
  let logFile := pick s.gLogfile s.eLogfile cLog defaultLog
  let fmtRaw := pick s.gDateFormat s.eDateFormat cFmt defaultLayout
  let layout ← match Date.parseLayout fmtRaw with
    | some l => pure l
    | none => throw .badLayout
  let now ← match s.gToday with
    | some t => match Date.parse layout t with
      | some c => pure (Date.instant c)
      | none => throw .badToday
    | none => pure (match cfg s.cNow with | some n => n | none => s.clock)
  let maxDepth := pick s.gMaxdepth s.eMaxdepth cDepth defaultMaxDepth
  -- populateFilter: root context first, then the sub-command; the innermost setting wins
  let gb ← optBind s.gBegin (timeFromString now layout)
  let sb ← optBind s.sBegin (timeFromString now layout)
  let ge ← optBind s.gEnd (timeFromString now layout)
  let se ← optBind s.sEnd (timeFromString now layout)
  let begin_ := innermost gb sb
  let end_ := innermost ge se
  -- validateOptions
  if maxDepth > maxAllowedDepth then throw .badDepth
  -- `reg -f PATTERN` is a regular expression; only patterns without metacharacters are modelled
  match s.sSingleFood with
    | some pat => if pat.any (fun c => (ofString "\\.+*?()|[]{}^$").contains c) then throw .badCommand else pure ()
    | none => pure ()
  let rc : RCfg := {
    color := !(s.gNoColor || s.sNoColor)
    totals := !s.sNoTotals
    totalsOnly := s.sTotalsOnly
    shorten := s.sShorten
    oldReg := s.sOldReg
    leftAligned := s.sTemplate == some (ofString "left-aligned")
    csv := s.sCsv
    collapse := s.sCollapse
    collapseLast := s.sCollapseLast
    groupFood := s.sGroupFood
    singleElement := s.sSingleElement.getD []
    singleFood := s.sSingleFood.getD []
    dateLayout := layout }
  let opts : Opts := { dbFile, logFile, layout, maxDepth, begin_, end_, now, rc }
  let str (x : String) := ofString x
  let cmd ← match s.cmd with
    | [c] =>
      if c == str "reg" then pure Cmd.reg
      else if c == str "bal" then pure Cmd.bal
      else if c == str "stats" then pure Cmd.stats
      else if c == str "print" then pure Cmd.print
      else throw .badCommand
    | [c, a] =>
      if c == str "summary" then do
        let t ← timeFromString now layout a
        -- Year/Month/Day are read in the location of `t`: the process zone for `today`, UTC otherwise
        let viaLocal := a == kwToday
        let off : Int := if viaLocal then s.tzOffset * 1000000000 else 0
        let civil := Date.ofDays (floorDiv (t + off) Date.nsPerDay)
        let w := summaryWindow civil off
        pure (Cmd.summary w.1 w.2)
      else if c == str "lint" then pure (Cmd.lint a s.sSilent)
      else if c == str "report" && a == str "unresolved" then pure Cmd.reportUnresolved
      else if c == str "report" && a == str "quantity" then pure (Cmd.reportQuantity s.sDesc)
      else if c == str "report" && a == str "totals" then pure Cmd.reportTotals
      else if c == str "csv" && a == str "log" then pure Cmd.csvLog
      else if c == str "csv" && a == str "database" then pure Cmd.csvDatabase
      else if c == str "csv" && a == str "database-resolved" then pure Cmd.csvDatabaseResolved
      else throw .badCommand
    | [c, a, x] =>
      if c == str "report" && a == str "element-total" then pure (Cmd.reportElementTotal x s.sDesc)
      else throw .badCommand
    | _ => throw .badCommand
  pure { opts, cmd }

end Options
end Hrano
