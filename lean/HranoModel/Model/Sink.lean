import HranoModel.Model.Bytes
/-
  bufio.Writer over a sink that accepts `k` bytes in total and then fails every write
  (full disk, closed pipe).  Mirrors bufio.Writer.Write / Flush: a write larger than the free
  space fills the buffer and flushes (or goes straight to the sink when the buffer is empty);
  the first error is sticky.
-/
namespace Hrano
open Bytes

structure Sink where
  cap : Nat            -- bytes the sink still accepts
  got : Bytes          -- bytes accepted so far
  deriving Repr

/-- `wr.Write(p)`: accepts what fits; reports an error iff not everything fit -/
def Sink.write (s : Sink) (p : Bytes) : Sink × Nat × Bool :=
  if p.length ≤ s.cap then ({ cap := s.cap - p.length, got := s.got ++ p }, p.length, false)
  else ({ cap := 0, got := s.got ++ p.take s.cap }, s.cap, true)

structure BufW where
  size : Nat           -- buffer size (4096 for bufio.NewWriter)
  buf : Bytes
  err : Bool
  sink : Sink
  deriving Repr

namespace BufW

def new (size : Nat) (k : Nat) : BufW := { size, buf := [], err := false, sink := ⟨k, []⟩ }

/-- `Flush` -/
def flush (w : BufW) : BufW :=
  if w.err then w
  else if w.buf.isEmpty then w
  else
    let (s, n, e) := w.sink.write w.buf
    if e then { w with sink := s, buf := w.buf.drop n, err := true }
    else { w with sink := s, buf := [] }

/-- a write that bypasses the (empty) buffer: `n, b.err = b.wr.Write(p)` -/
def direct (w : BufW) (p : Bytes) : BufW :=
  { w with sink := (w.sink.write p).1, err := (w.sink.write p).2.2 }

/-- `Write(p)`.  The loop of bufio.Writer.Write (`for len(p) > b.Available() && b.err == nil`) runs at most
    twice — fill-and-flush, then either a direct write or a copy into the empty buffer — and is written
    out here case by case. -/
def write (w : BufW) (p : Bytes) : BufW :=
  if w.err then w
  else if p.length ≤ w.size - w.buf.length then { w with buf := w.buf ++ p }
  else if w.buf.isEmpty then direct w p
  else
    let avail := w.size - w.buf.length
    let w' := flush { w with buf := w.buf ++ p.take avail }
    let p' := p.drop avail
    if w'.err then w'
    else if p'.length ≤ w'.size - w'.buf.length then { w' with buf := w'.buf ++ p' }
    else direct w' p'

/-- a reporter: a sequence of writes, then `Flush`; its error is what the command returns -/
def runChunks (size k : Nat) (chunks : List Bytes) : BufW :=
  flush (chunks.foldl write (new size k))

end BufW

/-- writes that go to the sink directly (`lint`): the command fails iff one of them fails -/
def directWrites (k : Nat) (chunks : List Bytes) : Sink × Bool :=
  chunks.foldl (fun (acc : Sink × Bool) p =>
    if acc.2 then acc else
    let (s, _, e) := acc.1.write p
    (s, e)) (⟨k, []⟩, false)

end Hrano
