import HranoModel.Model.Parser
/-
  parser.Parser.ParseStream / ParseFile: the producer goroutine and a consumer over three
  unbuffered channels, as a small labelled transition system with explicit scheduling choices.

  Producer (after the fixes for C18): for a callback event list it sends each record on
  `Nodes`; at the first error it sends the error once on `Errors` and stops parsing; a reader
  error is sent once; then it sends `Done` and exits.  `ParseFile` on an unreadable path sends
  the I/O error, then `Done`.
-/
namespace Hrano

inductive Msg where
  | node (n : Node)
  | perr (e : PErr)
  | ioerr
  | done
  deriving DecidableEq, Repr

inductive Policy where
  | stopAtFirstError     -- the documented loop: return on Errors or Done
  | drain                -- keep receiving until Done
  deriving DecidableEq, Repr

namespace Chan

/-- what the producer sends, in order -/
def sends (evs : List Event) (scanErr : Bool) : List Msg :=
  go evs
where
  go : List Event → List Msg
    | [] => (if scanErr then [Msg.ioerr] else []) ++ [Msg.done]
    | .node n :: r => Msg.node n :: go r
    | .error e :: _ => [Msg.perr e, Msg.done]

/-- `ParseFile` on a path that cannot be opened -/
def sendsUnreadable : List Msg := [Msg.ioerr, Msg.done]

inductive PState where
  | working (rest : List Msg)    -- computing the next value to send
  | offering (m : Msg) (rest : List Msg)   -- blocked in a send
  | exited
  deriving DecidableEq, Repr

inductive CState where
  | selecting                    -- blocked in select
  | handling (m : Msg)           -- took a value, deciding what to do
  | returned
  deriving DecidableEq, Repr

structure Config where
  p : PState
  c : CState
  received : List Msg            -- in order
  deriving DecidableEq, Repr

inductive Choice where
  | producerStep | consumerStep | rendezvous
  deriving DecidableEq, Repr

def stops (pol : Policy) : Msg → Bool
  | .done => true
  | .perr _ => pol == .stopAtFirstError
  | .ioerr => pol == .stopAtFirstError
  | .node _ => false

/-- one transition; `none` when the chosen action is not enabled -/
def step (pol : Policy) (cfg : Config) : Choice → Option Config
  | .producerStep =>
    match cfg.p with
    | .working [] => some { cfg with p := .exited }
    | .working (m :: r) => some { cfg with p := .offering m r }
    | _ => none
  | .consumerStep =>
    match cfg.c with
    | .handling m => some { cfg with c := if stops pol m then .returned else .selecting }
    | _ => none
  | .rendezvous =>
    match cfg.p, cfg.c with
    | .offering m r, .selecting => some { cfg with p := .working r, c := .handling m, received := cfg.received ++ [m] }
    | _, _ => none

def init (ms : List Msg) : Config := { p := .working ms, c := .selecting, received := [] }

/-- follow a schedule, skipping choices that are not enabled -/
def runSchedule (pol : Policy) : List Choice → Config → Config
  | [], cfg => cfg
  | ch :: r, cfg =>
    match step pol cfg ch with
    | some cfg' => runSchedule pol r cfg'
    | none => runSchedule pol r cfg

def terminal (pol : Policy) (cfg : Config) : Bool :=
  (step pol cfg .producerStep).isNone && (step pol cfg .consumerStep).isNone && (step pol cfg .rendezvous).isNone

/-- the specification: what the consumer must have seen when it returns -/
def expected (pol : Policy) (ms : List Msg) : List Msg :=
  match ms with
  | [] => []
  | m :: r => if stops pol m then [m] else m :: expected pol r

end Chan
end Hrano
