import HranoModel.Model.App
/-
  The ParseCallback contract (`func(n *ParserNode, err error) (stop bool, cbError error)`): on an error
  event the record pointer is nil.  Each consumer of the parser is modelled by what it does with the
  pair; touching the record when it is nil is a panic.  (C08)
-/
namespace Hrano

/-- what the parser hands to a callback -/
structure Delivery where
  node : Option Node
  err : Option PErr

def deliver : Event → Delivery
  | .node n => ⟨some n, none⟩
  | .error e => ⟨none, some e⟩

inductive CbOut where
  | cont
  | stop (e : Err)
  | panic          -- nil pointer dereference
  deriving DecidableEq, Repr

namespace Callback

/-- use the record: a nil record is a nil dereference -/
def useNode (d : Delivery) (k : Node → CbOut) : CbOut :=
  match d.node with
  | some n => k n
  | none => .panic

/-- `LoadDatabaseFromStream`: `if err != nil { return true, err }` first -/
def loadBook (d : Delivery) : CbOut :=
  match d.err with
  | some e => .stop (.parse e)
  | none => useNode d (fun _ => .cont)

/-- `WalkNodesInStream`: error first, then the heading is parsed as a date -/
def walk (layout : Layout) (d : Delivery) : CbOut :=
  match d.err with
  | some e => .stop (.parse e)
  | none => useNode d (fun n => match Date.parse layout n.header with
      | some _ => .cont
      | none => .stop (.date n.header))

/-- `CSVDatabase` (after the fix): error first -/
def csvDatabase (d : Delivery) : CbOut :=
  match d.err with
  | some e => .stop (.parse e)
  | none => useNode d (fun _ => .cont)

/-- `Stats`, log callback (after the fix): error first, then `n.Header` is read -/
def statsLog (d : Delivery) : CbOut :=
  match d.err with
  | some e => .stop (.parse e)
  | none => useNode d (fun _ => .cont)

/-- `Stats`, database callback (after the fix): error first; the record is not used -/
def statsDb (d : Delivery) : CbOut :=
  match d.err with
  | some e => .stop (.parse e)
  | none => .cont

/-- `Lint`: prints the error, never touches the record -/
def lint (_ : Delivery) : CbOut := .cont

/-- `ParseStream`: sends the error or the record on a channel -/
def parseStream (d : Delivery) : CbOut :=
  match d.err with
  | some _ => .cont
  | none => useNode d (fun _ => .cont)

end Callback
end Hrano
