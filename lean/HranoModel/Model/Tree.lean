import HranoModel.Model.Elements
/-
  tree_aggregator.go and the three balance printers.
  `Children map[string]*TreeNode` + `Keys()` (collect, sort) is modelled by keeping the child
  list sorted by name at insertion: every printer ranges over `Keys()`, never over the map.
-/
namespace Hrano
open Bytes

inductive Tree where
  | node (name : Bytes) (total : Q) (children : List Tree)
  deriving Repr

namespace Tree

def name : Tree → Bytes | node n _ _ => n
def total : Tree → Q | node _ t _ => t
def children : Tree → List Tree | node _ _ c => c

/-- `parent.Add(child)`: add `v` to the child called `n` (creating it in sorted position), and let `sub` continue
    below it with the rest of the path -/
def ins (sub : List Tree → List Tree) (n : Bytes) (v : Q) : List Tree → List Tree
  | [] => [node n v (sub [])]
  | c :: cs =>
    if c.name == n then node c.name (c.total + v) (sub c.children) :: cs
    else if Bytes.le n c.name then node n v (sub []) :: c :: cs
    else c :: ins sub n v cs

/-- `AddDeep` along a path of names: the value is added at every node of the path.  Recursion is on the path. -/
def addPath : List Bytes → Q → List Tree → List Tree
  | [], _, cs => cs
  | n :: ns, v, cs => ins (addPath ns v) n v cs

/-- `DefaultCategorySeparator` (one byte; `Props/C03` checks that the generated constant is) -/
def sep : UInt8 := match Facts.categorySeparator with
  | [b] => b
  | _ => 47

/-- `root.AddDeep(el, "/")` on the root's child list -/
def addDeep (cs : List Tree) (e : Element) : List Tree :=
  addPath (splitOn sep e.name) e.value cs

/-- the tree built by a balance reporter from the elements it processed, in order -/
def build (es : Elements) : List Tree := es.foldl addDeep []

/-- one output row `"%10.2f | %s%s\n"` -/
def row (total : Q) (level : Nat) (label : Bytes) : Bytes :=
  Num.fmtFixedW 10 2 total ++ [32, 124, 32] ++ (List.replicate level [32, 32]).flatten ++ label ++ [10]

mutual
/-- `printNode(node, level, out, collapseLast)` applied to one child -/
def printChild (collapseLast : Bool) (level : Nat) : Tree → Bytes
  | node n t cs =>
    match cs with
    | [] => row t level n
    | [node gn _ []] =>
      if collapseLast then row t level (n ++ sep :: gn)
      else row t level n ++ printChildren collapseLast (level + 1) cs
    | _ => row t level n ++ printChildren collapseLast (level + 1) cs
/-- `printNode` = loop over `Keys()` -/
def printChildren (collapseLast : Bool) (level : Nat) : List Tree → Bytes
  | [] => []
  | c :: cs => printChild collapseLast level c ++ printChildren collapseLast level cs
end

mutual
/-- `printNodeCollapsed` applied to one child, with the labels of the sole-child chain walked so
    far (`getJump` after the fix for C03: the chain is joined and printing continues below its end) -/
def printCollapsedChild (pre : List Bytes) (t : Q) (level : Nat) : Tree → Bytes
  | node n _ [] => row t level (join sep (pre ++ [n]))
  | node n _ [c] => printCollapsedChild (pre ++ [n]) t level c
  | node n _ (c1 :: c2 :: cs) =>
    row t level (join sep (pre ++ [n]))
      ++ printCollapsedChild [] c1.total (level + 1) c1
      ++ printCollapsedChild [] c2.total (level + 1) c2
      ++ printCollapsedChildren (level + 1) cs
def printCollapsedChildren (level : Nat) : List Tree → Bytes
  | [] => []
  | c :: cs => printCollapsedChild [] c.total level c ++ printCollapsedChildren level cs
end

end Tree
end Hrano
