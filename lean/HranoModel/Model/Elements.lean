import HranoModel.Model.Parser
/-
  element.go: Index / Add / SumMerge / Sort;  node.go: DBNodeMap.Push, NewLogNodeFromElements;
  accumulator.go: Accumulator.Add.
-/
namespace Hrano
open Bytes

namespace Elements

/-- `Index` + `[ndx].Value += v`, else `Add`: add `v` to the first entry called `name`, or append one. -/
def addTo : Elements → Bytes → Q → Elements
  | [], name, v => [⟨name, v⟩]
  | e :: es, name, v => if e.name == name then ⟨e.name, e.value + v⟩ :: es else e :: addTo es name v

/-- `SumMerge(left, mult)` -/
def sumMerge (acc left : Elements) (mult : Q) : Elements :=
  left.foldl (fun a e => addTo a e.name (e.value * mult)) acc

/-- insertion into a list sorted by name (byte-wise) -/
def insertSorted (e : Element) : Elements → Elements
  | [] => [e]
  | x :: xs => if Bytes.le e.name x.name then e :: x :: xs else x :: insertSorted e xs

/-- `Sort()`: by name.  `sort.Sort` is not stable; names are distinct wherever the code sorts
    (after `SumMerge`), so stability is irrelevant there (theorem `sort_unique` in Lemmas). -/
def sort (es : Elements) : Elements := es.foldr insertSorted []

def names (es : Elements) : List Bytes := es.map (·.name)

def lookup (es : Elements) (n : Bytes) : Option Q := (es.find? (·.name == n)).map (·.value)

end Elements

/-- The recipe book: a Go `map[string]*DBNode` as an association list with distinct keys. -/
abbrev Book := List (Bytes × Elements)

namespace Book

def lookup (b : Book) (n : Bytes) : Option Elements := (b.find? (·.1 == n)).map (·.2)

def keys (b : Book) : List Bytes := b.map (·.1)

/-- `db[name].Elements = els` for an existing key; `db[name] = node` (Push) otherwise. -/
def set : Book → Bytes → Elements → Book
  | [], n, els => [(n, els)]
  | (k, v) :: r, n, els => if k == n then (k, els) :: r else (k, v) :: set r n els

/-- `LoadDatabaseFromStream`: push every record; a repeated heading replaces the earlier record. -/
def ofNodes (ns : List Node) : Book := ns.foldl (fun b n => b.set n.header n.elements) []

end Book

/-- `NewLogNodeFromElements`: repeated foods of a day are merged, first position kept. -/
def mergeDay (els : Elements) : Elements := els.foldl (fun a e => Elements.addTo a e.name e.value) []

/-- accumulator entry: (negative register, positive register) -/
structure Acc where
  name : Bytes
  neg : Q
  pos : Q
  deriving DecidableEq, Repr

abbrev Accumulator := List Acc

namespace Accumulator

/-- `Accumulator.Add`: route by sign (`val < 0` → negative register). -/
def add : Accumulator → Bytes → Q → Accumulator
  | [], n, v => [if v < 0 then ⟨n, v, 0⟩ else ⟨n, 0, v⟩]
  | a :: as, n, v =>
    if a.name == n then (if v < 0 then { a with neg := a.neg + v } else { a with pos := a.pos + v }) :: as
    else a :: add as n v

def insertSorted (e : Acc) : Accumulator → Accumulator
  | [] => [e]
  | x :: xs => if Bytes.le e.name x.name then e :: x :: xs else x :: insertSorted e xs

/-- keys collected from the map in some order, then sorted: since keys are distinct the result
    does not depend on that order (Lemmas). -/
def sorted (a : Accumulator) : Accumulator := a.foldr insertSorted []

end Accumulator
end Hrano
