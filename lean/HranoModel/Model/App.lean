import HranoModel.Model.Reports
/-
  The commands: files in, bytes + error out.  Mirrors utils.WithResolvedDatabase /
  WalkWithReporter / WalkNodesInStream and each command's `Action`.
-/
namespace Hrano
open Bytes

inductive Err where
  | parse (e : PErr)
  | scan (e : ScanErr)
  | date (header : Bytes)
  | depth
  | open_ (path : Bytes)
  | option (what : Bytes)
  | write
  deriving DecidableEq, Repr

inductive Cmd where
  | reg | bal | lint (file : Bytes) (silent : Bool)
  | reportElementTotal (x : Bytes) (desc : Bool)
  | reportUnresolved | reportQuantity (desc : Bool) | reportTotals
  | csvLog | csvDatabase | csvDatabaseResolved
  | stats | summary (b e : Int) | print
  deriving Repr

/-- options after `options.Load` -/
structure Opts where
  dbFile : Bytes
  logFile : Bytes
  layout : Layout              -- GlobalConfig.DateFormat; also the reporters' layout (fix for C14)
  maxDepth : Int
  begin_ : Option Int := none  -- instants, ns
  end_ : Option Int := none
  now : Int := 0
  rc : RCfg := {}
  deriving Repr

abbrev Files := List (Bytes × Bytes)

/-- read faults: the reader of file `path` fails once `k` bytes were served -/
abbrev ReadFaults := List (Bytes × Nat)

structure Outcome where
  out : Bytes
  err : Option Err
  deriving Repr

namespace App

/-- `os.DevNull`: always readable, always empty (what --no-database points the book at) -/
def devNull : Bytes := ofString "/dev/null"

def readFile (fs : Files) (p : Bytes) : Except Err Bytes :=
  if p == devNull then .ok [] else
  match fs.find? (·.1 == p) with
  | some kv => .ok kv.2
  | none => .error (.open_ p)

def faultOf (rf : ReadFaults) (p : Bytes) : Option Nat := (rf.find? (·.1 == p)).map (·.2)

/-- filter.GetIntervalNodeFilter -/
def inInterval (b e : Option Int) (t : Int) : Bool :=
  (match b with | some b => t ≥ b | none => true) && (match e with | some e => t ≤ e | none => true)

/-- `LoadDatabaseFromStream`: stop at the first error; a scanner error after the loop is an error too -/
def loadBook (evs : List Event) (se : Option ScanErr) : Except Err Book :=
  go evs []
where
  go : List Event → List Node → Except Err Book
    | [], acc => match se with
      | some e => .error (.scan e)
      | none => .ok (Book.ofNodes acc.reverse)
    | .error e :: _, _ => .error (.parse e)
    | .node n :: r, acc => go r (n :: acc)

/-- `WalkNodesInStream`: the days handed to `Process`, and the error that stopped the walk -/
def walk (layout : Layout) (b e : Option Int) (se : Option ScanErr) : List Event → List LogDay × Option Err
  | [] => ([], se.map Err.scan)
  | .error pe :: _ => ([], some (.parse pe))
  | .node n :: rest =>
    match Date.parse layout n.header with
    | none => ([], some (.date n.header))
    | some c =>
      let (ds, err) := walk layout b e se rest
      (if inInterval b e (Date.instant c) then ⟨c, mergeDay n.elements, n.notes⟩ :: ds else ds, err)

def cc : UInt8 := PConst.commentChar

/-- the parse of a file under the read faults of the run -/
def parsed (fs : Files) (rf : ReadFaults) (path : Bytes) : Except Err (List Event × Option ScanErr) :=
  match readFile fs path with
  | .error e => .error e
  | .ok src => .ok (Parser.eventsFaulty cc src (faultOf rf path))

/-- load and resolve (`LoadDatabaseFromStream` + `Resolve`), visiting recipes in order `ord` -/
def bookOf (maxDepth : Int) (ord : List Bytes → List Bytes) (p : List Event × Option ScanErr) : Except Err Book :=
  match loadBook p.1 p.2 with
  | .error e => .error e
  | .ok book =>
    match Resolver.resolveAll maxDepth book (ord book.keys) with
    | .error _ => .error .depth
    | .ok b => .ok b

/-- the resolved book of a command (`WithResolvedDatabase`) -/
def resolvedBook (o : Opts) (fs : Files) (rf : ReadFaults) (ord : List Bytes → List Bytes) : Except Err Book :=
  match parsed fs rf o.dbFile with
  | .error e => .error e
  | .ok p => bookOf o.maxDepth ord p

def logDays (o : Opts) (fs : Files) (rf : ReadFaults) : Except Err (List LogDay × Option Err) :=
  match parsed fs rf o.logFile with
  | .error e => .error e
  | .ok p => .ok (walk o.layout o.begin_ o.end_ p.2 p.1)

def perDay (f : LogDay → Bytes) (days : List LogDay) : Bytes := (days.map f).flatten

/-- `NewRegReporter` dispatch -/
def regOutput (rc : RCfg) (db : Book) (days : List LogDay) : Bytes :=
  if !rc.singleElement.isEmpty then
    if rc.groupFood then Report.renderByFood rc days db
    else perDay (fun d => Report.renderSingle rc d db) days
  else if !rc.singleFood.isEmpty then perDay (Report.renderSingleFood rc) days
  else if rc.oldReg then perDay (fun d => Report.renderOld rc d db) days
  else if rc.leftAligned then perDay (fun d => Report.renderLeft rc d db) days
  else perDay (fun d => Report.renderDefault rc d db) days

def balOutput (rc : RCfg) (db : Book) (days : List LogDay) : Bytes :=
  if !rc.singleElement.isEmpty then Report.renderBalanceSingle rc days db
  else Report.renderBalance rc days

/-- stats: count records and first/last parsable heading date -/
def statsScan (layout : Layout) (evs : List Event) : Nat × Option Civil × Option Civil :=
  evs.foldl (fun (acc : Nat × Option Civil × Option Civil) ev =>
    match ev with
    | .error _ => acc
    | .node n =>
      let d := Date.parse layout n.header
      (acc.1 + 1, (match acc.2.1, d with | none, some c => some c | f, _ => f), d)) (0, none, none)

def firstErr (evs : List Event) : Option PErr :=
  evs.findSome? (fun ev => match ev with | .error e => some e | _ => none)

def countNodes (evs : List Event) : Nat :=
  (evs.filter (fun ev => match ev with | .node _ => true | _ => false)).length

def maxDuration : Int := 9223372036854775807

/-- `int(now.Sub(d).Hours()/24)` for instants on whole seconds -/
def daysAgo (now : Int) (d : Option Civil) : Int :=
  let t := match d with
    | some c => Date.instant c
    | none => Date.instant ⟨1, 1, 1⟩          -- the zero time.Time
  let dur := now - t
  let dur := if dur > maxDuration then maxDuration else if dur < -maxDuration - 1 then -maxDuration - 1 else dur
  Int.tdiv dur Date.nsPerDay

def fmtDateOpt (l : Layout) (d : Option Civil) : Bytes :=
  Date.format l (match d with | some c => c | none => ⟨1, 1, 1⟩)

def statsOutput (o : Opts) (nDb nLog : Nat) (first last : Option Civil) : Bytes :=
  ofString "  Database file:      " ++ o.dbFile ++ [10]
  ++ ofString "  Database records:   " ++ natDigits nDb ++ [10]
  ++ [10]
  ++ ofString "  Log file:           " ++ o.logFile ++ [10]
  ++ ofString "  Log records:        " ++ natDigits nLog ++ [10]
  ++ ofString "  Today:              " ++ Date.format o.rc.dateLayout (Date.ofDays (o.now / Date.nsPerDay)) ++ [10]
  ++ ofString "  First record:       " ++ fmtDateOpt o.rc.dateLayout first ++ ofString " (" ++ Num.fmtInt (daysAgo o.now first) ++ ofString " days ago)" ++ [10]
  ++ ofString "  Last record:        " ++ fmtDateOpt o.rc.dateLayout last ++ ofString " (" ++ Num.fmtInt (daysAgo o.now last) ++ ofString " days ago)" ++ [10]

/-- commands that walk the log with a resolved book -/
def withBookAndLog (o : Opts) (fs : Files) (rf : ReadFaults) (ord : List Bytes → List Bytes)
    (render : Book → List LogDay → Bytes) : Outcome :=
  -- WithFileReaders opens both files before anything is parsed
  match readFile fs o.dbFile, readFile fs o.logFile with
  | .error e, _ => ⟨[], some e⟩
  | _, .error e => ⟨[], some e⟩
  | .ok _, .ok _ =>
    match resolvedBook o fs rf ord with
    | .error e => ⟨[], some e⟩
    | .ok db =>
      match logDays o fs rf with
      | .error e => ⟨[], some e⟩
      | .ok (days, err) => ⟨render db days, err⟩

def withLog (o : Opts) (fs : Files) (rf : ReadFaults) (render : List LogDay → Bytes) : Outcome :=
  match logDays o fs rf with
  | .error e => ⟨[], some e⟩
  | .ok (days, err) => ⟨render days, err⟩

/-- commands that only need the resolved book -/
def withBook (o : Opts) (fs : Files) (rf : ReadFaults) (ord : List Bytes → List Bytes) (render : Book → Bytes) : Outcome :=
  match resolvedBook o fs rf ord with
  | .error e => ⟨[], some e⟩
  | .ok db => ⟨render db, none⟩

/-- `csv database`: rows of the records before the first error (fix for C08/C09: the error stops the export) -/
def csvDatabaseOut (p : List Event × Option ScanErr) : Outcome :=
  let good := p.1.takeWhile (fun ev => match ev with | .node _ => true | _ => false)
  let out := (good.map (fun ev => match ev with | .node n => Report.renderCsvDb n.header n.elements | _ => [])).flatten
  ⟨out, match firstErr p.1 with | some e => some (.parse e) | none => p.2.map Err.scan⟩

/-- `lint`: every error message, then "No errors found" when there was none (unless --silent) -/
def lintOut (silent : Bool) (p : List Event × Option ScanErr) : Outcome :=
  let msgs := (Parser.errorsOf p.1).map (fun e => Parser.PErr.message e ++ [10])
  match p.2 with
  | some e => ⟨msgs.flatten, some (.scan e)⟩
  | none => ⟨msgs.flatten ++ (if msgs.isEmpty && !silent then ofString "No errors found\n" else []), none⟩

/-- the whole program for one invocation (fault-free sink) -/
def run (c : Cmd) (o : Opts) (fs : Files) (rf : ReadFaults) (ord : List Bytes → List Bytes) : Outcome :=
  match c with
  | .reg => withBookAndLog o fs rf ord (regOutput o.rc)
  | .bal => withBookAndLog o fs rf ord (balOutput o.rc)
  | .reportTotals => withBookAndLog o fs rf ord (fun db days => Report.renderTotals days db)
  | .reportUnresolved => withBookAndLog o fs rf ord (fun db days => Report.renderUnresolved days db)
  | .reportQuantity desc => withLog o fs rf (Report.renderQuantity desc)
  | .csvLog => withLog o fs rf (perDay Report.renderCsvLog)
  | .print => withLog o fs rf (perDay (Report.renderPrint o.rc))
  | .summary b e =>
    -- the window [00:00, 24:00) of the requested day replaces any -b/-e
    let o' := { o with begin_ := some b, end_ := some e }
    withBookAndLog o' fs rf ord (fun db days => perDay (fun d => Report.renderSummary o.rc d db) days)
  | .reportElementTotal x desc => withBook o fs rf ord (Report.renderElementTotal x desc)
  | .csvDatabaseResolved => withBook o fs rf ord (fun db => ((Report.sortBook db).map (fun kv => Report.renderCsvDb kv.1 kv.2)).flatten)
  | .csvDatabase =>
    match parsed fs rf o.dbFile with
    | .error e => ⟨[], some e⟩
    | .ok p => csvDatabaseOut p
  | .lint file silent =>
    match parsed fs rf file with
    | .error e => ⟨[], some e⟩
    | .ok p => lintOut silent p
  | .stats =>
    match parsed fs rf o.logFile with
    | .error e => ⟨[], some e⟩
    | .ok pl =>
      match firstErr pl.1, pl.2 with
      | some e, _ => ⟨[], some (.parse e)⟩
      | none, some e => ⟨[], some (.scan e)⟩
      | none, none =>
        match parsed fs rf o.dbFile with
        | .error e => ⟨[], some e⟩
        | .ok pd =>
          match firstErr pd.1, pd.2 with
          | some e, _ => ⟨[], some (.parse e)⟩
          | none, some e => ⟨[], some (.scan e)⟩
          | none, none =>
            let (n, first, last) := statsScan o.rc.dateLayout pl.1
            ⟨statsOutput o (countNodes pd.1) n first last, none⟩

end App
end Hrano
