import HranoModel.Model.Options
import HranoModel.Model.Sink
import HranoModel.Model.Chan
/-! C03 property theorems (statements only in this file; helper lemmas live in Lemmas/) -/
namespace Hrano.C03
end Hrano.C03
