import HranoModel.Lemmas.Template
import HranoModel.Lemmas.Tree
import HranoModel.Lemmas.Collapse
import HranoModel.Lemmas.Chain
import HranoModel.Props.C07
/-!
C03 — the balance tree conserves logged quantities in every display mode.

Property theorems only (helper lemmas: `Lemmas/Tree.lean`).  The tree is `Tree.build` (`AddDeep` for every
element processed; children kept sorted = `Keys()`), the printers are `printChildren` (plain and
`--collapse-last`) and `printCollapsedChildren` (`--collapse`, after the fix recorded in
known-findings.txt).  Vocabulary (`Spec/Balance.lean`): `totalAt` the amount at a category path,
`prefixSum` the sum of the logged quantities at or below a path, `preorderList` the rows in pre-order,
`chainNames / chainEnd` the chain of sole children a collapsed row joins.

Leaf preservation: `--collapse` and `--collapse-last` print exactly the plain rows of a transformed tree
(`collapseList`, `collapseLastList`: chains of sole children joined), and whenever every node with a single
child carries that child's amount (`chainOKList`, which is what "no logged food name is a path-prefix of
another" means for the tree) the transformed trees have the same leaf paths with the same amounts
(`display_modes_same_leaves`); `Tree.build` of a log in which no food name is a proper path-prefix of another
satisfies `chainOKList` (`Lemmas/Chain.lean`), which gives the property as stated: `collapse_preserves_leaves`.
-/
namespace Hrano.C03
open Hrano Hrano.Spec Hrano.Tree Hrano.Report

/-- the generated category separator is one byte (`"/"`) -/
theorem separator_is_one_byte : Facts.categorySeparator.length = 1 := by decide

/-- **Every category path carries the sum of the quantities logged at or below it**, and siblings are strictly
    sorted by name at every level (so each path occurs once). -/
theorem balance_amounts (es : Elements) :
    WFList (Tree.build es) ∧ ∀ q, totalAt (Tree.build es) q = prefixSum Tree.sep q es := by
  have := build_spec es [] WFList.nil
  refine ⟨this.1, fun q => ?_⟩
  rw [Tree.build, this.2 q, totalAt_nil, Rat.zero_add]

/-- **The plain balance prints the tree in pre-order**: one row per node, parents before children, siblings in
    the tree's (sorted) order, each with its indent, label and amount. -/
theorem balance_rows (level : Nat) (cs : List Tree) :
    printChildren false level cs = ((preorderList level cs).map rowOf).flatten :=
  printList_is_preorder level cs

/-- `--collapse` only joins path segments: the row of a chain of sole children is labelled with the `/`-join of
    the chain's names, carries the amount of the chain's head, and printing continues below the chain's end —
    no branch is dropped. -/
theorem collapse_only_joins (level : Nat) (c : Tree) :
    printCollapsedChild [] c.total level c
      = row c.total level (Bytes.join Tree.sep (chainNames c)) ++ printCollapsedChildren (level + 1) (chainEnd c).children := by
  simpa using collapsed_child level c [] c.total

/-- `--collapse-last` joins a node with its only child when that child is a leaf, and keeps the node's amount -/
theorem collapse_last_joins (level : Nat) (n gn : Bytes) (t gt : Q) :
    printChild true level (node n t [node gn gt []]) = row t level (n ++ Tree.sep :: gn) := by
  simp [printChild]

/-- the top-level amounts are the same in every display mode (what the C03/C15 checks observe as conservation) -/
theorem top_level_amounts_conserved (cs : List Tree) :
    (∀ c ∈ cs, ∃ rest, printChild false 0 c = row c.total 0 c.name ++ rest)
    ∧ (∀ c ∈ cs, ∃ label rest, printCollapsedChild [] c.total 0 c = row c.total 0 label ++ rest)
    ∧ (∀ c ∈ cs, ∃ label rest, printChild true 0 c = row c.total 0 label ++ rest) := by
  refine ⟨?_, ?_, ?_⟩
  · intro c _
    cases c with
    | node n t ch => exact ⟨_, printChild_plain 0 n t ch⟩
  · intro c _
    exact ⟨_, _, collapse_only_joins 0 c⟩
  · intro c _
    cases c with
    | node n t ch =>
      cases ch with
      | nil => exact ⟨n, [], by simp [printChild, Tree.total]⟩
      | cons g gs =>
        cases gs with
        | nil =>
          cases g with
          | node gn gt gch =>
            cases gch with
            | nil => exact ⟨n ++ Tree.sep :: gn, [], by simp [printChild, Tree.total]⟩
            | cons x xs => exact ⟨n, printChildren true 1 [node gn gt (x :: xs)], by simp [printChild, Tree.total]⟩
        | cons g2 gs2 => exact ⟨n, printChildren true 1 (g :: g2 :: gs2), by simp [printChild, Tree.total]⟩

/-- **`--collapse` prints the plain rows of the tree with its chains joined** -/
theorem collapse_is_plain_of_joined (level : Nat) (cs : List Tree) :
    printCollapsedChildren level cs = printChildren false level (collapseList cs) :=
  collapsedList_is_plain level cs

/-- **`--collapse-last` prints the plain rows of the tree with its last links joined** -/
theorem collapse_last_is_plain_of_joined (level : Nat) (cs : List Tree) :
    printChildren true level cs = printChildren false level (collapseLastList cs) :=
  collapseLastList_is_plain level cs

/-- **Every display mode shows the same leaf paths with the same amounts and drops no branch**: when every node
    with exactly one child carries that child's amount (no food was logged at the node itself), the trees whose
    plain rows `--collapse` and `--collapse-last` print have exactly the leaves of the original tree — full path
    (segments joined by the separator) and amount, in the same order. -/
theorem display_modes_same_leaves (cs : List Tree) (p : Bytes) (h : chainOKList cs = true) :
    leavesList p (collapseList cs) = leavesList p cs ∧ leavesList p (collapseLastList cs) = leavesList p cs :=
  ⟨collapseList_leaves cs p h, collapseLastList_leaves cs p h⟩

/-- **Main theorem (collapse options only join path segments).**  For every log in which no food name is a proper
    path-prefix of another, the trees whose plain rows `--collapse` and `--collapse-last` print have exactly the leaf
    paths and amounts of the tree the plain balance prints — no branch is dropped, no amount changed. -/
theorem collapse_preserves_leaves (es : Elements) (p : Bytes) (hpf : PrefixFree (es.map pathOf)) :
    printCollapsedChildren 0 (Tree.build es) = printChildren false 0 (collapseList (Tree.build es))
    ∧ printChildren true 0 (Tree.build es) = printChildren false 0 (collapseLastList (Tree.build es))
    ∧ leavesList p (collapseList (Tree.build es)) = leavesList p (Tree.build es)
    ∧ leavesList p (collapseLastList (Tree.build es)) = leavesList p (Tree.build es) :=
  have h := build_chainOK es hpf
  ⟨collapsedList_is_plain 0 _, collapseLastList_is_plain 0 _, collapseList_leaves _ p h, collapseLastList_leaves _ p h⟩

/-- single-element mode: the tree is built from `quantity × the food's amount of the element` (a directly logged
    element counting as itself), and the grand total printed under the tree is the sum of those contributions —
    which is the period total of the element (C07) -/
theorem single_element_total (db : Book) (x : Bytes) (days : List LogDay) :
    (balanceSingleElements db x days).foldl (fun s e => s + e.value) 0
      = Accumulator.posAt (C12.totalsAcc db days) x + Accumulator.negAt (C12.totalsAcc db days) x :=
  C07.bal_single_total_eq_period_total db x days

/-! non-vacuity: a chain that forks at depth 2 plus a directly logged category -/
def demo : Elements := [⟨[97, 47, 98, 47, 99], 1⟩, ⟨[97, 47, 98, 47, 100], 2⟩, ⟨[120], 4⟩, ⟨[97, 47, 98, 47, 99], 8⟩]
example : totalAt (Tree.build demo) [[97], [98]] = 11 ∧ totalAt (Tree.build demo) [[97], [98], [99]] = 9
    ∧ totalAt (Tree.build demo) [[120]] = 4 := by decide +kernel
example : (preorderList 0 (Tree.build demo)).map (fun r => (r.1, r.2.1))
    = [(0, [97]), (1, [98]), (2, [99]), (2, [100]), (0, [120])] := by decide +kernel
example : chainNames (node [97] 11 [node [98] 11 [node [99] 9 [], node [100] 2 []]]) = [[97], [98]] := by decide
example : chainOKList (Tree.build demo) = true := by decide +kernel
example : leavesList [] (collapseList (Tree.build demo)) = [([97, 47, 98, 47, 99], 9), ([97, 47, 98, 47, 100], 2), ([120], 4)] := by decide +kernel
example : (preorderList 0 (collapseList (Tree.build demo))).map (fun r => (r.1, r.2.1))
    = [(0, [97, 47, 98]), (1, [99]), (1, [100]), (0, [120])] := by decide +kernel
example : PrefixFree (demo.map pathOf) := by
  intro a ha b hb ⟨r, hr, he⟩
  have hd : demo.map pathOf = [[[97], [98], [99]], [[97], [98], [100]], [[120]], [[97], [98], [99]]] := by decide +kernel
  rw [hd] at ha hb
  simp only [List.mem_cons, List.not_mem_nil, or_false] at ha hb
  rcases ha with rfl | rfl | rfl | rfl <;> rcases hb with rfl | rfl | rfl | rfl <;> simp at he <;> (try exact hr he) <;> (try (subst he; exact hr rfl))
/-- the side condition is needed: with a food logged at a category that has a single child the collapsed row
    shows the category's amount, not the leaf's (the property excludes such logs) -/
example : chainOKList (Tree.build [⟨[97], 1⟩, ⟨[97, 47, 98], 2⟩]) = false := by decide +kernel

/-! ### the byte layout follows the formats read from the source on every run (`tools/facts`, `Model/Template.lean`) -/

/-- Every row of the balance tree is `fmt.Fprintf` of the format the source has now — each of the three calls of `balance_reporter.go` and the one of `balance_reporter_collapsed.go` — applied to the total, the indentation and the label. -/
theorem balance_rows_follow_source (i : Nat) (h : i < 4) (t : Q) (level : Nat) (label : Bytes) :
    Tree.row t level label
      = Tmpl.sprintfA (Facts.balanceFormats.getD i []) [.q t, .s (List.replicate level [32, 32]).flatten, .s label] := by
  rw [Tmpl.row_b i h]; simp [Tree.row, List.append_assoc]

/-- `balance -s X`: the rule and the total row are the two formats of `balance_reporter_single.go`. -/
theorem balance_single_footer_follows_source (cfg : RCfg) (days : List LogDay) (db : Book) :
    renderBalanceSingle cfg days db =
      (let es := balanceSingleElements db cfg.singleElement days
       let t := Tree.build es
       (if cfg.collapse then Tree.printCollapsedChildren 0 t else Tree.printChildren cfg.collapseLast 0 t)
       ++ Tmpl.sprintfA (Facts.balanceSingleFormats.getD 0 []) [.s (Report.dashes 11)]
       ++ Tmpl.sprintfA (Facts.balanceSingleFormats.getD 1 []) [.q (es.foldl (fun s e => s + e.value) 0), .s cfg.singleElement]) := by
  simp only [renderBalanceSingle, Tmpl.row_bs0, Tmpl.row_bs1, List.append_assoc]

example : Tmpl.signature (Facts.balanceFormats.getD 3 []) = some [true, false, false]
    ∧ Tmpl.signature (Facts.balanceSingleFormats.getD 1 []) = some [true, false] := by decide +kernel
example : Tmpl.sprintfA (Facts.balanceFormats.getD 1 []) [.q (-5/2), .s [32, 32], .s [97]]
    = Bytes.ofString "     -2.50 |   a\n" := by decide +kernel

end Hrano.C03
