import HranoModel.Model.Options
import HranoModel.Model.Sink
import HranoModel.Model.Chan
/-! C01 property theorems (statements only in this file; helper lemmas live in Lemmas/) -/
namespace Hrano.C01
end Hrano.C01
