import HranoModel.Lemmas.ResolveAll
import HranoModel.Lemmas.Idem
/-!
C01 — nested recipes resolve to the exact sum-of-products of their ingredients.

Property theorems only (helper lemmas: `Lemmas/Resolve*.lean`).  The model is `Resolver.resolveNode /
resolveAll` (`Model/Resolver.lean`, the code after the fix recorded in known-findings.txt: in-place
replacement plus recorded heights).  One model function serves both public Go entry points
(`Resolver.Resolve` delegates to `Resolve`); the correspondence check runs both.

Specification (`Spec/Resolve.lean`): `specNode B N x = some (height, paths)` where `paths` has one
`(leaf, product of the quantities along the path)` entry per ingredient path from `x` to a name the
book does not define, and `Resolved paths els` says `els` is sorted by name, has no duplicate, lists
exactly the leaves of the paths and gives each the sum over its paths.  `Chain B x k`: a chain of `k`
ingredient references starts at `x`.  Quantities are exact rationals.
-/
namespace Hrano.C01
open Hrano Hrano.Spec Hrano.Resolver

/-- **Resolve is correct.**  If no chain of `N` or more references starts at a visited name, then for
    every visiting order that covers the book, resolution succeeds, keeps the recipe names, and leaves
    under every recipe exactly the resolved form of its ingredient paths: one amount per reachable
    basic element (the sum over all paths of the products), sorted by name, without duplicates, and no
    recipe name left unexpanded. -/
theorem resolve_correct (B : Book) (N : Nat) (order : List Bytes)
    (hcover : ∀ n ∈ B.keys, n ∈ order)
    (hdepth : ∀ n ∈ order, ¬ Chain B n N) :
    ∃ B', resolveAll (N : Int) B order = .ok B' ∧ B'.keys = B.keys ∧
      ∀ n ∈ B.keys, ∃ h ps els, specNode B N n = some (h, ps) ∧ B'.lookup n = some els ∧ Resolved ps els
        ∧ ∀ p ∈ ps, B.lookup p.name = none := by
  have hall : ∀ n ∈ order, specNode B N n ≠ none := fun n hn hnone => hdepth n hn ((specNode_none_iff_chain B N n).mp hnone)
  obtain ⟨st', hgo, hinv, _, hdone⟩ := go_ok B N order _ (inv_init B) hall
  refine ⟨st'.db, hgo, hinv.keys, ?_⟩
  intro n hn
  have hrec : (B.lookup n).isSome := Book.lookup_isSome_of_mem B n hn
  have hd := hdone n (hcover n hn) hrec
  cases hdn : doneAt st' n with
  | none => rw [hdn] at hd; cases hd
  | some h =>
    obtain ⟨f, ps, els, hsp, _, hl, hres⟩ := hinv.done n h hdn
    have hN : specNode B N n = some (h, ps) := by
      cases hs : specNode B N n with
      | none => exact absurd hs (hall n (hcover n hn))
      | some v =>
        have := specNode_det B n N f _ _ hs hsp
        rw [this]
    exact ⟨h, ps, els, hN, hl, hres, specNode_leaves B N n h ps hN⟩

/-- names the book does not define stand for themselves -/
theorem undefined_is_itself (B : Book) (f : Nat) (x : Bytes) (h : B.lookup x = none) :
    specNode B (f + 1) x = some (0, [⟨x, 1⟩]) := by
  simp [specNode, h]

/-- the paths of a recipe are the paths of its ingredients, each scaled by the ingredient's quantity
    (sum over paths of the product of the quantities along the path, in recursive form) -/
theorem paths_unfold (B : Book) (f : Nat) (x : Bytes) (els : Elements) (h : B.lookup x = some els) :
    specNode B (f + 1) x = specList (specNode B f) els (0, []) := by
  simp [specNode, h]

/-- two books with the same distinct keys and the same entry under every key are equal -/
theorem book_ext : ∀ (B₁ B₂ : Book), B₁.keys = B₂.keys → B₁.keys.Nodup → (∀ n ∈ B₁.keys, B₁.lookup n = B₂.lookup n) → B₁ = B₂ := by
  intro B₁
  induction B₁ with
  | nil => intro B₂ hk _ _; cases B₂ with
    | nil => rfl
    | cons y ys => simp [Book.keys] at hk
  | cons x xs ih =>
    intro B₂ hk hnd hlk
    cases B₂ with
    | nil => simp [Book.keys] at hk
    | cons y ys =>
      obtain ⟨kx, vx⟩ := x
      obtain ⟨ky, vy⟩ := y
      simp only [Book.keys, List.map_cons, List.cons.injEq] at hk
      simp only [Book.keys, List.map_cons, List.nodup_cons] at hnd
      obtain ⟨rfl, hk'⟩ := hk
      have hv : vx = vy := by
        have := hlk kx (by simp [Book.keys])
        simpa [Book.lookup, List.find?] using this
      subst hv
      congr 1
      apply ih ys hk' hnd.2
      intro n hn
      have := hlk n (by simp only [Book.keys, List.map_cons]; exact List.mem_cons_of_mem _ hn)
      have hne : (kx == n) = false := by
        have : kx ≠ n := fun e => hnd.1 (e ▸ hn)
        simpa using this
      simpa [Book.lookup, List.find?, hne] using this

/-- **Order independence.**  Any two visiting orders that cover the book give the same resolved book. -/
theorem resolve_order_irrelevant (B : Book) (N : Nat) (o₁ o₂ : List Bytes) (hnd : B.keys.Nodup)
    (h₁ : ∀ n ∈ B.keys, n ∈ o₁) (h₂ : ∀ n ∈ B.keys, n ∈ o₂)
    (d₁ : ∀ n ∈ o₁, ¬ Chain B n N) (d₂ : ∀ n ∈ o₂, ¬ Chain B n N) :
    resolveAll (N : Int) B o₁ = resolveAll (N : Int) B o₂ := by
  obtain ⟨B₁, r₁, k₁, c₁⟩ := resolve_correct B N o₁ h₁ d₁
  obtain ⟨B₂, r₂, k₂, c₂⟩ := resolve_correct B N o₂ h₂ d₂
  rw [r₁, r₂]
  congr 1
  -- same keys, same entry under every key
  have hlk : ∀ n ∈ B.keys, B₁.lookup n = B₂.lookup n := by
    intro n hn
    obtain ⟨h, ps, e₁, s₁, l₁, res₁, _⟩ := c₁ n hn
    obtain ⟨h', ps', e₂, s₂, l₂, res₂, _⟩ := c₂ n hn
    rw [s₁] at s₂
    simp only [Option.some.injEq, Prod.mk.injEq] at s₂
    obtain ⟨_, rfl⟩ := s₂
    rw [l₁, l₂, resolved_unique ps e₁ e₂ res₁ res₂]
  have hk : B₁.keys = B₂.keys := k₁.trans k₂.symm
  rw [← k₁] at hnd hlk
  exact book_ext B₁ B₂ hk hnd hlk

/-- **Idempotence.**  Resolving an already resolved book changes nothing (with a depth limit of at least 2: a
    resolved recipe still refers to its basic elements, one level down). -/
theorem resolve_idempotent (B B' : Book) (N : Nat) (o₁ o₂ : List Bytes) (hN : 2 ≤ N) (hnd : B.keys.Nodup)
    (h₁ : ∀ n ∈ B.keys, n ∈ o₁) (h₂ : ∀ n ∈ B.keys, n ∈ o₂) (d₁ : ∀ n ∈ o₁, ¬ Chain B n N)
    (hres : resolveAll (N : Int) B o₁ = .ok B') :
    resolveAll (N : Int) B' o₂ = .ok B' := by
  obtain ⟨B₁, r₁, k₁, c₁⟩ := resolve_correct B N o₁ h₁ d₁
  rw [hres] at r₁
  have hB : B₁ = B' := by cases r₁; rfl
  subst hB
  -- every ingredient of a resolved recipe is a name the book does not define
  have hflat : ∀ n els, B₁.lookup n = some els → ∀ e ∈ els, B₁.lookup e.name = none := by
    intro n els hl e he
    have hn : n ∈ B.keys := k₁ ▸ Book.mem_keys_of_lookup B₁ n els hl
    obtain ⟨h, ps, els', _, hl', hr, hleaf⟩ := c₁ n hn
    rw [hl] at hl'
    cases hl'
    have : e.name ∈ ps.map (·.name) := (hr.names e.name).mp (List.mem_map_of_mem he)
    obtain ⟨p, hp, hpe⟩ := List.mem_map.mp this
    rw [← hpe]
    exact (Book.lookup_none_iff_of_keys B B₁ k₁.symm p.name).mp (hleaf p hp)
  obtain ⟨k, rfl⟩ : ∃ k, N = k + 2 := ⟨N - 2, by omega⟩
  have d₂ : ∀ n ∈ o₂, ¬ Chain B₁ n (k + 2) := fun n _ => no_chain_two B₁ hflat n k
  obtain ⟨B₂, r₂, k₂, c₂⟩ := resolve_correct B₁ (k + 2) o₂ (by rw [k₁]; exact h₂) d₂
  rw [r₂]
  congr 1
  apply book_ext B₂ B₁ k₂ (by rw [k₂, k₁]; exact hnd)
  intro n hn
  rw [k₂] at hn
  obtain ⟨h, ps, els₂, s₂, l₂, res₂, _⟩ := c₂ n hn
  obtain ⟨h₁', ps₁, els₁, _, l₁, res₁, _⟩ := c₁ n (k₁ ▸ hn)
  -- the paths of a resolved recipe are its own entries
  obtain ⟨h', hsl⟩ := specList_undefined B₁ k els₁ 0 [] (hflat n els₁ l₁)
  have hs : specNode B₁ (k + 2) n = some (h', els₁) := by
    rw [specNode, l₁]; simpa using hsl
  have hps : ps = els₁ := (Prod.mk.inj (Option.some.inj (s₂.symm.trans hs))).2
  rw [hps] at res₂
  rw [l₂, l₁, resolved_unique els₁ els₂ els₁ res₂ (resolved_self els₁ res₁.sorted res₁.nodup)]

/-! non-vacuity: a three-level diamond with a repeated ingredient, a negative and a fractional coefficient
    and an empty recipe; two different visiting orders -/
def a : Bytes := [97]
def b : Bytes := [98]
def c : Bytes := [99]
def d : Bytes := [100]
def x : Bytes := [120]
def y : Bytes := [121]
def demo : Book :=
  [(a, [⟨b, 2⟩, ⟨c, -1⟩, ⟨b, (1 : Q) / 2⟩]), (b, [⟨d, 3⟩, ⟨x, 1⟩]), (c, [⟨d, 1⟩, ⟨y, 4⟩]), (d, [⟨x, 1⟩, ⟨y, 1⟩]), ([101], [])]

def lookupAfter (order : List Bytes) (n : Bytes) : Option Elements :=
  match resolveAll 10 demo order with
  | .ok r => r.lookup n
  | .error _ => none

example : lookupAfter [a, b, c, d, [101]] a = some [⟨x, 9⟩, ⟨y, (5 : Q) / 2⟩] := by decide +kernel
example : lookupAfter [[101], d, c, b, a] a = some [⟨x, 9⟩, ⟨y, (5 : Q) / 2⟩] := by decide +kernel
example : ∀ n ∈ [a, b, c, d, [101]], (specNode demo 10 n).isSome := by decide +kernel
example : (match resolveAll 10 demo [a, b, c, d, [101]] with
    | .ok r => (match resolveAll 10 r [[101], d, c, b, a] with
      | .ok r' => r' == r
      | .error _ => false)
    | .error _ => false) = true := by decide +kernel

end Hrano.C01
