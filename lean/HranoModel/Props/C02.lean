import HranoModel.Lemmas.Merge
import HranoModel.Lemmas.Template
import HranoModel.Model.App
/-!
C02 — the register reports each day's foods, ingredients and signed totals exactly.

Property theorems only (helper lemmas: `Lemmas/Accum.lean`, `Lemmas/Merge.lean`, `Lemmas/Sort.lean`).
Quantities are exact rationals; the specification vocabulary (`sumOf`, `posOf`, `negOf`,
`distinctNames`, `dayContributions`) is in `Spec/Sums.lean`.
-/
namespace Hrano.C02
open Hrano Hrano.Spec Hrano.Report

/-- Within a day each distinct food appears once, in first-appearance order, with the sum of its
    logged quantities (`NewLogNodeFromElements`). -/
theorem day_foods (entries : Elements) :
    Elements.names (mergeDay entries) = distinctNames entries
    ∧ (Elements.names (mergeDay entries)).Nodup
    ∧ ∀ f, Elements.valueAt (mergeDay entries) f = sumOf f entries :=
  ⟨mergeDay_names entries, mergeDay_nodup entries, mergeDay_value entries⟩

/-- Each food is followed by its quantity times each resolved element of the food, or by the food
    itself when the book does not define it (`GetReportItem`). -/
theorem item_ingredients (db : Book) (cfg : RCfg) (d : LogDay) (h : cfg.totalsOnly = false) :
    (reportItem db cfg d).1 = d.elements.map (fun e =>
      { name := e.name, value := e.value,
        ingredients := match db.lookup e.name with
          | some els => els.map (fun r => ⟨r.name, r.value * e.value⟩)
          | none => [⟨e.name, e.value⟩] }) := by
  simp only [reportItem, h, contributions]
  rfl

/-- **The day's totals**: every contributed element exactly once, sorted by name, with the sum of its
    non-negative contributions, the sum of its negative contributions, and their sum. -/
theorem item_totals (db : Book) (cfg : RCfg) (d : LogDay) (h : cfg.totals = true) :
    ∃ ts, (reportItem db cfg d).2 = some ts
      ∧ (ts.map (·.name)).Pairwise (fun a b => Bytes.le a b = true)
      ∧ (ts.map (·.name)).Nodup
      ∧ (∀ n, n ∈ ts.map (·.name) ↔ n ∈ (dayContributions db d.elements).map (·.name))
      ∧ ∀ t ∈ ts, t.pos = posOf t.name (dayContributions db d.elements)
          ∧ t.neg = negOf t.name (dayContributions db d.elements)
          ∧ t.sum = t.pos + t.neg
          ∧ t.sum = sumOf t.name (dayContributions db d.elements) := by
  let cs := dayContributions db d.elements
  have hacc : d.elements.foldl (fun a e => accumulate a (contributions db e)) [] = accumulate [] cs :=
    foldl_accumulate_flatten (contributions db) d.elements []
  have hnd : (Accumulator.names (accumulate [] cs)).Nodup := nodup_accumulate cs [] (by simp [Accumulator.names])
  refine ⟨totalsOf (accumulate [] cs), ?_, ?_, ?_, ?_, ?_⟩
  · simp only [reportItem, h, if_true, hacc]
  · -- sorted
    have hs := Srt.sortBy_sorted (fun a : Acc => a.name) (accumulate [] cs)
    simp only [totalsOf, Srt.acc_sorted_eq, List.map_map]
    exact List.pairwise_map.mpr hs
  · -- each once
    simp only [totalsOf, Srt.acc_sorted_eq, List.map_map]
    have hp := Srt.sortBy_perm (fun a : Acc => a.name) (accumulate [] cs)
    exact (hp.map _).nodup_iff.mpr hnd
  · -- exactly the contributed names
    intro n
    simp only [totalsOf, Srt.acc_sorted_eq, List.map_map]
    have hp := Srt.sortBy_perm (fun a : Acc => a.name) (accumulate [] cs)
    rw [(hp.map _).mem_iff]
    have := mem_names_accumulate cs [] n
    simpa [Accumulator.names] using this
  · -- the figures
    intro t ht
    simp only [totalsOf, Srt.acc_sorted_eq, List.mem_map] at ht
    obtain ⟨a, ha, rfl⟩ := ht
    have ha' : a ∈ accumulate [] cs := (Srt.sortBy_perm _ _).mem_iff.mp ha
    have hf := Accumulator.find_of_mem _ hnd a ha'
    have hpos : a.pos = posOf a.name cs := by
      have := posAt_accumulate cs [] a.name
      simp only [Accumulator.posAt, hf] at this
      simpa [Accumulator.find, Rat.zero_add] using this
    have hneg : a.neg = negOf a.name cs := by
      have := negAt_accumulate cs [] a.name
      simp only [Accumulator.negAt, hf] at this
      simpa [Accumulator.find, Rat.zero_add] using this
    refine ⟨hpos, hneg, rfl, ?_⟩
    show a.pos + a.neg = sumOf a.name cs
    rw [hpos, hneg, pos_add_neg]

/-- The register shows every selected day, in file order: it is the concatenation of the per-day blocks. -/
theorem register_days (rc : RCfg) (db : Book) (days : List LogDay)
    (h1 : rc.singleElement = []) (h2 : rc.singleFood = []) (h3 : rc.oldReg = false) (h4 : rc.leftAligned = false) :
    App.regOutput rc db days = (days.map (fun d => renderDefault rc d db)).flatten := by
  simp [App.regOutput, App.perDay, h1, h2, h3, h4]

/-- **The byte layout of the default rendering follows the template in the source.**  The hand-expanded rendering the model
    (and the driver of the correspondence check) uses is, for every configuration, day and book, the template
    `register.defaultTemplate` written over the `printf` formats, `shorten` widths and totals line that `tools/facts` reads from
    the source on every run, under the modelled `fmt.Sprintf`. -/
theorem default_layout_follows_template (cfg : RCfg) (d : LogDay) (db : Book) :
    renderDefault cfg d db = Tmpl.renderDefaultT cfg d db := by
  simp only [renderDefault, Tmpl.renderDefaultT, Tmpl.row_d0, Tmpl.row_d1, Tmpl.row_d2, Tmpl.head_d, Tmpl.widths_d,
    List.getD_cons_zero, List.getD_cons_succ]
  simp [List.append_assoc]
  cases (reportItem db cfg d).snd <;> rfl

/-- the same for `register.leftAlignedTemplate` -/
theorem left_layout_follows_template (cfg : RCfg) (d : LogDay) (db : Book) :
    renderLeft cfg d db = Tmpl.renderLeftT cfg d db := by
  simp only [renderLeft, Tmpl.renderLeftT, Tmpl.row_l0, Tmpl.row_l1, Tmpl.row_l2, Tmpl.head_l]
  simp [List.append_assoc]
  cases (reportItem db cfg d).snd <;> rfl

/-- the same for the old reporter (`reg_reporter.go`) and the formats of its five `fmt.Fprintf` calls -/
theorem old_layout_follows_source (cfg : RCfg) (d : LogDay) (db : Book) :
    renderOld cfg d db = Tmpl.renderOldT cfg d db := by
  simp only [renderOld, Tmpl.renderOldT, Tmpl.row_o0, Tmpl.row_o1, Tmpl.row_o2, Tmpl.row_o3, Tmpl.row_o4]
  rw [Tmpl.head_o]
  simp [List.append_assoc]

/-- every regenerated format uses only the verbs the model of `fmt.Sprintf` knows, with as many verbs as the row has arguments -/
theorem template_formats_well_formed :
    Tmpl.wellFormed (Facts.regDefaultFormats.getD 0 []) 2 = true ∧ Tmpl.wellFormed (Facts.regDefaultFormats.getD 1 []) 2 = true
    ∧ Tmpl.wellFormed (Facts.regDefaultFormats.getD 2 []) 4 = true
    ∧ Tmpl.wellFormed (Facts.regLeftFormats.getD 0 []) 2 = true ∧ Tmpl.wellFormed (Facts.regLeftFormats.getD 1 []) 2 = true
    ∧ Tmpl.wellFormed (Facts.regLeftFormats.getD 2 []) 4 = true
    ∧ Tmpl.wellFormed (Facts.regOldFormats.getD 0 []) 1 = true ∧ Tmpl.wellFormed (Facts.regOldFormats.getD 1 []) 2 = true
    ∧ Tmpl.wellFormed (Facts.regOldFormats.getD 2 []) 2 = true ∧ Tmpl.wellFormed (Facts.regOldFormats.getD 3 []) 2 = true
    ∧ Tmpl.wellFormed (Facts.regOldFormats.getD 4 []) 4 = true := by decide +kernel

/-! non-vacuity: a day with a repeated food, a negative quantity, a food the book defines and an element
    that is logged directly and also comes from a recipe -/
def demoBook : Book := [([115], [⟨[99], 40⟩, ⟨[102], -2⟩])]     -- s: c 40, f -2
def demoDay : LogDay := ⟨⟨2021, 1, 24⟩, mergeDay [⟨[115], 2⟩, ⟨[99], 5⟩, ⟨[115], -1⟩, ⟨[98], 0⟩], []⟩

example : Elements.names demoDay.elements = [[115], [99], [98]] := by decide
example : (reportItem demoBook {} demoDay).2.map (fun ts => ts.map (fun t => (t.name, t.pos, t.neg, t.sum)))
    = some [([98], 0, 0, 0), ([99], 45, 0, 45), ([102], 0, -2, -2)] := by decide +kernel

-- the regenerated food-row format on a name of two runes (a two-byte rune counts once for the padding) and a value
example : Tmpl.sprintf (Facts.regDefaultFormats.getD 0 []) [[0xC3, 0xA9, 120], [49]]
    = [9, 0xC3, 0xA9, 120] ++ List.replicate 25 32 ++ [32, 58, 49] := by decide +kernel
example : (Tmpl.renderDefaultT {} demoDay demoBook).length = (renderDefault {} demoDay demoBook).length
    ∧ (renderDefault {} demoDay demoBook).length > 300 := by decide +kernel

end Hrano.C02
