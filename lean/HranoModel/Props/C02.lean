import HranoModel.Model.Options
import HranoModel.Model.Sink
import HranoModel.Model.Chan
/-! C02 property theorems (statements only in this file; helper lemmas live in Lemmas/) -/
namespace Hrano.C02
end Hrano.C02
