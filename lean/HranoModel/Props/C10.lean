import HranoModel.Model.Options
import HranoModel.Model.Sink
import HranoModel.Model.Chan
/-! C10 property theorems (statements only in this file; helper lemmas live in Lemmas/) -/
namespace Hrano.C10
end Hrano.C10
