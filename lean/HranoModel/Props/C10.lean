import HranoModel.Lemmas.Run
/-!
C10 — unreadable input is an error, never a silently shortened report.

Property theorems only (helper lemmas: `Lemmas/Parse.lean`, `Lemmas/Run.lean`).  A read fault is
a reader that serves the first `k ≤ |file|` bytes and then returns an error; an over-long line is
one of `bufio.MaxScanTokenSize` bytes or more.  The exact chunking of `bufio.Scanner` is modelled
only as "which lines are delivered" (validated at every offset by the correspondence check).
-/
namespace Hrano.C10
open Hrano Hrano.App

/-- a reader that fails at any offset inside (or at the end of) the file makes the scan fail -/
theorem read_fault_is_error (cc : UInt8) (s : Bytes) (k : Nat) (hk : k ≤ s.length) :
    (Parser.eventsFaulty cc s (some k)).2 ≠ none := by
  simpa [Parser.eventsFaulty] using Scanner.scan_fail_of_fault s k hk

/-- a line of 64 KiB or more, at any position, makes the scan fail -/
theorem long_line_is_error (cc : UInt8) (s : Bytes) (l : Bytes) (hm : l ∈ Scanner.rawLines s)
    (hl : l.length ≥ PConst.maxToken) : (Parser.eventsFaulty cc s none).2 = some .tooLong := by
  simpa [Parser.eventsFaulty] using Scanner.scan_fail_of_long s none l hm hl (by simp)

/-- **Parser level.**  If `ParseStreamCallback` reports no scanner error, the reader did not fail inside the
    file, no line was over-long, and the callback saw exactly the events of the complete file. -/
theorem success_implies_complete (cc : UInt8) (s : Bytes) (fa : Option Nat) (h : (Parser.eventsFaulty cc s fa).2 = none) :
    (Parser.eventsFaulty cc s fa).1 = Parser.events cc s
    ∧ (∀ k, fa = some k → s.length < k)
    ∧ ∀ l ∈ Scanner.rawLines s, l.length < PConst.maxToken := by
  have hs : (Scanner.scan s fa).2 = none := by simpa [Parser.eventsFaulty] using h
  exact ⟨Parser.eventsFaulty_ok cc s fa h, (Scanner.scan_ok s fa hs).2⟩

/-- **Command level.**  Whenever a command succeeds under read faults `rf`, its whole outcome — output
    and status — is that of the run without any fault: every heading and entry of every file it reads
    has been taken into account.  (Equivalently: a fault that costs any input makes the command fail.) -/
theorem command_success_implies_complete (c : Cmd) (o : Opts) (fs : Files) (rf : ReadFaults)
    (ord : List Bytes → List Bytes) (h : (run c o fs rf ord).err = none) :
    run c o fs rf ord = run c o fs [] ord := by
  cases c with
  | reg => exact withBookAndLog_ok o fs rf ord _ h
  | bal => exact withBookAndLog_ok o fs rf ord _ h
  | reportTotals => exact withBookAndLog_ok o fs rf ord _ h
  | reportUnresolved => exact withBookAndLog_ok o fs rf ord _ h
  | reportQuantity desc => exact withLog_ok o fs rf _ h
  | csvLog => exact withLog_ok o fs rf _ h
  | print => exact withLog_ok o fs rf _ h
  | summary b e => exact withBookAndLog_ok _ fs rf ord _ h
  | reportElementTotal x desc => exact withBook_ok o fs rf ord _ h
  | csvDatabaseResolved => exact withBook_ok o fs rf ord _ h
  | csvDatabase =>
    simp only [run] at h ⊢
    cases hp : parsed fs rf o.dbFile with
    | error e => rw [hp] at h; cases h
    | ok p =>
      rw [hp] at h
      rw [parsed_ok fs rf _ p hp (csvDatabaseOut_ok_se p h)]
  | lint file silent =>
    simp only [run] at h ⊢
    cases hp : parsed fs rf file with
    | error e => rw [hp] at h; cases h
    | ok p =>
      rw [hp] at h
      rw [parsed_ok fs rf _ p hp (lintOut_ok_se silent p h)]
  | stats =>
    simp only [run] at h ⊢
    cases hpl : parsed fs rf o.logFile with
    | error e => rw [hpl] at h; cases h
    | ok pl =>
      rw [hpl] at h
      simp only at h
      cases hf1 : firstErr pl.1 with
      | some e => rw [hf1] at h; cases h
      | none =>
        rw [hf1] at h
        cases hs1 : pl.2 with
        | some e => rw [hs1] at h; cases h
        | none =>
          rw [hs1] at h
          simp only at h
          rw [parsed_ok fs rf _ pl hpl hs1]
          simp only [hf1, hs1]
          cases hpd : parsed fs rf o.dbFile with
          | error e => rw [hpd] at h; cases h
          | ok pd =>
            rw [hpd] at h
            simp only at h
            cases hf2 : firstErr pd.1 with
            | some e => rw [hf2] at h; cases h
            | none =>
              rw [hf2] at h
              cases hs2 : pd.2 with
              | some e => rw [hs2] at h; cases h
              | none =>
                rw [parsed_ok fs rf _ pd hpd hs2]

/-! non-vacuity: a two-record file; the reader failing after the first record is an error, while the
    complete read succeeds with both records -/
def demo : Bytes := Bytes.ofString "a:\n  x: 1\nb:\n  y: 2\n"
example : (Parser.eventsFaulty 35 [97, 58, 10, 32, 32, 120, 58, 32, 49, 10, 98, 58, 10, 32, 32, 121, 58, 32, 50, 10] (some 10)).2 = some .read := by decide +kernel
example : ((Parser.eventsFaulty 35 [97, 58, 10, 32, 32, 120, 58, 32, 49, 10, 98, 58, 10, 32, 32, 121, 58, 32, 50, 10] none).1.length,
           (Parser.eventsFaulty 35 [97, 58, 10, 32, 32, 120, 58, 32, 49, 10, 98, 58, 10, 32, 32, 121, 58, 32, 50, 10] none).2) = (2, none) := by decide +kernel

end Hrano.C10
