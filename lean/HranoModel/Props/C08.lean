import HranoModel.Model.Options
import HranoModel.Model.Sink
import HranoModel.Model.Chan
/-! C08 property theorems (statements only in this file; helper lemmas live in Lemmas/) -/
namespace Hrano.C08
end Hrano.C08
