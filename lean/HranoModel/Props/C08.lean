import HranoModel.Model.Callback
import HranoModel.Model.Options
import HranoModel.Lemmas.Errors
/-!
C08 — no input makes a command crash or hang.

Property theorems only.  What a proof about the model can say here:
* every function of the model is total (accepted by Lean's termination checker with the code's own
  argument: lines of the file, the fuel `maxDepth − level`, the path of a name, the children of a node),
  so `App.run` returns an outcome for every input — there is no theorem to state beyond its type;
* the recursion of the resolver is bounded by `maxDepth`, which `validateOptions` bounds (fix recorded in
  known-findings.txt);
* no parser callback touches the record when the parser delivered an error (the defect class found in
  `csv database` and `stats`), stated on the explicit `Delivery` model of the callback contract;
* the parser emits at most one event per line plus the final flush.
Partial by nature: real stack exhaustion, allocation failure and third-party code (`regexp`, `naturaldate`)
are outside the model; the C08 check fuzzes them.
-/
namespace Hrano.C08
open Hrano Hrano.Callback

/-- **No callback dereferences a nil record**: for every event the parser can deliver, every consumer either
    continues or stops with an error. -/
theorem callbacks_never_panic (layout : Layout) (ev : Event) :
    loadBook (deliver ev) ≠ .panic ∧ walk layout (deliver ev) ≠ .panic ∧ csvDatabase (deliver ev) ≠ .panic
    ∧ statsLog (deliver ev) ≠ .panic ∧ statsDb (deliver ev) ≠ .panic ∧ lint (deliver ev) ≠ .panic
    ∧ parseStream (deliver ev) ≠ .panic := by
  cases ev with
  | node n =>
    refine ⟨by simp [loadBook, deliver, useNode], ?_, by simp [csvDatabase, deliver, useNode], by simp [statsLog, deliver, useNode],
      by simp [statsDb, deliver], by simp [lint], by simp [parseStream, deliver, useNode]⟩
    simp only [walk, deliver, useNode]
    cases Date.parse layout n.header <;> simp
  | error e =>
    exact ⟨by simp [loadBook, deliver], by simp [walk, deliver], by simp [csvDatabase, deliver], by simp [statsLog, deliver],
      by simp [statsDb, deliver], by simp [lint], by simp [parseStream, deliver]⟩

/-- the parser always delivers exactly one of (record, error) -/
theorem delivery_exclusive (ev : Event) : ((deliver ev).node.isSome ∧ (deliver ev).err.isNone) ∨ ((deliver ev).node.isNone ∧ (deliver ev).err.isSome) := by
  cases ev <;> simp [deliver]

/-- the resolve depth a command runs with is bounded (recursion depth of the resolver = depth limit) -/
theorem depth_is_bounded (s : Settings) (ld : Options.Loaded) (h : Options.load s = .ok ld) :
    ld.opts.maxDepth ≤ Options.maxAllowedDepth := by
  unfold Options.load at h
  split at h
  · cases h
  · cases hl : Date.parseLayout (Options.effective s).fmtRaw with
    | none => rw [hl] at h; cases h
    | some layout =>
      rw [hl] at h
      simp only at h
      cases hn : Options.nowOf s layout with
      | error e => rw [hn] at h; cases h
      | ok now =>
        rw [hn] at h
        simp only at h
        cases hb : Options.boundsOf s now layout with
        | error e => rw [hb] at h; cases h
        | ok bnd =>
          rw [hb] at h
          simp only at h
          cases hv : Options.validate s (Options.effective s) with
          | error e => rw [hv] at h; cases h
          | ok u =>
            rw [hv] at h
            simp only at h
            cases hc : Options.cmdOf s now layout with
            | error e => rw [hc] at h; cases h
            | ok cmd =>
              rw [hc] at h
              simp only [Except.ok.injEq] at h
              subst h
              simp only
              unfold Options.validate at hv
              split at hv
              · cases hv
              · omega

/-- the parser emits at most one event per line, plus the final flush -/
theorem parse_total (cc : UInt8) (fin : Bool) : ∀ (ls : List Bytes) (cur : Option Node) (ln : Nat),
    (Parser.parseLines cc fin cur ln ls).length ≤ ls.length + 1 := by
  intro ls
  induction ls with
  | nil => intro cur ln; cases fin <;> cases cur <;> simp [Parser.parseLines, Parser.flush]
  | cons l r ih =>
    intro cur ln
    unfold Parser.parseLines
    cases Parser.classify cc l with
    | skip => simp only; have := ih cur (ln + 1); simp only [List.length_cons]; omega
    | heading h =>
      simp only [List.length_append, List.length_cons]
      have := ih (some ⟨h, [], []⟩) (ln + 1)
      cases cur <;> simp [Parser.flush] <;> omega
    | indented k =>
      cases cur with
      | none => simp only [List.length_cons]; have := ih none (ln + 1); omega
      | some n =>
        cases k with
        | note m => simp only [List.length_cons]; have := ih (some { n with notes := n.notes ++ [m] }) (ln + 1); omega
        | badSyntax => simp only [List.length_cons]; have := ih (some n) (ln + 1); omega
        | conversion t => simp only [List.length_cons]; have := ih (some n) (ln + 1); omega
        | entry name v => simp only [List.length_cons]; have := ih (some { n with elements := n.elements ++ [⟨name, v⟩] }) (ln + 1); omega
        | entryNonFinite name => simp only [List.length_cons]; have := ih (some { n with elements := n.elements ++ [⟨name, 0⟩] }) (ln + 1); omega

end Hrano.C08
