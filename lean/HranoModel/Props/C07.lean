import HranoModel.Model.Options
import HranoModel.Model.Sink
import HranoModel.Model.Chan
/-! C07 property theorems (statements only in this file; helper lemmas live in Lemmas/) -/
namespace Hrano.C07
end Hrano.C07
