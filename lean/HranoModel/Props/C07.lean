import HranoModel.Lemmas.Template
import HranoModel.Lemmas.StatsLayout
import HranoModel.Props.C12
import HranoModel.Lemmas.Leaf
/-!
C07 — all reports agree on the same quantities.

Property theorems only.  Each theorem relates two *different* functions of the model (two reporters) on
the same book and days; the shared vocabulary is `Spec.posOf / negOf / sumOf` over the contributions
(`quantity × resolved element, or the food itself`).  Figures are exact rationals here; the C07 check
evaluates the same relations between the real program's outputs.
`quantity_eq_balance_leaf`: under the no-prefix condition the balance tree holds at a food's path exactly the
quantity listed for the food.  Still checked only by the correspondence: stats' day distances (float division in Go).
-/
namespace Hrano.C07
open Hrano Hrano.App Hrano.Spec Hrano.Report Hrano.C12

/-- the accumulator behind one day's register totals -/
def dayAcc (db : Book) (d : LogDay) : Accumulator :=
  d.elements.foldl (fun a e => accumulate a (contributions db e)) []

theorem dayAcc_is_register (db : Book) (cfg : RCfg) (d : LogDay) (h : cfg.totals = true) :
    (reportItem db cfg d).2 = some (totalsOf (dayAcc db d)) := by
  simp [reportItem, h, dayAcc]

def sumOver (f : LogDay → Q) : List LogDay → Q
  | [] => 0
  | d :: ds => f d + sumOver f ds

/-- **period totals = sum of the register's daily totals**, for every element and both registers -/
theorem totals_eq_sum_daily (db : Book) (days : List LogDay) (n : Bytes) :
    Accumulator.posAt (totalsAcc db days) n = sumOver (fun d => Accumulator.posAt (dayAcc db d) n) days
    ∧ Accumulator.negAt (totalsAcc db days) n = sumOver (fun d => Accumulator.negAt (dayAcc db d) n) days := by
  induction days with
  | nil => simp [totalsAcc, allElements, sumOver, Accumulator.posAt, Accumulator.negAt, Accumulator.find]
  | cons d ds ih =>
    have h := totals_additive db [d] ds n
    have hd : totalsAcc db [d] = dayAcc db d := by simp [totalsAcc, dayAcc, allElements]
    simp only [List.singleton_append, hd] at h
    simp only [sumOver]
    rw [h.1, h.2, ih.1, ih.2]
    exact ⟨rfl, rfl⟩

/-- filtering the contributions down to one element does not change that element's sums -/
theorem posOf_filter (x : Bytes) : ∀ cs : Elements, posOf x (cs.filter (fun c => c.name == x)) = posOf x cs
  | [] => rfl
  | c :: cs => by
    by_cases h : (c.name == x) = true
    · simp [List.filter_cons, h, posOf, posOf_filter x cs]
    · have h' : (c.name == x) = false := by simpa using h
      simp [List.filter_cons, h', posOf, posOf_filter x cs, Rat.zero_add]

theorem negOf_filter (x : Bytes) : ∀ cs : Elements, negOf x (cs.filter (fun c => c.name == x)) = negOf x cs
  | [] => rfl
  | c :: cs => by
    by_cases h : (c.name == x) = true
    · simp [List.filter_cons, h, negOf, negOf_filter x cs]
    · have h' : (c.name == x) = false := by simpa using h
      simp [List.filter_cons, h', negOf, negOf_filter x cs, Rat.zero_add]

/-- **the single-element register row of a day shows that day's register totals for the element** -/
theorem single_row_eq_day_totals (db : Book) (x : Bytes) (d : LogDay) :
    Accumulator.posAt (accumulate [] (singleContribs db x d)) x = Accumulator.posAt (dayAcc db d) x
    ∧ Accumulator.negAt (accumulate [] (singleContribs db x d)) x = Accumulator.negAt (dayAcc db d) x := by
  have hday : dayAcc db d = accumulate [] (dayContributions db d.elements) :=
    foldl_accumulate_flatten (contributions db) d.elements []
  have hsingle : singleContribs db x d = (dayContributions db d.elements).filter (fun c => c.name == x) := by
    simp only [singleContribs, dayContributions]
    induction d.elements with
    | nil => rfl
    | cons e es ih => simp [List.filter_append, ih]
  rw [hday, hsingle, posAt_accumulate, posAt_accumulate, negAt_accumulate, negAt_accumulate, posOf_filter, negOf_filter]
  exact ⟨rfl, rfl⟩

def total : Elements → Q
  | [] => 0
  | e :: es => e.value + total es

theorem foldl_total (es : Elements) : ∀ s : Q, es.foldl (fun s e => s + e.value) s = s + total es := by
  induction es with
  | nil => intro s; simp [total, Rat.add_zero]
  | cons e es ih => intro s; simp only [List.foldl, total]; rw [ih]; grind

theorem total_append (a b : Elements) : total (a ++ b) = total a + total b := by
  induction a with
  | nil => simp [total, Rat.zero_add]
  | cons e es ih => simp [total, ih, Rat.add_assoc]

/-- what one logged food contributes to the single-element balance adds up to its contribution to element `x` -/
theorem single_food_total (db : Book) (x : Bytes) (e : Element) :
    total (balanceSingleOf db x e) = sumOf x (contributions db e) := by
  unfold contributions balanceSingleOf
  cases db.lookup e.name with
  | none =>
    by_cases h : (e.name == x) = true <;> simp [h, total, sumOf, Rat.add_zero]
  | some els =>
    simp only
    induction els with
    | nil => rfl
    | cons r rs ih =>
      by_cases h : (r.name == x) = true
      · simp [List.filter_cons, h, total, sumOf, ih]
      · have h' : (r.name == x) = false := by simpa using h
        simp [List.filter_cons, h', sumOf, ih, Rat.zero_add]

/-- **the single-element balance grand total is the period total of that element** (positive plus negative
    register of `report totals`), a directly logged element counting as itself -/
theorem bal_single_total_eq_period_total (db : Book) (x : Bytes) (days : List LogDay) :
    (balanceSingleElements db x days).foldl (fun s e => s + e.value) 0
      = Accumulator.posAt (totalsAcc db days) x + Accumulator.negAt (totalsAcc db days) x := by
  have key : totalsAcc db days = accumulate [] (periodContributions db days) :=
    foldl_accumulate_flatten (contributions db) (allElements days) []
  rw [key, posAt_accumulate, negAt_accumulate, foldl_total]
  simp only [Accumulator.posAt, Accumulator.negAt, Accumulator.find, List.find?, Rat.zero_add]
  rw [pos_add_neg]
  simp only [balanceSingleElements, periodContributions, dayContributions]
  induction allElements days with
  | nil => rfl
  | cons e es ih =>
    simp only [List.map_cons, List.flatten_cons, total_append, sumOf_append, ih]
    rw [single_food_total]

/-- **quantities per food = the balance leaf amounts**: when no logged food name is a path-prefix of another, the
    amount the balance tree holds at the path of a food is the quantity `report quantity` lists for it -/
theorem quantity_eq_balance_leaf (days : List LogDay) (e : Element) (he : e ∈ allElements days)
    (hpf : PrefixFree ((allElements days).map pathOf)) :
    totalAt (Tree.build (allElements days)) (pathOf e) = Elements.valueAt (quantityAcc days) e.name := by
  have hb := build_spec (allElements days) [] WFList.nil
  have key : Elements.valueAt (quantityAcc days) e.name = sumOf e.name (allElements days) := by
    have := mergeDay_value (allElements days) e.name
    simpa [quantityAcc, mergeDay] using this
  rw [Tree.build, hb.2 (pathOf e), totalAt_nil, Rat.zero_add, prefixSum_eq_sumOf (allElements days) hpf e he _ (fun x h => h), key]

/-- **quantities per food = sums of the CSV log rows** (the CSV log lists each day's merged foods) -/
theorem quantity_eq_sum_csv_rows (days : List LogDay) (n : Bytes) :
    Elements.valueAt (quantityAcc days) n = sumOver (fun d => sumOf n d.elements) days := by
  have key : Elements.valueAt (quantityAcc days) n = sumOf n (allElements days) := by
    have := mergeDay_value (allElements days) n
    simpa [quantityAcc, mergeDay] using this
  have hsum : ∀ ds : List LogDay, sumOf n (allElements ds) = sumOver (fun d => sumOf n d.elements) ds := by
    intro ds
    induction ds with
    | nil => rfl
    | cons d ds ih =>
      have : allElements (d :: ds) = d.elements ++ allElements ds := by simp [allElements]
      rw [this, sumOf_append, ih]
      rfl
  rw [key, hsum]

/-- summary and register render the same report item of the day (same foods, same totals) -/
theorem summary_eq_register_day (db : Book) (cfg : RCfg) (d : LogDay) :
    ∃ item, reportItem db cfg d = item
      ∧ renderSummary cfg d db = (Date.format cfg.dateLayout d.date ++ [32, 58]
          ++ (match item.2 with
              | none => []
              | some ts => (ts.map (fun t => [10] ++ fmtVal cfg.color t.pos ++ [32, 58, 32] ++ t.name)).flatten)
          ++ [10] ++ dashes 12
          ++ (item.1.map (fun el => [10] ++ fmtVal cfg.color el.value ++ [32, 58, 32] ++ el.name)).flatten
          ++ [10]) :=
  ⟨_, rfl, rfl⟩

theorem unresolved_aux (db : Book) : ∀ (es : Elements) (a : Elements),
    (Elements.names a).Nodup → (∀ n ∈ Elements.names a, db.lookup n = none) →
    (∀ n, n ∈ Elements.names (es.foldl (fun (a : Elements) e =>
          if (db.lookup e.name).isSome then a else if a.any (·.name == e.name) then a else a ++ [⟨e.name, 0⟩]) a)
        ↔ (n ∈ Elements.names a ∨ (n ∈ Elements.names es ∧ db.lookup n = none)))
    ∧ (Elements.names (es.foldl (fun (a : Elements) e =>
          if (db.lookup e.name).isSome then a else if a.any (·.name == e.name) then a else a ++ [⟨e.name, 0⟩]) a)).Nodup := by
  intro es
  induction es with
  | nil => intro a hnd _; exact ⟨fun n => by simp [Elements.names], hnd⟩
  | cons e es ih =>
    intro a hnd hun
    simp only [List.foldl]
    by_cases hdef : (db.lookup e.name).isSome = true
    · simp only [hdef, if_true]
      have := ih a hnd hun
      refine ⟨fun n => ?_, this.2⟩
      rw [this.1 n]
      simp only [Elements.names, List.map_cons, List.mem_cons]
      constructor
      · rintro (h | ⟨h1, h2⟩)
        · exact Or.inl h
        · exact Or.inr ⟨Or.inr h1, h2⟩
      · rintro (h | ⟨h1 | h1, h2⟩)
        · exact Or.inl h
        · subst h1; rw [h2] at hdef; cases hdef
        · exact Or.inr ⟨h1, h2⟩
    · have hnone : db.lookup e.name = none := by
        cases hc : db.lookup e.name with
        | none => rfl
        | some v => rw [hc] at hdef; simp at hdef
      simp only [hdef, Bool.false_eq_true, if_false]
      by_cases hany : a.any (·.name == e.name) = true
      · simp only [hany, if_true]
        have hmem : e.name ∈ Elements.names a := by
          obtain ⟨y, hy, hye⟩ := List.any_eq_true.mp hany
          exact List.mem_map.mpr ⟨y, hy, by simpa using hye⟩
        have := ih a hnd hun
        refine ⟨fun n => ?_, this.2⟩
        rw [this.1 n]
        simp only [Elements.names, List.map_cons, List.mem_cons]
        constructor
        · rintro (h | ⟨h1, h2⟩)
          · exact Or.inl h
          · exact Or.inr ⟨Or.inr h1, h2⟩
        · rintro (h | ⟨h1 | h1, h2⟩)
          · exact Or.inl h
          · subst h1; exact Or.inl hmem
          · exact Or.inr ⟨h1, h2⟩
      · have hnm : e.name ∉ Elements.names a := by
          intro hm
          obtain ⟨y, hy, hye⟩ := List.mem_map.mp hm
          exact hany (List.any_eq_true.mpr ⟨y, hy, by simp [hye]⟩)
        simp only [hany, Bool.false_eq_true, if_false]
        have hnd' : (Elements.names (a ++ [⟨e.name, 0⟩])).Nodup := by
          simp only [Elements.names, List.map_append, List.map_cons, List.map_nil]
          exact List.nodup_append.mpr ⟨hnd, by simp, by intro x hx y hy; simp at hy; subst hy; intro hxy; exact hnm (hxy ▸ hx)⟩
        have hun' : ∀ n ∈ Elements.names (a ++ [⟨e.name, 0⟩]), db.lookup n = none := by
          intro n hn
          simp only [Elements.names, List.map_append, List.map_cons, List.map_nil, List.mem_append, List.mem_singleton] at hn
          rcases hn with hn | hn
          · exact hun n hn
          · rw [hn]; exact hnone
        have := ih _ hnd' hun'
        refine ⟨fun n => ?_, this.2⟩
        rw [this.1 n]
        simp only [Elements.names, List.map_append, List.map_cons, List.map_nil, List.mem_append, List.mem_cons, List.not_mem_nil, or_false]
        constructor
        · rintro ((h | h) | ⟨h1, h2⟩)
          · exact Or.inl h
          · exact Or.inr ⟨Or.inl h, h ▸ hnone⟩
          · exact Or.inr ⟨Or.inr h1, h2⟩
        · rintro (h | ⟨h1 | h1, h2⟩)
          · exact Or.inl (Or.inl h)
          · exact Or.inl (Or.inr h1)
          · exact Or.inr ⟨h1, h2⟩

/-- **the unresolved list is exactly the logged foods the book does not define**, each once -/
theorem unresolved_eq_logged_minus_book (db : Book) (es : Elements) :
    (∀ n, n ∈ Elements.names (unresolvedNames db es) ↔ (n ∈ Elements.names es ∧ db.lookup n = none))
    ∧ (Elements.names (unresolvedNames db es)).Nodup := by
  have := unresolved_aux db es [] (by simp [Elements.names]) (by simp [Elements.names])
  refine ⟨fun n => ?_, this.2⟩
  have h := this.1 n
  simp only [Elements.names, List.map_nil, List.not_mem_nil, false_or] at h
  exact h

/-- stats counts one record per heading -/
theorem stats_counts_headings (evs : List Event) :
    countNodes evs = (evs.filter (fun ev => match ev with | .node _ => true | _ => false)).length := rfl

/-- **the `(N days ago)` figure of `stats` is the distance in calendar days** between the configured current date and the
    record, for every pair of dates less than 106751 days (the range of a Go `Duration`) apart -/
theorem stats_days_ago (today c : Civil) (h1 : Date.toDays today - Date.toDays c ≤ 106751) (h2 : -106751 ≤ Date.toDays today - Date.toDays c) :
    daysAgo (Date.instant today) (some c) = Date.toDays today - Date.toDays c := by
  unfold daysAgo Date.instant maxDuration Date.nsPerDay
  simp only []
  generalize Date.toDays today = a at *
  generalize Date.toDays c = b at *
  have e : a * (86400 * 1000000000) - b * (86400 * 1000000000) = (a - b) * 86400000000000 := by omega
  rw [e]
  rw [if_neg (by omega), if_neg (by omega)]
  exact Int.mul_tdiv_cancel _ (by decide)

example : daysAgo (Date.instant ⟨2021, 5, 6⟩) (some ⟨2020, 3, 1⟩) = 431 := by decide +kernel

/-- **the CSV form of the single-element register carries the figures of the text form**: for every day both forms are
    empty together, and otherwise both are built from the same three amounts (positive part, minus the negative part, and their
    signed sum), printed with two decimals — the text form only pads them to ten columns -/
theorem single_csv_same_figures (cfg : RCfg) (d : LogDay) (db : Book) :
    (renderSingle { cfg with csv := true } d db = [] ∧ renderSingle { cfg with csv := false } d db = [])
    ∨ ∃ p n : Q,
        renderSingle { cfg with csv := true } d db
          = Date.format cfg.dateLayout d.date ++ [59, 34] ++ cfg.singleElement ++ [34, 59] ++ Num.fmtFixed 2 p ++ [59] ++ Num.fmtFixed 2 (-n)
            ++ [59] ++ Num.fmtFixed 2 (p + n) ++ [10]
        ∧ renderSingle { cfg with csv := false } d db
          = Date.format cfg.dateLayout d.date ++ [32] ++ Bytes.padLeft 32 20 cfg.singleElement ++ [32] ++ Bytes.padLeft 32 10 (Num.fmtFixed 2 p) ++ [32]
            ++ Bytes.padLeft 32 10 (Num.fmtFixed 2 (-n)) ++ [32, 61] ++ Bytes.padLeft 32 10 (Num.fmtFixed 2 (p + n)) ++ [10] := by
  unfold renderSingle
  simp only []
  cases h : accumulate [] (singleContribs db cfg.singleElement d) with
  | nil => left; exact ⟨rfl, rfl⟩
  | cons a rest =>
    right
    exact ⟨a.pos, a.neg, rfl, rfl⟩

/-! ### the byte layout follows the formats read from the source on every run (`tools/facts`, `Model/Template.lean`) -/

/-- `report totals` is the header format and the row format of `total_reporter.go`, as the source has them now, over the sorted accumulator. -/
theorem totals_layout_follows_source (days : List LogDay) (db : Book) :
    renderTotals days db =
      (let acc := (allElements days).foldl (fun a e => accumulate a (contributions db e)) ([] : Accumulator)
       if acc.isEmpty then [] else
         Tmpl.sprintfA (Facts.totalFormats.getD 0 []) [.s (Bytes.ofString "positive"), .s (Bytes.ofString "negative"), .s (Bytes.ofString "sum"), .s (Bytes.ofString "element")]
         ++ (acc.sorted.map (fun a => Tmpl.sprintfA (Facts.totalFormats.getD 1 []) [.q a.pos, .q a.neg, .q (a.pos + a.neg), .s a.name])).flatten) := by
  simp only [renderTotals, Tmpl.row_t0, Tmpl.row_t1, List.append_assoc]

/-- `report quantity` and `report element-total` print each row with the format of `quantity_reporter.go` / `element_reporter.go`. -/
theorem value_rows_follow_source (es : Elements) :
    valueRows es = (es.map (fun e => Tmpl.sprintfA (Facts.quantityFormats.getD 0 []) [.q e.value, .s e.name])).flatten
    ∧ valueRows es = (es.map (fun e => Tmpl.sprintfA (Facts.quantityFormats.getD 1 []) [.q e.value, .s e.name])).flatten := by
  simp only [valueRows, Tmpl.row_q0, Tmpl.row_q1, and_self]

/-- `stats` prints the seven `fmt.Fprintf` formats of `stats_reporter.go`, as the source has them now, over the file names, the
    record counts, today, and the first / last heading date with its distance in days. -/
theorem stats_layout_follows_source (o : Opts) (nDb nLog : Nat) (first last : Option Civil) :
    App.statsOutput o nDb nLog first last =
      Tmpl.sprintfA (Facts.statsFormats.getD 0 []) [.s o.dbFile]
      ++ Tmpl.sprintfA (Facts.statsFormats.getD 1 []) [.i (Int.ofNat nDb)]
      ++ [10]
      ++ Tmpl.sprintfA (Facts.statsFormats.getD 2 []) [.s o.logFile]
      ++ Tmpl.sprintfA (Facts.statsFormats.getD 3 []) [.i (Int.ofNat nLog)]
      ++ Tmpl.sprintfA (Facts.statsFormats.getD 4 []) [.s (Date.format o.rc.dateLayout (Date.ofDays (o.now / Date.nsPerDay)))]
      ++ Tmpl.sprintfA (Facts.statsFormats.getD 5 []) [.s (App.fmtDateOpt o.rc.dateLayout first), .i (App.daysAgo o.now first)]
      ++ Tmpl.sprintfA (Facts.statsFormats.getD 6 []) [.s (App.fmtDateOpt o.rc.dateLayout last), .i (App.daysAgo o.now last)] := by
  rw [Tmpl.row_s0, Tmpl.row_s1, Tmpl.row_s2, Tmpl.row_s3, Tmpl.row_s4, Tmpl.row_s5, Tmpl.row_s6]
  unfold App.statsOutput
  simp only [List.append_assoc]

/-- `summary` is `summaryTemplate` over the literal pieces the source has now (after the date, between value and name of a total
    row, the rule line, between value and name of a food row; read by `tools/facts`). -/
theorem summary_layout_follows_template (cfg : RCfg) (d : LogDay) (db : Book) :
    renderSummary cfg d db =
      (let P := fun i => Facts.summaryPieces.getD i []
       Date.format cfg.dateLayout d.date ++ P 0
       ++ (match (reportItem db cfg d).2 with
           | none => []
           | some ts => (ts.map (fun t => [10] ++ fmtVal cfg.color t.pos ++ P 1 ++ t.name)).flatten)
       ++ [10] ++ P 2
       ++ ((reportItem db cfg d).1.map (fun el => [10] ++ fmtVal cfg.color el.value ++ P 3 ++ el.name)).flatten
       ++ [10]) := by
  have h0 : Facts.summaryPieces.getD 0 [] = [32, 58] := by decide
  have h1 : Facts.summaryPieces.getD 1 [] = [32, 58, 32] := by decide
  have h2 : Facts.summaryPieces.getD 2 [] = dashes 12 := by decide
  have h3 : Facts.summaryPieces.getD 3 [] = [32, 58, 32] := by decide
  simp only [h0, h1, h2, h3, renderSummary]
  cases (reportItem db cfg d).snd <;> rfl

/-- every regenerated format of the period reporters, the balance reporters and `print` uses only modelled verbs, and number
    verbs exactly where the call passes a number -/
theorem formats_well_typed :
    Tmpl.signature (Facts.totalFormats.getD 0 []) = some [false, false, false, false]
    ∧ Tmpl.signature (Facts.totalFormats.getD 1 []) = some [true, true, true, false]
    ∧ Tmpl.signature (Facts.quantityFormats.getD 0 []) = some [true, false]
    ∧ Tmpl.signature (Facts.quantityFormats.getD 1 []) = some [true, false]
    ∧ (∀ i, i < 4 → Tmpl.signature (Facts.balanceFormats.getD i []) = some [true, false, false])
    ∧ Tmpl.signature (Facts.balanceSingleFormats.getD 0 []) = some [false]
    ∧ Tmpl.signature (Facts.balanceSingleFormats.getD 1 []) = some [true, false]
    ∧ Tmpl.signature (Facts.printFormats.getD 0 []) = some [false]
    ∧ Tmpl.signature (Facts.printFormats.getD 1 []) = some [false, false]
    ∧ Tmpl.signature (Facts.printFormats.getD 2 []) = some [false]
    ∧ Tmpl.signature (Facts.printFormats.getD 3 []) = some [false, true]
    ∧ Tmpl.wellFormed (Facts.statsFormats.getD 1 []) 1 = true ∧ Tmpl.wellFormed (Facts.statsFormats.getD 5 []) 2 = true
    ∧ Tmpl.wellFormed (Facts.statsFormats.getD 6 []) 2 = true := by
  refine ⟨by decide +kernel, by decide +kernel, by decide +kernel, by decide +kernel, ?_, by decide +kernel, by decide +kernel,
    by decide +kernel, by decide +kernel, by decide +kernel, by decide +kernel, by decide +kernel, by decide +kernel, by decide +kernel⟩
  intro i h
  have : i = 0 ∨ i = 1 ∨ i = 2 ∨ i = 3 := by omega
  rcases this with rfl | rfl | rfl | rfl <;> decide +kernel

example : Tmpl.sprintfA (Facts.totalFormats.getD 1 []) [.q (3/2), .q (-1/4), .q (5/4), .s [120]]
    = Bytes.ofString "        1.50         -0.25          1.25  x\n" := by decide +kernel

end Hrano.C07
