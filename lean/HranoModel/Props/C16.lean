import HranoModel.Model.Options
import HranoModel.Model.Sink
import HranoModel.Model.Chan
/-! C16 property theorems (statements only in this file; helper lemmas live in Lemmas/) -/
namespace Hrano.C16
end Hrano.C16
