import HranoModel.Props.C06
import HranoModel.Model.Options
/-!
C16 — settings follow flag > environment > configuration file > default.

Property theorems only.  The model is `Options.load` and its stages (`effective`, `nowOf`, `boundsOf`,
`validate`, `cmdOf`) — `options.Load` after the two fixes recorded in known-findings.txt.  A `Settings`
value says, per setting, what the command line, the environment and the configuration file at the
effective location (`--config`, else `HR_CONFIG`, else the default path) give.  urfave/cli's
`IsSet/String` and gcfg's reading of the documented keys are modelled, not verified; the C16 check
enumerates the full source product against the real `Load()`.
-/
namespace Hrano.C16
open Hrano Hrano.Options Hrano.App

/-- the rule: command line, else environment, else configuration file, else default -/
theorem pick_precedence {α} (flag env cfg : Option α) (d : α) :
    pick flag env cfg d = (match flag, env, cfg with
      | some v, _, _ => v
      | none, some v, _ => v
      | none, none, some v => v
      | none, none, none => d) := by
  cases flag <;> cases env <;> cases cfg <;> rfl

/-- everything `load` returns is built from the staged values: in particular the four file-backed settings
    are exactly `effective s` -/
theorem load_uses_effective (s : Settings) (ld : Loaded) (h : load s = .ok ld) :
    ld.opts.dbFile = (effective s).dbFile ∧ ld.opts.logFile = (effective s).logFile
    ∧ ld.opts.maxDepth = (effective s).maxDepth
    ∧ Date.parseLayout (effective s).fmtRaw = some ld.opts.layout
    ∧ nowOf s ld.opts.layout = .ok ld.opts.now
    ∧ ld.opts.rc.dateLayout = ld.opts.layout := by
  unfold load at h
  split at h
  · cases h
  · cases hl : Date.parseLayout (effective s).fmtRaw with
    | none => rw [hl] at h; cases h
    | some layout =>
      rw [hl] at h
      simp only at h
      cases hn : nowOf s layout with
      | error e => rw [hn] at h; cases h
      | ok now =>
        rw [hn] at h
        simp only at h
        cases hb : boundsOf s now layout with
        | error e => rw [hb] at h; cases h
        | ok bnd =>
          rw [hb] at h
          simp only at h
          cases hv : validate s (effective s) with
          | error e => rw [hv] at h; cases h
          | ok u =>
            rw [hv] at h
            simp only at h
            cases hc : cmdOf s now layout with
            | error e => rw [hc] at h; cases h
            | ok cmd =>
              rw [hc] at h
              simp only [Except.ok.injEq] at h
              subst h
              exact ⟨rfl, rfl, rfl, rfl, hn, rfl⟩

/-- recipe-book path: flag, else HR_DATABASE, else DbFileName of the configuration file, else food.yaml -/
theorem database_precedence (s : Settings) (h : s.gNoDatabase = false) :
    (effective s).dbFile = pick s.gDatabase s.eDatabase (nonEmpty (cfgEntry s s.cDb)) defaultDb := by
  simp [effective, h]

theorem logfile_precedence (s : Settings) :
    (effective s).logFile = pick s.gLogfile s.eLogfile (nonEmpty (cfgEntry s s.cLog)) defaultLog := rfl

theorem date_format_precedence (s : Settings) :
    (effective s).fmtRaw = pick s.gDateFormat s.eDateFormat (nonEmpty (cfgEntry s s.cDateFormat)) defaultLayout := rfl

theorem maxdepth_precedence (s : Settings) :
    (effective s).maxDepth = pick s.gMaxdepth s.eMaxdepth (nonZero (cfgEntry s s.cMaxDepth)) defaultMaxDepth := rfl

/-- the current date: --today, else `Now` of the configuration file, else the clock -/
theorem today_precedence (s : Settings) (layout : Layout) :
    (∀ t c, s.gToday = some t → Date.parse layout t = some c → nowOf s layout = .ok (Date.instant c))
    ∧ (s.gToday = none → ∀ n, cfgEntry s s.cNow = some n → nowOf s layout = .ok n)
    ∧ (s.gToday = none → cfgEntry s s.cNow = none → nowOf s layout = .ok s.clock) := by
  refine ⟨?_, ?_, ?_⟩
  · intro t c ht hp; simp [nowOf, ht, hp]
  · intro ht n hn; simp [nowOf, ht, hn]
  · intro ht hn; simp [nowOf, ht, hn]

/-- the `Today:` line of `stats` shows the configured date: the date is turned into an instant, the instant back into a
    date (`Date.ofDays`), and that is the date that was given — for every accepted date -/
theorem today_shown_as_given (l l' : Layout) (t : Bytes) (c : Civil) (h : Date.parse l t = some c) :
    Date.format l' (Date.ofDays (Date.instant c / Date.nsPerDay)) = Date.format l' c := by
  rw [(Hrano.C06.day_number_reads_back c (Date.parse_valid l t c h)).2]

/-- an entry of a configuration file that does not exist is never used; one of a file that exists is -/
theorem config_entries_iff_loaded {α} (s : Settings) (v : Option α) :
    cfgEntry s v = (if s.cfgExists then v else none) := rfl

/-- an explicitly named configuration file (`--config` or `HR_CONFIG`) that does not exist is an error -/
theorem explicit_config_missing_is_error (s : Settings) (hmiss : s.cfgExists = false)
    (hnamed : s.gConfig.isSome ∨ s.eConfig.isSome) : load s = .error .configMissing := by
  unfold load
  have : (!s.cfgExists && isSet s.gConfig s.eConfig) = true := by
    rcases hnamed with h | h <;> simp [hmiss, isSet, h]
  simp [this]

/-- a configuration file that exists — at the default location or named with `--config` / `HR_CONFIG` — is
    loaded: its entries are the ones the precedence rule sees, and the existence check passes -/
theorem explicit_config_loaded {α} (s : Settings) (hex : s.cfgExists = true) (v : Option α) :
    cfgEntry s v = v ∧ (!s.cfgExists && isSet s.gConfig s.eConfig) = false := by
  simp [cfgEntry, hex]

/-- **--no-database behaves as an empty recipe book**: the book path becomes the null device, which reads as an
    empty file whatever the directory holds -/
theorem no_database_is_empty_book (s : Settings) (fs : Files) (h : s.gNoDatabase = true) :
    (effective s).dbFile = App.devNull ∧ readFile fs (effective s).dbFile = .ok [] := by
  have : (effective s).dbFile = App.devNull := by simp [effective, h, Options.devNull]
  exact ⟨this, by rw [this]; simp [readFile]⟩

/-- **`--no-database` touches the recipe book only**: the log file, the date format and the depth limit in force are what they
    are without it, whatever their sources -/
theorem no_database_touches_only_the_book (s : Settings) :
    (effective { s with gNoDatabase := true }).logFile = (effective { s with gNoDatabase := false }).logFile
    ∧ (effective { s with gNoDatabase := true }).fmtRaw = (effective { s with gNoDatabase := false }).fmtRaw
    ∧ (effective { s with gNoDatabase := true }).maxDepth = (effective { s with gNoDatabase := false }).maxDepth := by
  refine ⟨rfl, rfl, rfl⟩

/-- an empty book file and the null device give the same parse -/
theorem empty_book_same_parse (fs : Files) (rf : ReadFaults) (p : Bytes) (hp : fs.find? (·.1 == p) = some (p, [])) (hnf : faultOf rf p = none) (hnf' : faultOf rf App.devNull = none) :
    parsed fs rf p = parsed fs rf App.devNull := by
  have h1 : readFile fs App.devNull = .ok [] := by simp [readFile]
  have h2 : readFile fs p = .ok [] := by
    unfold readFile
    by_cases hd : p = App.devNull
    · simp [hd]
    · simp [hd, hp]
  simp [parsed, h1, h2, hnf, hnf']

/-! non-vacuity: all four sources set for the recipe-book path — the flag wins; without the flag the environment wins -/
def demo : Settings := { cmd := [Bytes.ofString "reg"], gDatabase := some [102], eDatabase := some [101], cfgExists := true, cDb := some [99] }
example : (effective demo).dbFile = [102] := by decide
example : (effective { demo with gDatabase := none }).dbFile = [101] := by decide
example : (effective { demo with gDatabase := none, eDatabase := none }).dbFile = [99] := by decide
example : (effective { demo with gDatabase := none, eDatabase := none, cfgExists := false }).dbFile = Facts.defaultDbFilename := by decide

end Hrano.C16
