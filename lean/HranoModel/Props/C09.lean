import HranoModel.Model.Options
import HranoModel.Model.Sink
import HranoModel.Model.Chan
/-! C09 property theorems (statements only in this file; helper lemmas live in Lemmas/) -/
namespace Hrano.C09
end Hrano.C09
