import HranoModel.Lemmas.Errors
import HranoModel.Lemmas.Run
/-!
C09 — malformed entries are reported with their exact line by lint and every command.

Property theorems only (helper lemmas: `Lemmas/Errors.lean`).  The specification of "the malformed
lines of a file" is `Parser.specErrors`: the indented lines inside a record that have no blank
before their value, or whose value is not a number, each with its 1-based physical line number
and its raw text.  An indented line before the first heading is not an entry in the documented
grammar and is ignored by the parser.  lint's exit status on a file with errors is not asserted.
-/
namespace Hrano.C09
open Hrano Hrano.App Hrano.Parser

/-- The parser's error events are exactly the malformed lines of the file, in file order. -/
theorem events_errors (cc : UInt8) (src : Bytes) :
    errorsOf (events cc src) = specErrors cc false 1 (Scanner.scan src none).1 := by
  simpa [events] using errors_spec cc true (Scanner.scan src none).1 none 1

/-- Each error carries the 1-based physical number of its line, counting blank and comment lines, and
    quotes the line verbatim; errors are listed once each, in increasing line order. -/
theorem error_line_exact (cc : UInt8) (src : Bytes) (e : PErr) (h : e ∈ errorsOf (events cc src)) :
    1 ≤ lineOf e ∧ (Scanner.scan src none).1[lineOf e - 1]? = some (rawOf e) := by
  rw [events_errors] at h
  exact spec_line_exact cc _ false 1 e h

theorem errors_in_file_order (cc : UInt8) (src : Bytes) :
    ((errorsOf (events cc src)).map lineOf).Pairwise (· < ·) := by
  rw [events_errors]
  exact spec_lines_increasing cc _ false 1

/-- the messages are those of parser/errors.go, quoting the line and its number -/
theorem message_quotes_line (ln : Nat) (raw t : Bytes) :
    PErr.message (.badSyntax ln raw) = sprintf Facts.badSyntaxFormat [.int ln, .str raw]
    ∧ PErr.message (.conversion t ln raw) = sprintf Facts.conversionFormat [.str t, .int ln, .str raw] :=
  ⟨rfl, rfl⟩

/-- loading the recipe book fails with the first malformed line -/
theorem book_fails_first (evs : List Event) (se : Option ScanErr) (e : PErr) (h : firstErr evs = some e) :
    loadBook evs se = .error (.parse e) := by
  unfold loadBook
  suffices ∀ acc, loadBook.go se evs acc = .error (.parse e) from this []
  induction evs with
  | nil => simp [firstErr] at h
  | cons ev r ih =>
    intro acc
    cases ev with
    | error pe =>
      simp [firstErr] at h
      subst h
      simp [loadBook.go]
    | node n =>
      simp only [loadBook.go]
      exact ih (by simpa [firstErr] using h) _

/-- walking the log fails with the first malformed line (when the headings before it are dates) -/
theorem walk_fails_first (l : Layout) (b e : Option Int) (se : Option ScanErr) : ∀ (evs : List Event) (pe : PErr),
    firstErr evs = some pe →
    (∀ n, Event.node n ∈ evs → (Date.parse l n.header).isSome) →
    (walk l b e se evs).2 = some (.parse pe) := by
  intro evs
  induction evs with
  | nil => intro pe h; simp [firstErr] at h
  | cons ev r ih =>
    intro pe h hd
    cases ev with
    | error pe' =>
      simp [firstErr] at h
      subst h
      simp [walk]
    | node n =>
      have hn := hd n (List.mem_cons_self)
      cases hp : Date.parse l n.header with
      | none => rw [hp] at hn; cases hn
      | some c =>
        simp only [walk, hp]
        exact ih pe (by simpa [firstErr] using h) (fun m hm => hd m (List.mem_cons_of_mem _ hm))

/-- `csv database` fails with the first malformed line -/
theorem csv_database_fails_first (p : List Event × Option ScanErr) (e : PErr) (h : firstErr p.1 = some e) :
    (csvDatabaseOut p).err = some (.parse e) := by
  simp [csvDatabaseOut, h]

/-- **lint** lists every malformed line once, in file order, with the same messages, and prints
    "No errors found" exactly when there is none (and `--silent` was not given). -/
theorem lint_lists_all (silent : Bool) (evs : List Event) :
    (lintOut silent (evs, none)).out =
      ((errorsOf evs).map (fun e => PErr.message e ++ [10])).flatten
        ++ (if (errorsOf evs).isEmpty && !silent then Bytes.ofString "No errors found\n" else [])
    ∧ (lintOut silent (evs, none)).err = none := by
  simp [lintOut]

/-! non-vacuity: comment, heading, good entry, blank line, two malformed lines -/
def demoLines : List Bytes := [[35, 99], [97, 58], [32, 32, 120, 58, 32, 49], [], [32, 32, 121, 58, 49], [32, 32, 122, 58, 32, 113]]
example : (specErrors 35 false 1 demoLines).map lineOf = [5, 6] := by decide +kernel

end Hrano.C09
