import HranoModel.Lemmas.Walk
import HranoModel.Lemmas.Next
import HranoModel.Lemmas.DateOrder
import HranoModel.Lemmas.DateInv
import HranoModel.Lemmas.DateRT
import HranoModel.Model.Options
/-!
C06 — date range selection is exact, inclusive and independent of layout and time zone.

Property theorems only (helper lemmas: `Lemmas/Walk.lean`).  Instants are integers (ns since the
epoch); a heading parsed with a date-only layout is a UTC midnight.  Not modelled: `naturaldate`
free-text dates, DST transitions.  The day count behind the instants (`Date.toDays`) is proved to advance by
exactly one per calendar day (`day_count_advances`), so comparing instants is comparing calendar days and
`yesterday` is the previous calendar day; that the count agrees with Go's `time` package at its origin is
validated by the `date` correspondence.
-/
namespace Hrano.C06
open Hrano Hrano.App Hrano.Options

/-- The interval test is exactly `begin ≤ d ≤ end`, each bound optional, both ends inclusive. -/
theorem interval_exact (b e : Option Int) (t : Int) :
    inInterval b e t = true ↔ (∀ x, b = some x → x ≤ t) ∧ (∀ y, e = some y → t ≤ y) := by
  cases b <;> cases e <;> simp [inInterval] <;> omega

/-- an inverted period selects nothing -/
theorem inverted_is_empty (b e t : Int) (h : e < b) : inInterval (some b) (some e) t = false := by
  simp [inInterval]; omega

/-- **Selection = deletion.**  Walking a log with a period gives the same days and the same outcome as
    walking, with no period, the log from which the records outside the period were deleted — for
    every order of the days, repeated dates included.  Every period-aware report is a function of
    this walk, so its output is the same too. -/
theorem filter_eq_delete (l : Layout) (b e : Option Int) (se : Option ScanErr) (evs : List Event) :
    walk l b e se evs = walk l none none se (evs.filter (inPeriod l b e)) :=
  walk_filter l b e se evs

/-- a period given on the sub-command overrides the global one; without it the global one applies -/
theorem innermost_wins {α} (g : Option α) (v : α) : innermost g (some v) = some v ∧ innermost g (none : Option α) = g :=
  ⟨rfl, rfl⟩

/-- **each bound is settled on its own**: a begin given globally and an end given on the sub-command (or the reverse) are both
    in force — a bound is replaced only by the *same* bound on an inner level, never dropped because the other bound was given there -/
theorem mixed_levels_keep_both (s : Settings) (now : Int) (l : Layout) (x y : Bytes) (tx ty : Int)
    (hx : timeFromString now l x = .ok tx) (hy : timeFromString now l y = .ok ty) :
    (s.gBegin = some x → s.sBegin = none → s.gEnd = none → s.sEnd = some y → boundsOf s now l = .ok (some tx, some ty))
    ∧ (s.gBegin = none → s.sBegin = some x → s.gEnd = some y → s.sEnd = none → boundsOf s now l = .ok (some tx, some ty)) := by
  constructor
  · intro h1 h2 h3 h4
    simp [boundsOf, h1, h2, h3, h4, optBind, hx, hy, innermost, Except.map]
  · intro h1 h2 h3 h4
    simp [boundsOf, h1, h2, h3, h4, optBind, hx, hy, innermost, Except.map]

/-- the begin that is in force depends on the begin settings only, the end on the end settings only -/
theorem bounds_independent (s s' : Settings) (now : Int) (l : Layout) (b e b' e' : Option Int)
    (h : boundsOf s now l = .ok (b, e)) (h' : boundsOf s' now l = .ok (b', e')) :
    (s.gBegin = s'.gBegin → s.sBegin = s'.sBegin → b = b') ∧ (s.gEnd = s'.gEnd → s.sEnd = s'.sEnd → e = e') := by
  unfold boundsOf at h h'
  constructor
  · intro h1 h2
    rw [← h1, ← h2] at h'
    split at h <;> split at h' <;> simp_all
  · intro h1 h2
    rw [← h1, ← h2] at h'
    split at h <;> split at h' <;> simp_all

/-- a period whose two bounds are the same date selects exactly the headings of that date (it is not "empty") -/
theorem single_day_period (l : Layout) (sb sd : Bytes) (b d : Civil)
    (hb : Date.parse l sb = some b) (hd : Date.parse l sd = some d) :
    inInterval (some (Date.instant b)) (some (Date.instant b)) (Date.instant d) = true ↔ d = b := by
  rw [← Date.instant_eq_iff d b (Date.parse_valid l sd d hd) (Date.parse_valid l sb b hb)]
  simp [inInterval]
  omega

/-- today / yesterday / last7 / last30 are resolved against the current date (`--today`) -/
theorem keywords (now : Int) (l : Layout) :
    timeFromString now l kwToday = .ok now
    ∧ timeFromString now l kwYesterday = .ok (now - Date.nsPerDay)
    ∧ timeFromString now l kwLast7 = .ok (now - 7 * Date.nsPerDay)
    ∧ timeFromString now l kwLast30 = .ok (now - 30 * Date.nsPerDay) := by
  refine ⟨?_, ?_, ?_, ?_⟩ <;> simp [timeFromString, kwToday, kwYesterday, kwLast7, kwLast30]

/-- **the day count advances by exactly one per calendar day** (month ends, leap days, century rules, year ends and
    the 400-year era included): instants of consecutive calendar days are exactly one day apart, so the order of the
    instants is the order of the calendar and no day is skipped or counted twice -/
theorem day_count_advances (c : Civil) (hm1 : 1 ≤ c.m) (hm2 : c.m ≤ 12) (hd1 : 1 ≤ c.d) (hd2 : c.d ≤ Date.daysIn c.m c.y) :
    Date.toDays (Date.next c) = Date.toDays c + 1 ∧ Date.instant (Date.next c) = Date.instant c + Date.nsPerDay
    ∧ (1 ≤ (Date.next c).m ∧ (Date.next c).m ≤ 12 ∧ 1 ≤ (Date.next c).d ∧ (Date.next c).d ≤ Date.daysIn (Date.next c).m (Date.next c).y) :=
  ⟨Date.toDays_next c hm1 hm2 hd1 hd2, Date.instant_next c hm1 hm2 hd1 hd2, Date.next_valid c hm1 hm2 hd1 hd2⟩

/-- every heading (and every bound) the date reader accepts, in any layout, is a date of the calendar: month 1..12 and
    a day that exists in that month of that year -/
theorem parsed_date_is_calendar_day (l : Layout) (s : Bytes) (c : Civil) (h : Date.parse l s = some c) : Date.Valid c :=
  Date.parse_valid l s c h

/-- **comparing instants is comparing calendar dates**, for every pair of dates the reader accepts (not only
    neighbouring days): earlier instant ⇔ earlier in (year, month, day) order, same instant ⇔ same date -/
theorem instants_order_is_calendar_order (l l' : Layout) (s s' : Bytes) (a b : Civil)
    (ha : Date.parse l s = some a) (hb : Date.parse l' s' = some b) :
    (Date.instant a < Date.instant b ↔ Date.before a b) ∧ (Date.instant a = Date.instant b ↔ a = b) :=
  ⟨Date.instant_lt_iff a b (Date.parse_valid l s a ha) (Date.parse_valid l' s' b hb),
   Date.instant_eq_iff a b (Date.parse_valid l s a ha) (Date.parse_valid l' s' b hb)⟩

/-- … so a period given by two accepted dates selects a heading exactly when the heading's date is not before the
    first and not after the last date *of the calendar*, both ends included -/
theorem period_is_calendar_interval (l : Layout) (sb se sd : Bytes) (b e d : Civil)
    (hb : Date.parse l sb = some b) (he : Date.parse l se = some e) (hd : Date.parse l sd = some d) :
    inInterval (some (Date.instant b)) (some (Date.instant e)) (Date.instant d) = true ↔ ¬ Date.before d b ∧ ¬ Date.before e d := by
  have vb := Date.parse_valid l sb b hb
  have ve := Date.parse_valid l se e he
  have vd := Date.parse_valid l sd d hd
  rw [← Date.instant_lt_iff d b vd vb, ← Date.instant_lt_iff e d ve vd]
  simp [inInterval]

/-- `yesterday` against the day after `c` is `c`: the keyword is the previous *calendar* day -/
theorem yesterday_is_previous_day (c : Civil) (l : Layout) (hm1 : 1 ≤ c.m) (hm2 : c.m ≤ 12) (hd1 : 1 ≤ c.d) (hd2 : c.d ≤ Date.daysIn c.m c.y) :
    timeFromString (Date.instant (Date.next c)) l kwYesterday = .ok (Date.instant c) := by
  rw [(keywords (Date.instant (Date.next c)) l).2.1, Date.instant_next c hm1 hm2 hd1 hd2]
  congr 1
  omega

/-- **`summary today` selects exactly today's headings in every time zone.**  `n` is the day number of
    `--today` (a UTC midnight), `off` the zone offset in ns (|off| < 24h); the day is read off in
    that zone (`x`), the window is `[x 00:00, x 24:00)` in that zone; a log day `y` (a UTC midnight)
    lies in the window iff `y = n`. -/
theorem summary_selects_day (n y off x b : Int) (h1 : -Date.nsPerDay < off) (h2 : off < Date.nsPerDay)
    (hx : x = floorDiv (n * Date.nsPerDay + off) Date.nsPerDay) (hb : b = x * Date.nsPerDay - off) :
    inInterval (some b) (some (b + Date.nsPerDay - 1)) (y * Date.nsPerDay) = true ↔ y = n := by
  subst hb hx
  simp only [floorDiv, Date.nsPerDay] at *
  simp [inInterval]
  omega

/-- `summary DATE` (a date in the log's layout is a UTC midnight, read in UTC): exactly that day -/
theorem summary_date_selects_day (d y : Int) :
    inInterval (some (d * Date.nsPerDay)) (some (d * Date.nsPerDay + Date.nsPerDay - 1)) (y * Date.nsPerDay) = true ↔ y = d := by
  simp only [Date.nsPerDay]
  simp [inInterval]
  omega

/-- **the date of a day number is the date it was computed from**: the calendar conversion used for the `Today:` line of
    `stats` and for the day `summary` reports on inverts the day count, for every accepted date -/
theorem day_number_reads_back (c : Civil) (hc : Date.Valid c) :
    Date.ofDays (Date.toDays c) = c ∧ Date.ofDays (Date.instant c / Date.nsPerDay) = c := by
  refine ⟨Date.ofDays_toDays c hc, ?_⟩
  have : Date.instant c / Date.nsPerDay = Date.toDays c := by
    unfold Date.instant Date.nsPerDay
    exact Int.mul_ediv_cancel _ (by decide)
  rw [this]
  exact Date.ofDays_toDays c hc

/-- **`summary DATE` reports on exactly that calendar day**: the window the model's command loader installs for an
    accepted date `c` starts at `c`'s instant and is one day long, so a heading `d` lies in it iff `d` is the date `c` -/
theorem summary_date_is_that_day (l l' : Layout) (sc sd : Bytes) (c d : Civil)
    (hc : Date.parse l sc = some c) (hd : Date.parse l' sd = some d) :
    let w := summaryWindow (Date.ofDays (floorDiv (Date.instant c + 0) Date.nsPerDay)) 0
    w = (Date.instant c, Date.instant c + Date.nsPerDay - 1)
    ∧ (inInterval (some w.1) (some w.2) (Date.instant d) = true ↔ d = c) := by
  have vc := Date.parse_valid l sc c hc
  have vd := Date.parse_valid l' sd d hd
  have e : Date.ofDays (floorDiv (Date.instant c + 0) Date.nsPerDay) = c := by
    rw [Int.add_zero]; exact (day_number_reads_back c vc).2
  simp only [e, summaryWindow, Int.sub_zero]
  refine ⟨trivial, ?_⟩
  rw [← Date.instant_eq_iff d c vd vc]
  have := summary_date_selects_day (Date.toDays c) (Date.toDays d)
  unfold Date.instant
  rw [this]
  unfold Date.nsPerDay
  constructor
  · intro h; rw [h]
  · intro h; omega

/-! non-vacuity -/
example : inInterval (some 5) (some 5) 5 = true := by decide
example : floorDiv (18652 * Date.nsPerDay + (-18000 * 1000000000)) Date.nsPerDay = 18651 := by decide
example : Date.next ⟨2000, 2, 29⟩ = ⟨2000, 3, 1⟩ ∧ Date.next ⟨1900, 2, 28⟩ = ⟨1900, 3, 1⟩ ∧ Date.next ⟨2021, 12, 31⟩ = ⟨2022, 1, 1⟩
    ∧ Date.toDays ⟨1970, 1, 1⟩ = 0 := by decide

end Hrano.C06
