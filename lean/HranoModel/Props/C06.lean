import HranoModel.Model.Options
import HranoModel.Model.Sink
import HranoModel.Model.Chan
/-! C06 property theorems (statements only in this file; helper lemmas live in Lemmas/) -/
namespace Hrano.C06
end Hrano.C06
