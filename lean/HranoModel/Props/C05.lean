import HranoModel.Model.Options
import HranoModel.Model.Sink
import HranoModel.Model.Chan
/-! C05 property theorems (statements only in this file; helper lemmas live in Lemmas/) -/
namespace Hrano.C05
end Hrano.C05
