import HranoModel.Props.C01
import HranoModel.Props.C11
import HranoModel.Lemmas.Run
/-!
C05 — every report is a pure function of its inputs.

Property theorems only.  In the model every `range` over a Go map is either (a) the resolver's visiting
order, an explicit parameter `ord` of `App.run` — any function that returns the keys in some order — or
(b) a "collect the keys, sort them, then print" site, modelled by keeping the collection and sorting
it (`Accumulator.sorted`, `Elements.sort`, `Report.sortBook`, sorted tree children).  The theorems:
(a) the whole program's outcome does not depend on `ord`; (b) sorting after collecting in any order
gives the same list when names are distinct, so no such site can leak the collection order.

What the model cannot exhibit: Go's actual map randomisation (the implementation is sampled by
repeated in-process and cross-process runs).
-/
namespace Hrano.C05
open Hrano Hrano.Spec Hrano.Resolver Hrano.App

/-- `set` keeps keys distinct -/
theorem set_keys_nodup : ∀ (b : Book) (n : Bytes) (v : Elements), b.keys.Nodup → (b.set n v).keys.Nodup := by
  intro b n v h
  induction b with
  | nil => simp [Book.set, Book.keys]
  | cons kv r ih =>
    obtain ⟨k, w⟩ := kv
    unfold Book.set
    by_cases hk : (k == n) = true
    · simpa [hk, Book.keys] using h
    · have hk' : (k == n) = false := by simpa using hk
      simp only [hk', Bool.false_eq_true, if_false]
      simp only [Book.keys, List.map_cons, List.nodup_cons] at h ⊢
      refine ⟨?_, ih h.2⟩
      intro hm
      -- a key of `set r n v` is a key of `r` or is `n`
      have : ∀ (r : Book), k ∈ (Book.set r n v).keys → k ∈ r.keys ∨ k = n := by
        intro r
        induction r with
        | nil => intro h'; simp [Book.set, Book.keys] at h'; exact Or.inr h'
        | cons kv' r' ih' =>
          obtain ⟨k', w'⟩ := kv'
          intro h'
          unfold Book.set at h'
          by_cases hk2 : (k' == n) = true
          · simp only [hk2, if_true, Book.keys, List.map_cons, List.mem_cons] at h' ⊢
            exact Or.inl h'
          · have hk2' : (k' == n) = false := by simpa using hk2
            simp only [hk2', Bool.false_eq_true, if_false, Book.keys, List.map_cons, List.mem_cons] at h' ⊢
            rcases h' with h' | h'
            · exact Or.inl (Or.inl h')
            · rcases ih' h' with h'' | h''
              · exact Or.inl (Or.inr h'')
              · exact Or.inr h''
      rcases this r hm with h1 | h1
      · exact h.1 h1
      · simp [h1] at hk'

/-- a book loaded from a file has distinct recipe names (a repeated heading replaces the earlier record) -/
theorem ofNodes_keys_nodup (ns : List Node) : (Book.ofNodes ns).keys.Nodup := by
  unfold Book.ofNodes
  suffices ∀ (ns : List Node) (b : Book), b.keys.Nodup → (ns.foldl (fun b n => b.set n.header n.elements) b).keys.Nodup from
    this ns [] (by simp [Book.keys])
  intro ns
  induction ns with
  | nil => intro b h; exact h
  | cons n r ih => intro b h; exact ih _ (set_keys_nodup b n.header n.elements h)

theorem loadBook_go_nodup (se : Option ScanErr) : ∀ (evs : List Event) (acc : List Node) (b : Book),
    loadBook.go se evs acc = .ok b → b.keys.Nodup := by
  intro evs
  induction evs with
  | nil =>
    intro acc b h
    cases se with
    | none => simp [loadBook.go] at h; rw [← h]; exact ofNodes_keys_nodup _
    | some e => simp [loadBook.go] at h
  | cons ev r ih =>
    intro acc b h
    cases ev with
    | error pe => simp [loadBook.go] at h
    | node n => exact ih (n :: acc) b (by simpa [loadBook.go] using h)

/-- the resolver's result (success with which book, or the depth error) is the same for any two visiting
    orders that visit exactly the recipes of the book -/
theorem resolve_any_order (B : Book) (hnd : B.keys.Nodup) (m : Int) (o₁ o₂ : List Bytes)
    (h₁ : ∀ n, n ∈ o₁ ↔ n ∈ B.keys) (h₂ : ∀ n, n ∈ o₂ ↔ n ∈ B.keys) :
    resolveAll m B o₁ = resolveAll m B o₂ := by
  have hm : ∀ o, resolveAll m B o = resolveAll ((m.toNat : Nat) : Int) B o := by
    intro o; unfold resolveAll
    suffices ∀ (o : List Bytes) st, resolveAll.go m o st = resolveAll.go ((m.toNat : Nat) : Int) o st from this o _
    intro o
    induction o with
    | nil => intro st; rfl
    | cons x xs ih => intro st; simp only [resolveAll.go, Int.toNat_natCast]; cases resolveNode m.toNat x st <;> simp [ih]
  rw [hm o₁, hm o₂]
  by_cases hc : ∃ n ∈ B.keys, Chain B n m.toNat
  · obtain ⟨n, hn, hch⟩ := hc
    rw [(C11.depth_exact B m.toNat o₁).mpr ⟨n, (h₁ n).mpr hn, hch⟩, (C11.depth_exact B m.toNat o₂).mpr ⟨n, (h₂ n).mpr hn, hch⟩]
  · have d : ∀ o : List Bytes, (∀ n, n ∈ o ↔ n ∈ B.keys) → ∀ n ∈ o, ¬ Chain B n m.toNat :=
      fun o ho n hn hch => hc ⟨n, (ho n).mp hn, hch⟩
    exact C01.resolve_order_irrelevant B m.toNat o₁ o₂ hnd (fun n hn => (h₁ n).mpr hn) (fun n hn => (h₂ n).mpr hn) (d o₁ h₁) (d o₂ h₂)

/-- **The whole program does not depend on the map visiting order**: for any two order functions that return
    exactly the keys they are given (in any order, with any repetition), every command gives the same
    output bytes and the same success or failure. -/
theorem run_order_independent (c : Cmd) (o : Opts) (fs : Files) (rf : ReadFaults) (ord₁ ord₂ : List Bytes → List Bytes)
    (h₁ : ∀ ks n, n ∈ ord₁ ks ↔ n ∈ ks) (h₂ : ∀ ks n, n ∈ ord₂ ks ↔ n ∈ ks) :
    run c o fs rf ord₁ = run c o fs rf ord₂ := by
  have hbook : ∀ (m : Int) (p : List Event × Option ScanErr), bookOf m ord₁ p = bookOf m ord₂ p := by
    intro m p
    unfold bookOf
    cases hl : loadBook p.1 p.2 with
    | error e => rfl
    | ok book =>
      simp only
      rw [resolve_any_order book (loadBook_go_nodup p.2 p.1 [] book hl) m (ord₁ book.keys) (ord₂ book.keys) (h₁ _) (h₂ _)]
  have hres : ∀ o' : Opts, resolvedBook o' fs rf ord₁ = resolvedBook o' fs rf ord₂ := by
    intro o'
    unfold resolvedBook
    cases parsed fs rf o'.dbFile <;> simp [hbook]
  cases c <;> simp [run, withBookAndLog, withBook, hres]

/-- **Collect-then-sort sites**: whatever order a map yields its entries in, the sorted list that is printed is
    the same, because the names are distinct.  (Instances: register and period totals, by-food rows,
    resolved CSV, unresolved names, quantity and element-total rows before the stable sort by value.) -/
theorem sorted_totals_order_irrelevant (acc acc' : Accumulator) (hp : acc.Perm acc') (hnd : (Accumulator.names acc).Nodup) :
    Accumulator.sorted acc = Accumulator.sorted acc' := by
  rw [Srt.acc_sorted_eq, Srt.acc_sorted_eq]
  apply Srt.sortBy_perm_eq _ _ _ hp
  intro a ha b hb hab
  -- distinct names: equal names means the same entry
  have hf1 := Accumulator.find_of_mem acc hnd a ha
  have hf2 := Accumulator.find_of_mem acc hnd b hb
  rw [hab] at hf1
  rw [hf1] at hf2
  exact Option.some.inj hf2

theorem sorted_elements_order_irrelevant (es es' : Elements) (hp : es.Perm es') (hnd : (Elements.names es).Nodup) :
    Elements.sort es = Elements.sort es' := by
  rw [Srt.elements_sort_eq, Srt.elements_sort_eq]
  apply Srt.sortBy_perm_eq _ _ _ hp
  intro a ha b hb hab
  -- the position of a name in a duplicate-free list of names is unique
  have hinj : ∀ (l : Elements), (l.map (·.name)).Nodup → ∀ a ∈ l, ∀ b ∈ l, a.name = b.name → a = b := by
    intro l
    induction l with
    | nil => intro _ a ha; cases ha
    | cons x xs ih =>
      intro hn a ha b hb hab
      simp only [List.map_cons, List.nodup_cons] at hn
      rcases List.mem_cons.mp ha with rfl | ha' <;> rcases List.mem_cons.mp hb with rfl | hb'
      · rfl
      · exact absurd (List.mem_map.mpr ⟨b, hb', hab.symm⟩) hn.1
      · exact absurd (List.mem_map.mpr ⟨a, ha', hab⟩) hn.1
      · exact ih hn.2 a ha' b hb' hab
  exact hinj es hnd a ha b hb hab

end Hrano.C05
