import HranoModel.Lemmas.Csv
import HranoModel.Lemmas.Fixed
import HranoModel.Lemmas.Sort
import HranoModel.Model.App
import HranoModel.Lemmas.Number
/-!
C13 — CSV exports are lossless and machine-readable.

Property theorems only (helper lemmas: `Lemmas/Csv.lean`, `Lemmas/Fixed.lean`).  The writer model is
`Report.csvField / csvRecord` (encoding/csv's quoting rule, LF record end, separator and precisions from
`Facts.lean`); the reader is the independent RFC 4180 reader of `Spec/Csv.lean` (it accepts LF record ends
only, which is what Go writes — stated, not hidden).
-/
namespace Hrano.C13
open Hrano Hrano.Report Hrano.Csv Hrano.Num

/-- **Lossless.**  Whatever bytes the fields hold — commas, quotes, CR, LF, non-ASCII text — reading what was
    written gives back exactly the rows that were written. -/
theorem csv_roundtrip (rows : List (List Bytes)) (h : ∀ r ∈ rows, r ≠ []) :
    Csv.read sep (rows.map csvRecord).flatten = some rows := by
  unfold Csv.read
  apply readAll_write rows _ h
  -- every record is at least its LF
  have : ∀ rs : List (List Bytes), rs.length ≤ ((rs.map csvRecord).flatten).length := by
    intro rs
    induction rs with
    | nil => simp
    | cons r rs ih =>
      simp only [List.map_cons, List.flatten_cons, List.length_append, List.length_cons, csvRecord_eq]
      omega
  have := this rows
  omega

/-- the log export: one row per (day, distinct food) in file order, `[ISO date, name, amount]` -/
theorem csv_log_rows (days : List LogDay) :
    App.perDay renderCsvLog days
      = ((days.map (fun d => d.elements.map (fun e =>
          [Date.format isoLayout d.date, e.name, fmtFixed Facts.csvLogPrecision e.value]))).flatten.map csvRecord).flatten := by
  induction days with
  | nil => rfl
  | cons d ds ih =>
    simp only [App.perDay, List.map_cons, List.flatten_cons, List.map_append, List.flatten_append] at ih ⊢
    rw [ih]
    simp only [renderCsvLog, List.map_map]
    rfl

/-- the raw / resolved book export: one row per entry, `[recipe, element, amount]` -/
theorem csv_db_rows (header : Bytes) (els : Elements) :
    renderCsvDb header els = ((els.map (fun e => [header, e.name, fmtFixed Facts.csvDbPrecision e.value])).map csvRecord).flatten := by
  simp only [renderCsvDb, List.map_map]
  rfl

/-- dates are ISO formatted whatever `--date-format` says (the export does not consult it) -/
theorem csv_dates_iso : isoLayout = [.year4, .lit 45, .month2, .lit 45, .day2] := by decide

/-- the resolved export lists recipes in name order -/
theorem csv_resolved_sorted (db : Book) : ((sortBook db).map (·.1)).Pairwise (fun a b => Bytes.le a b = true) := by
  rw [Srt.sortBook_eq]
  exact List.pairwise_map.mpr (Srt.sortBy_sorted (fun kv : Bytes × Elements => kv.1) db)

/-- … and loses no recipe -/
theorem csv_resolved_perm (db : Book) : (sortBook db).Perm db := by
  rw [Srt.sortBook_eq]; exact Srt.sortBy_perm _ db

/-- **Fixed precision within half a unit of the last digit**: with `k` the printed digits of `|q|` at `p`
    decimals, `|k / 10^p − |q|| ≤ 1 / (2·10^p)`, stated without division:
    `2·|k·den − |num|·10^p| ≤ den`. -/
theorem amount_within_half_ulp (p : Nat) (q : Q) :
    2 * (roundedAt p q * q.den) ≤ 2 * (q.num.natAbs * 10 ^ p) + q.den
    ∧ 2 * (q.num.natAbs * 10 ^ p) ≤ 2 * (roundedAt p q * q.den) + q.den :=
  roundHalfEven_close _ _ (Rat.den_pos q)

/-- the printed amount is the sign, the integer part and exactly `p` decimals of those digits -/
theorem amount_fixed_precision (p : Nat) (q : Q) :
    fmtFixed p q = (if q.num < 0 then [45] else []) ++ Bytes.natDigits (roundedAt p q / 10 ^ p)
      ++ (if p == 0 then [] else 46 :: Bytes.natPad p (roundedAt p q % 10 ^ p)) := by
  simp [fmtFixed, fixedDigits, List.append_assoc]

/-- **the amount column is machine-readable**: the number reader (the same grammar a CSV consumer's float parser accepts)
    reads the printed amount to exactly the printed value `±k / 10^p`, for both precisions the exports use -/
theorem amount_reads_back (q : Q) :
    (roundedAt Facts.csvLogPrecision q < 10 ^ (308 + Facts.csvLogPrecision) →
      parseFloat (fmtFixed Facts.csvLogPrecision q) = .value (printedValue Facts.csvLogPrecision q))
    ∧ (roundedAt Facts.csvDbPrecision q < 10 ^ (308 + Facts.csvDbPrecision) →
      parseFloat (fmtFixed Facts.csvDbPrecision q) = .value (printedValue Facts.csvDbPrecision q)) :=
  ⟨fun h => parseFloat_fmtFixed _ q (by decide) (by decide) h, fun h => parseFloat_fmtFixed _ q (by decide) (by decide) h⟩

/-! non-vacuity: names with a comma, quotes, CR, a leading blank and non-ASCII bytes -/
example : Csv.read sep ([[[97, 44, 98], [34, 113, 34], [50]], [[32, 120], [13], [0xD0, 0xBF]]].map csvRecord).flatten
    = some [[[97, 44, 98], [34, 113, 34], [50]], [[32, 120], [13], [0xD0, 0xBF]]] := by decide
example : fmtFixed 3 ((1 : Q) / 16) = [48, 46, 48, 54, 50] := by decide +kernel      -- 0.0625 → 0.062 (half to even)

end Hrano.C13
