import HranoModel.Model.Options
import HranoModel.Model.Sink
import HranoModel.Model.Chan
/-! C13 property theorems (statements only in this file; helper lemmas live in Lemmas/) -/
namespace Hrano.C13
end Hrano.C13
