import HranoModel.Model.Options
import HranoModel.Model.Sink
import HranoModel.Model.Chan
/-! C17 property theorems (statements only in this file; helper lemmas live in Lemmas/) -/
namespace Hrano.C17
end Hrano.C17
