import HranoModel.Lemmas.Sink
import HranoModel.Model.App
/-!
C17 — a report that cannot be written completely yields a non-zero exit.

Property theorems only (helper lemmas: `Lemmas/Sink.lean`).  Every reporter writes through a
`bufio.Writer` (or `csv.Writer`, which wraps one) and — after the fixes recorded in
known-findings.txt — returns the result of its final `Flush`; `lint` writes straight to the sink
and returns the first failed write.  The sink accepts `k` bytes in total and then fails every
write (full disk, closed pipe).  The theorems hold for *every* way of cutting the report into
`Write` calls and for every buffer size.

What the model cannot exhibit: SIGPIPE delivery, `ENOSPC` from the kernel (real-binary runs only).
-/
namespace Hrano.C17
open Hrano Hrano.BufW

/-- **Lost output fails.**  After any sequence of writes and the final Flush, the writer reports an
    error exactly when the sink could not take the whole report. -/
theorem lost_output_fails (size k : Nat) (chunks : List Bytes) :
    (runChunks size k chunks).err = true ↔ k < chunks.flatten.length := by
  have hg := foldl_write_good k chunks [] (new size k) (new_good size k)
  simp only [List.nil_append] at hg
  unfold runChunks
  rcases hg with hok | hlost
  · rcases flush_good k _ _ hok with ⟨hok', hbuf, _⟩ | hlost'
    · constructor
      · intro h; rw [hok'.noerr] at h; cases h
      · intro h
        have hd := hok'.data
        rw [hbuf, List.append_nil] at hd
        have hc := hok'.cap
        rw [hd] at hc
        omega
    · exact ⟨fun _ => hlost'.short, fun _ => hlost'.err⟩
  · have hfl : flush (chunks.foldl write (new size k)) = chunks.foldl write (new size k) := by
      simp [flush, hlost.err]
    rw [hfl]
    exact ⟨fun _ => hlost.short, fun _ => hlost.err⟩

/-- what reaches the sink is always a prefix of the report: its first `k` bytes -/
theorem sink_holds_prefix (size k : Nat) (chunks : List Bytes) :
    (runChunks size k chunks).sink.got = chunks.flatten.take k := by
  have hg := foldl_write_good k chunks [] (new size k) (new_good size k)
  simp only [List.nil_append] at hg
  unfold runChunks
  rcases hg with hok | hlost
  · rcases flush_good k _ _ hok with ⟨hok', hbuf, _⟩ | hlost'
    · have hd := hok'.data
      rw [hbuf, List.append_nil] at hd
      have hc := hok'.cap
      rw [hd] at hc ⊢
      rw [List.take_of_length_le (by omega)]
    · exact hlost'.got
  · have hfl : flush (chunks.foldl write (new size k)) = chunks.foldl write (new size k) := by
      simp [flush, hlost.err]
    rw [hfl]
    exact hlost.got

/-- a sink that takes everything changes nothing: no error, the complete report arrives -/
theorem complete_output_unchanged (size k : Nat) (chunks : List Bytes) (h : chunks.flatten.length ≤ k) :
    (runChunks size k chunks).err = false ∧ (runChunks size k chunks).sink.got = chunks.flatten := by
  refine ⟨?_, ?_⟩
  · cases he : (runChunks size k chunks).err with
    | false => rfl
    | true => have := (lost_output_fails size k chunks).mp he; omega
  · rw [sink_holds_prefix, List.take_of_length_le h]

/-- unbuffered writes (`lint`): the command fails iff some write fails, i.e. iff output is lost -/
theorem direct_writes_fail (k : Nat) (chunks : List Bytes) :
    (directWrites k chunks).2 = true ↔ k < chunks.flatten.length := by
  have hstick : ∀ (l : List Bytes) (s' : Sink), (l.foldl (fun (acc : Sink × Bool) p =>
      if acc.2 then acc else ((acc.1.write p).1, (acc.1.write p).2.2)) (s', true)).2 = true := by
    intro l
    induction l with
    | nil => intro s'; rfl
    | cons x xs ihx => intro s'; simpa using ihx s'
  suffices ∀ (chunks : List Bytes) (s : Sink),
      ((chunks.foldl (fun (acc : Sink × Bool) p =>
          if acc.2 then acc else ((acc.1.write p).1, (acc.1.write p).2.2)) (s, false)).2 = true ↔ s.cap < chunks.flatten.length) by
    have h := this chunks ⟨k, []⟩
    simpa [directWrites] using h
  intro chunks
  induction chunks with
  | nil => intro s; simp
  | cons c cs ih =>
    intro s
    simp only [List.foldl, Bool.false_eq_true, if_false, List.flatten_cons, List.length_append]
    by_cases hf : c.length ≤ s.cap
    · rw [sink_write_fits _ _ hf]
      have := ih { cap := s.cap - c.length, got := s.got ++ c }
      simp only at this ⊢
      rw [this]
      omega
    · rw [sink_write_over _ _ hf]
      simp only
      rw [hstick]
      simp; omega

/-! non-vacuity: a 10-byte report in three writes through a 4-byte buffer; a sink taking 9 bytes fails,
    one taking 10 succeeds -/
example : (runChunks 4 9 [[1, 2, 3], [4, 5, 6, 7, 8], [9, 10]]).err = true := by decide
example : (runChunks 4 10 [[1, 2, 3], [4, 5, 6, 7, 8], [9, 10]]).err = false := by decide
example : (runChunks 4 9 [[1, 2, 3], [4, 5, 6, 7, 8], [9, 10]]).sink.got = [1, 2, 3, 4, 5, 6, 7, 8, 9] := by decide

end Hrano.C17
