import HranoModel.Lemmas.Classify
import HranoModel.Lemmas.Parse
/-!
C04 — well-formed files parse to exactly their records, entries and values.

Property theorems only (helper lemmas: `Lemmas/Trim.lean`, `Lemmas/Classify.lean`).  The documented format
with its layout freedom is the data type `Doc.File` (`Spec/Doc.lean`): comment lines, blank / separator
lines, records made of a heading (optionally quoted, optionally followed by a colon and blanks) and body
lines — entries (indentation by blanks, tabs or YAML dashes; optional quotes; optional colon; one or more
blanks or tabs; the literal; trailing blanks), notes, comments, blank lines.  Well-formedness (`WF`) says
names do not start or end with a byte the tokenizer trims (nor with the comment character) and literals
are accepted by the number grammar (`Num.parseFloat lit = .value v`), contain no blank and do not start or
end with a trimmed byte.  "Correctly rounded" is `strconv.ParseFloat`'s contract (trusted); here values are
the exact rationals of the literals.  The side conditions on the trim sets are discharged by `decide` on the
constants of `Facts.lean`, so they are re-checked whenever the source changes.
-/
namespace Hrano.C04
open Hrano Hrano.Doc Hrano.Parser

abbrev cc : UInt8 := PConst.commentChar

/-- the body of a record extends the open record with exactly its entries and notes, in order -/
theorem parse_body (fin : Bool) (rest : List Bytes) : ∀ (body : List BodyLine) (n : Node) (ln : Nat),
    (∀ b ∈ body, b.WF cc) →
    parseLines cc fin (some n) ln (body.map (BodyLine.render cc) ++ rest)
      = parseLines cc fin (some { n with
          elements := n.elements ++ body.filterMap BodyLine.entryOf
          notes := n.notes ++ body.filterMap (BodyLine.noteOf cc) }) (ln + body.length) rest := by
  intro body
  induction body with
  | nil => intro n ln _; simp
  | cons b bs ih =>
    intro n ln hw
    have hb := hw b (List.mem_cons_self)
    have hbs : ∀ b' ∈ bs, b'.WF cc := fun b' h => hw b' (List.mem_cons_of_mem _ h)
    simp only [List.map_cons, List.cons_append]
    rw [parseLines]
    cases b with
    | entry e =>
      rw [show BodyLine.render cc (.entry e) = e.render from rfl, classify_entry e hb]
      simp only
      rw [ih _ (ln + 1) hbs]
      simp only [List.filterMap_cons, BodyLine.entryOf, BodyLine.noteOf, List.append_assoc, List.singleton_append, List.length_cons]
      congr 1; omega
    | note ind t =>
      rw [show BodyLine.render cc (.note ind t) = ind ++ cc :: t from rfl, classify_note ind t hb]
      simp only
      rw [ih _ (ln + 1) hbs]
      simp only [List.filterMap_cons, BodyLine.entryOf, BodyLine.noteOf, List.append_assoc, List.singleton_append, List.length_cons]
      congr 1; omega
    | skip s =>
      rw [show BodyLine.render cc (.skip s) = s.render cc from rfl, classify_skip s hb]
      simp only
      rw [ih _ (ln + 1) hbs]
      simp only [List.filterMap_cons, BodyLine.entryOf, BodyLine.noteOf, List.length_cons]
      congr 1; omega

/-- comment and blank lines before the first heading produce nothing -/
theorem parse_preamble (fin : Bool) (rest : List Bytes) : ∀ (pre : List SkipLine) (ln : Nat), (∀ s ∈ pre, s.WF) →
    parseLines cc fin none ln (pre.map (SkipLine.render cc) ++ rest) = parseLines cc fin none (ln + pre.length) rest := by
  intro pre
  induction pre with
  | nil => intro ln _; simp
  | cons s ss ih =>
    intro ln hw
    simp only [List.map_cons, List.cons_append]
    rw [parseLines, classify_skip s (hw s (List.mem_cons_self))]
    simp only
    rw [ih (ln + 1) (fun s' h => hw s' (List.mem_cons_of_mem _ h))]
    simp only [List.length_cons]
    congr 1; omega

/-- the records of a file, with whatever record is still open -/
theorem parse_records : ∀ (recs : List Record) (cur : Option Node) (ln : Nat), (∀ r ∈ recs, r.WF cc) →
    parseLines cc true cur ln (recs.map (Record.lines cc)).flatten
      = (cur.toList ++ recs.map (Record.node cc)).map Event.node := by
  intro recs
  induction recs with
  | nil => intro cur ln _; cases cur <;> simp [parseLines, flush]
  | cons r rs ih =>
    intro cur ln hw
    have hr := hw r (List.mem_cons_self)
    simp only [List.map_cons, List.flatten_cons, Record.lines, List.cons_append]
    rw [parseLines, classify_heading r.heading hr.1]
    simp only
    rw [parse_body true _ r.body _ (ln + 1) hr.2, ih _ _ (fun r' h => hw r' (List.mem_cons_of_mem _ h))]
    cases cur <;> simp [flush, Record.node]

/-- **Main theorem.**  A well-formed file, in any mix of layout variants, parses to exactly its records: one record
    per heading in file order; under it every entry in order with its exact name and the value of its number;
    comment lines, blank lines and notes never become entries; the last record is not lost. -/
theorem parse_render (f : File) (hw : f.WF cc) :
    parseLines cc true none 1 (f.lines cc) = (f.nodes cc).map Event.node := by
  unfold File.lines File.nodes
  rw [parse_preamble true _ f.preamble 1 hw.1, parse_records f.records none _ hw.2]
  simp

/-- layout does not matter: two well-formed files that say the same thing parse to the same records -/
theorem layout_irrelevant (f g : File) (hf : f.WF cc) (hg : g.WF cc) (h : f.nodes cc = g.nodes cc) :
    parseLines cc true none 1 (f.lines cc) = parseLines cc true none 1 (g.lines cc) := by
  rw [parse_render f hf, parse_render g hg, h]

/-- the last record is not lost (it is pushed after the last line) -/
theorem last_record_kept (f : File) (hw : f.WF cc) (r : Record) (rs : List Record) (h : f.records = rs ++ [r]) :
    (parseLines cc true none 1 (f.lines cc)).getLast? = some (Event.node (r.node cc)) := by
  rw [parse_render f hw]
  simp [File.nodes, h]

/-- LF-terminated and CRLF-terminated lines are the same lines to the parser: the scanner drops one trailing CR -/
theorem crlf_irrelevant (l : Bytes) (h : l.getLast? ≠ some 13) : Scanner.dropCR (l ++ [13]) = l ∧ Scanner.dropCR l = l := by
  constructor
  · simp [Scanner.dropCR]
  · unfold Scanner.dropCR
    cases hl : l.getLast? with
    | none => rfl
    | some x =>
      by_cases hx : x = 13
      · rw [hl, hx] at h; exact absurd rfl h
      · split
        · rename_i heq; exact absurd (Option.some.inj heq) hx
        · rfl

/-! non-vacuity: a file that uses every layout variant: comment, separator line, quoted heading with colon, heading
    without colon, entries indented by blanks / tab / dash, quoted and unquoted, with and without colon, trailing
    blanks, a note, a blank line inside a record -/
def e1 : EntryLine := ⟨[32, 32], false, [97, 32, 98], true, [32], [49, 46, 53], (3 : Q) / 2, []⟩            -- `  a b: 1.5`
def e2 : EntryLine := ⟨[9, 45, 32], true, [99, 47, 100], false, [9, 32], [45, 50], -2, [32, 32]⟩          -- `\t- "c/d"\t -2  `
def demo : File :=
  { preamble := [.comment [32, 120], .blank [45, 45, 45]]
    records := [⟨⟨true, [114, 49], true, [32]⟩, [.entry e1, .note [32, 32] [32, 110, 58, 32, 118], .skip (.blank []), .entry e2]⟩,
                ⟨⟨false, [114, 50], false, []⟩, []⟩] }

example : parseLines 35 true none 1 (demo.lines 35)
    = [.node ⟨[114, 49], [⟨[97, 32, 98], (3 : Q) / 2⟩, ⟨[99, 47, 100], -2⟩], [⟨[110], [118]⟩]⟩, .node ⟨[114, 50], [], []⟩] := by
  decide +kernel

end Hrano.C04
