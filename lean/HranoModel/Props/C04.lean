import HranoModel.Model.Options
import HranoModel.Model.Sink
import HranoModel.Model.Chan
/-! C04 property theorems (statements only in this file; helper lemmas live in Lemmas/) -/
namespace Hrano.C04
end Hrano.C04
