import HranoModel.Model.Options
import HranoModel.Model.Sink
import HranoModel.Model.Chan
/-! C12 property theorems (statements only in this file; helper lemmas live in Lemmas/) -/
namespace Hrano.C12
end Hrano.C12
