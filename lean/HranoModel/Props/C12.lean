import HranoModel.Lemmas.Walk
import HranoModel.Lemmas.Merge
import HranoModel.Lemmas.Append
import HranoModel.Lemmas.Tree
/-!
C12 — reports compose over the log history.

Property theorems only.  A history is a concatenation of event lists (one record per heading);
nothing here assumes anything about the dates, so repeated dates and reordered days are covered.
Still open (stated in DESIGN.md): the element-wise statement for the printed balance rows.
-/
namespace Hrano.C12
open Hrano Hrano.App Hrano.Spec Hrano.Report

/-- Walking a concatenated history processes the days of the first part and then the days of the second:
    what was processed for the earlier part does not depend on what is appended. -/
theorem walk_composes (l : Layout) (b e : Option Int) (se : Option ScanErr) (evs₁ evs₂ : List Event)
    (h : (walk l b e none evs₁).2 = none) :
    (walk l b e se (evs₁ ++ evs₂)).1 = (walk l b e none evs₁).1 ++ (walk l b e se evs₂).1
    ∧ (walk l b e se (evs₁ ++ evs₂)).2 = (walk l b e se evs₂).2 := by
  rw [walk_append]
  rcases hw : walk l b e none evs₁ with ⟨d₁, _ | err⟩
  · simp
  · rw [hw] at h; cases h

/-- **Per-day reports compose**: register (default, left-aligned, old reporter), single-food and
    single-element registers of the concatenated history are the concatenation of the reports of the parts. -/
theorem register_composes (rc : RCfg) (db : Book) (a b : List LogDay)
    (h : rc.singleElement = [] ∨ rc.groupFood = false) :
    regOutput rc db (a ++ b) = regOutput rc db a ++ regOutput rc db b := by
  unfold regOutput
  by_cases h1 : rc.singleElement.isEmpty = true
  · simp only [h1, Bool.not_true, Bool.false_eq_true, if_false]
    split
    · exact perDay_append _ a b
    · split
      · exact perDay_append _ a b
      · split <;> exact perDay_append _ a b
  · have h1' : rc.singleElement.isEmpty = false := by simpa using h1
    have hg : rc.groupFood = false := by
      rcases h with h | h
      · rw [h] at h1'; simp at h1'
      · exact h
    simp only [h1', Bool.not_false, if_true, hg, Bool.false_eq_true, if_false]
    exact perDay_append _ a b

/-- `csv log` composes -/
theorem csv_log_composes (a b : List LogDay) :
    perDay renderCsvLog (a ++ b) = perDay renderCsvLog a ++ perDay renderCsvLog b :=
  perDay_append _ a b

/-- `print` composes -/
theorem print_composes (rc : RCfg) (a b : List LogDay) :
    perDay (renderPrint rc) (a ++ b) = perDay (renderPrint rc) a ++ perDay (renderPrint rc) b :=
  perDay_append _ a b

/-- the contributions a period report accumulates over a list of days -/
def periodContributions (db : Book) (days : List LogDay) : Elements :=
  dayContributions db (allElements days)

/-- the accumulator `report totals` prints, as a function of the days processed -/
def totalsAcc (db : Book) (days : List LogDay) : Accumulator :=
  (allElements days).foldl (fun a e => accumulate a (contributions db e)) []

/-- **Period totals are additive**: for every element, the positive and the negative register of the
    concatenated history are the sums of those of the parts (so is their sum). -/
theorem totals_additive (db : Book) (a b : List LogDay) (n : Bytes) :
    Accumulator.posAt (totalsAcc db (a ++ b)) n = Accumulator.posAt (totalsAcc db a) n + Accumulator.posAt (totalsAcc db b) n
    ∧ Accumulator.negAt (totalsAcc db (a ++ b)) n = Accumulator.negAt (totalsAcc db a) n + Accumulator.negAt (totalsAcc db b) n := by
  have key : ∀ days, totalsAcc db days = accumulate [] (periodContributions db days) :=
    fun days => foldl_accumulate_flatten (contributions db) (allElements days) []
  have happ : periodContributions db (a ++ b) = periodContributions db a ++ periodContributions db b := by
    simp [periodContributions, dayContributions, allElements_append]
  simp only [key, posAt_accumulate, negAt_accumulate, happ, posOf_append, negOf_append]
  simp [Accumulator.posAt, Accumulator.negAt, Accumulator.find, Rat.zero_add]

/-- `renderTotals` prints exactly that accumulator (sorted) -/
theorem totals_prints_acc (db : Book) (days : List LogDay) (h : (totalsAcc db days).isEmpty = false) :
    ∃ header, renderTotals days db = header ++ ((Accumulator.sorted (totalsAcc db days)).map (fun a =>
        Num.fmtFixedW 12 2 a.pos ++ [32, 32] ++ Num.fmtFixedW 12 2 a.neg ++ [32, 32]
        ++ Num.fmtFixedW 12 2 (a.pos + a.neg) ++ [32, 32] ++ a.name ++ [10])).flatten := by
  refine ⟨Bytes.padLeft 32 12 (Bytes.ofString "positive") ++ [32, 32] ++ Bytes.padLeft 32 12 (Bytes.ofString "negative") ++ [32, 32]
    ++ Bytes.padLeft 32 12 (Bytes.ofString "sum") ++ [32, 32] ++ Bytes.ofString "element" ++ [10], ?_⟩
  simp only [renderTotals, totalsAcc] at h ⊢
  rw [if_neg (by simp [h])]

/-- the per-food sums `report quantity` prints, as a function of the days processed -/
def quantityAcc (days : List LogDay) : Elements :=
  (allElements days).foldl (fun a e => Elements.addTo a e.name e.value) []

/-- **Quantities are additive** over the history -/
theorem quantity_additive (a b : List LogDay) (n : Bytes) :
    Elements.valueAt (quantityAcc (a ++ b)) n = Elements.valueAt (quantityAcc a) n + Elements.valueAt (quantityAcc b) n := by
  have key : ∀ days, Elements.valueAt (quantityAcc days) n = sumOf n (allElements days) := by
    intro days
    have := mergeDay_value (allElements days) n
    simpa [quantityAcc, mergeDay] using this
  simp only [key, allElements_append, sumOf_append]

/-- the balance tree of the concatenated history is the tree of the first part with the elements of the
    second part added to it (no state other than the tree is carried from day to day) -/
theorem balance_tree_composes (a b : List LogDay) :
    Tree.build (allElements (a ++ b)) = (allElements b).foldl Tree.addDeep (Tree.build (allElements a)) := by
  simp [Tree.build, allElements_append, List.foldl_append]

theorem prefixSum_append (sep : UInt8) (q : List Bytes) : ∀ a b : Elements,
    Spec.prefixSum sep q (a ++ b) = Spec.prefixSum sep q a + Spec.prefixSum sep q b
  | [], b => by simp [Spec.prefixSum, Rat.zero_add]
  | e :: a, b => by
    simp only [List.cons_append, Spec.prefixSum]
    rw [prefixSum_append sep q a b, Rat.add_assoc]

/-- **the balance of the concatenated history is the element-wise sum of the balances of its parts**: at every
    category path, the amount held by the tree of `a ++ b` is the amount held for `a` plus the amount held for `b` -/
theorem balance_rows_additive (a b : List LogDay) (q : List Bytes) :
    Spec.totalAt (Tree.build (allElements (a ++ b))) q
      = Spec.totalAt (Tree.build (allElements a)) q + Spec.totalAt (Tree.build (allElements b)) q := by
  have h := fun es => (Spec.build_spec es [] Spec.WFList.nil).2 q
  simp only [Tree.build] at h ⊢
  rw [h, h, h, Spec.totalAt_nil, allElements_append, prefixSum_append]
  simp only [Rat.zero_add]

/-- the lines the scanner delivers for a text without over-long lines -/
theorem scan_lines_of_fit (s : Bytes) (h : ∀ l ∈ Scanner.rawLines s, l.length < PConst.maxToken) :
    (Scanner.scan s none).1 = (Scanner.rawLines s).map Scanner.dropCR := by
  have := (Scanner.takeFitting_false_iff (Scanner.rawLines s)).mpr h
  simp [Scanner.scan, Scanner.served, Scanner.takeFitting_false _ this]

/-- **Appending to a log file.**  If the existing text ends with a newline and the appended text starts (after
    comments and blank lines) with a heading, the parse of the whole is the parse of the existing text followed
    by the parse of the appended text (error line numbers of the latter shifted by the number of existing
    lines): appending never changes what was parsed before. -/
theorem parse_text_concat (cc : UInt8) (u t₂ : Bytes)
    (hfit : ∀ l ∈ Scanner.rawLines (u ++ 10 :: t₂), l.length < PConst.maxToken)
    (hh : Parser.HeadFirst cc ((Scanner.rawLines t₂).map Scanner.dropCR)) :
    Parser.events cc (u ++ 10 :: t₂)
      = Parser.events cc (u ++ [10]) ++ (Parser.events cc t₂).map (Parser.shiftEvent (Bytes.splitOn 10 u).length) := by
  have hsplit := Scanner.rawLines_append u t₂
  have hfit₁ : ∀ l ∈ Scanner.rawLines (u ++ [10]), l.length < PConst.maxToken := by
    intro l hl
    rw [Scanner.rawLines_terminated] at hl
    exact hfit l (by rw [hsplit]; exact List.mem_append_left _ hl)
  have hfit₂ : ∀ l ∈ Scanner.rawLines t₂, l.length < PConst.maxToken :=
    fun l hl => hfit l (by rw [hsplit]; exact List.mem_append_right _ hl)
  unfold Parser.events
  rw [scan_lines_of_fit _ hfit, scan_lines_of_fit _ hfit₁, scan_lines_of_fit _ hfit₂, hsplit, Scanner.rawLines_terminated,
    List.map_append, Parser.parse_lines_concat cc _ _ hh]
  simp

end Hrano.C12
