import HranoModel.Lemmas.Template
import HranoModel.Lemmas.Fixed
import HranoModel.Lemmas.Walk
import HranoModel.Lemmas.PrintDoc
import HranoModel.Props.C04
import HranoModel.Model.Options
/-!
C14 — `print` emits a normal form that reads back to the same log.

Property theorems only (helper lemmas: `Lemmas/Number.lean` — the number reader on what `%.2f` writes,
`Lemmas/DateRT.lean` — a date read back by its layout, `Lemmas/PrintDoc.lean` — the printed text as a
well-formed file of `Spec/Doc.lean`).  The main theorem is `print_reparse`: reading what `print` wrote gives
the same days, foods and notes, with the amounts as printed; `print_print` is the normal-form statement.
The well-formedness hypothesis `DayOK` is explicit and decidable in its parts: accepted date, legal and
distinct food names (which the walk guarantees: it merges repeated foods), amounts in float64's range, notes
the note reader maps to themselves (`# a: #` is the documented exception, see DESIGN.md observation 14), no
line longer than the scanner's buffer.
-/
namespace Hrano.C14
open Hrano Hrano.Report Hrano.Num

/-- what `print` writes for a day: the heading in the *same* layout the log is read with (fix recorded in
    known-findings.txt), the notes in their documented forms, one `  - name: quantity` line per distinct
    food, and a blank line -/
theorem print_day (cfg : RCfg) (d : LogDay) :
    renderPrint cfg d = Date.format cfg.dateLayout d.date ++ [58, 10]
      ++ (d.notes.map (fun m =>
            if !m.name.isEmpty then [32, 32, 35, 32] ++ m.name ++ [58, 32] ++ m.value ++ [10]
            else [32, 32, 35, 32] ++ m.value ++ [10])).flatten
      ++ (d.elements.map (fun e => [32, 32, 45, 32] ++ e.name ++ [58, 32] ++ fmtFixed Facts.printPrecision e.value ++ [10])).flatten
      ++ [10] := rfl

/-- the reporters print dates in the layout the options parse them with -/
theorem print_uses_parse_layout (s : Settings) (ld : Options.Loaded) (h : Options.load s = .ok ld) :
    ld.opts.rc.dateLayout = ld.opts.layout := by
  unfold Options.load at h
  split at h
  · cases h
  · cases hl : Date.parseLayout (Options.effective s).fmtRaw with
    | none => rw [hl] at h; cases h
    | some layout =>
      rw [hl] at h
      simp only at h
      cases hn : Options.nowOf s layout with
      | error e => rw [hn] at h; cases h
      | ok now =>
        rw [hn] at h
        simp only at h
        cases hb : Options.boundsOf s now layout with
        | error e => rw [hb] at h; cases h
        | ok bnd =>
          rw [hb] at h
          simp only at h
          cases hv : Options.validate s (Options.effective s) with
          | error e => rw [hv] at h; cases h
          | ok u =>
            rw [hv] at h
            simp only at h
            cases hc : Options.cmdOf s now layout with
            | error e => rw [hc] at h; cases h
            | ok cmd =>
              rw [hc] at h
              simp only [Except.ok.injEq] at h
              subst h
              rfl

/-- print over a history is the concatenation of the days' blocks (no state between days) -/
theorem print_days (cfg : RCfg) (a b : List LogDay) :
    App.perDay (renderPrint cfg) (a ++ b) = App.perDay (renderPrint cfg) a ++ App.perDay (renderPrint cfg) b :=
  App.perDay_append _ a b

/-- **a printed quantity prints again as itself**: the exact value of the two-decimal text, printed with two
    decimals, is the same text (the case excluded is a negative value rounded to zero, where the program
    keeps the sign in a float's negative zero) -/
theorem printed_quantity_stable (q : Q) (h : q.num < 0 → roundedAt Facts.printPrecision q ≠ 0) :
    fmtFixed Facts.printPrecision (printedValue Facts.printPrecision q) = fmtFixed Facts.printPrecision q :=
  fmtFixed_stable _ q h

/-- printing rounds to the nearest two-decimal value -/
theorem printed_quantity_close (q : Q) :
    2 * (roundedAt 2 q * q.den) ≤ 2 * (q.num.natAbs * 100) + q.den
    ∧ 2 * (q.num.natAbs * 100) ≤ 2 * (roundedAt 2 q * q.den) + q.den :=
  roundHalfEven_close _ _ (Rat.den_pos q)

/-- the number reader accepts what `print` writes for a quantity, with exactly the printed value -/
theorem printed_quantity_reads_back (q : Q) (hq : roundedAt Facts.printPrecision q < 10 ^ (308 + Facts.printPrecision)) :
    parseFloat (fmtFixed Facts.printPrecision q) = .value (printedValue Facts.printPrecision q) :=
  parseFloat_fmtFixed _ q (by decide) (by decide) hq

/-- a date heading written in a layout is read back by the same layout -/
theorem printed_date_reads_back (l : Layout) (c : Civil) (hl : Date.roundTrips l = true) (hc : Date.CivilOK c) :
    Date.parse l (Date.format l c) = some c :=
  Date.parse_format l c hl hc

open PrintDoc in
/-- **Main theorem.**  Reading what `print` wrote (same date layout, no period) gives back the same days in the
    same order, each with the same foods in the same order and the same notes; the amounts are the printed ones
    (each within half a cent of the original, `printed_quantity_close`). -/
theorem print_reparse (cfg : RCfg) (days : List LogDay) (hl : Date.roundTrips cfg.dateLayout = true)
    (h : ∀ d ∈ days, DayOK cfg.dateLayout d) :
    App.walk cfg.dateLayout none none none (Parser.events PConst.commentChar (App.perDay (renderPrint cfg) days))
      = (days.map printedDay, none) := by
  have hlines := printFile_lines_ok cfg.dateLayout days h
  rw [perDay_lines, Parser.events_of_lines _ _ (fun l hl => (hlines l hl).1) (fun l hl => (hlines l hl).2.1) (fun l hl => (hlines l hl).2.2),
    C04.parse_render _ (printFile_wf _ days h), printFile_nodes _ days h, List.map_map]
  exact walk_nodes cfg.dateLayout hl days h

open PrintDoc in
/-- **normal form**: printing what was read back from a printed log reproduces it byte for byte (amounts that a
    second rounding would change are excluded by `printed_quantity_stable`'s side condition) -/
theorem print_print (cfg : RCfg) (days : List LogDay)
    (hz : ∀ d ∈ days, ∀ e ∈ d.elements, e.value.num < 0 → roundedAt Facts.printPrecision e.value ≠ 0) :
    App.perDay (renderPrint cfg) (days.map printedDay) = App.perDay (renderPrint cfg) days := by
  unfold App.perDay
  rw [List.map_map]
  congr 1
  apply List.map_congr_left
  intro d hd
  simp only [Function.comp, renderPrint, printedDay, List.map_map]
  congr 2
  congr 1
  apply List.map_congr_left
  intro e he
  simp only [Function.comp]
  rw [fmtFixed_stable _ e.value (hz d hd e he)]

/-- a note of one of the two documented forms, written with plain text: `# text` (no colon in the text) or
    `# name: value` (no colon in the name); "plain" = does not start with a space rune or `#`, does not end with a space
    rune, `#` or a byte the tokenizer trims (`:`, `"`, `-`), and holds no line feed -/
def NotePlain (m : MetaPair) : Prop :=
  (m.name = [] ∧ PrintDoc.WordOK m.value ∧ (∀ b ∈ m.value, b ≠ 58) ∧ (∀ b ∈ m.value, b ≠ 10))
  ∨ (PrintDoc.WordOK m.name ∧ PrintDoc.WordOK m.value ∧ (∀ b ∈ m.name, b ≠ 58) ∧ (∀ b ∈ m.name, b ≠ 10) ∧ (∀ b ∈ m.value, b ≠ 10))

/-- notes of the documented forms survive printing and reading -/
theorem documented_notes_read_back (m : MetaPair) (h : NotePlain m) : PrintDoc.NoteOK m := by
  rcases h with ⟨hn, hw, hc, hlf⟩ | ⟨hwn, hwv, hc, hlfn, hlfv⟩
  · cases m with
    | mk name value => simp only at hn; subst hn; exact PrintDoc.note_text_ok value hw hc hlf
  · cases m with
    | mk name value => exact PrintDoc.note_named_ok name value hwn hwv hc hlfn hlfv

/-- the *syntactic* well-formedness of a day: everything `DayOK` asks for, stated on the data -/
structure DayPlain (l : Layout) (d : LogDay) : Prop where
  date : Date.CivilOK d.date
  names : ∀ e ∈ d.elements, Doc.NameOK PConst.commentChar e.name ∧ ∀ b ∈ e.name, b ≠ 10
  values : ∀ e ∈ d.elements, roundedAt Facts.printPrecision e.value < 10 ^ (308 + Facts.printPrecision)
  distinct : (Elements.names d.elements).Nodup
  notes : ∀ m ∈ d.notes, NotePlain m
  fit : ∀ ln ∈ Doc.Record.lines PConst.commentChar (PrintDoc.dayRecord l d), ln.length < PConst.maxToken

theorem dayOK_of_plain (l : Layout) (d : LogDay) (hl : PrintDoc.headingOK l = true) (h : DayPlain l d) : PrintDoc.DayOK l d :=
  have hh := PrintDoc.format_nameOK l d.date hl
  ⟨h.date, hh.1, hh.2, h.names, h.values, h.distinct, fun m hm => documented_notes_read_back m (h.notes m hm), h.fit⟩

/-- **Main theorem, on syntactic hypotheses.**  For every date layout that names year, month and day unambiguously and
    starts and ends with a number or a harmless separator, and for days with accepted dates, legal distinct food names,
    amounts in float64's range and notes of the documented forms, reading what `print` wrote gives the same days,
    foods and notes with the amounts as printed. -/
theorem print_reparse_plain (cfg : RCfg) (days : List LogDay) (hl : Date.roundTrips cfg.dateLayout = true)
    (hh : PrintDoc.headingOK cfg.dateLayout = true) (h : ∀ d ∈ days, DayPlain cfg.dateLayout d) :
    App.walk cfg.dateLayout none none none (Parser.events PConst.commentChar (App.perDay (renderPrint cfg) days))
      = (days.map PrintDoc.printedDay, none) :=
  print_reparse cfg days hl (fun d hd => dayOK_of_plain cfg.dateLayout d hh (h d hd))

/-! non-vacuity: the hypotheses of `print_reparse` are met by a day with a nested food name, a negative amount, a
    `name: value` note and a text note, in the default layout -/
def demoLayout : Layout := [.year4, .lit 47, .month2, .lit 47, .day2]
def demoDay : LogDay := ⟨⟨2021, 1, 24⟩, [⟨[97, 47, 98], (3 : Q) / 8⟩, ⟨[99], -2⟩], [⟨[110], [118]⟩, ⟨[], [116, 32, 120]⟩]⟩

open PrintDoc Doc in
example : Date.roundTrips demoLayout = true ∧ DayOK demoLayout demoDay := by
  refine ⟨by decide, ⟨⟨by decide, by decide, by decide, by decide, by decide⟩, ?_, ?_, ?_, ?_, ?_, ?_, ?_⟩⟩
  · exact ⟨⟨50, [48, 50, 49, 47, 48, 49, 47, 50, 52], by decide +kernel, by decide, by decide⟩,
      ⟨[50, 48, 50, 49, 47, 48, 49, 47, 50], 52, by decide +kernel, by decide, by decide⟩⟩
  · have : Date.format demoLayout demoDay.date = [50, 48, 50, 49, 47, 48, 49, 47, 50, 52] := by decide +kernel
    rw [this]; decide
  · intro e he
    simp only [demoDay, List.mem_cons, List.not_mem_nil, or_false] at he
    rcases he with rfl | rfl
    · exact ⟨⟨⟨97, [47, 98], rfl, by decide, by decide⟩, ⟨[97, 47], 98, rfl, by decide, by decide⟩⟩, by decide⟩
    · exact ⟨⟨⟨99, [], rfl, by decide, by decide⟩, ⟨[], 99, rfl, by decide, by decide⟩⟩, by decide⟩
  · intro e he
    simp only [demoDay, List.mem_cons, List.not_mem_nil, or_false] at he
    rcases he with rfl | rfl
    · have : roundedAt P ((3 : Q) / 8) = 38 := by decide +kernel
      rw [this]; exact Nat.lt_of_lt_of_le (by decide : 38 < 10 ^ 2) (Nat.pow_le_pow_right (by decide) (by decide))
    · have : roundedAt P (-2 : Q) = 200 := by decide +kernel
      rw [this]; exact Nat.lt_of_lt_of_le (by decide : 200 < 10 ^ 3) (Nat.pow_le_pow_right (by decide) (by decide))
  · decide
  · intro m hm
    simp only [demoDay, List.mem_cons, List.not_mem_nil, or_false] at hm
    rcases hm with rfl | rfl
    · exact ⟨by decide +kernel, by decide, by decide⟩
    · exact ⟨by decide +kernel, by decide, by decide⟩
  · have : Record.lines PrintDoc.cc (dayRecord demoLayout demoDay)
        = [[50, 48, 50, 49, 47, 48, 49, 47, 50, 52, 58], [32, 32, 35, 32, 110, 58, 32, 118], [32, 32, 35, 32, 116, 32, 120],
           [32, 32, 45, 32, 97, 47, 98, 58, 32, 48, 46, 51, 56], [32, 32, 45, 32, 99, 58, 32, 45, 50, 46, 48, 48], []] := by
      decide +kernel
    rw [this]; decide

/-- the two notes of the demo day are of the documented plain forms, and the default layout makes legal headings -/
example : NotePlain ⟨[110], [118]⟩ ∧ NotePlain ⟨[], [116, 32, 120]⟩ ∧ PrintDoc.headingOK demoLayout = true := by
  refine ⟨Or.inr ⟨⟨⟨110, [], rfl, by decide, by decide⟩, ⟨[], 110, rfl, by decide, by decide, by decide⟩⟩,
      ⟨⟨118, [], rfl, by decide, by decide⟩, ⟨[], 118, rfl, by decide, by decide, by decide⟩⟩, by decide, by decide, by decide⟩,
    Or.inl ⟨rfl, ⟨⟨116, [32, 120], rfl, by decide, by decide⟩, ⟨[116, 32], 120, rfl, by decide, by decide, by decide⟩⟩, by decide, by decide⟩,
    by decide⟩

open PrintDoc in
example : App.walk [.year4, .lit 47, .month2, .lit 47, .day2] none none none
    (Parser.events 35 (App.perDay (renderPrint { dateLayout := [.year4, .lit 47, .month2, .lit 47, .day2] })
      [⟨⟨2021, 1, 24⟩, [⟨[97, 47, 98], (3 : Q) / 8⟩, ⟨[99], -2⟩], [⟨[110], [118]⟩, ⟨[], [116, 32, 120]⟩]⟩]))
    = ([⟨⟨2021, 1, 24⟩, [⟨[97, 47, 98], (19 : Q) / 50⟩, ⟨[99], -2⟩], [⟨[110], [118]⟩, ⟨[], [116, 32, 120]⟩]⟩], none) := by
  decide +kernel
example : fmtFixed 2 ((3 : Q) / 8) = [48, 46, 51, 56] := by decide +kernel        -- 0.375 → 0.38
example : fmtFixed 2 (printedValue 2 ((3 : Q) / 8)) = [48, 46, 51, 56] := by decide +kernel

/-! ### the byte layout follows the formats read from the source on every run (`tools/facts`, `Model/Template.lean`) -/

/-- The text `print` writes for a day is the four formats of `print_reporter.go`, as the source has them now: heading, named note, plain note, element. -/
theorem print_layout_follows_source (cfg : RCfg) (d : LogDay) :
    renderPrint cfg d =
      Tmpl.sprintfA (Facts.printFormats.getD 0 []) [.s (Date.format cfg.dateLayout d.date)]
      ++ (d.notes.map (fun m =>
            if !m.name.isEmpty then Tmpl.sprintfA (Facts.printFormats.getD 1 []) [.s m.name, .s m.value]
            else Tmpl.sprintfA (Facts.printFormats.getD 2 []) [.s m.value])).flatten
      ++ (d.elements.map (fun e => Tmpl.sprintfA (Facts.printFormats.getD 3 []) [.s e.name, .q e.value])).flatten
      ++ [10] := by
  simp only [renderPrint, Tmpl.row_p0, Tmpl.row_p1, Tmpl.row_p2, Tmpl.row_p3, Tmpl.print_precision, List.append_assoc]

example : Tmpl.sprintfA (Facts.printFormats.getD 3 []) [.s [97, 98], .q (7/4)] = Bytes.ofString "  - ab: 1.75\n" := by decide +kernel

end Hrano.C14
