import HranoModel.Lemmas.Fixed
import HranoModel.Lemmas.Walk
import HranoModel.Model.Options
/-!
C14 — `print` emits a normal form that reads back to the same log.

Property theorems only.  Proved here: the numeric side (a printed quantity prints again as itself) and the
structure of what `print` writes.  NOT yet proved (kept at full strength as a comment, checked only by
the correspondence and the implementation oracle of the C14 check):

    theorem print_reparse (l : Layout) (days : List LogDay) (h : LogWF days) :
      walk l none none none (Parser.events cc (perDay (renderPrint {dateLayout := l}) days))
        = (days.map round2, none)

It needs the tokenizer lemma of C04 instantiated at the layout `print` uses, `Date.parse l (Date.format l c)
= some c`, and `parseFloat (fmtFixed 2 q) = .value (printedValue 2 q)`.
-/
namespace Hrano.C14
open Hrano Hrano.Report Hrano.Num

/-- what `print` writes for a day: the heading in the *same* layout the log is read with (fix recorded in
    known-findings.txt), the notes in their documented forms, one `  - name: quantity` line per distinct
    food, and a blank line -/
theorem print_day (cfg : RCfg) (d : LogDay) :
    renderPrint cfg d = Date.format cfg.dateLayout d.date ++ [58, 10]
      ++ (d.notes.map (fun m =>
            if !m.name.isEmpty then [32, 32, 35, 32] ++ m.name ++ [58, 32] ++ m.value ++ [10]
            else [32, 32, 35, 32] ++ m.value ++ [10])).flatten
      ++ (d.elements.map (fun e => [32, 32, 45, 32] ++ e.name ++ [58, 32] ++ fmtFixed Facts.printPrecision e.value ++ [10])).flatten
      ++ [10] := rfl

/-- the reporters print dates in the layout the options parse them with -/
theorem print_uses_parse_layout (s : Settings) (ld : Options.Loaded) (h : Options.load s = .ok ld) :
    ld.opts.rc.dateLayout = ld.opts.layout := by
  unfold Options.load at h
  split at h
  · cases h
  · cases hl : Date.parseLayout (Options.effective s).fmtRaw with
    | none => rw [hl] at h; cases h
    | some layout =>
      rw [hl] at h
      simp only at h
      cases hn : Options.nowOf s layout with
      | error e => rw [hn] at h; cases h
      | ok now =>
        rw [hn] at h
        simp only at h
        cases hb : Options.boundsOf s now layout with
        | error e => rw [hb] at h; cases h
        | ok bnd =>
          rw [hb] at h
          simp only at h
          cases hv : Options.validate s (Options.effective s) with
          | error e => rw [hv] at h; cases h
          | ok u =>
            rw [hv] at h
            simp only at h
            cases hc : Options.cmdOf s now layout with
            | error e => rw [hc] at h; cases h
            | ok cmd =>
              rw [hc] at h
              simp only [Except.ok.injEq] at h
              subst h
              rfl

/-- print over a history is the concatenation of the days' blocks (no state between days) -/
theorem print_days (cfg : RCfg) (a b : List LogDay) :
    App.perDay (renderPrint cfg) (a ++ b) = App.perDay (renderPrint cfg) a ++ App.perDay (renderPrint cfg) b :=
  App.perDay_append _ a b

/-- **a printed quantity prints again as itself**: the exact value of the two-decimal text, printed with two
    decimals, is the same text (the case excluded is a negative value rounded to zero, where the program
    keeps the sign in a float's negative zero) -/
theorem printed_quantity_stable (q : Q) (h : q.num < 0 → roundedAt Facts.printPrecision q ≠ 0) :
    fmtFixed Facts.printPrecision (printedValue Facts.printPrecision q) = fmtFixed Facts.printPrecision q :=
  fmtFixed_stable _ q h

/-- printing rounds to the nearest two-decimal value -/
theorem printed_quantity_close (q : Q) :
    2 * (roundedAt 2 q * q.den) ≤ 2 * (q.num.natAbs * 100) + q.den
    ∧ 2 * (q.num.natAbs * 100) ≤ 2 * (roundedAt 2 q * q.den) + q.den :=
  roundHalfEven_close _ _ (Rat.den_pos q)

/-! non-vacuity -/
example : fmtFixed 2 ((3 : Q) / 8) = [48, 46, 51, 56] := by decide +kernel        -- 0.375 → 0.38
example : fmtFixed 2 (printedValue 2 ((3 : Q) / 8)) = [48, 46, 51, 56] := by decide +kernel

end Hrano.C14
