import HranoModel.Model.Options
import HranoModel.Model.Sink
import HranoModel.Model.Chan
/-! C14 property theorems (statements only in this file; helper lemmas live in Lemmas/) -/
namespace Hrano.C14
end Hrano.C14
