import HranoModel.Lemmas.ResolveAll
/-!
C11 — the depth limit rejects cycles, accepts legitimate nesting, independent of order.

Property theorems only (helper lemmas: `Lemmas/Resolve*.lean`).  `Chain B x k`: a chain of `k`
ingredient references starts at `x` (the last name of a chain need not be a recipe: the level test
precedes the existence test, so `a: b 1` with `N = 1` is a chain of one reference and is rejected).
The theorems are about the model of the code after the fix recorded in known-findings.txt.
-/
namespace Hrano.C11
open Hrano Hrano.Spec Hrano.Resolver

/-- **Exactness, for every visiting order.**  Resolution with limit `N` fails — with the depth error —
    exactly when a chain of `N` or more references starts at one of the visited names. -/
theorem depth_exact (B : Book) (N : Nat) (order : List Bytes) :
    resolveAll (N : Int) B order = .error .depth ↔ ∃ n ∈ order, Chain B n N := by
  constructor
  · intro herr
    -- otherwise every visited name resolves and the run succeeds
    apply Classical.byContradiction
    intro hno
    have hall : ∀ n ∈ order, specNode B N n ≠ none := by
      intro n hn hnone
      exact hno ⟨n, hn, (specNode_none_iff_chain B N n).mp hnone⟩
    obtain ⟨st', hgo, _⟩ := go_ok B N order _ (inv_init B) hall
    have : resolveAll (N : Int) B order = .ok st'.db := hgo
    rw [this] at herr
    cases herr
  · rintro ⟨n, hn, hc⟩
    exact go_err B N order _ (inv_init B) ⟨n, hn, (specNode_none_iff_chain B N n).mpr hc⟩

/-- the outcome does not depend on the order in which the recipes are visited -/
theorem outcome_order_independent (B : Book) (N : Nat) (o₁ o₂ : List Bytes) (h : ∀ n, n ∈ o₁ ↔ n ∈ o₂) :
    (resolveAll (N : Int) B o₁ = .error .depth ↔ resolveAll (N : Int) B o₂ = .error .depth) := by
  rw [depth_exact, depth_exact]
  constructor
  · rintro ⟨n, hn, hc⟩; exact ⟨n, (h n).mp hn, hc⟩
  · rintro ⟨n, hn, hc⟩; exact ⟨n, (h n).mpr hn, hc⟩

/-- there is no other failure: resolution either succeeds or reports the depth error (it always terminates:
    the functions are total, recursion depth is bounded by the fuel `N`) -/
theorem only_depth_error (B : Book) (N : Int) (order : List Bytes) (e : RErr) (_ : resolveAll N B order = .error e) :
    e = .depth := by
  cases e; rfl

/-- chains are closed under shortening -/
theorem chain_shorter (B : Book) : ∀ (k : Nat) (x : Bytes), Chain B x (k + 1) → Chain B x k := by
  intro k
  induction k with
  | zero => intro x _; exact Chain.zero x
  | succ k ih =>
    intro x h
    cases h with
    | step _ els e _ hl he hc => exact Chain.step x els e k hl he (ih e.name hc)

theorem chain_le (B : Book) (x : Bytes) (k m : Nat) (hle : m ≤ k) (h : Chain B x k) : Chain B x m := by
  induction hle with
  | refl => exact h
  | step _ ih => exact ih (chain_shorter B _ x h)

/-- `Reach B a b k`: `b` is reached from `a` by `k` references through recipes -/
inductive Reach (B : Book) : Bytes → Bytes → Nat → Prop where
  | refl (a : Bytes) : Reach B a a 0
  | step (a : Bytes) (els : Elements) (e : Element) (b : Bytes) (k : Nat) :
      B.lookup a = some els → e ∈ els → Reach B e.name b k → Reach B a b (k + 1)

theorem chain_of_reach (B : Book) (a b : Bytes) (k m : Nat) (hr : Reach B a b k) (hc : Chain B b m) : Chain B a (k + m) := by
  induction hr with
  | refl a => simpa using hc
  | step a els e b k hl he _ ih =>
    have := ih hc
    have h2 : k + 1 + m = (k + m) + 1 := by omega
    rw [h2]
    exact Chain.step a els e (k + m) hl he this

/-- **Cyclic recipes are always rejected**: a recipe that reaches itself through one or more references has
    chains of every length, so every limit `N` rejects every order that visits it. -/
theorem cyclic_fails (B : Book) (N : Nat) (order : List Bytes) (x : Bytes) (k : Nat)
    (hcyc : Reach B x x (k + 1)) (hx : x ∈ order) : resolveAll (N : Int) B order = .error .depth := by
  have hall : ∀ j : Nat, Chain B x (j * (k + 1)) := by
    intro j
    induction j with
    | zero => simpa using Chain.zero x
    | succ j ih =>
      have := chain_of_reach B x x (k + 1) (j * (k + 1)) hcyc ih
      have h2 : (j + 1) * (k + 1) = k + 1 + j * (k + 1) := by rw [Nat.succ_mul]; omega
      rw [h2]; exact this
  have hN : Chain B x N := chain_le B x (N * (k + 1)) N (by
    have : N * 1 ≤ N * (k + 1) := Nat.mul_le_mul_left N (by omega)
    omega) (hall N)
  exact (depth_exact B N order).mpr ⟨x, hx, hN⟩

/-- legitimate nesting is accepted: if every chain from a visited name is shorter than `N`, resolution succeeds -/
theorem shallow_succeeds (B : Book) (N : Nat) (order : List Bytes) (h : ∀ n ∈ order, ¬ Chain B n N) :
    ∃ B', resolveAll (N : Int) B order = .ok B' := by
  have hall : ∀ n ∈ order, specNode B N n ≠ none := fun n hn hnone => h n hn ((specNode_none_iff_chain B N n).mp hnone)
  obtain ⟨st', hgo, _⟩ := go_ok B N order _ (inv_init B) hall
  exact ⟨st'.db, hgo⟩

/-! non-vacuity: the chain a → b → c → leaf has 3 references; N = 3 rejects it in both orders, N = 4 accepts it
    in both orders (the unchanged code accepted it bottom-up with N = 3) -/
def chain3 : Book := [([97], [⟨[98], 1⟩]), ([98], [⟨[99], 1⟩]), ([99], [⟨[120], 1⟩])]
def outcome (n : Int) (order : List Bytes) : Bool := match resolveAll n chain3 order with | .ok _ => true | .error _ => false
example : outcome 3 [[97], [98], [99]] = false ∧ outcome 3 [[99], [98], [97]] = false := by decide +kernel
example : outcome 4 [[97], [98], [99]] = true ∧ outcome 4 [[99], [98], [97]] = true := by decide +kernel
example : Reach [([97], [⟨[98], 1⟩]), ([98], [⟨[97], 1⟩])] [97] [97] 2 :=
  Reach.step _ _ ⟨[98], 1⟩ _ 1 rfl (by simp) (Reach.step _ _ ⟨[97], 1⟩ _ 0 rfl (by simp) (Reach.refl _))

end Hrano.C11
