import HranoModel.Model.Options
import HranoModel.Model.Sink
import HranoModel.Model.Chan
/-! C11 property theorems (statements only in this file; helper lemmas live in Lemmas/) -/
namespace Hrano.C11
end Hrano.C11
