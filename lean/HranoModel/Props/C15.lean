import HranoModel.Model.Options
import HranoModel.Model.Sink
import HranoModel.Model.Chan
/-! C15 property theorems (statements only in this file; helper lemmas live in Lemmas/) -/
namespace Hrano.C15
end Hrano.C15
