import HranoModel.Lemmas.Template
import HranoModel.Lemmas.Present
import HranoModel.Lemmas.Colour
/-!
C15 — presentation options never change the numbers.

Property theorems only (helper lemmas: `Lemmas/Present.lean`).  Proved: colour by sign and colour-stripping
at the level of every printed figure; default register = no-totals and totals-only interleaved; the three
templates and the old reporter draw their figures from the same report item / accumulator; the shape of a
shortened name; `--desc` is a permutation ordered the other way; flag position of `--no-color`.
Colour-stripping of a *whole* register day (`strip_colour_register`): removing the escape codes from the
coloured output of the default and the left-aligned template, with or without `--shorten`, totals,
totals-only, and of the old reporter and `summary` (`strip_colour_old_and_summary`), gives the plain output byte for byte — under the hypothesis that the date text and the names
shown hold no ESC byte themselves (with an ESC inside a name the statement is false by construction).
-/
namespace Hrano.C15
open Hrano Hrano.Report

/-- positive amounts red, negative green, zero uncoloured -/
theorem colour_by_sign (v : Q) :
    (v > 0 → fmtVal true v = red ++ Num.fmtFixedW 10 2 v ++ reset)
    ∧ (v < 0 → fmtVal true v = green ++ Num.fmtFixedW 10 2 v ++ reset)
    ∧ (v = 0 → fmtVal true v = Num.fmtFixedW 10 2 v)
    ∧ fmtVal false v = Num.fmtFixedW 10 2 v := by
  refine ⟨?_, ?_, ?_, ?_⟩
  · intro h; simp [fmtVal, h]
  · intro h
    have : ¬ v > 0 := by grind
    simp [fmtVal, h, this]
  · intro h; subst h; simp [fmtVal, Rat.lt_irrefl]
  · simp [fmtVal]

/-- coloured output equals plain output once escape codes are removed — for every printed figure, wherever it
    stands in a line -/
theorem strip_colour_figure (v : Q) (rest : Bytes) :
    stripAnsi (fmtVal true v ++ rest) = fmtVal false v ++ stripAnsi rest :=
  strip_fmtVal v rest

/-- **coloured register output minus the escape codes is the plain register output**, for a whole day block of the
    default and of the left-aligned template, whatever the other presentation options are -/
theorem strip_colour_register (cfg : RCfg) (d : LogDay) (db : Book) (hdate : noEsc (Date.format cfg.dateLayout d.date))
    (hn : NamesPlain db d) :
    stripAnsi (renderDefault { cfg with color := true } d db) = renderDefault { cfg with color := false } d db
    ∧ stripAnsi (renderLeft { cfg with color := true } d db) = renderLeft { cfg with color := false } d db :=
  ⟨strip_renderDefault cfg d db hdate hn, strip_renderLeft cfg d db hdate hn⟩

/-- … and the same for a whole day of the old register reporter (`--use-old-reg-reporter`) and of `summary` -/
theorem strip_colour_old_and_summary (cfg : RCfg) (d : LogDay) (db : Book) (hdate : noEsc (Date.format cfg.dateLayout d.date))
    (hn : NamesPlain db d) :
    stripAnsi (renderOld { cfg with color := true } d db) = renderOld { cfg with color := false } d db
    ∧ stripAnsi (renderSummary { cfg with color := true } d db) = renderSummary { cfg with color := false } d db :=
  ⟨strip_renderOld cfg d db hdate hn, strip_renderSummary cfg d db hdate hn⟩

/-- text without ESC bytes is untouched by the stripping -/
theorem strip_plain (a rest : Bytes) (h : noEsc a) : stripAnsi (a ++ rest) = a ++ stripAnsi rest :=
  strip_noEsc_append a rest h

/-- **default register = no-totals and totals-only interleaved per day**: the three outputs share the date line
    `D`, the food block `E` and the totals block `T`:  `D E T ⏎`,  `D E ⏎`,  `D T ⏎` -/
theorem default_is_interleave (cfg : RCfg) (d : LogDay) (db : Book) :
    ∃ D E T : Bytes,
      renderDefault { cfg with totals := true, totalsOnly := false } d db = D ++ E ++ T ++ [10]
      ∧ renderDefault { cfg with totals := false, totalsOnly := false } d db = D ++ E ++ [10]
      ∧ renderDefault { cfg with totals := true, totalsOnly := true } d db = D ++ T ++ [10] := by
  let re := d.elements.map (fun e => (⟨e.name, e.value, contributions db e⟩ : ReportElement))
  let acc := d.elements.foldl (fun a e => accumulate a (contributions db e)) []
  refine ⟨Date.format cfg.dateLayout d.date,
    (re.map (fun el =>
        [10, 9] ++ Bytes.padRight 32 27 (shorten cfg.shorten el.name 27) ++ [32, 58] ++ fmtVal cfg.color el.value
        ++ (el.ingredients.map (fun ing =>
              [10, 9, 9] ++ Bytes.padLeft 32 20 (shorten cfg.shorten ing.name 20) ++ [32] ++ fmtVal cfg.color ing.value)).flatten)).flatten,
    [10, 9] ++ Bytes.ofString "-- TOTAL  " ++ dashes 52
        ++ ((totalsOf acc).map (fun t =>
              [10, 9, 9] ++ Bytes.padLeft 32 20 (shorten cfg.shorten t.name 20) ++ [32] ++ fmtVal cfg.color t.pos ++ [32]
              ++ fmtVal cfg.color t.neg ++ [32, 61] ++ fmtVal cfg.color t.sum)).flatten, ?_, ?_, ?_⟩
  · simp only [renderDefault, reportItem, Bool.false_eq_true, if_false, if_true, re, acc, List.append_assoc]
  · simp only [renderDefault, reportItem, Bool.false_eq_true, if_false, List.append_nil, re, List.append_assoc]
  · simp only [renderDefault, reportItem, if_true, List.map_nil, List.flatten_nil, List.append_nil, acc, List.append_assoc]

/-- the old reporter accumulates the same contributions as the templates' report item: same totals, same figures
    (the default and the left-aligned template both render `reportItem`; the old reporter re-implements the sums) -/
theorem old_reporter_same_totals (cfg : RCfg) (d : LogDay) (db : Book) (h : cfg.totals = true) :
    (reportItem db cfg d).2 = some (totalsOf (d.elements.foldl (fun a e => accumulate a (contributions db e)) []))
    ∧ (d.elements.foldl (fun a e => accumulate a (contributions db e)) [] : Accumulator)
        = accumulate [] (Spec.dayContributions db d.elements) :=
  ⟨by simp [reportItem, h], foldl_accumulate_flatten (contributions db) d.elements []⟩

/-- a name that fits its column is not changed by `--shorten` -/
theorem shorten_fits (t : Bytes) (max : Nat) (h : Bytes.runeCount t ≤ max) : shorten true t max = t := by
  simp [shorten, truncateMiddle, Bytes.runeCount] at h ⊢
  intro h2; omega

/-- **a shortened name keeps a prefix and a suffix of the original within the column width**: for `max ≥ 3` and a
    longer name, the result is the first `δ` runes, the ellipsis, and the last `max − 1 − δ` runes (each invalid
    byte shown as U+FFFD), `max` runes in all, with `δ = ⌈(max−1)/2⌉` for an even and `⌊(max−1)/2⌋` for an odd
    number of runes -/
theorem shorten_keeps_ends (t : Bytes) (max : Nat) (h3 : 3 ≤ max) (hlong : max < (Bytes.runes t).length) :
    ∃ pre mid suf δ, Bytes.runes t = pre ++ mid ++ suf
      ∧ δ = (if (Bytes.runes t).length % 2 == 0 then max / 2 else (max - 1) / 2)
      ∧ pre.length = δ ∧ suf.length = max - 1 - δ ∧ pre.length + 1 + suf.length = max
      ∧ shorten true t max = (pre.map reencode).flatten ++ [0xE2, 0x80, 0xA6] ++ (suf.map reencode).flatten := by
  let rs := Bytes.runes t
  let n := rs.length
  let δ := if n % 2 == 0 then (max - 1 + 1) / 2 else (max - 1) / 2
  have hn : max < n := hlong
  have hδ : δ ≤ max - 1 := by
    show (if n % 2 == 0 then (max - 1 + 1) / 2 else (max - 1) / 2) ≤ max - 1
    split <;> omega
  refine ⟨rs.take δ, (rs.drop δ).take (n - max + 1), rs.drop (n - max + 1 + δ), δ, ?_, ?_, ?_, ?_, ?_, ?_⟩
  · show rs = _
    have h1 : rs.drop (n - max + 1 + δ) = (rs.drop δ).drop (n - max + 1) := by rw [List.drop_drop]; congr 1; omega
    rw [h1, List.append_assoc, List.take_append_drop, List.take_append_drop]
  · show δ = _
    show (if n % 2 == 0 then (max - 1 + 1) / 2 else (max - 1) / 2) = _
    have : max - 1 + 1 = max := by omega
    rw [this]
  · simp only [List.length_take]; show min δ n = δ; omega
  · simp only [List.length_drop]; show n - (n - max + 1 + δ) = max - 1 - δ; omega
  · simp only [List.length_take, List.length_drop]
    show min δ n + 1 + (n - (n - max + 1 + δ)) = max; omega
  · have hnot : ¬ max ≥ n := by show ¬ max ≥ rs.length; omega
    have hnot3 : ¬ max < 3 := by omega
    have hnot' : ¬ max ≥ (Bytes.runes t).length := hnot
    simp only [shorten, if_true, truncateMiddle, hnot3, if_false]
    rw [if_neg hnot']

/-- `--desc` shows the same rows, ordered the other way: both orders are permutations of the same list -/
theorem desc_same_rows (es : Elements) : (stableByValue true es).Perm (stableByValue false es) :=
  (stableByValue_perm true es).trans (stableByValue_perm false es).symm

/-- a presentation flag has the same effect on the sub-command as globally (`--no-color`) -/
theorem no_color_position_irrelevant (s : Settings) (l : Layout) :
    (Options.rcOf { s with gNoColor := true, sNoColor := false } l).color = false
    ∧ (Options.rcOf { s with gNoColor := false, sNoColor := true } l).color = false
    ∧ Options.rcOf { s with gNoColor := true, sNoColor := false } l = Options.rcOf { s with gNoColor := false, sNoColor := true } l := by
  simp [Options.rcOf]

/-! non-vacuity -/
example : stripAnsi (fmtVal true 5 ++ [32] ++ fmtVal true (-5) ++ [32] ++ fmtVal true 0) = fmtVal false 5 ++ [32] ++ fmtVal false (-5) ++ [32] ++ fmtVal false 0 := by decide +kernel
example : shorten true [48, 49, 50, 51, 52, 53, 54, 55, 56, 57] 7 = [48, 49, 50, 0xE2, 0x80, 0xA6, 55, 56, 57] := by decide

/-- `formatValue` is `fmt.Sprintf` of the format the source has now for the value's sign — `negativeFormat` (red) above zero,
    `positiveFormat` (green) below, the plain format at zero and whenever colour is off (formats regenerated by `tools/facts`,
    constants written as concatenations folded). -/
theorem value_format_follows_source (color : Bool) (v : Q) :
    fmtVal color v =
      if color then
        if v > 0 then Tmpl.sprintfA (Facts.valueFormats.getD 0 []) [.q v]
        else if v < 0 then Tmpl.sprintfA (Facts.valueFormats.getD 1 []) [.q v]
        else Tmpl.sprintfA (Facts.valueFormats.getD 2 []) [.q v]
      else Tmpl.sprintfA (Facts.valueFormats.getD 2 []) [.q v] := by
  simp only [fmtVal, Tmpl.val_v0, Tmpl.val_v1, Tmpl.val_v2]

example : Tmpl.signature (Facts.valueFormats.getD 0 []) = some [true] ∧ Tmpl.signature (Facts.valueFormats.getD 1 []) = some [true]
    ∧ Tmpl.signature (Facts.valueFormats.getD 2 []) = some [true] := by decide +kernel

end Hrano.C15
