import HranoModel.Model.Options
import HranoModel.Model.Sink
import HranoModel.Model.Chan
/-! C18 property theorems (statements only in this file; helper lemmas live in Lemmas/) -/
namespace Hrano.C18
end Hrano.C18
