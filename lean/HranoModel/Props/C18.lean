import HranoModel.Lemmas.Chan
/-!
C18 — the channel parser delivers the callback parser's result under every schedule.

Property theorems only (helper lemmas: `Lemmas/Chan.lean`).  The model (`Model/Chan.lean`) is
the producer of `ParseStream` / `ParseFile` after the fixes recorded in known-findings.txt, a
consumer with one of the two policies, three rendezvous channels and explicit scheduling
choices.  "Every interleaving" is: every configuration reachable by any sequence of enabled
transitions.

What the model cannot exhibit: data races, memory-model effects, scheduler starvation.
-/
namespace Hrano.C18
open Hrano Hrano.Chan

/-- every execution is finite: a natural-number measure drops at every transition -/
theorem every_schedule_terminates (pol : Policy) (cfg cfg' : Config) (ch : Choice)
    (h : step pol cfg ch = some cfg') : measure cfg' < measure cfg :=
  step_measure pol cfg cfg' ch h

/-- the producer's message list always ends with `Done`, which is sent exactly once -/
theorem sends_end_with_done (evs : List Event) (scanErr : Bool) :
    ∃ pre, sends evs scanErr = pre ++ [Msg.done] ∧ Msg.done ∉ pre := by
  unfold sends
  induction evs with
  | nil =>
    cases scanErr
    · exact ⟨[], by simp [sends.go], by simp⟩
    · exact ⟨[Msg.ioerr], by simp [sends.go], by simp⟩
  | cons ev r ih =>
    cases ev with
    | node n =>
      obtain ⟨pre, h1, h2⟩ := ih
      exact ⟨Msg.node n :: pre, by simp [sends.go, h1], by simp [h2]⟩
    | error e => exact ⟨[Msg.perr e], by simp [sends.go], by simp⟩

/-- **Main theorem.**  In every terminal configuration reachable under any schedule, the consumer has
    returned and has received exactly the prefix of the producer's messages up to and including the
    first one its policy stops at — a function of the input and the policy alone. -/
theorem terminal_received (pol : Policy) (ms : List Msg) (hdone : Msg.done ∈ ms) (cfg : Config)
    (hr : Reachable pol ms cfg) (ht : terminal pol cfg = true) :
    cfg.c = CState.returned ∧ cfg.received = expected pol ms := by
  have inv := inv_reachable pol ms cfg hr
  obtain ⟨hs, hc⟩ := inv
  obtain ⟨p, c, rcv⟩ := cfg
  simp only at hs hc
  cases c with
  | handling m => simp [terminal, step] at ht
  | returned =>
    obtain ⟨ini, m, hrcv, hm, hini⟩ := hc
    refine ⟨rfl, ?_⟩
    show rcv = expected pol ms
    rw [← hs, hrcv, List.append_assoc]
    simp only [List.singleton_append]
    rw [expected_prefix pol ini m _ hini hm]
  | selecting =>
    exfalso
    cases p with
    | working r => cases r <;> simp [terminal, step] at ht
    | offering m r => simp [terminal, step] at ht
    | exited =>
      simp [remaining] at hs
      subst hs
      have := hc Msg.done hdone
      simp [stops] at this

/-- the documented consumer (return at the first error or at Done) sees the records before the first
    error, in order, followed by that error or by completion -/
theorem documented_consumer (evs : List Event) (scanErr : Bool) (cfg : Config)
    (hr : Reachable .stopAtFirstError (sends evs scanErr) cfg) (ht : terminal .stopAtFirstError cfg = true) :
    cfg.c = CState.returned ∧ cfg.received = expected .stopAtFirstError (sends evs scanErr) := by
  obtain ⟨pre, h1, _⟩ := sends_end_with_done evs scanErr
  exact terminal_received _ _ (by rw [h1]; simp) cfg hr ht

/-- a consumer that keeps receiving until Done sees every message exactly once (in particular each
    error once), and the producer goroutine has then exited -/
theorem draining_consumer (evs : List Event) (scanErr : Bool) (cfg : Config)
    (hr : Reachable .drain (sends evs scanErr) cfg) (ht : terminal .drain cfg = true) :
    cfg.c = CState.returned ∧ cfg.received = sends evs scanErr ∧ cfg.p = PState.exited := by
  obtain ⟨pre, h1, hpre⟩ := sends_end_with_done evs scanErr
  have hnostop : ∀ x ∈ pre, stops .drain x = false := by
    intro x hx
    cases x with
    | done => exact absurd hx hpre
    | node _ => rfl
    | perr _ => rfl
    | ioerr => rfl
  have hexp : expected .drain (sends evs scanErr) = sends evs scanErr := by
    rw [h1]
    have := expected_prefix .drain pre Msg.done [] hnostop rfl
    simpa using this
  have ⟨hc, hrcv⟩ := terminal_received .drain _ (by rw [h1]; simp) cfg hr ht
  refine ⟨hc, hrcv.trans hexp, ?_⟩
  have inv := inv_reachable _ _ cfg hr
  have hsplit := inv.split
  rw [hrcv, hexp] at hsplit
  have hrem : remaining cfg.p = [] := by simpa using hsplit
  obtain ⟨p, c, rcv⟩ := cfg
  cases p with
  | exited => rfl
  | offering m r => simp [remaining] at hrem
  | working r =>
    simp [remaining] at hrem
    subst hrem
    simp [terminal, step] at ht

/-- the same for `ParseFile` on a path that cannot be opened: the I/O error once, then Done -/
theorem unreadable_file_drains (cfg : Config)
    (hr : Reachable .drain sendsUnreadable cfg) (ht : terminal .drain cfg = true) :
    cfg.c = CState.returned ∧ cfg.received = [Msg.ioerr, Msg.done] := by
  have := terminal_received .drain sendsUnreadable (by simp [sendsUnreadable]) cfg hr ht
  simpa [sendsUnreadable, expected, stops] using this

/-- any schedule whatsoever, followed to a terminal configuration, yields the same received sequence -/
theorem schedule_independent (pol : Policy) (evs : List Event) (scanErr : Bool) (s₁ s₂ : List Choice)
    (h₁ : terminal pol (runSchedule pol s₁ (init (sends evs scanErr))) = true)
    (h₂ : terminal pol (runSchedule pol s₂ (init (sends evs scanErr))) = true) :
    (runSchedule pol s₁ (init (sends evs scanErr))).received = (runSchedule pol s₂ (init (sends evs scanErr))).received := by
  obtain ⟨pre, h1, _⟩ := sends_end_with_done evs scanErr
  have hd : Msg.done ∈ sends evs scanErr := by rw [h1]; simp
  have r₁ := terminal_received pol _ hd _ (runSchedule_reachable pol _ s₁ _ Reachable.init) h₁
  have r₂ := terminal_received pol _ hd _ (runSchedule_reachable pol _ s₂ _ Reachable.init) h₂
  rw [r₁.2, r₂.2]

/-! non-vacuity: a concrete input with a record, a malformed line and a further record; two different
    complete schedules reach terminal configurations -/
def demoEvents : List Event :=
  [.node ⟨[50], [], []⟩, .error (.badSyntax 3 [32, 120]), .node ⟨[51], [], []⟩]

def roundRobin (n : Nat) : List Choice := (List.replicate n [Choice.producerStep, .rendezvous, .consumerStep]).flatten
def eager (n : Nat) : List Choice := (List.replicate n [Choice.consumerStep, .producerStep, .producerStep, .rendezvous]).flatten

example : terminal .drain (runSchedule .drain (roundRobin 6) (init (sends demoEvents false))) = true := by decide
example : terminal .drain (runSchedule .drain (eager 6) (init (sends demoEvents false))) = true := by decide
example : (runSchedule .drain (eager 6) (init (sends demoEvents false))).received
    = [.node ⟨[50], [], []⟩, .perr (.badSyntax 3 [32, 120]), .done] := by decide
example : (runSchedule .stopAtFirstError (roundRobin 6) (init (sends demoEvents false))).received
    = [.node ⟨[50], [], []⟩, .perr (.badSyntax 3 [32, 120])] := by decide

end Hrano.C18
