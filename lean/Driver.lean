import Lean.Data.Json
import HranoModel.Model.Options
import HranoModel.Model.Sink
import HranoModel.Model.Chan
/-
  hmdriver: one JSON case per line on stdin, one JSON observation per line on stdout.
  Executes the model's definitions only; no proofs are involved here.
-/
open Lean (Json)
open Hrano Hrano.Bytes

def hx (b : Bytes) : Json := Json.str (toHex b)

def getHex (j : Json) (k : String) : Except String Bytes := do
  let s ← j.getObjValAs? String k
  match ofHex? s with
  | some b => pure b
  | none => throw s!"bad hex in {k}"

def getHexOpt (j : Json) (k : String) : Except String (Option Bytes) :=
  match j.getObjVal? k with
  | .ok Json.null => pure none
  | .ok (Json.str s) => match ofHex? s with
    | some b => pure (some b)
    | none => throw s!"bad hex in {k}"
  | .ok _ => throw s!"bad type for {k}"
  | .error _ => pure none

def getBoolD (j : Json) (k : String) : Bool :=
  match j.getObjValAs? Bool k with
  | .ok b => b
  | .error _ => false

def getIntOpt (j : Json) (k : String) : Option Int :=
  match j.getObjValAs? Int k with
  | .ok b => some b
  | .error _ => none

def getNatOpt (j : Json) (k : String) : Option Nat :=
  match j.getObjValAs? Nat k with
  | .ok b => some b
  | .error _ => none

def ratStr (q : Q) : String := s!"{q.num}/{q.den}"

def parseRat (s : String) : Except String Q :=
  match s.splitOn "/" with
  | [n, d] => match n.toInt?, d.toNat? with
    | some n, some d => if d == 0 then throw "zero den" else pure (mkRat n d)
    | _, _ => throw s!"bad rational {s}"
  | [n] => match n.toInt? with
    | some n => pure (n : Q)
    | none => throw s!"bad rational {s}"
  | _ => throw s!"bad rational {s}"

def elementsJson (es : Elements) : Json :=
  Json.arr (es.map (fun e => Json.arr #[hx e.name, Json.str (ratStr e.value)])).toArray

def notesJson (ms : List MetaPair) : Json :=
  Json.arr (ms.map (fun m => Json.arr #[hx m.name, hx m.value])).toArray

def eventJson : Event → Json
  | .node n => Json.mkObj [("t", "node"), ("header", hx n.header), ("elements", elementsJson n.elements), ("notes", notesJson n.notes)]
  | .error (.badSyntax ln raw) => Json.mkObj [("t", "badSyntax"), ("line", ln), ("raw", hx raw), ("msg", hx (Parser.PErr.message (.badSyntax ln raw)))]
  | .error (.conversion t ln raw) => Json.mkObj [("t", "conversion"), ("text", hx t), ("line", ln), ("raw", hx raw), ("msg", hx (Parser.PErr.message (.conversion t ln raw)))]

def scanErrStr : Option ScanErr → String
  | none => "none" | some .read => "read" | some .tooLong => "tooLong"

def errJson : Err → List (String × Json)
  | .parse (.badSyntax ln raw) => [("class", "badSyntax"), ("line", ln), ("raw", hx raw), ("text", hx (Parser.PErr.message (.badSyntax ln raw)))]
  | .parse (.conversion t ln raw) => [("class", "conversion"), ("line", ln), ("raw", hx raw), ("text", hx (Parser.PErr.message (.conversion t ln raw)))]
  | .scan .read => [("class", "read")]
  | .scan .tooLong => [("class", "tooLong")]
  | .date h => [("class", "date"), ("header", hx h)]
  | .depth => [("class", "depth")]
  | .open_ p => [("class", "open"), ("path", hx p)]
  | .option w => [("class", "option"), ("what", hx w)]
  | .write => [("class", "write")]

/-- a period bound that is no date in the configured layout goes to the free-text date reader (`naturaldate`), which is
    not modelled — except for texts of the shape `dddd?dd?dd` (a date in another numeric layout, or an impossible
    calendar date), which that reader rejects: those are errors in the model too -/
def numericDateShape (s : Bytes) : Bool :=
  match s with
  | [a, b, c, d, s1, e, f, s2, g, h] =>
    [a, b, c, d, e, f, g, h].all Bytes.isDigit && [s1, s2].all (fun x => x == 47 || x == 45 || x == 46)
  | _ => false

def loadErrStr : LoadErr → String
  | .configMissing => "configMissing" | .badToday => "badToday"
  | .badDate s => if numericDateShape s then "badDateNumeric" else "unsupported"
  | .badLayout => "unsupported" | .badDepth => "badDepth" | .badCommand => "unsupported"

def parseBook (j : Json) : Except String Book := do
  let arr ← j.getArr?
  arr.toList.mapM (fun rec => do
    let name ← getHex rec "name"
    let els ← (← rec.getObjVal? "els").getArr?
    let els ← els.toList.mapM (fun e => do
      let n ← getHex e "n"
      let v ← parseRat (← e.getObjValAs? String "v")
      pure (⟨n, v⟩ : Element))
    pure (name, els))

def bookJson (b : Book) : Json :=
  Json.arr (b.map (fun kv => Json.mkObj [("name", hx kv.1), ("els", elementsJson kv.2)])).toArray

def settingsOf (j : Json) : Except String Settings := do
  let cmdArr ← (← j.getObjVal? "cmd").getArr?
  let cmd ← cmdArr.toList.mapM (fun c => do
    let s ← c.getStr?
    match ofHex? s with
    | some b => pure b
    | none => throw "bad hex in cmd")
  let g := (j.getObjVal? "g").toOption.getD (Json.mkObj [])
  let s := (j.getObjVal? "s").toOption.getD (Json.mkObj [])
  let e := (j.getObjVal? "env").toOption.getD (Json.mkObj [])
  let c := (j.getObjVal? "cfg").toOption.getD (Json.mkObj [])
  pure {
    cmd
    gBegin := ← getHexOpt g "begin", gEnd := ← getHexOpt g "end", gToday := ← getHexOpt g "today"
    gDatabase := ← getHexOpt g "database", gLogfile := ← getHexOpt g "logfile", gConfig := ← getHexOpt g "config"
    gDateFormat := ← getHexOpt g "dateFormat", gMaxdepth := getIntOpt g "maxdepth"
    gNoColor := getBoolD g "noColor", gNoDatabase := getBoolD g "noDatabase"
    sBegin := ← getHexOpt s "begin", sEnd := ← getHexOpt s "end"
    sSingleFood := ← getHexOpt s "singleFood", sSingleElement := ← getHexOpt s "singleElement"
    sTemplate := ← getHexOpt s "template"
    sGroupFood := getBoolD s "groupFood", sCsv := getBoolD s "csv", sNoColor := getBoolD s "noColor"
    sNoTotals := getBoolD s "noTotals", sTotalsOnly := getBoolD s "totalsOnly", sShorten := getBoolD s "shorten"
    sOldReg := getBoolD s "oldReg", sCollapse := getBoolD s "collapse", sCollapseLast := getBoolD s "collapseLast"
    sDesc := getBoolD s "desc", sSilent := getBoolD s "silent"
    eDatabase := ← getHexOpt e "database", eLogfile := ← getHexOpt e "logfile", eConfig := ← getHexOpt e "config"
    eDateFormat := ← getHexOpt e "dateFormat", eMaxdepth := getIntOpt e "maxdepth"
    cfgExists := getBoolD c "exists"
    cNow := getIntOpt c "now", cDb := ← getHexOpt c "db", cLog := ← getHexOpt c "log"
    cDateFormat := ← getHexOpt c "dateFormat", cMaxDepth := getIntOpt c "maxDepth"
    clock := (getIntOpt j "clock").getD 0
    tzOffset := (getIntOpt j "tzOffset").getD 0 }

def filesOf (j : Json) : Except String Files := do
  match j.getObjVal? "files" with
  | .error _ => pure []
  | .ok f =>
    let arr ← f.getArr?
    arr.toList.mapM (fun kv => do
      let n ← getHex kv "name"
      let d ← getHex kv "data"
      pure (n, d))

def readFaultsOf (j : Json) : Except String ReadFaults := do
  match j.getObjVal? "readFail" with
  | .error _ => pure []
  | .ok f =>
    let arr ← f.getArr?
    arr.toList.mapM (fun kv => do
      let n ← getHex kv "name"
      let k ← kv.getObjValAs? Nat "at"
      pure (n, k))

def msgJson : Msg → Json
  | .node n => Json.mkObj [("t", "node"), ("header", hx n.header)]
  | .perr e => Json.mkObj [("t", "perr"), ("msg", hx (Parser.PErr.message e))]
  | .ioerr => Json.mkObj [("t", "ioerr")]
  | .done => Json.mkObj [("t", "done")]

def handle (j : Json) : Except String (List (String × Json)) := do
  let mode ← j.getObjValAs? String "mode"
  match mode with
  | "parse" =>
    let src ← getHex j "src"
    let failAt := getNatOpt j "failAt"
    let (evs, se) := Parser.eventsFaulty PConst.commentChar src failAt
    pure [("events", Json.arr (evs.map eventJson).toArray), ("scanErr", scanErrStr se),
          ("nonfinite", Parser.hasNonFinite PConst.commentChar src)]
  | "num" =>
    let s ← getHex j "s"
    match Num.parseFloat s with
    | .bad => pure [("r", "bad")]
    | .nonFinite => pure [("r", "nonfinite")]
    | .value q => pure [("r", "value"), ("v", ratStr q)]
  | "fmt" =>
    let q ← parseRat (← j.getObjValAs? String "v")
    let p ← j.getObjValAs? Nat "prec"
    let w := (getNatOpt j "width").getD 0
    pure [("out", hx (Num.fmtFixedW w p q))]
  | "date" =>
    let l ← getHex j "layout"
    let v ← getHex j "value"
    match Date.parseLayout l with
    | none => pure [("r", "unsupported")]
    | some lay =>
      match Date.parse lay v with
      | none => pure [("r", "error")]
      | some c => pure [("r", "ok"), ("y", c.y), ("m", c.m), ("d", c.d), ("days", Json.num (Date.toDays c)),
                        ("fmt", hx (Date.format lay c)), ("rt", toString (Date.ofDays (Date.toDays c) == c))]
  | "shorten" =>
    let s ← getHex j "s"
    let m ← j.getObjValAs? Nat "max"
    pure [("out", hx (Report.truncateMiddle s m)), ("runes", Bytes.runeCount s)]
  | "trimspace" =>
    let s ← getHex j "s"
    pure [("out", hx (trimSpace s))]
  | "resolve" =>
    let book ← parseBook (← j.getObjVal? "book")
    let n ← j.getObjValAs? Int "maxDepth"
    let order ← match j.getObjVal? "order" with
      | .ok (Json.arr a) => a.toList.mapM (fun x => do
          let s ← x.getStr?
          match ofHex? s with
          | some b => pure b
          | none => throw "bad hex in order")
      | _ => pure book.keys
    match Resolver.resolveAll n book order with
    | .error _ => pure [("r", "depth")]
    | .ok b => pure [("r", "ok"), ("book", bookJson (Report.sortBook b))]
  | "chan" =>
    let src ← getHex j "src"
    let unreadable := getBoolD j "unreadable"
    let failAt := getNatOpt j "failAt"
    let (evs, se) := Parser.eventsFaulty PConst.commentChar src failAt
    let ms := if unreadable then Chan.sendsUnreadable else Chan.sends evs se.isSome
    pure [("first", Json.arr ((Chan.expected .stopAtFirstError ms).map msgJson).toArray),
          ("drain", Json.arr ((Chan.expected .drain ms).map msgJson).toArray)]
  | "sink" =>
    -- chunks through a bufio.Writer of the given size over a sink accepting k bytes
    let chunks ← (← j.getObjVal? "chunks").getArr?
    let chunks ← chunks.toList.mapM (fun c => do
      let s ← c.getStr?
      match ofHex? s with
      | some b => pure b
      | none => throw "bad hex in chunks")
    let k ← j.getObjValAs? Nat "k"
    let size := (getNatOpt j "size").getD 4096
    let w := BufW.runChunks size k chunks
    pure [("err", w.err), ("got", hx w.sink.got)]
  | "app" =>
    let s ← settingsOf j
    let fs ← filesOf j
    let rf ← readFaultsOf j
    match Options.load s with
    | .error e => pure [("status", if loadErrStr e == "unsupported" then "unsupported" else "err"), ("class", loadErrStr e), ("out", hx [])]
    | .ok ld =>
      let o := App.run ld.cmd ld.opts fs rf id
      let nonfinite := fs.any (fun kv => Parser.hasNonFinite PConst.commentChar kv.2)
      let sink := getNatOpt j "sinkFail"
      -- a sink that fails from offset k: the command fails iff some output is lost
      let (out, err) := match sink with
        | some k => if k < o.out.length then (o.out.take k, some (o.err.getD Err.write)) else (o.out, o.err)
        | none => (o.out, o.err)
      match err with
      | none => pure [("status", "ok"), ("out", hx out), ("nonfinite", nonfinite)]
      | some e => pure ((("status", Json.str "err") :: ("out", hx out) :: ("nonfinite", Json.bool nonfinite) :: errJson e))
  | m => throw s!"unknown mode {m}"

partial def loop (h : IO.FS.Stream) (out : IO.FS.Stream) : IO Unit := do
  let line ← h.getLine
  if line.isEmpty then return ()
  let line := line.trimAscii.toString
  if line.isEmpty then loop h out else
  let res : Json := match Json.parse line with
    | .error e => Json.mkObj [("status", "driver-error"), ("error", e)]
    | .ok j =>
      let id := (j.getObjVal? "id").toOption.getD Json.null
      match handle j with
      | .error e => Json.mkObj [("id", id), ("status", "driver-error"), ("error", e)]
      | .ok kvs => Json.mkObj (("id", id) :: kvs)
  out.putStrLn res.compress
  loop h out

def main : IO Unit := do
  let out ← IO.getStdout
  loop (← IO.getStdin) out
  out.flush
