"""summarise a Go cover profile: per file statements covered / total, then the uncovered blocks with their source text"""
import sys, re, os, collections
REPO = os.environ.get('VERIF_REPO', '/repo')
MODS = [('github.com/aquilax/hranoprovod-cli/cmd/hranoprovod-cli/v3/', 'cmd/hranoprovod-cli/'), ('github.com/aquilax/hranoprovod-cli/v3/', '')]
blocks = {}
for line in open(sys.argv[1]):
    m = re.match(r'(.*):(\d+)\.(\d+),(\d+)\.(\d+) (\d+) (\d+)$', line.strip())
    if not m:
        continue
    f = m.group(1)
    for a, b in MODS:
        if f.startswith(a):
            f = b + f[len(a):]
            break
    key = (f, int(m.group(2)), int(m.group(3)), int(m.group(4)), int(m.group(5)), int(m.group(6)))
    blocks[key] = blocks.get(key, 0) + int(m.group(7))
per = collections.defaultdict(lambda: [0, 0])
unc = collections.defaultdict(list)
for (f, l1, c1, l2, c2, n), cnt in blocks.items():
    if os.path.basename(f).startswith('verif_') or f.endswith('_test.go'):
        continue
    per[f][1] += n
    if cnt:
        per[f][0] += n
    else:
        unc[f].append((l1, l2, n))
tc = sum(v[0] for v in per.values()); tt = sum(v[1] for v in per.values())
print('statements of the non-test, non-hook sources executed by the checks: %d of %d (%.1f %%)' % (tc, tt, 100.0 * tc / max(tt, 1)))
for f in sorted(per):
    c, t = per[f]
    print('%6.1f %%  %4d/%-4d %s' % (100.0 * c / max(t, 1), c, t, f))
print()
print('uncovered blocks:')
for f in sorted(unc):
    try:
        src = open(os.path.join(REPO, f)).read().split('\n')
    except OSError:
        src = []
    for l1, l2, n in sorted(unc[f]):
        text = ' | '.join(x.strip() for x in src[l1 - 1:min(l2, l1 + 3)])[:160]
        print('  %s:%d-%d (%d stmts)  %s' % (f, l1, l2, n, text))
