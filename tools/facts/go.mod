module verif/facts

go 1.17
