// facts: reads the constants the Lean model depends on from the current source of the
// repository and prints HranoModel/Facts.lean.  Function bodies are NOT translated (they are
// modelled by hand and tied to the code by the correspondence check); this extractor makes the
// theorems follow the constants the code has now.
package main

import (
	"fmt"
	"go/ast"
	"go/parser"
	"go/token"
	"os"
	"path/filepath"
	"regexp"
	"sort"
	"strconv"
	"strings"
)

var fset = token.NewFileSet()

// parse one file; a file that has been renamed or removed gives an empty file (its facts then fall back)
func parse(path string) *ast.File {
	f, err := parser.ParseFile(fset, path, nil, 0)
	if err != nil {
		fallback("file " + path + " (" + err.Error() + ")")
		return &ast.File{}
	}
	return f
}

// parseDir merges the declarations of all non-test, non-verif Go files of a package directory, so that moving a
// declaration from one file of the package to another does not matter
func parseDir(dir string) *ast.File {
	out := &ast.File{}
	names, _ := filepath.Glob(filepath.Join(dir, "*.go"))
	sort.Strings(names)
	for _, n := range names {
		b := filepath.Base(n)
		if strings.HasSuffix(b, "_test.go") || strings.HasPrefix(b, "verif_") {
			continue
		}
		f, err := parser.ParseFile(fset, n, nil, 0)
		if err != nil {
			continue
		}
		out.Decls = append(out.Decls, f.Decls...)
	}
	return out
}

// constants of a file: name -> literal (string / char / int), as Go values
func consts(f *ast.File) map[string]interface{} {
	out := map[string]interface{}{}
	for _, d := range f.Decls {
		gd, ok := d.(*ast.GenDecl)
		if !ok || gd.Tok != token.CONST {
			continue
		}
		for _, s := range gd.Specs {
			vs := s.(*ast.ValueSpec)
			for i, n := range vs.Names {
				if i >= len(vs.Values) {
					continue
				}
				if v, ok := lit(vs.Values[i]); ok {
					out[n.Name] = v
				}
			}
		}
	}
	return out
}

// string constants of a package, including those written as concatenations of literals and other constants
// (`const negativeFormat = red + "%10.2f" + reset`)
func stringConsts(f *ast.File) map[string]string {
	exprs := map[string]ast.Expr{}
	for _, d := range f.Decls {
		gd, ok := d.(*ast.GenDecl)
		if !ok || gd.Tok != token.CONST {
			continue
		}
		for _, s := range gd.Specs {
			vs := s.(*ast.ValueSpec)
			for i, n := range vs.Names {
				if i < len(vs.Values) {
					exprs[n.Name] = vs.Values[i]
				}
			}
		}
	}
	out := map[string]string{}
	var eval func(e ast.Expr, depth int) (string, bool)
	eval = func(e ast.Expr, depth int) (string, bool) {
		if depth > 20 {
			return "", false
		}
		switch x := e.(type) {
		case *ast.BasicLit:
			if v, ok := lit(x); ok {
				if sv, ok := v.(string); ok {
					return sv, true
				}
			}
		case *ast.Ident:
			if ex, ok := exprs[x.Name]; ok {
				return eval(ex, depth+1)
			}
		case *ast.ParenExpr:
			return eval(x.X, depth+1)
		case *ast.BinaryExpr:
			if x.Op == token.ADD {
				a, ok1 := eval(x.X, depth+1)
				b, ok2 := eval(x.Y, depth+1)
				return a + b, ok1 && ok2
			}
		}
		return "", false
	}
	for n, e := range exprs {
		if v, ok := eval(e, 0); ok {
			out[n] = v
		}
	}
	return out
}

func lit(e ast.Expr) (interface{}, bool) {
	bl, ok := e.(*ast.BasicLit)
	if !ok {
		return nil, false
	}
	switch bl.Kind {
	case token.STRING:
		s, err := strconv.Unquote(bl.Value)
		return s, err == nil
	case token.CHAR:
		s, _, _, err := strconv.UnquoteChar(bl.Value[1:len(bl.Value)-1], '\'')
		return int(s), err == nil
	case token.INT:
		n, err := strconv.Atoi(bl.Value)
		return n, err == nil
	}
	return nil, false
}

// string literals passed as argument `arg` of calls to pkg.fn anywhere in the file
func callArgs(f *ast.File, fn string, arg int) []string {
	var out []string
	ast.Inspect(f, func(n ast.Node) bool {
		ce, ok := n.(*ast.CallExpr)
		if !ok {
			return true
		}
		name := ""
		switch fx := ce.Fun.(type) {
		case *ast.SelectorExpr:
			if id, ok := fx.X.(*ast.Ident); ok {
				name = id.Name + "." + fx.Sel.Name
			}
		}
		if name == fn && arg < len(ce.Args) {
			if v, ok := lit(ce.Args[arg]); ok {
				if s, ok := v.(string); ok {
					out = append(out, s)
				}
			}
		}
		return true
	})
	return out
}

// the format string used by method Error of the given receiver type
func errorFormat(f *ast.File, recv string) string {
	for _, d := range f.Decls {
		fd, ok := d.(*ast.FuncDecl)
		if !ok || fd.Name.Name != "Error" || fd.Recv == nil {
			continue
		}
		t := fd.Recv.List[0].Type
		if st, ok := t.(*ast.StarExpr); ok {
			t = st.X
		}
		if id, ok := t.(*ast.Ident); !ok || id.Name != recv {
			continue
		}
		file := &ast.File{Decls: []ast.Decl{fd}}
		if a := callArgs(file, "fmt.Sprintf", 0); len(a) > 0 {
			return a[0]
		}
	}
	return ""
}

func bytesLit(s string) string {
	parts := make([]string, len(s))
	for i := 0; i < len(s); i++ {
		parts[i] = strconv.Itoa(int(s[i]))
	}
	return "[" + strings.Join(parts, ", ") + "]"
}

// A fact that can no longer be read off the source in the shape this extractor knows (a constant was inlined, a format string
// became hand-written concatenation, a library call became a loop) falls back to the value the model was written against and
// is listed in the generated file.  That is not a failure: the behaviour behind the fact is what the correspondence check
// compares on every run; a fallback only means this one constant is no longer *regenerated*.
var fallbacks []string

func fallback(what string) {
	fallbacks = append(fallbacks, what)
}

func str(m map[string]interface{}, k string, def string) string {
	v, ok := m[k].(string)
	if !ok {
		fallback(k)
		return def
	}
	return v
}

func num(m map[string]interface{}, k string, def int) int {
	v, ok := m[k].(int)
	if !ok {
		fallback(k)
		return def
	}
	return v
}

var precRe = regexp.MustCompile(`%0?\.([0-9]+)f`)

func precisions(f *ast.File) []int {
	var out []int
	ast.Inspect(f, func(n ast.Node) bool {
		if bl, ok := n.(*ast.BasicLit); ok && bl.Kind == token.STRING {
			s, _ := strconv.Unquote(bl.Value)
			for _, m := range precRe.FindAllStringSubmatch(s, -1) {
				p, _ := strconv.Atoi(m[1])
				out = append(out, p)
			}
		}
		return true
	})
	return out
}

var printfRe = regexp.MustCompile(`printf ("(?:[^"\\]|\\.)*")`)
var shortenRe = regexp.MustCompile(`shorten \$[A-Za-z]+\.Name ([0-9]+)`)
var totalsHeadRe = regexp.MustCompile(`(?s)\{\{- if \.Totals \}\}\n(.*?)\n\{\{- range`)

// the row formats of a register template: the format strings of its `printf` actions, in order (food row, ingredient row,
// total row), the widths passed to `shorten`, and the literal line that opens the totals block
func templateFacts(tmpl string, what string, defFormats []string, defWidths []int, defHead string) ([]string, []int, string) {
	var formats []string
	for _, m := range printfRe.FindAllStringSubmatch(tmpl, -1) {
		if f, err := strconv.Unquote(m[1]); err == nil {
			formats = append(formats, f)
		}
	}
	if len(formats) != 3 {
		fallback("the three printf formats of " + what)
		formats = defFormats
	}
	var widths []int
	for _, m := range shortenRe.FindAllStringSubmatch(tmpl, -1) {
		n, _ := strconv.Atoi(m[1])
		widths = append(widths, n)
	}
	if len(widths) != len(defWidths) {
		fallback("the shorten widths of " + what)
		widths = defWidths
	}
	head := defHead
	if m := totalsHeadRe.FindStringSubmatch(tmpl); m != nil {
		head = m[1]
	} else {
		fallback("the line that opens the totals block of " + what)
	}
	return formats, widths, head
}

func bytesLits(ss []string) string {
	parts := make([]string, len(ss))
	for i, s := range ss {
		parts[i] = bytesLit(s)
	}
	return "[" + strings.Join(parts, ", ") + "]"
}

func natLits(ns []int) string {
	parts := make([]string, len(ns))
	for i, n := range ns {
		parts[i] = strconv.Itoa(n)
	}
	return "[" + strings.Join(parts, ", ") + "]"
}

func main() {
	repo := "/repo"
	if len(os.Args) > 1 {
		repo = os.Args[1]
	}
	p := parseDir(filepath.Join(repo, "parser"))
	pc := consts(p)
	pe := p
	rs := consts(parseDir(filepath.Join(repo, "resolver")))
	cli := filepath.Join(repo, "cmd", "hranoprovod-cli", "internal")
	op := consts(parseDir(filepath.Join(cli, "options")))
	csvr := parse(filepath.Join(cli, "csv", "csv_reporter.go"))
	csvc := consts(parseDir(filepath.Join(cli, "csv")))
	csvd := parse(filepath.Join(cli, "csv", "csv_database_reporter.go"))
	pr := parse(filepath.Join(cli, "print", "print_reporter.go"))
	tree := consts(parseDir(repo))
	reg := consts(parseDir(filepath.Join(cli, "register")))
	dFmt, dW, dHead := templateFacts(str(reg, "defaultTemplate", ""), "register.defaultTemplate",
		[]string{"\t%-27s :%s", "\t\t%20s %s", "\t\t%20s %s %s =%s"}, []int{27, 20, 20},
		"\t-- TOTAL  ----------------------------------------------------")
	oFmt := callArgs(parse(filepath.Join(cli, "register", "reg_reporter.go")), "fmt.Fprintf", 1)
	if len(oFmt) != 5 {
		fallback("the five fmt.Fprintf formats of reg_reporter.go")
		oFmt = []string{"%s\n", "\t%-27s :%s\n", "\t\t%20s %s\n", "\t-- %s %s\n", "\t\t%20s %s %s =%s\n"}
	}
	// the fmt.Fprintf formats of the period reporters, the balance reporters and print (argument 1 of fmt.Fprintf), in source order
	fp := func(file string, n int, def []string) []string {
		got := callArgs(parse(filepath.Join(cli, file)), "fmt.Fprintf", 1)
		if len(got) != n {
			fallback(fmt.Sprintf("the %d fmt.Fprintf formats of %s", n, file))
			return def
		}
		return got
	}
	balRow := "%10.2f | %s%s\n"
	totFmt := fp("report/total_reporter.go", 2, []string{"%12s  %12s  %12s  %s\n", "%12.2f  %12.2f  %12.2f  %s\n"})
	qtyFmt := fp("report/quantity_reporter.go", 1, []string{"%0.2f\t%s\n"})
	elFmt := fp("report/element_reporter.go", 1, []string{"%0.2f\t%s\n"})
	balFmt := fp("balance/balance_reporter.go", 3, []string{balRow, balRow, balRow})
	balCFmt := fp("balance/balance_reporter_collapsed.go", 1, []string{balRow})
	balSFmt := fp("balance/balance_reporter_single.go", 2, []string{"%s|\n", "%10.2f | %s\n"})
	prFmt := fp("print/print_reporter.go", 4, []string{"%s:\n", "  # %s: %s\n", "  # %s\n", "  - %s: %0.2f\n"})
	// formatValue: the two coloured formats (constants written as concatenations) and the plain one
	rep := parseDir(filepath.Join(cli, "reporter"))
	repc := stringConsts(rep)
	valFmt := []string{repc["negativeFormat"], repc["positiveFormat"]}
	plain := callArgs(rep, "fmt.Sprintf", 0)
	if valFmt[0] == "" || valFmt[1] == "" || len(plain) != 2 || plain[0] != plain[1] {
		fallback("the formats of reporter.getFormatValue")
		valFmt = []string{"\x1b[31m%10.2f\x1b[0m", "\x1b[32m%10.2f\x1b[0m", "%10.2f"}
	} else {
		valFmt = append(valFmt, plain[0])
	}
	stFmt := fp("stats/stats_reporter.go", 7, []string{"  Database file:      %s\n", "  Database records:   %d\n", "  Log file:           %s\n",
		"  Log records:        %d\n", "  Today:              %s\n", "  First record:       %s (%d days ago)\n", "  Last record:        %s (%d days ago)\n"})
	// summary template: the literal text after the date, between value and name in both kinds of rows, and the rule line
	sumT := str(consts(parseDir(filepath.Join(cli, "summary"))), "summaryTemplate", "")
	sumPieces := []string{}
	for _, re := range []string{
		`\{\{formatDate \.Time\}\}([^\n]*)\n`,
		`\{\{ formatValue \$total\.Positive \}\}(.*?)\{\{ \$total\.Name \}\}`,
		`\{\{- end\}\}\n\{\{- end\}\}\n([^\n{]*)\n\{\{- if \.Elements`,
		`\{\{ formatValue \$el\.Value \}\}(.*?)\{\{ \$el\.Name \}\}`,
	} {
		if m := regexp.MustCompile(re).FindStringSubmatch(sumT); m != nil {
			sumPieces = append(sumPieces, m[1])
		}
	}
	if len(sumPieces) != 4 {
		fallback("the four literal pieces of summary.summaryTemplate")
		sumPieces = []string{" :", " : ", "------------", " : "}
	}
	lFmt, lW, lHead := templateFacts(str(reg, "leftAlignedTemplate", ""), "register.leftAlignedTemplate",
		[]string{"  %s  %s", "  %s    %s", "  %s %s = %s  %s"}, []int{},
		"------------------------------------------------------- TOTAL --")

	cut := callArgs(p, "strings.LastIndexAny", 1)
	if len(cut) != 1 {
		fallback("the cut set of strings.LastIndexAny in parser.go")
		cut = []string{"\t "}
	}
	bad := errorFormat(pe, "ErrorBadSyntax")
	if bad == "" {
		fallback("the format of ErrorBadSyntax.Error")
		bad = "bad syntax on line %d, \"%s\"."
	}
	conv := errorFormat(pe, "ErrorConversion")
	if conv == "" {
		fallback("the format of ErrorConversion.Error")
		conv = "error converting \"%s\" to float on line %d \"%s\"."
	}
	one := func(ps []int, def int, what string) int {
		if len(ps) != 1 {
			fallback(what)
			return def
		}
		return ps[0]
	}
	lp := []int{one(precisions(csvr), 3, "the %.Nf of csv_reporter.go")}
	dp := []int{one(precisions(csvd), 2, "the %.Nf of csv_database_reporter.go")}
	pp := []int{one(precisions(pr), 2, "the %.Nf of print_reporter.go")}
	_ = sort.Strings

	var body strings.Builder
	w := func(format string, a ...interface{}) { fmt.Fprintf(&body, format+"\n", a...) }
	w("namespace Hrano.Facts")
	w("")
	w("/-- parser.trimText -/")
	w("def trimText : List UInt8 := %s", bytesLit(str(pc, "trimText", "\t \n:\"-")))
	w("/-- parser.trimQty -/")
	w("def trimQty : List UInt8 := %s", bytesLit(str(pc, "trimQty", "\t \n:\"")))
	w("/-- parser.DefaultCommentChar -/")
	w("def commentChar : UInt8 := %d", num(pc, "DefaultCommentChar", 35))
	w("def runeSpace : UInt8 := %d", num(pc, "runeSpace", 32))
	w("def runeTab : UInt8 := %d", num(pc, "runeTab", 9))
	w("def runeArrayItem : UInt8 := %d", num(pc, "runeArrayItem", 45))
	w("/-- cut set of strings.LastIndexAny in ParseStreamCallback -/")
	w("def blanks : List UInt8 := %s", bytesLit(cut[0]))
	w("/-- parser.DefaultDateFormat -/")
	w("def defaultDateFormat : List UInt8 := %s", bytesLit(str(pc, "DefaultDateFormat", "2006/01/02")))
	w("/-- format of ErrorBadSyntax.Error (arguments: line number, line) -/")
	w("def badSyntaxFormat : List UInt8 := %s", bytesLit(bad))
	w("/-- format of ErrorConversion.Error (arguments: text, line number, line) -/")
	w("def conversionFormat : List UInt8 := %s", bytesLit(conv))
	w("/-- resolver.DefaultMaxDepth -/")
	w("def defaultMaxDepth : Int := %d", num(rs, "DefaultMaxDepth", 10))
	w("/-- options.MaxAllowedDepth -/")
	w("def maxAllowedDepth : Int := %d", num(op, "MaxAllowedDepth", 10000))
	w("def defaultDbFilename : List UInt8 := %s", bytesLit(str(op, "DefaultDbFilename", "food.yaml")))
	w("def defaultLogFilename : List UInt8 := %s", bytesLit(str(op, "DefaultLogFilename", "log.yaml")))
	w("/-- csv.DefaultOutputTimeFormat -/")
	w("def csvTimeFormat : List UInt8 := %s", bytesLit(str(csvc, "DefaultOutputTimeFormat", "2006-01-02")))
	w("/-- csv.DefaultCSVSeparator -/")
	w("def csvSeparator : UInt8 := %d", num(csvc, "DefaultCSVSeparator", 44))
	w("/-- precision of the amount column of `csv log` -/")
	w("def csvLogPrecision : Nat := %d", lp[0])
	w("/-- precision of the amount column of `csv database` / `csv database-resolved` -/")
	w("def csvDbPrecision : Nat := %d", dp[0])
	w("/-- precision of the quantities `print` writes -/")
	w("def printPrecision : Nat := %d", pp[0])
	w("/-- hranoprovod.DefaultCategorySeparator -/")
	w("def categorySeparator : List UInt8 := %s", bytesLit(str(tree, "DefaultCategorySeparator", "/")))
	w("/-- register.defaultTemplate: the formats of its printf actions (food row, ingredient row, total row) -/")
	w("def regDefaultFormats : List (List UInt8) := %s", bytesLits(dFmt))
	w("/-- register.defaultTemplate: the widths passed to shorten (food, ingredient, total) -/")
	w("def regDefaultShorten : List Nat := %s", natLits(dW))
	w("/-- register.defaultTemplate: the literal line that opens the totals block -/")
	w("def regDefaultTotalsHead : List UInt8 := %s", bytesLit(dHead))
	w("/-- register.leftAlignedTemplate: the formats of its printf actions -/")
	w("def regLeftFormats : List (List UInt8) := %s", bytesLits(lFmt))
	w("def regLeftShorten : List Nat := %s", natLits(lW))
	w("/-- reg_reporter.go (the old reporter): the formats of its fmt.Fprintf calls (date, food, ingredient, totals head, total) -/")
	w("def regOldFormats : List (List UInt8) := %s", bytesLits(oFmt))
	w("/-- total_reporter.go: header row, figure row -/")
	w("def totalFormats : List (List UInt8) := %s", bytesLits(totFmt))
	w("/-- quantity_reporter.go and element_reporter.go: the row -/")
	w("def quantityFormats : List (List UInt8) := %s", bytesLits(append(qtyFmt, elFmt...)))
	w("/-- balance_reporter.go (three rows), balance_reporter_collapsed.go (one row) -/")
	w("def balanceFormats : List (List UInt8) := %s", bytesLits(append(balFmt, balCFmt...)))
	w("/-- balance_reporter_single.go: the rule, the total row -/")
	w("def balanceSingleFormats : List (List UInt8) := %s", bytesLits(balSFmt))
	w("/-- print_reporter.go: heading, named note, plain note, element -/")
	w("def printFormats : List (List UInt8) := %s", bytesLits(prFmt))
	w("/-- reporter.getFormatValue: the format used for a value > 0, for a value < 0, and without colour / for 0 -/")
	w("def valueFormats : List (List UInt8) := %s", bytesLits(valFmt))
	w("/-- stats_reporter.go: the seven lines -/")
	w("def statsFormats : List (List UInt8) := %s", bytesLits(stFmt))
	w("/-- summary.summaryTemplate: the text after the date, between value and name of a total row, the rule line, between value and name of a food row -/")
	w("def summaryPieces : List (List UInt8) := %s", bytesLits(sumPieces))
	w("def regLeftTotalsHead : List UInt8 := %s", bytesLit(lHead))
	w("")
	w("end Hrano.Facts")
	fmt.Println("/- GENERATED by tools/facts from the repository's current source on every run of a check. Do not edit. -/")
	for _, f := range fallbacks {
		// reported on stderr as well, so that the check can put it into its evidence
		fmt.Fprintln(os.Stderr, "facts: not found in the source in the expected shape, model default kept:", f)
		fmt.Printf("-- not regenerated (model default kept, behaviour still compared by the correspondence check): %s\n", f)
	}
	fmt.Print(body.String())
}
