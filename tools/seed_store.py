#!/usr/bin/env python3
"""seed_store.py <ID> <name> <caught-by...> : keep a confirmed seeded change under /verif/seeded/<name>/"""
import json, os, shutil, sys, glob
sid, name = sys.argv[1], sys.argv[2]
caught = sys.argv[3:]
src = (os.environ.get('SEEDOUT') or '/tmp/seed/out') + '/%s' % sid
dst = '/verif/seeded/%s' % name
os.makedirs(dst, exist_ok=True)
for f in glob.glob(src + '/*'):
    if os.path.isfile(f):
        shutil.copy(f, dst)
meta = json.load(open(src + '/meta.json'))
meta['confirmed_by_me'] = ('tools/seed_verify.sh %s in the scratch worktree: builds, existing suite passes with the change, the demonstration fails with it and passes without it; '
                           'tools/seed_run.sh applied it to %s, ran the checks (VERIF_REPO) and undid it (git checkout -- .)'
                           % (sid, os.environ.get('SEED_APPLY') and 'a scratch worktree of /repo (a background sweep was using /repo)' or '/repo'))
meta['caught_by'] = caught
json.dump(meta, open(dst + '/meta.json', 'w'), indent=1)
print('stored', dst)
