#!/bin/sh
# refactor_run.sh <dir-with-r*.diff> : apply every behaviour-preserving diff of the directory together to /repo, run the quick
# tier of all 18 checks, revert.  Any VIOLATION is a false alarm of the machinery.
D=$1
cd /verif
mkdir -p .cache/evidence.keep && cp evidence/*.json .cache/evidence.keep/
for f in $D/r*.diff; do git -C /repo apply $f || { echo "does not apply: $f"; git -C /repo checkout -- .; exit 2; }; done
git -C /repo status --short | head -20
for i in 01 02 03 04 05 06 07 08 09 10 11 12 13 14 15 16 17 18; do ./check C$i --tier ${TIER:-quick} 2>&1 | grep -E "VIOLATION|tier=|INFRA" | sed -E 's/corr_ops=.*evaluations/evaluations/'; done
git -C /repo checkout -- .
cp .cache/evidence.keep/*.json evidence/
git -C /repo status --short
