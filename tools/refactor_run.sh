#!/bin/sh
# refactor_run.sh <dir-with-r*.diff> : apply every behaviour-preserving diff of the directory together, run the quick tier of
# all 18 checks, revert.  Any VIOLATION is a false alarm of the machinery.  With SEED_APPLY=<scratch worktree of /repo> the
# diffs are applied there and the checks pointed at it (VERIF_REPO); otherwise /repo itself is used.
D=$1
R=${SEED_APPLY:-/repo}
cd /verif
rm -rf .cache/evidence.keep && cp -r evidence .cache/evidence.keep
for f in $D/r*.diff; do git -C $R apply $f || { echo "does not apply: $f"; git -C $R checkout -- .; exit 2; }; done
git -C $R status --short | wc -l
for i in 01 02 03 04 05 06 07 08 09 10 11 12 13 14 15 16 17 18; do VERIF_REPO=$R ./check C$i --tier ${TIER:-quick} 2>&1 | grep -E "VIOLATION|tier=|INFRA" | sed -E 's/corr_ops=.*evaluations/evaluations/'; done
git -C $R checkout -- .
rm -rf evidence && mv .cache/evidence.keep evidence
git -C $R status --short
