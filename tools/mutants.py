#!/usr/bin/env python3
"""mutants.py [--workers N] [--only REGEX] [--out FILE] : systematic mutation run.

Every mutation site of the non-test, non-verif Go sources (tools/mutate: operator replacement, negated conditions,
constants +-1, break<->continue, deleted calls, emptied error checks) is applied on its own in a scratch worktree of /repo.
Mutants that do not compile or that the repository's own test suite kills are set aside; every other mutant is run against the
quick tier of the checks (likeliest first) until one raises a VIOLATION.  Result lines go to FILE (JSON lines):
   {"file", "k", "desc", "result": stillborn | killed_by_tests | caught:<Cxx> | survived | infra:<...>}
Each worker has its own worktree of /repo and its own copy of /verif (cache, evidence and replays must not collide), all
under a scratch directory that is removed at the end.  Not registered in MANIFEST.json: it is a study of the checks."""
import json, os, re, shutil, subprocess, sys, tempfile, threading, queue, time

VERIF = os.path.dirname(os.path.dirname(os.path.abspath(__file__)))
REPO = '/repo'
ORDER = [
    (r'^parser/', ['C04', 'C09', 'C10', 'C18', 'C08', 'C12', 'C14']),
    (r'^(resolver/|element\.go|node\.go|accumulator\.go)', ['C01', 'C11', 'C02', 'C07', 'C05', 'C13']),
    (r'(tree_aggregator\.go|/balance/)', ['C03', 'C07', 'C15', 'C08']),
    (r'/(register|reporter)/', ['C02', 'C15', 'C12', 'C07', 'C17', 'C05']),
    (r'/report/', ['C07', 'C12', 'C05', 'C17', 'C06']),
    (r'/csv/', ['C13', 'C07', 'C09', 'C10', 'C17', 'C06']),
    (r'/print/', ['C14', 'C12', 'C17']),
    (r'(/options/|root\.go|^filter/)', ['C16', 'C06', 'C08', 'C15']),
    (r'/(utils|lint|stats|summary|gen)/', ['C09', 'C10', 'C07', 'C17', 'C16', 'C06', 'C05']),
]
ALL = ['C%02d' % i for i in range(1, 19)]


def order_for(rel):
    first = []
    for pat, cs in ORDER:
        if re.search(pat, rel):
            first = cs
            break
    return first + [c for c in ALL if c not in first]


def sh(cmd, cwd=None, env=None, timeout=1200):
    try:
        r = subprocess.run(cmd, cwd=cwd, env=env, capture_output=True, text=True, errors='replace', timeout=timeout)
        return r.returncode, r.stdout + r.stderr
    except subprocess.TimeoutExpired:
        return 124, 'timeout'


def worker(i, root, q, out, lock, mutate_bin):
    wt = os.path.join(root, 'wt%d' % i)
    vf = os.path.join(root, 'v%d' % i)
    sh(['git', '-C', REPO, 'worktree', 'add', '-q', '--detach', wt, 'HEAD'])
    sh(['rsync', '-a', '--exclude', '.git', '--exclude', '.cache/run-*', '--exclude', 'replays', VERIF + '/', vf + '/'])
    gw = os.path.join(vf, '.cache', 'gowork-mut')
    os.makedirs(gw, exist_ok=True)
    open(os.path.join(gw, 'go.work'), 'w').write('go 1.17\n\nuse (\n\t%s\n\t%s/cmd/hranoprovod-cli\n)\n' % (wt, wt))
    if os.path.exists(os.path.join(REPO, 'go.work.sum')):
        shutil.copy(os.path.join(REPO, 'go.work.sum'), os.path.join(gw, 'go.work.sum'))
    genv = dict(os.environ, GOFLAGS='', GOPROXY='off', GOSUMDB='off', GOTOOLCHAIN='local', GOWORK=os.path.join(gw, 'go.work'))
    cenv = dict(os.environ, VERIF_REPO=wt)
    while True:
        try:
            rel, k, desc = q.get_nowait()
        except queue.Empty:
            break
        t0 = time.time()
        src = os.path.join(REPO, rel)
        rc, mutated = sh([mutate_bin, '-apply', str(k), src])
        res = None
        if rc != 0:
            res = 'infra:mutate failed'
        else:
            open(os.path.join(wt, rel), 'w').write(mutated)
            for m in ('.', 'cmd/hranoprovod-cli'):
                rc, o = sh(['go', 'build', './...'], cwd=os.path.join(wt, m), env=genv)
                if rc != 0:
                    res = 'stillborn'
                    break
            if res is None:
                rc, o = sh(['go', 'vet', '-tags', 'verif', './...'], cwd=os.path.join(wt, 'cmd/hranoprovod-cli'), env=genv)
                if rc != 0 and 'cannot' in o + '' and 'vet:' not in o:
                    pass
            if res is None:
                for m in ('.', 'cmd/hranoprovod-cli'):
                    rc, o = sh(['go', 'test', '-vet=off', '-count=1', './...'], cwd=os.path.join(wt, m), env=genv, timeout=300)
                    if rc != 0:
                        res = 'killed_by_tests'
                        break
            if res is None:
                res = 'survived'
                for c in order_for(rel):
                    rc, o = sh([os.path.join(vf, 'check'), c, '--tier', 'quick'], cwd=vf, env=cenv, timeout=900)
                    if re.search(r'^VIOLATION', o, re.M):
                        nf = 'no-failing-input-found' in [l for l in o.split('\n') if l.startswith('VIOLATION')][0]
                        res = 'caught:%s%s' % (c, ' (no failing input)' if nf else '')
                        break
                    if re.search(r'^INFRA', o, re.M) or rc == 124:
                        res = 'infra:%s %s' % (c, (re.findall(r'^INFRA.*', o, re.M) or ['timeout'])[0][:200])
                        break
        sh(['git', '-C', wt, 'checkout', '-q', '--', '.'])
        line = json.dumps({'file': rel, 'k': k, 'desc': desc, 'result': res, 'secs': round(time.time() - t0, 1)})
        with lock:
            out.write(line + '\n')
            out.flush()
    sh(['git', '-C', REPO, 'worktree', 'remove', '--force', wt])


def main():
    args = sys.argv[1:]
    workers, only, outp = 4, '.', os.path.join(VERIF, '.cache', 'mutants.jsonl')
    while args:
        a = args.pop(0)
        if a == '--workers':
            workers = int(args.pop(0))
        elif a == '--only':
            only = args.pop(0)
        elif a == '--out':
            outp = args.pop(0)
    root = tempfile.mkdtemp(prefix='hr-mut-')
    mutate_bin = os.path.join(root, 'mutate')
    env = dict(os.environ, GOFLAGS='-mod=mod', GOWORK='off', GOPROXY='off')
    rc, o = sh(['go', 'build', '-o', mutate_bin, '.'], cwd=os.path.join(VERIF, 'tools', 'mutate'), env=env)
    if rc != 0:
        print(o)
        sys.exit(2)
    done = set()
    if os.path.exists(outp):
        for l in open(outp):
            try:
                j = json.loads(l)
                done.add((j['file'], j['k']))
            except Exception:
                pass
    q = queue.Queue()
    n = 0
    for dp, dn, fn in os.walk(REPO):
        if '.git' in dp or 'testutils' in dp:
            continue
        for f in sorted(fn):
            if not f.endswith('.go') or f.endswith('_test.go') or f.startswith('verif_'):
                continue
            rel = os.path.relpath(os.path.join(dp, f), REPO)
            if not re.search(only, rel):
                continue
            rc, o = sh([mutate_bin, '-list', os.path.join(REPO, rel)])
            for l in o.split('\n')[1:]:
                if '\t' in l:
                    k, desc = l.split('\t', 1)
                    if (rel, int(k)) not in done:
                        q.put((rel, int(k), desc.replace(REPO + '/', '')))
                        n += 1
    print('%d mutants to run (%d already done), %d workers, scratch %s' % (n, len(done), workers, root), flush=True)
    lock = threading.Lock()
    with open(outp, 'a') as out:
        ts = [threading.Thread(target=worker, args=(i, root, q, out, lock, mutate_bin)) for i in range(workers)]
        for t in ts:
            t.start()
        for t in ts:
            t.join()
    subprocess.run(['git', '-C', REPO, 'worktree', 'prune'])
    shutil.rmtree(root, ignore_errors=True)
    print('done')


if __name__ == '__main__':
    main()
