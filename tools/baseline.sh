#!/bin/sh
# Runs the repository's own test suite with the verif build tag OFF, offline, without touching
# /repo/go.work.sum (a private go.work in /verif/.cache names the same two modules).
set -e
REPO=${VERIF_REPO:-/repo}
HERE=$(cd "$(dirname "$0")/.." && pwd)
mkdir -p "$HERE/.cache/gowork"
printf 'go 1.17\n\nuse (\n\t%s\n\t%s/cmd/hranoprovod-cli\n)\n' "$REPO" "$REPO" > "$HERE/.cache/gowork/go.work"
[ -f "$REPO/go.work.sum" ] && cp "$REPO/go.work.sum" "$HERE/.cache/gowork/go.work.sum"
export GOFLAGS= GOPROXY=off GOSUMDB=off GOTOOLCHAIN=local GOWORK="$HERE/.cache/gowork/go.work"
rc=0
for m in . cmd/hranoprovod-cli; do
  (cd "$REPO/$m" && go test -vet=off -count=1 "$@" ./...) || rc=1
done
exit $rc
