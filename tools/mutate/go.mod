module mutate

go 1.17
