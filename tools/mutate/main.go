// mutate: a small mutation engine for the repository under test (go/ast based).
//
//	mutate -list <file.go>          prints the number of mutation sites of the file and one line per site
//	mutate -apply <k> <file.go>     prints the file with mutation number k applied
//
// Operators: relational / logical / arithmetic operator replacement, negated `if` conditions, dropped `!`,
// small integer constants +1 / 0<->1, break<->continue, deleted call statements, emptied `if err != nil` bodies.
package main

import (
	"bytes"
	"fmt"
	"go/ast"
	"go/parser"
	"go/printer"
	"go/token"
	"os"
	"strconv"
)

type site struct {
	desc  string
	apply func()
}

var swaps = map[token.Token][]token.Token{
	token.LSS: {token.LEQ, token.GEQ}, token.LEQ: {token.LSS, token.GTR}, token.GTR: {token.GEQ, token.LEQ}, token.GEQ: {token.GTR, token.LSS},
	token.EQL: {token.NEQ}, token.NEQ: {token.EQL}, token.LAND: {token.LOR}, token.LOR: {token.LAND},
	token.ADD: {token.SUB}, token.SUB: {token.ADD}, token.MUL: {token.QUO}, token.QUO: {token.MUL},
}

// second family of operators (-family 2): swapped adjacent call arguments, `x += y` -> `x = y`, numbers inside format
// strings (widths, precisions) +1, `return <expr>, nil`-style results left alone but a lone `return err` -> `return nil`
func collect2(fset *token.FileSet, f *ast.File) []site {
	var sites []site
	pos := func(n ast.Node) string { return fset.Position(n.Pos()).String() }
	ast.Inspect(f, func(n ast.Node) bool {
		switch x := n.(type) {
		case *ast.CallExpr:
			for i := 0; i+1 < len(x.Args); i++ {
				i := i
				if _, ok := x.Args[i].(*ast.BasicLit); ok {
					if _, ok2 := x.Args[i+1].(*ast.BasicLit); ok2 {
						continue
					}
				}
				sites = append(sites, site{fmt.Sprintf("%s: swap arguments %d and %d", pos(x), i, i+1), func() { x.Args[i], x.Args[i+1] = x.Args[i+1], x.Args[i] }})
			}
		case *ast.AssignStmt:
			if x.Tok == token.ADD_ASSIGN || x.Tok == token.SUB_ASSIGN || x.Tok == token.MUL_ASSIGN {
				sites = append(sites, site{fmt.Sprintf("%s: %s -> =", pos(x), x.Tok), func() { x.Tok = token.ASSIGN }})
			}
		case *ast.BasicLit:
			if x.Kind == token.STRING {
				v := x.Value
				for i := 0; i < len(v); i++ {
					if v[i] == '%' {
						j := i + 1
						for j < len(v) && (v[j] == '-' || v[j] == '0' || v[j] == '+') {
							j++
						}
						k := j
						for k < len(v) && v[k] >= '0' && v[k] <= '9' {
							k++
						}
						if k > j {
							num, _ := strconv.Atoi(v[j:k])
							nv := v[:j] + strconv.Itoa(num+1) + v[k:]
							sites = append(sites, site{fmt.Sprintf("%s: format width %d -> %d", pos(x), num, num+1), func() { x.Value = nv }})
						}
						if k < len(v) && v[k] == '.' {
							m := k + 1
							for m < len(v) && v[m] >= '0' && v[m] <= '9' {
								m++
							}
							if m > k+1 {
								num, _ := strconv.Atoi(v[k+1 : m])
								nv := v[:k+1] + strconv.Itoa(num+1) + v[m:]
								sites = append(sites, site{fmt.Sprintf("%s: format precision %d -> %d", pos(x), num, num+1), func() { x.Value = nv }})
							}
						}
					}
				}
			}
		case *ast.ReturnStmt:
			if len(x.Results) == 1 {
				if id, ok := x.Results[0].(*ast.Ident); ok && id.Name == "err" {
					sites = append(sites, site{fmt.Sprintf("%s: return err -> return nil", pos(x)), func() { x.Results[0] = ast.NewIdent("nil") }})
				}
			}
			if len(x.Results) == 2 {
				if id, ok := x.Results[1].(*ast.Ident); ok && id.Name == "err" {
					if b, ok := x.Results[0].(*ast.Ident); ok && (b.Name == "true" || b.Name == "false") {
						sites = append(sites, site{fmt.Sprintf("%s: return %s, err -> return %s, nil", pos(x), b.Name, b.Name), func() { x.Results[1] = ast.NewIdent("nil") }})
						flip := "false"
						if b.Name == "false" {
							flip = "true"
						}
						sites = append(sites, site{fmt.Sprintf("%s: return %s, err -> return %s, err", pos(x), b.Name, flip), func() { x.Results[0] = ast.NewIdent(flip) }})
					}
				}
			}
		}
		return true
	})
	return sites
}

// third family (-family 3): library calls replaced by their siblings, boolean literals flipped, slice bounds and indices
// shifted by one, `else` branches removed
var siblings = map[string][]string{
	"strings.Trim": {"strings.TrimLeft", "strings.TrimRight"}, "strings.TrimLeft": {"strings.Trim"}, "strings.TrimRight": {"strings.Trim"},
	"strings.Index": {"strings.LastIndex"}, "strings.LastIndex": {"strings.Index"}, "strings.IndexAny": {"strings.LastIndexAny"},
	"strings.LastIndexAny": {"strings.IndexAny"}, "strings.HasPrefix": {"strings.HasSuffix"}, "strings.HasSuffix": {"strings.HasPrefix"},
	"strings.ToLower": {"strings.ToUpper"}, "sort.Strings": {"sort.Sort(sort.Reverse(sort.StringSlice"},
	"sort.SliceStable": {"sort.Slice"}, "sort.Stable": {"sort.Sort"},
}
var methodSiblings = map[string][]string{
	"Before": {"After"}, "After": {"Before"}, "Equal": {"Before"}, "Local": {"UTC"}, "UTC": {"Local"},
}

func collect3(fset *token.FileSet, f *ast.File) []site {
	var sites []site
	pos := func(n ast.Node) string { return fset.Position(n.Pos()).String() }
	ast.Inspect(f, func(n ast.Node) bool {
		switch x := n.(type) {
		case *ast.CallExpr:
			if sel, ok := x.Fun.(*ast.SelectorExpr); ok {
				if id, ok := sel.X.(*ast.Ident); ok {
					full := id.Name + "." + sel.Sel.Name
					for _, to := range siblings[full] {
						to := to
						if full == "sort.Strings" {
							sites = append(sites, site{fmt.Sprintf("%s: sort.Strings -> descending", pos(x)), func() {
								x.Fun = &ast.SelectorExpr{X: ast.NewIdent("sort"), Sel: ast.NewIdent("Sort")}
								x.Args = []ast.Expr{&ast.CallExpr{Fun: &ast.SelectorExpr{X: ast.NewIdent("sort"), Sel: ast.NewIdent("Reverse")},
									Args: []ast.Expr{&ast.CallExpr{Fun: &ast.SelectorExpr{X: ast.NewIdent("sort"), Sel: ast.NewIdent("StringSlice")}, Args: x.Args}}}}
							}})
							continue
						}
						name := to[len(id.Name)+1:]
						sites = append(sites, site{fmt.Sprintf("%s: %s -> %s", pos(x), full, to), func() { sel.Sel = ast.NewIdent(name) }})
					}
					if full == "strings.TrimSpace" && len(x.Args) == 1 {
						sites = append(sites, site{fmt.Sprintf("%s: strings.TrimSpace removed", pos(x)), func() { x.Fun = &ast.ParenExpr{X: ast.NewIdent("string")} }})
					}
				}
				for _, to := range methodSiblings[sel.Sel.Name] {
					to := to
					if _, isPkg := sel.X.(*ast.Ident); isPkg && (sel.Sel.Name == "Local" || sel.Sel.Name == "UTC") {
						// time.Local / time.UTC are variables, not calls; a call `t.Local()` has a receiver expression
					}
					from := sel.Sel.Name
					sites = append(sites, site{fmt.Sprintf("%s: .%s() -> .%s()", pos(x), from, to), func() { sel.Sel = ast.NewIdent(to) }})
				}
			}
		case *ast.Ident:
			if x.Name == "true" || x.Name == "false" {
				to := "false"
				if x.Name == "false" {
					to = "true"
				}
				from := x.Name
				sites = append(sites, site{fmt.Sprintf("%s: %s -> %s", pos(x), from, to), func() { x.Name = to }})
			}
		case *ast.SliceExpr:
			if x.Low != nil {
				sites = append(sites, site{fmt.Sprintf("%s: slice low +1", pos(x)), func() { x.Low = &ast.BinaryExpr{X: x.Low, Op: token.ADD, Y: &ast.BasicLit{Kind: token.INT, Value: "1"}} }})
			}
			if x.High != nil {
				sites = append(sites, site{fmt.Sprintf("%s: slice high -1", pos(x)), func() { x.High = &ast.BinaryExpr{X: x.High, Op: token.SUB, Y: &ast.BasicLit{Kind: token.INT, Value: "1"}} }})
				sites = append(sites, site{fmt.Sprintf("%s: slice high +1", pos(x)), func() { x.High = &ast.BinaryExpr{X: x.High, Op: token.ADD, Y: &ast.BasicLit{Kind: token.INT, Value: "1"}} }})
			}
		case *ast.IfStmt:
			if x.Else != nil {
				sites = append(sites, site{fmt.Sprintf("%s: drop else branch", pos(x)), func() { x.Else = nil }})
			}
		}
		return true
	})
	return sites
}

func collect(fset *token.FileSet, f *ast.File) []site {
	var sites []site
	pos := func(n ast.Node) string { return fset.Position(n.Pos()).String() }
	ast.Inspect(f, func(n ast.Node) bool {
		switch x := n.(type) {
		case *ast.BinaryExpr:
			// string concatenation is left alone (a + b on strings cannot become a - b)
			for _, to := range swaps[x.Op] {
				from := x.Op
				to := to
				if from == token.ADD || from == token.SUB || from == token.MUL || from == token.QUO {
					if isStringy(x.X) || isStringy(x.Y) {
						continue
					}
				}
				sites = append(sites, site{fmt.Sprintf("%s: %s -> %s", pos(x), from, to), func() { x.Op = to }})
			}
		case *ast.UnaryExpr:
			if x.Op == token.NOT {
				sites = append(sites, site{fmt.Sprintf("%s: drop !", pos(x)), func() { x.Op = token.ADD; replaceUnary(f, x) }})
			}
		case *ast.IfStmt:
			sites = append(sites, site{fmt.Sprintf("%s: negate if condition", pos(x)), func() { x.Cond = &ast.UnaryExpr{Op: token.NOT, X: &ast.ParenExpr{X: x.Cond}} }})
			if isErrCheck(x.Cond) && len(x.Body.List) > 0 {
				sites = append(sites, site{fmt.Sprintf("%s: empty the body of the error check", pos(x)), func() { x.Body.List = nil }})
			}
		case *ast.BasicLit:
			if x.Kind == token.INT {
				if v, err := strconv.Atoi(x.Value); err == nil && v >= 0 && v <= 100 {
					sites = append(sites, site{fmt.Sprintf("%s: %d -> %d", pos(x), v, v+1), func() { x.Value = strconv.Itoa(v + 1) }})
					if v > 0 {
						sites = append(sites, site{fmt.Sprintf("%s: %d -> %d", pos(x), v, v-1), func() { x.Value = strconv.Itoa(v - 1) }})
					}
				}
			}
		case *ast.BranchStmt:
			if x.Label == nil && x.Tok == token.BREAK {
				sites = append(sites, site{fmt.Sprintf("%s: break -> continue", pos(x)), func() { x.Tok = token.CONTINUE }})
			} else if x.Label == nil && x.Tok == token.CONTINUE {
				sites = append(sites, site{fmt.Sprintf("%s: continue -> break", pos(x)), func() { x.Tok = token.BREAK }})
			}
		case *ast.BlockStmt:
			for i, st := range x.List {
				if es, ok := st.(*ast.ExprStmt); ok {
					if _, ok := es.X.(*ast.CallExpr); ok {
						x, i := x, i
						sites = append(sites, site{fmt.Sprintf("%s: delete call statement", pos(st)), func() { x.List = append(append([]ast.Stmt{}, x.List[:i]...), x.List[i+1:]...) }})
					}
				}
				if as, ok := st.(*ast.AssignStmt); ok && (as.Tok == token.ADD_ASSIGN || as.Tok == token.SUB_ASSIGN) {
					as := as
					to := token.SUB_ASSIGN
					if as.Tok == token.SUB_ASSIGN {
						to = token.ADD_ASSIGN
					}
					if !isStringy(as.Rhs[0]) {
						sites = append(sites, site{fmt.Sprintf("%s: %s -> %s", pos(as), as.Tok, to), func() { as.Tok = to }})
					}
				}
			}
		}
		return true
	})
	return sites
}

func isStringy(e ast.Expr) bool {
	switch x := e.(type) {
	case *ast.BasicLit:
		return x.Kind == token.STRING || x.Kind == token.CHAR
	case *ast.BinaryExpr:
		return isStringy(x.X) || isStringy(x.Y)
	case *ast.CallExpr:
		if s, ok := x.Fun.(*ast.SelectorExpr); ok {
			if id, ok := s.X.(*ast.Ident); ok && (id.Name == "strings" || id.Name == "fmt" || id.Name == "strconv") {
				return true
			}
		}
		if id, ok := x.Fun.(*ast.Ident); ok && id.Name == "string" {
			return true
		}
	}
	return false
}

func isErrCheck(e ast.Expr) bool {
	b, ok := e.(*ast.BinaryExpr)
	if !ok || b.Op != token.NEQ {
		return false
	}
	x, ok1 := b.X.(*ast.Ident)
	y, ok2 := b.Y.(*ast.Ident)
	return ok1 && ok2 && y.Name == "nil" && (x.Name == "err" || len(x.Name) > 3 && x.Name[len(x.Name)-3:] == "Err")
}

// replaceUnary turns `!x` (marked by Op == ADD) into `x` wherever it is referenced
func replaceUnary(f *ast.File, u *ast.UnaryExpr) {
	u.Op = token.ADD // `+x` does not type-check for booleans; rewrite the parent instead
	ast.Inspect(f, func(n ast.Node) bool {
		switch p := n.(type) {
		case *ast.IfStmt:
			if p.Cond == ast.Expr(u) {
				p.Cond = u.X
			}
		case *ast.BinaryExpr:
			if p.X == ast.Expr(u) {
				p.X = u.X
			}
			if p.Y == ast.Expr(u) {
				p.Y = u.X
			}
		case *ast.ParenExpr:
			if p.X == ast.Expr(u) {
				p.X = u.X
			}
		case *ast.AssignStmt:
			for i := range p.Rhs {
				if p.Rhs[i] == ast.Expr(u) {
					p.Rhs[i] = u.X
				}
			}
		case *ast.ReturnStmt:
			for i := range p.Results {
				if p.Results[i] == ast.Expr(u) {
					p.Results[i] = u.X
				}
			}
		case *ast.CallExpr:
			for i := range p.Args {
				if p.Args[i] == ast.Expr(u) {
					p.Args[i] = u.X
				}
			}
		case *ast.ForStmt:
			if p.Cond == ast.Expr(u) {
				p.Cond = u.X
			}
		}
		return true
	})
}

func main() {
	if len(os.Args) < 3 {
		fmt.Fprintln(os.Stderr, "usage: mutate -list file.go | mutate -apply k file.go")
		os.Exit(2)
	}
	file := os.Args[len(os.Args)-1]
	fset := token.NewFileSet()
	f, err := parser.ParseFile(fset, file, nil, parser.ParseComments)
	if err != nil {
		fmt.Fprintln(os.Stderr, err)
		os.Exit(2)
	}
	sites := collect(fset, f)
	if os.Getenv("MUTATE_FAMILY") == "2" {
		sites = collect2(fset, f)
	}
	if os.Getenv("MUTATE_FAMILY") == "3" {
		sites = collect3(fset, f)
	}
	if os.Args[1] == "-list" {
		fmt.Println(len(sites))
		for i, s := range sites {
			fmt.Printf("%d\t%s\n", i, s.desc)
		}
		return
	}
	k, _ := strconv.Atoi(os.Args[2])
	if k < 0 || k >= len(sites) {
		os.Exit(3)
	}
	sites[k].apply()
	var buf bytes.Buffer
	printer.Fprint(&buf, fset, f)
	os.Stdout.Write(buf.Bytes())
}
