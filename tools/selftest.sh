#!/bin/sh
# selftest.sh [name-pattern] : replay the stored seeded changes and harmless rewrites against the checks.
#   - every seeded/<id>/patch.diff is applied to a scratch worktree of /repo (created under ${TMPDIR:-/tmp}, removed at the end)
#     and the first check of its meta.json "caught_by" list must raise a VIOLATION;
#   - every seeded/refactorings/<set> is applied as a whole and no check may raise one;
#   - every seeded/hook-breaking/<set> (behaviour kept, tagged build broken) must make every check report no-failing-input-found.
# Not registered in MANIFEST.json (it needs a scratch directory); it is the regression harness for the checks themselves.
PAT=${1:-.}
cd /verif
WT=$(mktemp -d ${TMPDIR:-/tmp}/hr-selftest-XXXXXX)
rmdir $WT
git -C /repo worktree add -q --detach $WT HEAD || exit 2
trap 'git -C /repo worktree remove --force $WT 2>/dev/null; rm -rf $WT; rm -rf /verif/evidence; mv /verif/.cache/evidence.selftest /verif/evidence' EXIT
rm -rf .cache/evidence.selftest && cp -r evidence .cache/evidence.selftest
ok=0; bad=0
for d in seeded/*/; do
  n=$(basename $d)
  [ -f $d/patch.diff ] || continue
  echo "$n" | grep -Eq "$PAT" || continue
  c=$(python3 -c "import json;print((json.load(open('$d/meta.json')).get('caught_by') or ['?'])[0])")
  git -C $WT apply $PWD/$d/patch.diff 2>/dev/null || { echo "SKIP $n (patch does not apply to HEAD)"; continue; }
  if VERIF_REPO=$WT ./check $c --tier quick 2>/dev/null | grep -q '^VIOLATION'; then ok=$((ok+1)); echo "caught  $n by $c"; else bad=$((bad+1)); echo "MISSED  $n (expected $c)"; fi
  git -C $WT checkout -q -- .
done
if echo refactorings | grep -Eq "$PAT"; then
for d in seeded/refactorings/*/; do
  n=$(basename $d)
  for f in $d/r*.diff; do git -C $WT apply $PWD/$f 2>/dev/null || echo "SKIP $f"; done
  for i in 01 02 03 04 05 06 07 08 09 10 11 12 13 14 15 16 17 18; do
    if VERIF_REPO=$WT ./check C$i --tier quick 2>/dev/null | grep -q '^VIOLATION'; then bad=$((bad+1)); echo "FALSE ALARM  refactorings/$n by C$i"; fi
  done
  echo "quiet   refactorings/$n"
  git -C $WT checkout -q -- .
done
fi
# rewrites that keep the program's behaviour but break the build of the hooks (build tag verif): every check must fall back to the
# untagged binary and end in "no-failing-input-found" (the tie is broken, the property is not shown to fail)
if echo hook-breaking | grep -Eq "$PAT"; then
for d in seeded/hook-breaking/*/; do
  n=$(basename $d)
  for f in $d/r*.diff; do git -C $WT apply $PWD/$f 2>/dev/null || echo "SKIP $f"; done
  for i in 01 02 03 04 05 06 07 08 09 10 11 12 13 14 15 16 17 18; do
    out=$(VERIF_REPO=$WT ./check C$i --tier quick 2>/dev/null | grep -E '^VIOLATION|^INFRA')
    if echo "$out" | grep -q '^INFRA'; then bad=$((bad+1)); echo "INFRA  hook-breaking/$n C$i"; fi
    if echo "$out" | grep '^VIOLATION' | grep -qv 'no-failing-input-found$'; then bad=$((bad+1)); echo "FALSE INPUT  hook-breaking/$n by C$i"; fi
    if ! echo "$out" | grep -q 'no-failing-input-found$'; then bad=$((bad+1)); echo "SILENT  hook-breaking/$n C$i"; fi
  done
  echo "done    hook-breaking/$n"
  git -C $WT checkout -q -- .
done
fi
echo "selftest: $ok caught, $bad problems"
[ $bad -eq 0 ]
