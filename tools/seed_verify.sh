#!/bin/sh
# seed_verify.sh <ID> [worktree] [output dir] : in the sub-agent's scratch worktree, confirm that the seeded change compiles, passes the existing
# suite, and that its demonstration fails with the change and passes without it.  Then copy it to /verif/seeded/<ID>/.
ID=$1
WT=${2:-/tmp/seed/wt-$ID}
OUT=${3:-${SEEDOUT:-/tmp/seed/out}/$ID}
export GOFLAGS= GOPROXY=off GOSUMDB=off GOTOOLCHAIN=local
cd $WT || exit 2
git checkout -q -- .   # (no git stash here: the stash is shared between all worktrees of the repository)
git apply $OUT/patch.diff || { echo "patch does not apply"; exit 2; }
echo "== build+tests with the change"
(cd $WT && go build ./... && go test -count=1 ./... 2>&1 | grep -v 'no test files' | tail -5) ; (cd $WT/cmd/hranoprovod-cli && go build ./... && go test -count=1 ./... 2>&1 | grep -v 'no test files' | tail -12)
rundemo() {
  if [ -f $OUT/demo.sh ]; then sh $OUT/demo.sh >/tmp/seed/demo-$ID.log 2>&1; echo "demo.sh exit=$?"; tail -3 /tmp/seed/demo-$ID.log
  else
    for t in $OUT/*_test.go; do
      dir=$(grep -l . /dev/null; python3 - "$OUT/meta.json" "$t" <<'PY'
import json,sys,re,os
m=json.load(open(sys.argv[1])); t=os.path.basename(sys.argv[2])
txt=json.dumps(m)
mm=re.search(r'(/tmp/seed/wt-C\d+/[A-Za-z0-9_/\-]*)', txt)
pk=open(sys.argv[2]).read().split('package ')[1].split()[0]
print(pk)
PY
)
      case "$dir" in
        resolver|resolver_test) d=$WT/resolver;; parser|parser_test) d=$WT/parser;; hranoprovod|hranoprovod_test) d=$WT;; main) d=$WT/cmd/hranoprovod-cli;; filter) d=$WT/filter;;
        *) d=$(find $WT/cmd/hranoprovod-cli/internal -type d -name "$dir" | head -1);;
      esac
      cp $t $d/ && (cd $d && go test -count=1 . 2>&1 | tail -4); echo "go test exit=$? in $d"; rm -f $d/$(basename $t)
    done
  fi
}
echo "== demonstration WITH the change"; rundemo
git apply -R $OUT/patch.diff
echo "== demonstration WITHOUT the change"; rundemo
git apply $OUT/patch.diff
