"""The properties' specifications evaluated on the generator's structured data (exact arithmetic).
Independent of the Lean model: used as oracles on the implementation's outputs."""
import re
from fractions import Fraction

INF = 10 ** 9


def fmt_fixed(fr, prec):
    """%.{prec}f of an exact value, round half to even"""
    neg = fr < 0
    a = -fr if neg else fr
    scaled = a * 10 ** prec
    fl = scaled.numerator // scaled.denominator
    rem = scaled - fl
    if rem > Fraction(1, 2) or (rem == Fraction(1, 2) and fl % 2 == 1):
        fl += 1
    s = str(fl).rjust(prec + 1, '0')
    out = (s[:-prec] + '.' + s[-prec:]) if prec else s
    return ('-' if neg else '') + out


def book_map(book):
    """list of (name, [(ing, Qty)]) → dict (a later record replaces an earlier one of the same name)"""
    return {n: [(i, q.value) for i, q in ings] for n, ings in book}


def height(bm, name, memo=None, stack=None):
    """longest chain of references starting at `name` (0 for names the book does not define); INF on a cycle"""
    memo = {} if memo is None else memo
    stack = set() if stack is None else stack
    if name not in bm:
        return 0
    if name in memo:
        return memo[name]
    if name in stack:
        return INF
    stack.add(name)
    h = 0
    for ing, _ in bm[name]:
        h = max(h, 1 + height(bm, ing, memo, stack))
        if h >= INF:
            h = INF
            break
    stack.discard(name)
    memo[name] = h
    return h


def max_height(bm):
    memo = {}
    return max([height(bm, n, memo) for n in bm] or [0])


def expand(bm, name, memo=None):
    """resolved elements of a recipe: {leaf: sum over paths of products} (acyclic books only)"""
    memo = {} if memo is None else memo
    if name in memo:
        return memo[name]
    acc = {}
    order = []
    for ing, v in bm[name]:
        if ing in bm:
            for leaf, w in expand(bm, ing, memo).items():
                if leaf not in acc:
                    order.append(leaf)
                acc[leaf] = acc.get(leaf, 0) + w * v
        else:
            if ing not in acc:
                order.append(ing)
            acc[ing] = acc.get(ing, 0) + v
    memo[name] = acc
    return acc


def resolved(bm):
    """{recipe: [(leaf, value)] sorted by leaf name}"""
    memo = {}
    return {n: sorted(expand(bm, n, memo).items()) for n in bm}


def merge_day(entries):
    """[(food, Qty)] → [(food, sum)] first-appearance order"""
    out = []
    idx = {}
    for f, q in entries:
        if f in idx:
            out[idx[f]][1] += q.value
        else:
            idx[f] = len(out)
            out.append([f, q.value])
    return [(f, v) for f, v in out]


def contributions(res, food, qty):
    if food in res:
        return [(leaf, v * qty) for leaf, v in res[food]]
    return [(food, qty)]


def day_totals(res, merged):
    """sorted [(element, pos, neg, sum)]"""
    pos, neg = {}, {}
    for f, q in merged:
        for leaf, v in contributions(res, f, q):
            pos.setdefault(leaf, Fraction(0))
            neg.setdefault(leaf, Fraction(0))
            if v < 0:
                neg[leaf] += v
            else:
                pos[leaf] += v
    return [(k, pos[k], neg[k], pos[k] + neg[k]) for k in sorted(pos)]


def period_totals(res, days):
    pos, neg = {}, {}
    for merged in days:
        for f, q in merged:
            for leaf, v in contributions(res, f, q):
                pos.setdefault(leaf, Fraction(0))
                neg.setdefault(leaf, Fraction(0))
                if v < 0:
                    neg[leaf] += v
                else:
                    pos[leaf] += v
    return [(k, pos[k], neg[k], pos[k] + neg[k]) for k in sorted(pos)]


# ------------------------------------------------------------------------------------------
# readers of the program's plain-text outputs (no colour, no shortening)

NUM = rb'(-?[0-9]+\.[0-9]+|NaN|[+-]Inf)'


def parse_register_default(out):
    """→ list of days: {'date', 'foods': [(name, value, [(ing, value)])], 'totals': [(name,pos,neg,sum)] or None}"""
    days = []
    cur = None
    in_totals = False
    for line in out.split(b'\n'):
        if line == b'':
            continue
        if not line.startswith(b'\t'):
            cur = {'date': line, 'foods': [], 'totals': None}
            days.append(cur)
            in_totals = False
            continue
        if cur is None:
            raise ValueError('row before a date: %r' % line)
        if line.startswith(b'\t-- TOTAL  '):
            cur['totals'] = []
            in_totals = True
            continue
        if line.startswith(b'\t\t'):
            body = line[2:]
            if in_totals:
                m = re.search(rb'^(.*?) +' + NUM + rb' +' + NUM + rb' = *' + NUM + rb'$', body, re.S)
                if not m:
                    raise ValueError('bad total row %r' % line)
                cur['totals'].append((m.group(1).lstrip(b' '), m.group(2), m.group(3), m.group(4)))
            else:
                m = re.search(rb'^(.*?) +' + NUM + rb'$', body, re.S)
                if not m or not cur['foods']:
                    raise ValueError('bad ingredient row %r' % line)
                cur['foods'][-1][2].append((m.group(1).lstrip(b' '), m.group(2)))
        else:
            body = line[1:]
            m = re.search(rb'^(.*?) * : *' + NUM + rb'$', body, re.S)
            if not m:
                raise ValueError('bad food row %r' % line)
            cur['foods'].append((m.group(1), m.group(2), []))
    return days


def parse_balance(out):
    """→ (rows [(indent, label, amount)], total or None)"""
    rows = []
    total = None
    lines = out.split(b'\n')
    i = 0
    while i < len(lines):
        line = lines[i]
        i += 1
        if line == b'':
            continue
        if line == b'-----------|':
            m = re.match(rb'^ *' + NUM + rb' \| (.*)$', lines[i], re.S)
            total = (m.group(1), m.group(2))
            break
        m = re.match(rb'^ *' + NUM + rb' \| ((?:  )*)(.*)$', line, re.S)
        if not m:
            raise ValueError('bad balance row %r' % line)
        rows.append((len(m.group(2)) // 2, m.group(3), m.group(1)))
    return rows, total


def balance_leaves(rows):
    """full path and amount of every row that has no deeper row after it"""
    out = []
    stack = []
    for idx, (ind, label, amount) in enumerate(rows):
        stack = stack[:ind] + [label]
        nxt = rows[idx + 1][0] if idx + 1 < len(rows) else -1
        if nxt <= ind:
            out.append((b'/'.join(stack), amount))
    return out


def parse_totals(out):
    rows = []
    for line in out.split(b'\n')[1:]:
        if not line:
            continue
        m = re.match(rb'^ *' + NUM + rb' +' + NUM + rb' +' + NUM + rb'  (.*)$', line, re.S)
        if not m:
            raise ValueError('bad totals row %r' % line)
        rows.append((m.group(4), m.group(1), m.group(2), m.group(3)))
    return rows


def parse_value_rows(out):
    """`%0.2f\\t%s` rows → [(name, value)]"""
    rows = []
    for line in out.split(b'\n'):
        if not line:
            continue
        v, _, n = line.partition(b'\t')
        rows.append((n, v.strip()))
    return rows


def split_path(name):
    return name.split(b'/')


def balance_spec(elements):
    """elements: [(name, Fraction)] → rows [(indent, label, amount Fraction)] in pre-order with sorted siblings"""
    sums = {}
    for name, v in elements:
        segs = split_path(name)
        for k in range(1, len(segs) + 1):
            p = tuple(segs[:k])
            sums[p] = sums.get(p, Fraction(0)) + v
    return [(len(p) - 1, p[-1], sums[p]) for p in sorted(sums)]


def no_prefix(names):
    ps = [tuple(split_path(n)) for n in set(names)]
    for a in ps:
        for b in ps:
            if a != b and len(a) < len(b) and b[:len(a)] == a:
                return False
    return True
