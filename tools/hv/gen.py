"""Structured case generators.  Every random choice derives from one random.Random(seed)."""
import datetime
import random
from fractions import Fraction

TRIM_TEXT = b'\t \n:"-'
LATIN = 'abcdefghijklmnopqrstuvwxyz'
SCRIPTS = ['абвгдежзийклмнопрстуфхцчшщъьюя', '米飯茶魚肉菜水果', 'αβγδεζηθικλμ', 'éüñçøå', 'שלוםעברית']
LEAVES = [b'calories', b'fat', b'carbohydrate', b'protein', b'fiber', b'salt', b'sugar', b'Zinc', b'B12']

WINDOW = [datetime.date(2021, 1, 22) + datetime.timedelta(days=i) for i in range(7)]

LAYOUTS = ['2006/01/02', '2006-01-02', '02.01.2006', '01/02/2006', '2006.01.02', '2/1/2006']


def fmt_date(d, layout='2006/01/02'):
    out = layout
    out = out.replace('2006', '%04d' % d.year)
    out = out.replace('01', '\x00').replace('02', '\x01')
    # single-digit tokens (only in layouts that use them)
    if '\x00' not in out and '\x01' not in out:
        out = out.replace('2/', '%d/' % d.day, 1).replace('/1/', '/%d/' % d.month, 1)
    out = out.replace('\x00', '%02d' % d.month).replace('\x01', '%02d' % d.day)
    return out


def fmt_date_layout(d, layout):
    """render a date in one of LAYOUTS (token-wise, not by naive replacement of digits)"""
    res = ''
    i = 0
    while i < len(layout):
        if layout.startswith('2006', i):
            res += '%04d' % d.year
            i += 4
        elif layout.startswith('01', i):
            res += '%02d' % d.month
            i += 2
        elif layout.startswith('02', i):
            res += '%02d' % d.day
            i += 2
        elif layout[i] == '1':
            res += '%d' % d.month
            i += 1
        elif layout[i] == '2':
            res += '%d' % d.day
            i += 1
        else:
            res += layout[i]
            i += 1
    return res


class Qty:
    """a quantity literal with its exact value"""

    def __init__(self, lit, value, exact=True):
        self.lit = lit if isinstance(lit, bytes) else lit.encode()
        self.value = value
        self.exact = exact

    def __repr__(self):
        return 'Qty(%r)' % self.lit


def dec_str(fr):
    """finite decimal expansion of a dyadic rational"""
    sign = '-' if fr < 0 else ''
    fr = abs(fr)
    ip = fr.numerator // fr.denominator
    rest = fr - ip
    digits = ''
    while rest != 0 and len(digits) < 40:
        rest *= 10
        d = rest.numerator // rest.denominator
        digits += str(d)
        rest -= d
    return sign + str(ip) + ('.' + digits if digits else '')


class G:
    def __init__(self, seed):
        self.r = random.Random(seed)

    # ---------------------------------------------------------------- names
    def word(self, lo=1, hi=8, unusual=0.25):
        r = self.r
        if r.random() < unusual:
            alpha = r.choice(SCRIPTS)
        else:
            alpha = LATIN
        w = ''.join(r.choice(alpha) for _ in range(r.randint(lo, hi)))
        # letter case matters: names are compared and ordered byte-wise (`Zinc` sorts before `ascorbic`)
        roll = r.random()
        if roll < 0.08:
            w = w.capitalize()
        elif roll < 0.10:
            w = w.upper()
        elif roll < 0.12 and len(w) > 1:
            k = r.randrange(len(w))
            w = w[:k] + w[k].upper() + w[k + 1:]
        return w

    def segment(self, unusual=0.25):
        r = self.r
        w = self.word(unusual=unusual)
        roll = r.random()
        if roll < 0.08:
            w += ' ' + self.word(1, 5, unusual)          # inner blank
        elif roll < 0.12:
            w += r.choice([',', '"', "'", ':', '-', '.', '#', '(', ')', '%', '&', '=', '+', '@', ';', '|', '<', '>', '*', '?', '\\', '`', '$', '!', '~']) + self.word(1, 3, 0)   # inner punctuation
        elif roll < 0.16:
            w += str(r.randint(0, 999))
        elif roll < 0.18:
            w = str(r.randint(1, 99)) + w
        elif roll < 0.20:
            # a first character that spreadsheets, shells or mark-up treat specially; for the program it is a letter like any other
            w = r.choice(['=', '+', '@', '(', '.', '_', '~', '*', '!', '$', '&', '<', '[', '%', '\\', '|', ';']) + w
        elif roll < 0.225:
            # what a YAML reader would take for a key separator or a comment, inside a name; sometimes with a quote or a backslash as well
            w += r.choice([': ', ' #', ' # ', ' : ', ':  ']) + self.word(1, 4, 0)
            if r.random() < 0.5:
                w += r.choice([' "q"', '\\', ' \\n', '"', " 'q'"]) + self.word(1, 3, 0)
        return w

    def name(self, segments=None, unusual=0.25):
        r = self.r
        n = segments or r.choice([1, 1, 2, 2, 3, 4])
        segs = [self.segment(unusual) for _ in range(n)]
        if segments is None and r.random() < 0.012:
            # a deep category path: 10 to 24 levels, now and then more than a hundred (short components)
            n = r.choice([10, 12, 16, 17, 18, 24, 24, 101, 130])
            segs = [self.word(1, 3, 0) for _ in range(n)]
        if r.random() < unusual * 0.4:
            # an empty category component: doubled, trailing or leading separator
            k = r.choice(['double', 'trail', 'trail', 'lead', 'only'])
            if k == 'double' and n > 1:
                segs.insert(r.randint(1, n - 1), '')
            elif k == 'trail':
                segs.append('')
            elif k == 'lead':
                segs.insert(0, '')
            elif k == 'only' and r.random() < 0.3:
                segs = ['', '']
        s = '/'.join(segs)
        if '/' in s and r.random() < 0.03:
            # a blank next to the separator belongs to the component ('dairy /milk' is not 'dairy/milk')
            k = s.index('/') if r.random() < 0.5 else s.rindex('/')
            if 0 < k < len(s) - 1 and s[k - 1] != '/' and s[k + 1] != '/':          # (a blank at either end of the whole name would be trimmed away by the reader;
                # a component made of blanks only cannot be told from indentation in the printed tree)
                s = s[:k] + r.choice([' /', '/ ', ' / ', '  /', '\u00a0/']) + s[k + 1:]
        b = s.encode('utf-8')
        return b

    @staticmethod
    def wf_name(b, heading=False):
        if not b or b'\n' in b:
            return False
        if b[0:1] in [bytes([c]) for c in TRIM_TEXT] or b[0:1] == b'#':
            return False
        if b[-1:] in [bytes([c]) for c in TRIM_TEXT] or b[-1:] == b'\r':
            return False
        return True

    def long_name(self):
        return b'/'.join(self.word(6, 12, 0.3).encode() for _ in range(self.r.randint(3, 6)))

    # ---------------------------------------------------------------- quantities
    def qty_exact(self, small=False, allow_zero=True, allow_neg=True):
        r = self.r
        if small:
            num = r.choice([1, 1, 1, 2, 3, 1, 1, 2, 0 if allow_zero else 1])
            den = r.choice([1, 1, 1, 2, 2, 4])
        else:
            num = r.choice([0 if allow_zero else 1, 1, 1, 2, 3, 4, 5, 6, 7, 8, 10, 12, 16, 20, 25, 50, 100, 9, 11, 13, 15, 250])
            den = r.choice([1, 1, 1, 2, 4, 8, 8, 16])
        v = Fraction(num, den)
        if allow_neg and r.random() < 0.2:
            v = -v
        style = r.random()
        if style < 0.8:
            lit = dec_str(v)
            if '.' in lit and r.random() < 0.3:
                lit += '0' * r.randint(1, 2)
            elif '.' not in lit and r.random() < 0.15:
                lit += '.0'
        elif style < 0.88 and v.denominator == 1 and v % 10 == 0 and v != 0:
            lit = dec_str(v / 10) + 'e1'
        elif style < 0.92:
            lit = dec_str(v * 10) + 'e-1' if (v * 10).denominator in (1, 2, 4, 8, 16) else dec_str(v)
        elif style < 0.94 and v >= 0:
            lit = '+' + dec_str(v)
        elif style < 0.96:
            # leading zeros (not octal: the grammar is decimal floating point)
            lit = dec_str(abs(v))
            lit = ('-' if v < 0 else '') + '0' * r.randint(1, 2) + lit
        elif style < 0.975 and v != 0:
            # hex float
            lit = ('-' if v < 0 else '') + '0x%xp-%d' % (abs(v).numerator, abs(v).denominator.bit_length() - 1)
        else:
            lit = dec_str(v)
        return Qty(lit, v, True)

    def qty_decimal(self):
        r = self.r
        style = r.random()
        if style < 0.6:
            v = Fraction(r.randint(-2000, 30000), 100)
        elif style < 0.8:
            v = Fraction(r.randint(0, 2000), 10)
        elif style < 0.9:
            v = Fraction(r.randint(1, 999), 1000)
        else:
            v = Fraction(r.randint(1, 10 ** 6))
        lit = dec_str(v)
        return Qty(lit, v, False)

    def qty(self, exact=True, small=False):
        return self.qty_exact(small=small) if exact else self.qty_decimal()

    # ---------------------------------------------------------------- books
    def book(self, depth=None, exact=True, per_layer=None, leaves=None, share=0.4, repeat=0.2, empty=0.1, unusual=0.15, small=None):
        """layered DAG: returns list of (name, [(ingredient, Qty)]) in file order (shuffled)"""
        r = self.r
        depth = r.choice([0, 1, 1, 2, 2, 3]) if depth is None else depth
        small = (depth > 3) if small is None else small
        leaves = leaves or (LEAVES[: r.randint(2, len(LEAVES))] + ([self.name(1, unusual)] if r.random() < 0.3 else []))
        # sizes beyond a dozen (and beyond 32) now and then: sort routines, lookups, maps and buffers change behaviour there
        big = per_layer is None and depth <= 2 and r.random() < 0.06
        if big:
            leaves = list(leaves) + [self.word(3, 7, 0).encode() for _ in range(r.randint(10, 40))]
        layers = []
        used = set(leaves)
        recs = []
        for lvl in range(depth + 1):
            n = per_layer or (r.randint(13, 22) if big else r.randint(1, 4))
            layer = []
            for _ in range(n):
                for _try in range(20):
                    nm = self.name(unusual=unusual)
                    if nm not in used and self.wf_name(nm):
                        break
                else:
                    continue
                used.add(nm)
                layer.append(nm)
            layers.append(layer)
        for lvl, layer in enumerate(layers):
            below = [x for l in layers[:lvl] for x in l]
            for i, nm in enumerate(layer):
                if r.random() < empty:
                    recs.append((nm, []))
                    continue
                k = r.randint(13, 45) if (big and r.random() < 0.4) else r.randint(1, 5)
                ings = []
                for j in range(k):
                    if lvl > 0 and (j == 0 and i == 0):
                        ing = r.choice(layers[lvl - 1])      # guarantees the depth
                    elif below and r.random() < share + 0.2:
                        ing = r.choice(below)
                    else:
                        ing = r.choice(leaves)
                    if ings and r.random() < repeat:
                        ing = r.choice(ings)[0]
                    ings.append((ing, self.qty(exact, small)))
                recs.append((nm, ings))
        r.shuffle(recs)
        return recs

    def chain_book(self, length, exact=True, cycle=0):
        """a chain r0 -> r1 -> ... -> r_{length-1} -> leaf (length references from r0), optional cycle"""
        r = self.r
        names = []
        used = set()
        while len(names) < length:
            nm = self.name(1, 0.1)
            if nm not in used and self.wf_name(nm):
                used.add(nm)
                names.append(nm)
        recs = []
        for i, nm in enumerate(names):
            nxt = names[i + 1] if i + 1 < len(names) else b'calories'
            ings = [(nxt, self.qty(exact, True))]
            if r.random() < 0.3:
                ings.append((r.choice(LEAVES), self.qty(exact, True)))
            recs.append((nm, ings))
        if cycle and names:
            # close a cycle of the given length at the tail
            tgt = names[max(0, len(names) - cycle)]
            recs[-1] = (names[-1], [(tgt, self.qty(exact, True))])
        r.shuffle(recs)
        return recs

    # ---------------------------------------------------------------- logs
    def log(self, book=None, days=None, exact=True, dates=None, unusual=0.15, notes=0.2, direct=0.15, in_book=0.6, repeat=0.3, max_entries=8):
        """list of (date, [(food, Qty)], [note lines])"""
        r = self.r
        book = book or []
        recipes = [n for n, _ in book]
        bigdays = days is None and r.random() < 0.04
        days = (r.choice([r.randint(14, 40), r.randint(14, 40), 100, 128, 513, 600]) if bigdays else r.randint(1, 6)) if days is None else days
        bigday = max_entries == 8 and r.random() < 0.06
        extra = []
        for _ in range(r.randint(15, 45) if bigday else r.randint(1, 4)):
            nm = self.name(unusual=unusual)
            if self.wf_name(nm) and nm not in recipes:
                extra.append(nm)
        out = []
        for _ in range(days):
            d = r.choice(dates or WINDOW)
            ents = []
            for _ in range(r.randint(13, 100) if (bigday and r.random() < 0.6) else r.randint(0, max_entries)):
                roll = r.random()
                if ents and r.random() < repeat:
                    food = r.choice(ents)[0]
                elif recipes and roll < in_book:
                    food = r.choice(recipes)
                elif roll < in_book + direct:
                    food = r.choice(LEAVES)
                elif extra:
                    food = r.choice(extra)
                else:
                    food = r.choice(LEAVES)
                ents.append((food, self.qty(exact)))
            ns = []
            if r.random() < notes:
                for _ in range(r.randint(1, 2)):
                    ns.append(self.note())
            out.append((d, ents, ns))
        return out

    def note(self):
        r = self.r
        if r.random() < 0.12:
            return (b'', b'')                       # a line of comment markers only: the empty note
        if r.random() < 0.5:
            return (self.word(2, 8, 0.1).encode(), (self.word(1, 6, 0.2) + ' ' + self.word(1, 6, 0.1)).encode())
        return (b'', (self.word(2, 8, 0.2) + ' ' + self.word(1, 5, 0)).encode())

    # ---------------------------------------------------------------- rendering
    def layout_line(self):
        r = self.r
        return {
            'indent': r.choice([b'  ', b'  ', b'  ', b'    ', b'\t', b'- ', b'  - ', b' \t', b'\t- ']),
            'quote': r.random() < 0.15,
            'colon': r.random() < 0.8,
            'blanks': r.choice([b' ', b' ', b'  ', b'\t', b'   ', b' \t ']),
            'trail': r.choice([b'', b'', b'', b' ', b'  ', b'\t']),
        }

    def plain_line(self):
        return {'indent': b'  ', 'quote': False, 'colon': True, 'blanks': b' ', 'trail': b''}

    def render_record(self, heading, entries, notes=(), varied=True, eol=b'\n', hcolon=True):
        r = self.r
        lines = []
        h = heading
        if varied and r.random() < 0.1:
            h = b'"' + h + b'"'
        lines.append(h + (b':' if hcolon else b'') + (r.choice([b'', b' ', b'\t']) if varied else b''))
        for (nname, nval) in notes:
            lay = self.layout_line() if varied else self.plain_line()
            if not nname and not nval:
                lines.append(lay['indent'] + r.choice([b'#', b'#', b'##', b'# :', b'#:', b'# #']))
            elif nname:
                # blanks after the comment character and around the colon are optional
                lines.append(lay['indent'] + b'#' + r.choice([b' ', b' ', b' ', b'', b'  ', b'\t']) + nname + r.choice([b': ', b': ', b': ', b':', b' : ', b':  ']) + nval)
            else:
                lines.append(lay['indent'] + b'#' + r.choice([b' ', b' ', b' ', b'', b'  ']) + nval)
        for (name, q) in entries:
            lay = self.layout_line() if varied else self.plain_line()
            nm = (b'"' + name + b'"') if lay['quote'] else name
            if varied and r.random() < 0.04:
                # bytes the tokenizer trims around a name may also follow it (`name-: 1`, `name" 1`): they are layout, not name
                nm += r.choice([b'-', b' -', b'"', b'-"'])
            lines.append(lay['indent'] + nm + (b':' if lay['colon'] else b'') + lay['blanks'] + q.lit + lay['trail'])
            if varied and r.random() < 0.08:
                lines.append(r.choice([b'', b'   ', b'\t', b'# comment at column 0', b'  ']))
        return lines

    def render_file(self, records, varied=True, crlf=None, final_nl=None):
        """records: list of line lists. returns bytes"""
        r = self.r
        crlf = (r.random() < 0.25) if crlf is None else crlf
        final_nl = (r.random() < 0.85) if final_nl is None else final_nl
        eol = b'\r\n' if crlf else b'\n'
        lines = []
        if varied and r.random() < 0.3:
            lines.append(b'# ' + self.word(3, 10, 0.2).encode())
        for rec in records:
            lines.extend(rec)
            if not varied or r.random() < 0.8:
                lines.append(b'')
            if varied and r.random() < 0.1:
                lines.append(b'# c')
        while lines and lines[-1] == b'' and not final_nl:
            lines.pop()
        data = eol.join(lines)
        if final_nl and lines:
            data += eol
        return data

    def render_book(self, book, varied=True, crlf=None):
        recs = [self.render_record(n, ings, (), varied) for n, ings in book]
        return self.render_file(recs, varied, crlf)

    def render_log(self, log, layout='2006/01/02', varied=True, crlf=None, final_nl=None):
        recs = [self.render_record(fmt_date_layout(d, layout).encode(), ents, ns, varied) for d, ents, ns in log]
        return self.render_file(recs, varied, crlf, final_nl)
