"""helpers shared by the property modules"""
import hashlib
from . import core
from .core import hx, unhx
from .appcase import AppCase, ENV_NAMES

TODAY = '2021/01/28'


def sig(*parts):
    h = hashlib.sha1()
    for p in parts:
        h.update(repr(p).encode())
    return h.hexdigest()[:16]


def out_of(obs):
    return core.canon_out(unhx(obs.get('out', '') or ''))


def run_apps(ctx, cases, opname=lambda c: 'app:' + c.meta.get('kind', '?'), what=None):
    """run app cases through both drivers, register the correspondence; returns (impl, model)"""
    impl, model = ctx.both(cases)
    # a time-out or a killed driver may be the machine's doing (sixteen shards, other jobs): such a case is run again, on its
    # own, before anything is concluded from it; a real hang or crash shows again
    again = [c for c in cases if impl[c.id].get('status') in ('timeout', 'crash')][:24]
    for c in again:
        r = ctx.go([c.go()])
        ctx.count('re-run alone after %s' % impl[c.id].get('status'))
        if r.get(c.id, {}).get('status') not in ('timeout', 'crash', None):
            impl[c.id] = r[c.id]
    for c in cases:
        i, m = impl[c.id], model[c.id]
        if m.get('status') == 'driver-error':
            raise core.Infra('hmdriver: %s' % m.get('error'))
        if i.get('status') == 'driver-error':
            raise core.Infra('hrdriver: %s' % i.get('error'))
        if m.get('status') == 'unsupported':
            ctx.count('model-unsupported')
            continue
        ok = core.obs_equal(i, m, exact=c.exact)
        ctx.op(opname(c), ok)
        if not ok:
            ctx.problem('corr', (what or 'observation of `%s` differs from the model') % c.meta.get('kind', '?') if '%s' in (what or '%s') else what, c,
                        {'impl': summarize(i), 'model': summarize(m)})
    cross_check_real(ctx, cases, impl)
    return impl, model


def cross_check_real(ctx, cases, impl, per_call=None):
    """The in-process driver builds the commands with its own CmdUtils (so that readers and the sink can be made to fail); the
    program's own `main`, `NewCmdUtils` and command constructors are therefore only run by the real binary.  A sample of the
    cases of every run_apps call (those without injected faults) is run as a separate process of the untagged binary and
    compared with the driver's observation: same success / failure, same bytes on stdout."""
    k = per_call if per_call is not None else (12 if ctx.tier == "quick" else 40)
    plain = [c for c in cases if not c.read_fail and c.sink_fail is None and impl[c.id].get('status') in ('ok', 'err')
             and b'gen' not in c.path[:1]]
    if not plain or k <= 0:
        return
    # The outermost layer (main, the Command() wrappers, NewCmdUtils, flag definitions) runs only here, and what it does depends
    # on the *shape* of the invocation: which command, which flags, which environment variables, how many positional arguments
    # (round t: a wrapper that alters the period of `bal -b` without `-e`, a flag redefined on one sub-command).  The sample is
    # therefore taken per shape - up to three cases of every distinct shape - and then filled up by stride.
    def shape(c):
        return (tuple(c.path), tuple(sorted((c.g or {}).keys())), tuple(sorted((c.s or {}).keys())), tuple(sorted((c.env or {}).keys())),
                len(c.args or ()), bool(c.cfg))
    by_shape = {}
    for c in plain:
        by_shape.setdefault(shape(c), []).append(c)
    cap = (400 if ctx.tier == "quick" else 1200) if per_call is None else per_call
    picked, seen = [], set()
    for rnd in range(3):
        for sh, cs in by_shape.items():
            if len(picked) >= cap:
                break
            c = cs[(0, len(cs) // 2, len(cs) - 1)[rnd]]
            if c.id not in seen:
                seen.add(c.id)
                picked.append(c)
    step = max(1, len(plain) // k)
    for c in plain[::step][:k]:
        if c.id not in seen:
            seen.add(c.id)
            picked.append(c)
    ctx.count('real-binary:shapes', len(by_shape))
    to_file = 0
    binary = ctx.real()
    for c in picked:
        files = dict(c.files)
        home_config = None
        if c.cfg and c.cfg.get('exists'):
            if c.cfg['where'] == 'default':
                home_config = c.config_text()
            else:
                files[c.cfg['path'].encode() if isinstance(c.cfg['path'], str) else c.cfg['path']] = c.config_text()
        env_extra = {ENV_NAMES[k_]: (v if isinstance(v, str) else (v.decode('utf-8', 'surrogateescape') if isinstance(v, bytes) else str(v))) for k_, v in c.env.items()}
        try:
            rc, out, err = core.run_real_binary(binary, c.argv(), files, env_extra=env_extra, tz=c.tz, home_config=home_config)
        except Exception as e:          # a name that cannot be a file name, a NUL in an argument, a timeout
            ctx.count('real-binary:not-runnable')
            continue
        i = impl[c.id]
        ctx.evaluations += 1
        same = ((rc == 0) == (i.get('status') == 'ok')) and core.canon_out(out) == out_of(i)
        ctx.op('real-binary = driver', same)
        if not same:
            ctx.problem('corr', 'the real binary and the in-process driver disagree for `%s` (exit status %d vs %s)' % (c.meta.get('kind', '?'), rc, i.get('status')), c,
                        {'real_stdout': out.decode('utf-8', 'replace')[:800], 'real_stderr': err.decode('utf-8', 'replace')[:300], 'driver': summarize(i)})
        # what standard output *is* is no input of a report: the same bytes go into a regular file as into a pipe
        if same and rc == 0 and out and to_file < (16 if ctx.tier == "quick" else 60):
            to_file += 1
            try:
                rc2, out2, err2 = core.run_real_binary(binary, c.argv(), files, env_extra=env_extra, tz=c.tz, home_config=home_config, stdout_to='file')
            except Exception:
                continue
            ctx.evaluations += 1
            same2 = rc2 == rc and out2 == out
            ctx.op('real-binary: file = pipe', same2)
            if not same2:
                ctx.problem('corr', 'the real binary writes different bytes into a regular file than into a pipe for `%s` (exit status %d vs %d)' % (c.meta.get('kind', '?'), rc2, rc), c,
                            {'into_file': out2.decode('utf-8', 'replace')[:800], 'into_pipe': out.decode('utf-8', 'replace')[:800]})


def real_observation(ctx, c):
    """run an app case (no injected faults) as a separate process of the untagged binary: (rc, stdout, stderr) or None"""
    if not hasattr(c, 'argv') or getattr(c, 'read_fail', None) or getattr(c, 'sink_fail', None) is not None:
        return None
    files = dict(c.files)
    home_config = None
    if c.cfg and c.cfg.get('exists'):
        if c.cfg['where'] == 'default':
            home_config = c.config_text()
        else:
            files[c.cfg['path'].encode() if isinstance(c.cfg['path'], str) else c.cfg['path']] = c.config_text()
    env_extra = {ENV_NAMES[k_]: (v if isinstance(v, str) else (v.decode('utf-8', 'surrogateescape') if isinstance(v, bytes) else str(v))) for k_, v in c.env.items()}
    try:
        return core.run_real_binary(ctx.real(), c.argv(), files, env_extra=env_extra, tz=c.tz, home_config=home_config)
    except Exception:
        return None


def reproduced_by_program(ctx, c, obs):
    """is the in-process observation of this case what the program prints when it is run on its own?  None: cannot tell"""
    r = real_observation(ctx, c)
    if r is None or obs is None:
        return None
    rc, out, err = r
    crashed = rc < 0 or rc == 2 and (b'panic:' in err or b'goroutine ' in err)
    if obs.get('status') in ('panic', 'crash'):
        return crashed
    if obs.get('status') not in ('ok', 'err'):
        return None
    if obs.get('status') == 'err':
        # (on a usage error urfave/cli prints its help to standard output, which the driver discards: compare the failure only)
        return (not crashed) and rc != 0
    return (not crashed) and rc == 0 and core.canon_out(out) == out_of(obs)


def summarize(o):
    d = dict(o)
    for k in ('out', 'text', 'raw', 'header'):
        if isinstance(d.get(k), str):
            try:
                d[k + '_text'] = unhx(d[k]).decode('utf-8', 'replace')[:1500]
            except Exception:
                pass
    d.pop('stack', None)
    if 'other' in d and isinstance(d['other'], dict):
        d['other'] = summarize(d['other'])
    return d


def base_files(g, book, log, layout='2006/01/02', varied=True):
    return {b'food.yaml': g.render_book(book, varied), b'log.yaml': g.render_log(log, layout, varied)}


def app(path, files, args=(), g=None, s=None, kind=None, **kw):
    gg = {'today': TODAY, 'noColor': True}
    gg.update(g or {})
    meta = kw.pop('meta', {})
    meta['kind'] = kind or ' '.join(path)
    return AppCase(path, args, g=gg, s=s, files=files, meta=meta, **kw)


class BookCase:
    """unit case of the `resolve` mode"""

    def __init__(self, book, max_depth, api='func', order=None, reps=1, meta=None):
        self.book = book
        self.max_depth = max_depth
        self.api = api
        self.order = order
        self.reps = reps
        self.meta = meta or {}
        self.id = None

    def _book(self):
        return [{'name': hx(n), 'els': [{'n': hx(i), 'v': '%d/%d' % (q.value.numerator, q.value.denominator)} for i, q in ings]} for n, ings in self.book]

    def go(self):
        j = {'id': self.id, 'mode': 'resolve', 'book': self._book(), 'maxDepth': self.max_depth, 'api': self.api, 'reps': self.reps}
        if self.order is not None:
            j['order'] = [hx(o) for o in self.order]
        return j

    def lean(self):
        j = {'id': self.id, 'mode': 'resolve', 'book': self._book(), 'maxDepth': self.max_depth}
        if self.order is not None:
            j['order'] = [hx(o) for o in self.order]
        return j

    def describe(self):
        return {'maxDepth': self.max_depth, 'api': self.api, 'order': [o.decode('utf-8', 'replace') for o in self.order] if self.order else 'runtime',
                'book': {n.decode('utf-8', 'replace'): [(i.decode('utf-8', 'replace'), q.lit.decode()) for i, q in ings] for n, ings in self.book},
                'book_file': book_text(self.book)}


def book_text(book):
    lines = []
    for n, ings in book:
        lines.append(n.decode('utf-8', 'replace') + ':')
        for i, q in ings:
            lines.append('  %s: %s' % (i.decode('utf-8', 'replace'), q.lit.decode()))
        lines.append('')
    return '\n'.join(lines)


def book_obs(o):
    """canonical observation of a resolve result"""
    if o.get('r') != 'ok':
        return o.get('r')
    return [(unhx(r['name']), [(unhx(n), v) for n, v in r['els']]) for r in o['book']]


def frac_str(fr):
    return '%d/%d' % (fr.numerator, fr.denominator)
