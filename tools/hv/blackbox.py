"""Fallback when the in-process driver (build tag `verif`) no longer builds against the repository's source although the program
itself builds: the tie through the hooks is broken, which is reported as such (a correspondence that no longer checks); what is
left of the search for a failing input runs the untagged binary as a separate process for every `app` case without injected
faults.  Other modes (parser / resolver / channel units, read and write faults) cannot be observed from outside and come back
as `notrun`; the runner drops oracle verdicts about cases that were not run."""
import re
import subprocess
from concurrent.futures import ThreadPoolExecutor

from . import core
from .core import hx, unhx

_STAMP = re.compile(rb'^\d{4}/\d\d/\d\d \d\d:\d\d:\d\d ')


def classify(text):
    t = text
    if b'bad syntax on line' in t:
        return 'badSyntax'
    if b'error converting' in t and b'to float on line' in t:
        return 'conversion'
    if t.startswith(b'parsing time') or b': parsing time ' in t:
        return 'date'
    if b'token too long' in t:
        return 'tooLong'
    if b'maximum resolution depth' in t:
        return 'depth'
    if re.search(rb'^(open|read|stat) .*: ', t) or b'no such file or directory' in t or b'is a directory' in t:
        return 'open'
    return 'other'


def observe(binary, line):
    """one observation of the real binary in the shape of the in-process driver's"""
    if line.get('mode') != 'app' or line.get('readFail') or line.get('sinkFail') is not None:
        return {'id': line['id'], 'status': 'notrun', 'blackbox': True}
    files = {unhx(f['name']): unhx(f['data']) for f in line.get('files', [])}
    env = {k: unhx(v).decode('utf-8', 'surrogateescape') for k, v in (line.get('osenv') or {}).items()}
    home_config = unhx(line['homeConfig']) if line.get('homeConfig') is not None else None
    argv = [unhx(a) for a in line.get('argv', [])]
    runs = []
    slot = core.new_slot()          # the same scratch path for every repetition: $HOME is an input (`gen` prints it)
    for _ in range(max(1, min(int(line.get('reps') or 1), 4))):
        try:
            rc, out, err = core.run_real_binary(binary, argv, files, env_extra=env, tz=line.get('tz') or 'UTC', home_config=home_config, slot=slot)
        except subprocess.TimeoutExpired:
            return {'id': line['id'], 'status': 'timeout', 'out': '', 'blackbox': True}
        except Exception:
            return {'id': line['id'], 'status': 'notrun', 'blackbox': True}
        runs.append((rc, out, _STAMP.sub(b'', err).rstrip(b'\n')))
    rc, out, text = runs[0]
    if rc == 0:
        o = {'id': line['id'], 'status': 'ok', 'out': hx(out)}
    elif rc == 2 and (b'panic:' in text or b'goroutine ' in text):
        o = {'id': line['id'], 'status': 'panic', 'out': hx(out), 'text': hx(text[:400])}
    elif rc < 0:
        o = {'id': line['id'], 'status': 'crash', 'out': hx(out), 'text': hx(text[:400])}
    else:
        o = {'id': line['id'], 'status': 'err', 'out': hx(out), 'text': hx(text), 'class': classify(text)}
    o['distinct'] = len(set(runs))
    if o['distinct'] != 1:
        other = next(r for r in runs if r != runs[0])
        o['other'] = {'status': 'ok' if other[0] == 0 else 'err', 'out': hx(other[1]), 'text': hx(other[2])}
    o['blackbox'] = True
    return o


class BlackboxDriver:
    def __init__(self, binary, pid):
        self.binary = binary
        self.pid = pid
        self.notrun = set()

    def run(self, lines):
        with ThreadPoolExecutor(max_workers=core.NPROC) as ex:
            res = list(ex.map(lambda l: observe(self.binary, l), lines))
        out = {}
        for r in res:
            out[r['id']] = r
            if r['status'] in ('notrun', 'timeout'):      # (a time-out under 16 parallel processes is not evidence)
                self.notrun.add(r['id'])
        return out
