"""The life-cycle of one check: facts → proof → correspondence → oracle → verdict → evidence."""
import importlib
import json
import os
import re
import subprocess
import sys
import time
import traceback

from . import core
from .core import VERIF, LEAN_DIR, log

ALLOWED_AXIOMS = {'propext', 'Classical.choice', 'Quot.sound'}
FORBIDDEN = re.compile(r'\b(sorry|admit|native_decide|bv_decide|implemented_by|unsafe)\b|^axiom\s|maxHeartbeats\s+0', re.M)


class Problem:
    def __init__(self, kind, what, case=None, detail=None, signature=None, related=None):
        self.kind = kind            # 'oracle' | 'corr' | 'proof'
        self.what = what
        self.case = case
        self.detail = detail or {}
        self.signature = signature  # for known-findings matching (oracle problems)
        self.related = list(related or [])   # other cases the verdict rests on (confirmed against the program as well)


class Ctx:
    def __init__(self, pid, tier, seed):
        self.pid = pid
        self.tier = tier
        self.seed = seed
        self.problems = []
        self.evaluations = 0
        self.nontrivial = set()
        self.samples = []
        self.dist = {}
        self.ops = {}               # correspondence operations: name -> [compared, disagreed]
        self.notes = []
        self.known_hits = []
        self._id = 0
        self.driver = None
        self.real_binary = None
        self.t0 = time.time()
        self.exhaustive = False
        self.obs = {}               # in-process observations by case id (to be confirmed against the program run on its own)
        self.blackbox = None        # set when the tagged driver does not build but the program does (see blackbox.py)

    # -- ids
    def fresh(self, prefix='c'):
        self._id += 1
        return '%s%d' % (prefix, self._id)

    # -- drivers
    def go(self, cases):
        if self.driver is None:
            try:
                self.driver = core.GoDriver(core.build_go(True), self.pid)
            except core.Infra as e:
                if 'go build failed' not in str(e):
                    raise
                plain = core.build_go(False)        # Infra again (exit 2) if the program itself does not build
                from .blackbox import BlackboxDriver
                self.blackbox = BlackboxDriver(plain, self.pid)
                self.driver = self.blackbox
                self.problems.insert(0, Problem('corr', 'the in-process driver (build tag verif: the hooks and verif_driver.go) no longer builds against the current source '
                                                'although the program itself builds: the correspondence through the hooks cannot be checked. The search for a failing input '
                                                'went on with the untagged binary as a separate process (app cases without injected faults only). Compiler: ' + str(e)[-1200:]))
                self.notes.append('black-box fallback: tagged build failed, untagged build succeeded')
        res = self.driver.run(cases)
        self.obs.update(res)
        return res

    def lean(self, cases):
        return core.run_lean(cases)

    def real(self):
        if self.real_binary is None:
            self.real_binary = core.build_go(False)
        return self.real_binary

    def both(self, cases):
        """cases: objects with .id, .go(), .lean(). returns (impl, model) dicts keyed by id"""
        for c in cases:
            if getattr(c, 'id', None) is None:
                c.id = self.fresh()
        impl = self.go([c.go() for c in cases])
        model = self.lean([c.lean() for c in cases])
        self.evaluations += len(cases)
        return impl, model

    # -- bookkeeping
    def count(self, key, n=1):
        self.dist[key] = self.dist.get(key, 0) + n

    def op(self, name, agreed):
        o = self.ops.setdefault(name, [0, 0])
        o[0] += 1
        if not agreed:
            o[1] += 1

    def mark_nontrivial(self, sig):
        self.nontrivial.add(sig)

    def sample(self, s, limit=6):
        if len(self.samples) < limit:
            self.samples.append(s)

    def problem(self, kind, what, case=None, detail=None, signature=None, related=None):
        if self.blackbox is not None:
            # verdicts about cases the black-box fallback could not run say nothing about the program
            ids = {getattr(case, 'id', None), getattr(getattr(case, 'meta', {}).get('pair') if hasattr(case, 'meta') else None, 'id', None)}
            if case is not None and (ids & self.blackbox.notrun):
                self.count('blackbox:verdict-dropped')
                return
        self.problems.append(Problem(kind, what, case, detail, signature, related))

    def elapsed(self):
        return time.time() - self.t0


# ------------------------------------------------------------------------------------------
# proof step

def strip_comments(src):
    out = []
    depth = 0
    i = 0
    while i < len(src):
        if src.startswith('/-', i):
            depth += 1
            i += 2
        elif src.startswith('-/', i) and depth > 0:
            depth -= 1
            i += 2
        elif depth > 0:
            i += 1
        elif src.startswith('--', i):
            j = src.find('\n', i)
            i = len(src) if j < 0 else j
        else:
            out.append(src[i])
            i += 1
    return ''.join(out)


def regen_facts():
    """regenerate HranoModel/Facts.lean from the repo's current source; returns (changed, error)"""
    tool = os.path.join(VERIF, 'tools', 'facts')
    out = os.path.join(LEAN_DIR, 'HranoModel', 'Facts.lean')
    if not os.path.isdir(tool):
        return False, None
    env = dict(os.environ)
    env.update(core.GO_ENV)
    env['GOWORK'] = 'off'
    env['GOFLAGS'] = '-mod=mod'
    with core.Lock('facts'):
        r = subprocess.run(['go', 'run', '.', core.REPO], cwd=tool, env=env, capture_output=True, text=True)
        if r.returncode != 0:
            return False, 'facts extractor failed: ' + (r.stdout + r.stderr)[-2000:]
        FACT_FALLBACKS[:] = [l.split('model default kept:', 1)[1].strip() for l in r.stderr.split('\n') if 'model default kept:' in l]
        old = open(out).read() if os.path.exists(out) else None
        if old != r.stdout:
            with open(out, 'w') as f:
                f.write(r.stdout)
            return True, None
    return False, None


# facts the extractor could not read off the source on this run (the model default was kept; see tools/facts/main.go)
FACT_FALLBACKS = []


def proof_step(pid, theorems, tier='quick'):
    """build the property module and audit the axioms of its theorems (thorough tier: also re-check the compiled module
    with leanchecker, the toolchain's independent checker).
    returns dict(ok=[...], broken=[(name, reason)], axioms={name: [...]}, log=str)"""
    res = {'ok': [], 'broken': [], 'axioms': {}, 'log': ''}
    changed, ferr = regen_facts()
    if ferr:
        res['broken'].append(('Facts', ferr))
        return res
    res['facts_changed'] = changed
    mod = 'HranoModel.Props.%s' % pid
    rc, out = core.build_lean([mod, 'hmdriver'])
    res['log'] = out[-4000:]
    if rc != 0:
        # find which declarations failed
        # name the declarations that no longer check: each `error: <file>:<line>:` belongs to the last theorem / def that starts
        # at or before that line
        failing = []
        for m in re.finditer(r'error: (HranoModel/[\w/]+\.lean):(\d+):', out):
            try:
                lines = open(os.path.join(LEAN_DIR, m.group(1))).read().split('\n')[:int(m.group(2))]
            except OSError:
                continue
            for ln in reversed(lines):
                d = re.match(r'\s*(?:private\s+)?(?:theorem|lemma|def|example|instance)\s+([\w.\']+)?', ln)
                if d:
                    name = '%s: %s' % (m.group(1)[len('HranoModel/'):], d.group(1) or 'example')
                    if name not in failing:
                        failing.append(name)
                    break
        res['broken'].append((mod, ('no longer checks: ' + '; '.join(failing[:12]) + ' -- ' if failing else '') + 'lake build failed: ' + out[-1500:]))
        # try to identify theorems that still check by auditing anyway (olean may be missing)
        return res
    # forbidden tokens
    for root, _, files in os.walk(os.path.join(LEAN_DIR, 'HranoModel')):
        for f in files:
            if f.endswith('.lean'):
                src = strip_comments(open(os.path.join(root, f)).read())
                m = FORBIDDEN.search(src)
                if m:
                    res['broken'].append((f, 'forbidden token %r' % m.group(0)))
    audit = os.path.join(core.CACHE, 'audit-%s.lean' % pid)
    with open(audit, 'w') as f:
        f.write('import %s\n' % mod)
        for t in theorems:
            f.write('#print axioms Hrano.%s.%s\n' % (pid, t))
    r = subprocess.run(['lake', 'env', 'lean', audit], cwd=LEAN_DIR, capture_output=True, text=True)
    text = r.stdout + r.stderr
    for t in theorems:
        full = 'Hrano.%s.%s' % (pid, t)
        m = re.search(r"'%s' depends on axioms: \[([^\]]*)\]" % re.escape(full), text, re.S)
        m2 = re.search(r"'%s' does not depend on any axioms" % re.escape(full), text)
        if m:
            ax = [a.strip() for a in m.group(1).replace('\n', ' ').split(',') if a.strip()]
        elif m2:
            ax = []
        else:
            res['broken'].append((t, 'theorem not found or does not check: ' + text[-500:]))
            continue
        res['axioms'][t] = ax
        bad = [a for a in ax if a not in ALLOWED_AXIOMS]
        if bad:
            res['broken'].append((t, 'depends on axioms %s' % bad))
        else:
            res['ok'].append(t)
    if tier == 'thorough':
        r = subprocess.run(['lake', 'env', 'leanchecker', mod], cwd=LEAN_DIR, capture_output=True, text=True)
        res['leanchecker'] = 'ok' if r.returncode == 0 else 'failed'
        if r.returncode != 0:
            res['broken'].append((mod, 'leanchecker rejects the compiled module: ' + (r.stdout + r.stderr)[-600:]))
    return res


# ------------------------------------------------------------------------------------------
# the program run on its own is the arbiter of what the in-process driver saw

def confirm_against_program(ctx):
    """An oracle verdict rests on observations made inside one long-lived driver process.  Before a failing input is reported,
    the case (and the case it was compared with) is run as a separate process of the untagged binary: if the program on its own
    does not print what the driver saw, the driver was no faithful observer (state carried between runs inside the process, a
    difference between the injected and the real readers / sink) and the verdict is a broken correspondence, not an input."""
    if ctx.blackbox is not None:
        return
    from . import common
    checked = unfaithful = 0
    pending = []
    seen_paths = set()

    def path_of(p):
        return tuple(getattr(p.case, 'path', None) or ())

    def replay(p):
        """True: reproduced by the program, False: not reproduced (turned into a broken correspondence), None: nothing to replay"""
        nonlocal checked, unfaithful
        cs = [p.case]
        pair = getattr(p.case, 'meta', {}).get('pair') if hasattr(p.case, 'meta') else None
        if pair is not None and hasattr(pair, 'argv'):
            cs.append(pair)
        cs += [c for c in p.related if hasattr(c, 'argv') and c is not p.case][:40]
        verdicts = [common.reproduced_by_program(ctx, c, ctx.obs.get(c.id)) for c in cs]
        verdicts = [v for v in verdicts if v is not None]
        if not verdicts:
            return None
        checked += 1
        seen_paths.add(path_of(p))
        if not all(verdicts):
            unfaithful += 1
            p.kind = 'corr'
            p.what = 'the program run on its own does not reproduce what the in-process driver observed for this case; the verdict was: ' + p.what
            return False
        return True

    for p in ctx.problems:
        if p.kind != 'oracle' or p.case is None or not hasattr(p.case, 'argv'):
            continue
        if (p.signature or '').startswith('real-binary:'):
            continue        # the verdict was reached on the untagged binary run as a separate process: there is nothing left to confirm
        if (p.signature or '').startswith(('nondeterministic', 'depth-order-dependent')):
            continue        # a verdict about runs that differ from one another: one more run proves nothing either way (C05 repeats it across processes itself)
        if checked >= 8:
            pending.append(p)
            continue
        replay(p)
    # The first verdicts may all be artefacts of the driver (a hook that bypasses the changed code) while a later one, about another
    # command, is genuine (seed R3-r1: every `--no-database` report failed inside the driver only, `stats --no-database` fails in the
    # program too).  Before the rest is dismissed, one verdict per command path not replayed yet is replayed as well.
    if checked >= 3 and unfaithful == checked and pending:
        extra, confirmed = 0, []
        for p in list(pending):
            if extra >= 12:
                break
            if path_of(p) in seen_paths:
                continue
            extra += 1
            if replay(p) is True:
                confirmed.append(p)
        if confirmed:
            # something was reproduced: further verdicts about the same command paths are judged one by one
            paths = set(path_of(p) for p in confirmed)
            for p in [q for q in pending if q.kind == 'oracle' and q not in confirmed and path_of(q) in paths][:24]:
                if replay(p) is True:
                    confirmed.append(p)
        # the driver has been shown to be no faithful observer in this run: only what the program itself reproduced stays a verdict
        for p in pending:
            if p.kind == 'oracle' and p not in confirmed:
                p.kind = 'corr'
                p.what = 'not confirmed against the program run on its own (the first %d verdicts of this run were not reproduced); the verdict was: %s' % (unfaithful, p.what)
        pending = []
    if checked >= 3 and unfaithful == checked:
        for p in pending:
            p.kind = 'corr'
            p.what = 'not confirmed against the program run on its own (the first %d verdicts of this run were not reproduced); the verdict was: %s' % (checked, p.what)
    if checked:
        ctx.notes.append('%d oracle verdicts replayed on the untagged binary as a separate process, %d not reproduced' % (checked, unfaithful))


# ------------------------------------------------------------------------------------------
# main

def run_check(pid, tier, seed):
    mod = importlib.import_module('hv.props.%s' % pid)
    ctx = Ctx(pid, tier, seed)
    # replays of earlier runs of this check are stale
    rd = os.path.join(VERIF, 'replays')
    if os.path.isdir(rd):
        for f in os.listdir(rd):
            if f.startswith(pid + '-'):
                try:
                    os.remove(os.path.join(rd, f))
                except OSError:
                    pass
    known, _fixed = core.load_known()
    known = [k for k in known if k['property'] == pid]
    t0 = time.time()
    try:
        theorems = getattr(mod, 'THEOREMS', [])
        proof = proof_step(pid, theorems, tier)
        for name, reason in proof['broken']:
            ctx.problem('proof', 'theorem %s no longer checks: %s' % (name, reason[:600]))
        if not os.path.exists(core.HMDRIVER):
            raise core.Infra('hmdriver missing: ' + proof.get('log', '')[-800:])
        def guarded(f, *a):
            # under the black-box fallback most unit modes come back as `notrun`; a module that cannot digest that stops early
            try:
                f(*a)
            except core.Infra:
                raise
            except Exception:
                if ctx.blackbox is None:
                    raise
                ctx.notes.append('black-box fallback: exploration stopped early: ' + traceback.format_exc()[-300:])
        guarded(mod.run, ctx)
        if tier == 'thorough' and ctx.blackbox is None:
            # as deep as the budget allows: the whole exploration again under two further generator seeds
            for k in (1, 2):
                ctx.seed = seed + 7919 * k
                mod.run(ctx)
                ctx.notes.append('thorough tier: exploration repeated with generator seed %d' % ctx.seed)
            ctx.seed = seed
        # widen the search when only a proof / correspondence break was seen
        oracle = [p for p in ctx.problems if p.kind == 'oracle']
        broken = [p for p in ctx.problems if p.kind in ('proof', 'corr')]
        if broken and not oracle and hasattr(mod, 'search'):
            log('%s: proof/correspondence break without a failing input; widening the search' % pid)
            budget = 120 if tier == 'quick' else 900
            if ctx.blackbox is not None:
                budget = 45 if tier == 'quick' else 300      # every case is a process of its own: a shorter widening
            t_search = time.time()
            k = 0
            while time.time() - t_search < budget and not [p for p in ctx.problems if p.kind == 'oracle']:
                k += 1
                guarded(mod.search, ctx, seed * 1000 + k)
                if k >= 40:
                    break
    except core.Infra as e:
        print('INFRA: %s' % e)
        return 2
    except Exception:
        print('INFRA: check crashed: %s' % traceback.format_exc()[-3000:])
        return 2

    confirm_against_program(ctx)
    oracle = [p for p in ctx.problems if p.kind == 'oracle']
    broken = [p for p in ctx.problems if p.kind in ('proof', 'corr')]
    violations = 0
    lines = []
    seen_known = set()
    n = 0
    for p in oracle:
        k = next((k for k in known if p.signature and k['signature'] == p.signature), None)
        if k:
            if k['signature'] not in seen_known:
                seen_known.add(k['signature'])
                lines.append('KNOWN-FINDING: property=%s %s' % (pid, k['what']))
            continue
        n += 1
        if n > 5:
            violations += 1
            continue
        path = core.write_replay(pid, seed, n, {
            'property': pid, 'kind': 'property fails on the implementation', 'what': p.what,
            'case': p.case.describe() if hasattr(p.case, 'describe') else p.case,
            'driver_lines': {'go': p.case.go(), 'lean': p.case.lean()} if hasattr(p.case, 'go') else None,
            'detail': p.detail, 'signature': p.signature,
            'replay': 'see "case.cmd" and "case.files": run the real binary in a directory holding the files'})
        lines.append('VIOLATION property=%s replay=%s' % (pid, path))
        violations += 1
    if broken and not [p for p in oracle if not (p.signature and any(k['signature'] == p.signature for k in known))]:
        # not shown to hold any more, but no failing input
        seen = set()
        for p in broken[:3]:
            n += 1
            path = core.write_replay(pid, seed, n, {
                'property': pid, 'kind': 'proof obligation broken' if p.kind == 'proof' else 'model/implementation correspondence broken',
                'what': p.what, 'case': p.case.describe() if hasattr(p.case, 'describe') else p.case,
                'driver_lines': {'go': p.case.go(), 'lean': p.case.lean()} if hasattr(p.case, 'go') else None,
                'detail': p.detail})
            key = (p.kind, p.what[:80])
            if key in seen:
                continue
            seen.add(key)
            lines.append('VIOLATION property=%s replay=%s no-failing-input-found' % (pid, path))
            violations += 1
    wall = time.time() - t0
    obligations = len(theorems) + len(ctx.ops)
    discharged = len(proof['ok']) + sum(1 for o in ctx.ops.values() if o[1] == 0)
    level = getattr(mod, 'LEVEL', 'proof') if theorems else 'translation_validation'
    ev = {
        'property_id': pid, 'tier': tier, 'seed': seed, 'level': level,
        'coverage': {
            'obligations': obligations, 'discharged': discharged,
            'checker_cmd': 'cd lean && lake build HranoModel.Props.%s && lake env lean <audit: #print axioms of each theorem>' % pid,
            'trusted_base': ['Lean 4.33.0 kernel', 'axioms: ' + ', '.join(sorted({a for v in proof['axioms'].values() for a in v}) or ['none']),
                             'hand-written model tied to /repo by tools/facts (constants) and the correspondence check (behaviour)',
                             'Lean compiler/runtime for hmdriver; Go toolchain; tools/hv (generators, comparators)'],
            'leanchecker': proof.get('leanchecker', 'not run (thorough tier only)'),
            'facts_not_regenerated': list(FACT_FALLBACKS),
            'theorems': {t: proof['axioms'].get(t) for t in theorems},
            'theorems_broken': [b[0] for b in proof['broken']],
            'correspondence_ops': {k: {'compared': v[0], 'disagreed': v[1]} for k, v in ctx.ops.items()},
            'evaluations': ctx.evaluations, 'distinct_nontrivial': len(ctx.nontrivial),
            'programs': ctx.evaluations, 'disagreements_checked': sum(o[1] for o in ctx.ops.values()),
            'rule': getattr(mod, 'RULE', ''), 'samples': ctx.samples or ['(none)'],
            'input_distribution': ctx.dist, 'exhaustive': ctx.exhaustive,
            'known_findings_hit': sorted(seen_known), 'notes': ctx.notes,
        },
        'assumptions': getattr(mod, 'ASSUMPTIONS', []),
        'wall_s': round(wall, 2), 'violations': violations,
    }
    core.write_evidence(pid, ev)
    for l in lines:
        print(l)
    print('%s tier=%s seed=%s theorems=%d/%d corr_ops=%s evaluations=%d nontrivial=%d violations=%d wall=%.1fs' % (
        pid, tier, seed, len(proof['ok']), len(theorems), {k: tuple(v) for k, v in ctx.ops.items()}, ctx.evaluations, len(ctx.nontrivial), violations, wall))
    return 1 if violations else 0
