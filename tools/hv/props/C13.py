"""C13 — CSV exports are lossless and machine-readable."""
import csv as pycsv
import io
from fractions import Fraction
from .. import spec
from ..gen import fmt_date_layout, G, Qty
from ..common import run_apps, app, out_of, sig
from ..core import unhx

THEOREMS = ['csv_roundtrip', 'csv_log_rows', 'csv_db_rows', 'csv_dates_iso', 'csv_resolved_sorted', 'csv_resolved_perm', 'amount_within_half_ulp', 'amount_fixed_precision', 'amount_reads_back']
LEVEL = 'proof'
RULE = ('logs and books whose names range over letters of several scripts, digits, blanks, "/", commas, double quotes, CR and other punctuation; quantities '
        'negative, tiny, large and on rounding boundaries; recipe books with a repeated heading; each export is read back with an independent RFC 4180 reader (Python csv) and compared with the '
        'rows the input defines; non-trivial = a name that needs quoting or a value on a rounding boundary; distinct by input hash')
ASSUMPTIONS = ['the independent reader accepts LF and CRLF record ends (Go writes LF)']

SPECIAL = [b'a,b', b'say "hi"', b'x,"y",z', b'tab\there', b'semi;colon', b'sp  ace', b'\xc2\xa0nbsp-first', b'q"', b"it's", b'50%', b'a\rb', b'(a)', b'\\.', b'\xd0\xbf\xd0\xb8\xd1\x80\xd0\xbe\xd0\xb3, \xd1\x81 \xd0\xbc\xd1\x8f\xd1\x81\xd0\xbe', b'\xe7\xb1\xb3,\xe9\xa3\xaf']
BOUNDARY = ['0.125', '0.375', '0.0625', '0.1875', '2.5e-3', '0.0005', '1e-7', '1048576.5', '-0.125', '-0.0005', '123456789.125', '0.005', '0.015', '0.025', '1e15', '0.0007', '0.0008', '-0.0007', '0.00051', '0.00099', '-0.00099', '0.0049', '0.0051', '-0.0051']


def canon(v):
    return v[1:] if v.startswith('-') and not v.strip('-0.') else v


def read_csv(b):
    return [row for row in pycsv.reader(io.StringIO(b.decode('utf-8', 'surrogateescape'), newline=''), strict=True)]


def names(g, n):
    out = []
    for _ in range(n):
        if g.r.random() < 0.5:
            nm = g.r.choice(SPECIAL)
            if g.r.random() < 0.5:
                nm = g.word(1, 4, 0.3).encode() + b'/' + nm
        else:
            nm = g.name(unusual=0.4)
        if g.wf_name(nm) and nm not in out:
            out.append(nm)
    return out


def qty(g):
    if g.r.random() < 0.4:
        lit = g.r.choice(BOUNDARY)
        return Qty(lit, Fraction(lit) if 'e' not in lit else Fraction(lit.split('e')[0]) * Fraction(10) ** int(lit.split('e')[1]), False)
    return g.qty_exact()


def gen(g, count):
    cases = []
    for _ in range(count):
        rec = names(g, g.r.randint(1, 4))
        leaves = names(g, g.r.randint(1, 4)) + [b'calories']
        rec = [x for x in rec if x not in leaves]
        if rec and g.r.random() < 0.2:
            # a recipe whose name continues another recipe's name (`bread`, `bread/white`, `bread white`): rows are ordered by recipe, then element
            ext = rec[0] + g.r.choice([b'/', b' ', b'-', b'!']) + g.word(1, 5, 0).encode()
            if g.wf_name(ext) and ext not in rec and ext not in leaves:
                rec.append(ext)
        book = [(n, [(g.r.choice(leaves + rec[:i]), qty(g)) for _ in range(g.r.randint(0, 4))]) for i, n in enumerate(rec)]
        # huge and small terms that cancel in one resolved amount (1e21 + 15.625 - 1e21) are absorbed by float64 and rightly so;
        # the model computes exactly, so such books are outside what can be compared: take the huge literals out of them
        bm0 = spec.book_map(book)
        if len(bm0) == len(book):
            res0 = spec.resolved(bm0)
            mag0 = spec.resolved({n: [(i, abs(v)) for i, v in ings] for n, ings in bm0.items()})
            if any(m > 10 ** 9 * max(abs(v), Fraction(1, 200)) for n in res0 for (_, v), (_, m) in zip(res0[n], mag0[n])):
                book = [(n, [(i, (Qty('0.125', Fraction(1, 8), False) if abs(q.value) >= 10 ** 6 else q)) for i, q in ings]) for n, ings in book]
        if book and g.r.random() < 0.25:
            # the same heading twice in the recipe book: the later record replaces the earlier one (one entry per recipe)
            dup = g.r.choice(book)[0]
            book.insert(g.r.randint(0, len(book)), (dup, [(g.r.choice(leaves), qty(g)) for _ in range(g.r.randint(0, 3))]))
        foods = rec + names(g, 3)
        log = []
        import datetime as _dt
        pool = __import__('hv.gen', fromlist=['WINDOW']).WINDOW
        if g.r.random() < 0.1:
            pool = [_dt.date(1, 1, 1), _dt.date(87, 3, 4), _dt.date(987, 3, 4), _dt.date(999, 12, 31), _dt.date(1000, 1, 1), _dt.date(1582, 10, 15), _dt.date(2600, 2, 28), _dt.date(9999, 12, 31)]
        for d in g.r.sample(pool, g.r.randint(1, 3)):
            log.append((d, [(g.r.choice(foods), qty(g)) for _ in range(g.r.randint(0, 5))] if foods else [], []))
        # the date column is ISO whatever layout the log is written in, and wherever that layout comes from; a period does not
        # change the rows that are left
        from ..gen import LAYOUTS, fmt_date_layout
        layout = g.r.choice(LAYOUTS) if g.r.random() < 0.4 else '2006/01/02'
        files = {b'food.yaml': g.render_book(book), b'log.yaml': g.render_log(log, layout=layout)}
        gf, env, cfg = {'today': fmt_date_layout(__import__('datetime').date(2021, 1, 28), layout)}, {}, None
        if layout != '2006/01/02':
            src = g.r.choice(['flag', 'env', 'cfg'])
            if src == 'flag':
                gf['dateFormat'] = layout
            elif src == 'env':
                env['dateFormat'] = layout
            else:
                cfg = {'where': 'flag', 'path': 'my.cfg', 'exists': True, 'entries': {'DateFormat': layout}}
                gf['config'] = 'my.cfg'
        for path in (['csv', 'log'], ['csv', 'database'], ['csv', 'database-resolved']):
            sel = log
            sf = {}
            if path == ['csv', 'log'] and log and g.r.random() < 0.3:
                b0 = g.r.choice(log)[0]
                sf['begin'] = fmt_date_layout(b0, layout)
                sel = [x for x in log if x[0] >= b0]
            c = app(path, files, g=gf, s=sf, env=env, cfg=cfg, disk=(cfg is not None), kind=' '.join(path), exact=False)
            c.meta.update({'book': book, 'log': sel})
            cases.append(c)
    return cases


def within_half_ulp(printed, true, prec):
    return abs(Fraction(printed) - true) <= Fraction(1, 2 * 10 ** prec)


def judge(ctx, cases, impl):
    for c in cases:
        i = impl[c.id]
        kind = c.meta['kind']
        if i.get('status') != 'ok':
            ctx.problem('oracle', '`%s` fails on valid input' % kind, c, {'class': i.get('class')}, signature='csv-fails')
            continue
        raw = unhx(i['out'])
        try:
            rows = read_csv(raw)
        except Exception as e:
            ctx.problem('oracle', '`%s` output is not valid RFC 4180: %s' % (kind, e), c, {'out': raw.decode('utf-8', 'replace')[:800]}, signature='csv-invalid')
            continue
        if kind == 'csv log':
            want = [(fmt_date_layout(d, '2006-01-02'), f, q, 3, abs(q)) for d, ents, _ in c.meta['log'] for f, q in spec.merge_day(ents)]
        elif kind == 'csv database':
            want = [(n.decode('utf-8', 'surrogateescape'), leaf, q.value, 2, abs(q.value)) for n, ings in c.meta['book'] for leaf, q in ings]
        else:
            bm = spec.book_map(c.meta['book'])
            res = spec.resolved(bm)
            # the size of what was added up (terms may cancel: 1e21 + 15.625 - 1e21 is 0 in float64, and rightly so)
            mag = {(n, leaf): v for n, rows in spec.resolved({n: [(i, abs(v)) for i, v in ings] for n, ings in bm.items()}).items() for leaf, v in rows}
            want = [(n.decode('utf-8', 'surrogateescape'), leaf, v, 2, mag.get((n, leaf), abs(v))) for n in sorted(res) for leaf, v in res[n]]
        ok = len(rows) == len(want)
        why = 'row count %d != %d' % (len(rows), len(want))
        if ok:
            for row, (a, name, val, prec, size) in zip(rows, want):
                nm = name.decode('utf-8', 'surrogateescape') if isinstance(name, bytes) else name
                if len(row) != 3 or row[0] != a or row[1] != nm:
                    ok, why = False, 'row %r, expected %r' % (row, (a, nm))
                    break
                frac = row[2].split('.')[1] if '.' in row[2] else ''
                if len(frac) != prec or not within_half_ulp(row[2], val, prec):
                    # float64 products may be a further ulp of the *double* away; allow it only far from exactness
                    if len(frac) != prec or abs(Fraction(row[2]) - val) > Fraction(1, 2 * 10 ** prec) + max(abs(val), size) * Fraction(1, 10 ** 12):
                        ok, why = False, 'amount %s is not %s to %d places' % (row[2], float(val), prec)
                        break
        if not ok:
            ctx.problem('oracle', '`%s` does not read back to the rows of the input: %s' % (kind, why), c,
                        {'read_back': repr(rows)[:1500], 'expected': repr([(a, n, str(v)) for a, n, v, _, _ in want])[:1500]}, signature='csv-rows')


def run(ctx):
    g = G(ctx.seed)
    cases = gen(g, 600 if ctx.tier == 'quick' else 2500)
    impl, model = run_apps(ctx, cases)
    judge(ctx, cases, impl)
    for c in cases:
        nm = [n for n, _ in c.meta['book']] + [f for _, ents, _ in c.meta['log'] for f, _ in ents]
        quoted = any(any(ch in n for ch in (b',', b'"', b'\r')) for n in nm)
        ctx.count('needs-quoting' if quoted else 'plain')
        if quoted:
            ctx.mark_nontrivial(sig(c.files, c.meta['kind']))
    ctx.sample({'cmd': cases[0].shell(), 'log': cases[0].files[b'log.yaml'].decode('utf-8', 'replace')[:400]})


def search(ctx, seed):
    g = G(seed)
    cases = gen(g, 150)
    for c in cases:
        c.id = ctx.fresh('s')
    impl = ctx.go([c.go() for c in cases])
    ctx.evaluations += len(cases)
    judge(ctx, cases, impl)
