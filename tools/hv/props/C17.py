"""C17 — a report that cannot be written completely yields a non-zero exit."""
from .. import spec, core
from ..gen import G
from ..common import run_apps, app, out_of, sig, base_files
from ..core import unhx, hx

THEOREMS = ['lost_output_fails', 'sink_holds_prefix', 'complete_output_unchanged', 'direct_writes_fail']
LEVEL = 'proof'
RULE = ('every report command with the output sink failing from byte offset k, for every k in 0..len (small reports) or sampled k incl. the '
        '4096-byte buffer boundary (large reports); logs with a food name longer than the buffer (direct writes); the real binary with stdout on /dev/full, on a closed pipe and on a regular file that cannot grow (ulimit -f 0); bufio.Writer model vs bufio; '
        'non-trivial = k strictly inside the report; distinct by (command, input hash, k)')
ASSUMPTIONS = ['SIGPIPE delivery and ENOSPC are exercised only by the real-binary runs']

CMDS = [(['reg'], (), {}), (['reg'], (), {'oldReg': True}), (['reg'], (), {'singleElement': 'calories'}), (['reg'], (), {'singleElement': 'calories', 'groupFood': True}), (['reg'], (), {'singleElement': 'calories', 'csv': True}),
        (['reg'], (), {'singleFood': 'a'}), (['bal'], (), {}), (['bal'], (), {'collapse': True}), (['bal'], (), {'singleElement': 'calories'}),
        (['report', 'totals'], (), {}), (['report', 'unresolved'], (), {}), (['report', 'quantity'], (), {}), (['report', 'element-total'], ('calories',), {}),
        (['csv', 'log'], (), {}), (['csv', 'database'], (), {}), (['csv', 'database-resolved'], (), {}),
        (['summary'], ('2021/01/24',), {}), (['print'], (), {}), (['stats'], (), {}), (['lint'], ('food.yaml',), {}),
        (['gen', 'man'], (), {}), (['gen', 'markdown'], (), {}),
        # switches that pick another writer or another layout, alone and combined
        (['reg'], (), {'singleFood': 'a', 'csv': True}), (['reg'], (), {'singleFood': 'a', 'groupFood': True}), (['reg'], (), {'singleElement': 'calories', 'groupFood': True, 'csv': True}),
        (['reg'], (), {'template': 'left-aligned'}), (['reg'], (), {'shorten': True}), (['reg'], (), {'totalsOnly': True}), (['reg'], (), {'noTotals': True}),
        (['reg'], (), {'oldReg': True, 'totalsOnly': True}), (['reg'], (), {'oldReg': True, 'noTotals': True}), (['reg'], (), {'csv': True}),
        (['bal'], (), {'collapseLast': True}), (['bal'], (), {'singleElement': 'calories', 'collapse': True}),
        (['report', 'quantity'], (), {'desc': True}), (['report', 'element-total'], ('calories',), {'desc': True}), (['summary'], ('today',), {}), (['lint'], ('log.yaml',), {'silent': True})]


class SinkCase:
    def __init__(self, chunks, k, size=4096):
        self.chunks, self.k, self.size = chunks, k, size
        self.id = None

    def go(self):
        return {'id': self.id, 'mode': 'sink', 'chunks': [hx(c) for c in self.chunks], 'k': self.k, 'size': self.size}

    lean = go

    def describe(self):
        return {'chunks': [len(c) for c in self.chunks], 'k': self.k, 'size': self.size}


def gen(g, count, dense):
    cases = []
    r = g.r
    for n in range(count):
        big = (n % 3 == 2)
        book = g.book(depth=1, exact=True, per_layer=3 if not big else (6 if n % 2 else 120), unusual=0.1)
        if len(spec.book_map(book)) != len(book):
            continue
        log = g.log(book=book, exact=True, days=2 if not big else 40, max_entries=3 if not big else 10, dates=None, unusual=0.1)
        log[0] = (__import__('datetime').date(2021, 1, 24), log[0][1] or [(b'a/b', g.qty_exact())], log[0][2])
        if n % 3 == 1:
            # a row longer than the 4096-byte buffer (bufio hands it to the sink directly), first or later in the report
            long_name = b'a/' + b'x' * r.choice([4100, 5000, 8300, 12000])
            at = r.choice([0, 0, len(log) - 1])
            ents = list(log[at][1])
            ents.insert(0 if r.random() < 0.6 else len(ents), (long_name, g.qty_exact()))
            log[at] = (log[at][0], ents, log[at][2])
        files = base_files(g, book, log)
        # a file with malformed lines: lint's report is then one line per problem, written without a buffer
        from .C09 import planted
        recs = [g.render_record(d.strftime('%Y/%m/%d').encode(), ents, ns, True) for d, ents, ns in log[:4]]
        for _ in range(r.randint(1, 4)):
            rec = r.choice(recs)
            rec.insert(r.randint(1, len(rec)), planted(g)[0])
        files[b'bad.yaml'] = g.render_file(recs, True)
        for path, args, s in CMDS + [(['lint'], ('bad.yaml',), {}), (['lint'], ('bad.yaml',), {'silent': True})]:
            kind = ' '.join(path + list(s) + (['bad.yaml'] if args == ('bad.yaml',) else []))
            base = app(path, files, args=args, s=s, kind=kind, disk=(path == ['stats']))
            base.meta['role'] = 'base'
            base.meta['dense'] = dense and not big
            cases.append(base)
    return cases


def run(ctx):
    g = G(ctx.seed)
    bases = gen(g, 6 if ctx.tier == 'quick' else 12, True)
    impl0 = None
    for c in bases:
        c.id = ctx.fresh()
    impl0 = ctx.go([c.go() for c in bases])
    ctx.evaluations += len(bases)
    cases = []
    for b in bases:
        i = impl0[b.id]
        if i.get('status') != 'ok':
            continue
        n = len(unhx(i['out']))
        if n == 0:
            continue
        if n <= 400 and ctx.tier == 'thorough':
            ks = range(0, n + 1)
        elif n <= 400:
            ks = sorted(set(list(range(0, n + 1, max(1, n // 10))) + [0, 1, n - 1, n]))
        else:
            ks = sorted(set([0, 1, 100, 4095, 4096, 4097, 8191, 8192, 8193, n // 2, n - 1, n]) & set(range(0, n + 1)))
        for k in ks:
            c = b.clone(sink_fail=k, id=None)
            c.meta = dict(b.meta, role='fault', k=k, n=n)
            cases.append(c)
    impl, model = run_apps(ctx, cases)
    for c in cases:
        i = impl[c.id]
        k, n = c.meta['k'], c.meta['n']
        if k < n and i.get('status') == 'ok':
            ctx.problem('oracle', '`%s` exits 0 although the sink failed after %d of %d bytes' % (c.meta['kind'], k, n), c,
                        {'written': unhx(i.get('out', '')).decode('utf-8', 'replace')[-200:]}, signature='lost-output-exit-0:' + c.meta['kind'].split(' ')[0])
        if i.get('status') in ('panic', 'crash', 'timeout'):
            ctx.problem('oracle', '`%s` %s when the sink fails after %d of %d bytes' % (c.meta['kind'], {'panic': 'panics', 'crash': 'crashes', 'timeout': 'hangs'}[i['status']], k, n), c,
                        {'text': unhx(i.get('text', '') or '').decode('utf-8', 'replace')[:300]}, signature='sink-failure-crash:' + c.meta['kind'].split(' ')[0])
        if k >= n and i.get('status') != 'ok':
            ctx.problem('oracle', '`%s` fails although the complete report (%d bytes) was written' % (c.meta['kind'], n), c, {'class': i.get('class')}, signature='complete-output-fails')
        if 0 < k < n:
            ctx.mark_nontrivial((c.meta['kind'], sig(c.files), k))
        ctx.count('cmd:' + c.meta['kind'])
    ctx.sample({'cmd': cases[5].shell(), 'sinkFail': cases[5].sink_fail, 'report_bytes': cases[5].meta['n']})
    # bufio.Writer model vs bufio.Writer
    sinks = []
    r = g.r
    for _ in range(1500 if ctx.tier == 'quick' else 3000):
        size = r.choice([16, 16, 32, 4096])
        chunks = [bytes(r.randrange(97, 123) for _ in range(r.choice([0, 1, 3, 7, size - 1, size, size + 1, 2 * size + 3]) if size <= 32 else r.choice([0, 10, 500, 4095, 4096, 5000, 9000]))) for _ in range(r.randint(0, 6))]
        total = sum(len(c) for c in chunks)
        k = r.choice([0, 1, total - 1, total, total + 5, r.randint(0, total + 1)])
        sinks.append(SinkCase(chunks, max(0, k), size))
    impl2, model2 = ctx.both(sinks)
    for c in sinks:
        ok = impl2[c.id].get('err') == model2[c.id].get('err') and impl2[c.id].get('got') == model2[c.id].get('got')
        ctx.op('bufio.Writer', ok)
        if not ok:
            ctx.problem('corr', 'bufio.Writer over a failing sink differs from the model', c, {'impl': impl2[c.id], 'model': model2[c.id]})
    # the real binary: /dev/full and a closed pipe
    binary = ctx.real()
    nreal = 0
    for b in bases[:len(CMDS)]:
        if impl0[b.id].get('status') != 'ok' or not unhx(impl0[b.id]['out']):
            continue
        for sinkkind in ('full', 'closed', 'fsize'):
            rc, out, err = core.run_real_binary(binary, b.argv(), b.files, stdout_to=sinkkind)
            nreal += 1
            if rc == 0:
                ctx.problem('oracle', '`%s` exits 0 with stdout on %s' % (b.meta['kind'], {'full': '/dev/full', 'closed': 'a closed pipe', 'fsize': 'a regular file that cannot grow (ulimit -f 0)'}[sinkkind]), b,
                            {'stderr': err.decode('utf-8', 'replace')[:200]}, signature='lost-output-exit-0:' + b.meta['kind'].split(' ')[0])
    ctx.evaluations += nreal
    ctx.notes.append('%d runs of the untagged binary with stdout on /dev/full or a closed pipe' % nreal)


def search(ctx, seed):
    pass
