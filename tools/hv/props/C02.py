"""C02 — register reports each day's foods, ingredients and signed totals exactly."""
from .. import spec
from ..gen import G
from ..common import run_apps, app, out_of, sig, base_files, TODAY

THEOREMS = ['day_foods', 'item_ingredients', 'item_totals', 'register_days', 'default_layout_follows_template',
            'left_layout_follows_template', 'old_layout_follows_source', 'template_formats_well_formed']
LEVEL = 'proof'
RULE = ('random logs (repeated foods in a day, negative/zero quantities, foods in and not in the book, elements logged directly that also '
        'come from a recipe, empty recipes, empty days) x random nested books; the default register is parsed and compared with the '
        'exact sums; non-trivial = a repeated food, a mixed-sign element or a direct+derived element on one day; distinct by input hash')
ASSUMPTIONS = ['figures are compared as printed (two decimals) on inputs whose arithmetic is exact in float64']


def expected_days(book, log):
    res = spec.resolved(spec.book_map(book))
    out = []
    for d, ents, _ in log:
        merged = spec.merge_day(ents)
        foods = []
        for f, q in merged:
            foods.append((f, spec.fmt_fixed(q, 2), [(leaf, spec.fmt_fixed(v, 2)) for leaf, v in spec.contributions(res, f, q)]))
        tots = [(k, spec.fmt_fixed(p, 2), spec.fmt_fixed(n, 2), spec.fmt_fixed(s, 2)) for k, p, n, s in spec.day_totals(res, merged)]
        out.append({'date': d.strftime('%Y/%m/%d').encode(), 'foods': foods, 'totals': tots})
    return out


def canon_num(b):
    s = b.decode()
    if s.startswith('-') and not s.strip('-0.'):
        return s[1:]
    return s


def canon_days(days):
    out = []
    for d in days:
        out.append({'date': d['date'],
                    'foods': [(n, canon_num(v) if isinstance(v, bytes) else canon_num(v.encode()), [(a, canon_num(x) if isinstance(x, bytes) else canon_num(x.encode())) for a, x in ings]) for n, v, ings in d['foods']],
                    'totals': None if d['totals'] is None else [(n,) + tuple(canon_num(x) if isinstance(x, bytes) else canon_num(x.encode()) for x in rest) for n, *rest in d['totals']]})
    return out


def gen(g, count):
    cases = []
    for _ in range(count):
        book = g.book(depth=g.r.choice([0, 1, 1, 2, 3]), exact=True, unusual=0.2)
        if len(spec.book_map(book)) != len(book):
            continue
        log = g.log(book=book, exact=True, unusual=0.2, repeat=0.35, direct=0.25)
        files = base_files(g, book, log)
        for kind, s in (('reg', {}), ('reg left', {'template': 'left-aligned'}), ('reg old', {'oldReg': True})):
            c = app(['reg'], files, s=s, kind=kind)
            c.meta.update({'book': book, 'log': log})
            cases.append(c)
    return cases


def judge(ctx, cases, impl):
    for c in cases:
        if c.meta['kind'] != 'reg':
            continue
        i = impl[c.id]
        want = canon_days(expected_days(c.meta['book'], c.meta['log']))
        try:
            got = canon_days(spec.parse_register_default(out_of(i))) if i.get('status') == 'ok' else 'status=%s %s' % (i.get('status'), i.get('class'))
        except ValueError as e:
            got = 'unreadable: %s' % e
        if got != want:
            ctx.problem('oracle', 'register does not show the exact foods / ingredients / signed totals of the log', c,
                        {'impl': repr(got)[:3000], 'spec': repr(want)[:3000]}, signature='register-spec')


def run(ctx):
    g = G(ctx.seed)
    cases = gen(g, 600 if ctx.tier == 'quick' else 2500)
    impl, model = run_apps(ctx, cases)
    judge(ctx, cases, impl)
    for c in cases:
        log = c.meta['log']
        ctx.count('days:%d' % min(len(log), 6))
        rep = any(len({f for f, _ in ents}) < len(ents) for _, ents, _ in log)
        if rep:
            ctx.count('repeated-food')
        if rep or any(q.value < 0 for _, ents, _ in log for _, q in ents):
            ctx.mark_nontrivial(sig(c.files))
    # one file in both roles (a journal that is its own recipe book: headings are dates, a food may be named like a date):
    # the program must read it twice; the report is the one it gives for a copy of the file under a second name
    from .. import core
    binary = ctx.real()
    journal = b'2021/01/24:\n  bread: 1\n  cheese: 0.5\n2021/01/25:\n  2021/01/24: 2\n  milk: 1\n'
    n = 0
    for argv in (['reg'], ['bal'], ['report', 'totals'], ['report', 'unresolved'], ['summary', '2021/01/25'], ['reg', '-s', 'bread'], ['csv', 'log']):
        base = ['--today', '2021/01/28', '--no-color']
        rc1, out1, err1 = core.run_real_binary(binary, base + ['-d', 'j.yaml', '-l', 'j.yaml'] + argv, {b'j.yaml': journal})
        rc2, out2, err2 = core.run_real_binary(binary, base + ['-d', 'copy.yaml', '-l', 'j.yaml'] + argv, {b'j.yaml': journal, b'copy.yaml': journal})
        n += 2
        if (rc1, out1) != (rc2, out2) or rc1 != 0:
            ctx.problem('oracle', '`%s` with one file as recipe book and as log does not give the report it gives for a copy of that file under a second name' % ' '.join(argv), None,
                        {'same_file': out1.decode('utf-8', 'replace')[:500] + ' [%d] %s' % (rc1, err1.decode('utf-8', 'replace')[:200]), 'copy': out2.decode('utf-8', 'replace')[:500] + ' [%d]' % rc2},
                        signature='same-file-both-roles')
    ctx.evaluations += n
    ctx.notes.append('%d runs of the untagged binary with one file as book and as log' % n)
    ctx.sample({'cmd': cases[0].shell(), 'log': cases[0].files[b'log.yaml'].decode('utf-8', 'replace')[:500], 'book': cases[0].files[b'food.yaml'].decode('utf-8', 'replace')[:400]})


def search(ctx, seed):
    g = G(seed)
    cases = [c for c in gen(g, 200) if c.meta['kind'] == 'reg']
    for c in cases:
        c.id = ctx.fresh('s')
    impl = ctx.go([c.go() for c in cases])
    ctx.evaluations += len(cases)
    judge(ctx, cases, impl)
