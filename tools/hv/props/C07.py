"""C07 — all reports agree on the same quantities."""
import csv as pycsv
import datetime
import io
import re
from fractions import Fraction
from .. import spec
from ..gen import fmt_date_layout, G, Qty, WINDOW, LAYOUTS
from ..common import run_apps, app, out_of, sig
from ..core import unhx

THEOREMS = ['dayAcc_is_register', 'totals_eq_sum_daily', 'single_row_eq_day_totals', 'bal_single_total_eq_period_total', 'quantity_eq_sum_csv_rows', 'summary_eq_register_day', 'unresolved_eq_logged_minus_book', 'stats_counts_headings', 'quantity_eq_balance_leaf', 'stats_days_ago', 'single_csv_same_figures', 'totals_layout_follows_source', 'value_rows_follow_source', 'formats_well_typed', 'stats_layout_follows_source', 'summary_layout_follows_template']
LEVEL = 'proof'
RULE = ('random logs (4 % with 100 to 600 headings) x nested books x periods x elements; every relation is evaluated between two independent code paths of the program on the same input '
        '(no reference model in between): totals vs sum of daily register totals vs reg -s rows (text and --csv) vs bal -s total; quantity vs balance leaves vs csv log; element-total vs resolved csv; '
        'summary vs register; unresolved vs logged minus book; stats vs headings; non-trivial = >= 2 days and an element with both signs; distinct by input hash')
ASSUMPTIONS = ['quantities have at most one decimal and recipe coefficients are integers, so every printed figure is exact and relations are checked with equality']

NUM = rb'-?[0-9]+\.[0-9][0-9]'
F = lambda b: Fraction(b.decode())


def qty1(g):
    v = Fraction(g.r.choice([1, 2, 3, 4, 5, 10, 1, 2, 15, 25, 7, 0]), g.r.choice([1, 1, 1, 2]))
    if g.r.random() < 0.25:
        v = -v
    s = '%s' % (v.numerator // v.denominator if v.denominator == 1 else float(v))
    return Qty(s, v)


def qint(g):
    v = Fraction(g.r.choice([1, 2, 3, 5, 10, 100, 40, 7, 0]))
    if g.r.random() < 0.25:
        v = -v
    return Qty(str(int(v)), v)


def gen(g, count):
    r = g.r
    groups = []
    for _ in range(count):
        leaves = [b'calories', b'fat', b'protein']
        if r.random() < 0.12:
            # white space other than blank and tab is part of a name, also at its ends, also when the name is a command-line argument
            leaves[r.randrange(3)] = r.choice(['protein\u00a0', '\u3000fibre', 'iron\u2028', '\u0085zinc', 'salt\x0b', '\x0csugar', '\ufeffB12', 'fat%', 'cocoa %', '%dv', '100%s', 'a%!b']).encode()
        recs = []
        for _ in range(r.randint(1, 5)):
            nm = b'/'.join(g.word(2, 6, 0.15).encode() for _ in range(r.randint(1, 3)))
            if r.random() < 0.12:
                # characters that HTML, shells or spreadsheets escape: a report shows them as they are, in every report
                nm += r.choice([b"&co", b"'s", b'+x', b'<b>', b'"q"x', b'&amp;', b'=1', b'%d', b'`x`', b'$x']) 
            if nm not in recs and nm not in leaves:
                recs.append(nm)
        # keep food names prefix-free so that balance leaves are the foods
        recs = [n for n in recs if spec.no_prefix(recs)]
        if not recs:
            continue
        book = []
        for i, n in enumerate(recs):
            ings = [(r.choice(leaves + recs[:i]), qint(g)) for _ in range(r.randint(0, 4))]
            book.append((n, ings))
        if book and r.random() < 0.12:
            # the same heading declared twice: the later record replaces the earlier one; stats counts headings, not names
            k = r.randrange(len(book))
            book.append((book[k][0], [(r.choice(leaves), qint(g)) for _ in range(r.randint(0, 3))]))
        if r.random() < 0.15:
            # one coefficient beyond 2^24 (odd: exact in float64, not in float32); one per book, so that every product stays exact
            cand = [(i, j) for i, (n, ings) in enumerate(book) for j, (ing, _) in enumerate(ings) if ing in leaves]
            if cand:
                i, j = r.choice(cand)
                big = r.choice([16777217, 33554433, 123456789])
                ings = list(book[i][1])
                ings[j] = (ings[j][0], Qty(str(big), Fraction(big)))
                book[i] = (book[i][0], ings)
        others = [b'/'.join(g.word(2, 6, 0.15).encode() for _ in range(2)) for _ in range(2)]
        if r.random() < 0.15:
            others = [o + r.choice([b'%', b' 3.5%', b'%d', b'&co', b"'s", b'<b>', b'+x', b'%s%v']) for o in others]
        if r.random() < 0.35:
            # an empty category component (doubled or trailing separator) is a component like any other
            w = lambda: g.word(2, 6, 0.15).encode()
            a, b_ = w(), w()
            others += r.choice([[a + b'/' + b_, a + b'//' + b_], [a + b'/' + b_ + b'/'], [a + b'//' + b_], [b'/' + a]])
        foods = recs + others + [b'calories']
        if not spec.no_prefix(foods):
            continue
        log = []
        long_log = r.random() < 0.04        # hundreds of headings: reports that accumulate over the period are printed once, at the end
        for _ in range(r.randint(1, 5) if not long_log else r.choice([100, 101, 250, 512, 513, 600])):
            log.append((r.choice(WINDOW[:5]), [(r.choice(foods), qty1(g)) for _ in range(r.randint(0, 6) if not long_log else r.randint(0, 2))], []))
        files = {b'food.yaml': g.render_book(book, varied=False), b'log.yaml': g.render_log(log, varied=False)}
        period = {}
        if r.random() < 0.4:
            period['begin'] = r.choice(WINDOW[:5]).strftime('%Y/%m/%d')
        if r.random() < 0.4:
            period['end'] = r.choice(WINDOW[:5]).strftime('%Y/%m/%d')
        x = r.choice(leaves)
        if r.random() < 0.1 and recs:
            x = r.choice(recs)          # the element asked for is itself a recipe of the book (and a logged food): it contributes its elements, not itself
        day = r.choice(log)[0]
        grp = {}
        def add(key, path, args=(), s=None, periodic=True, disk=False):
            gf = {'today': '2021/01/28', 'noColor': True}
            if periodic:
                gf.update(period)
            c = app(path, files, args=args, g=gf, s=s or {}, kind=key, disk=disk)
            grp[key] = c
        add('totals', ['report', 'totals'])
        add('reg', ['reg'])
        add('reg -s', ['reg'], s={'singleElement': x})
        add('reg -s -g', ['reg'], s={'singleElement': x, 'groupFood': True})
        add('reg -s --csv', ['reg'], s={'singleElement': x, 'csv': True})
        add('bal', ['bal'])
        add('bal -s', ['bal'], s={'singleElement': x})
        add('quantity', ['report', 'quantity'])
        add('csv log', ['csv', 'log'])
        add('unresolved', ['report', 'unresolved'])
        add('element-total', ['report', 'element-total'], args=(x,), periodic=False)
        add('csv resolved', ['csv', 'database-resolved'], periodic=False)
        add('csv database', ['csv', 'database'], periodic=False)
        add('summary', ['summary'], args=(day.strftime('%Y/%m/%d'),), periodic=False)
        add('reg day', ['reg'], s={'begin': day.strftime('%Y/%m/%d'), 'end': day.strftime('%Y/%m/%d')}, periodic=False)
        add('stats', ['stats'], periodic=False, disk=True)
        add('print', ['print'])
        groups.append((grp, {'x': x, 'book': book, 'log': log, 'period': period, 'day': day}))
    return groups


def judge(ctx, groups, impl):
    for grp, info in groups:
        o = {}
        ok = True
        for k, c in grp.items():
            i = impl[c.id]
            if i.get('status') != 'ok':
                ctx.problem('oracle', '`%s` fails on valid input' % k, c, {'class': i.get('class')}, signature='report-fails')
                ok = False
            o[k] = out_of(i)
        if not ok:
            continue
        x = info['x']
        def bad(key, what, detail=None, signature='reports-disagree'):
            ctx.problem('oracle', what, grp[key], detail or {}, signature=signature, related=list(grp.values()))
        try:
            totals = {n: (F(p), F(ng), F(s)) for n, p, ng, s in spec.parse_totals(o['totals'])}
            days = spec.parse_register_default(o['reg'])
            acc = {}
            for d in days:
                for n, p, ng, s in d['totals'] or []:
                    a = acc.setdefault(n, [Fraction(0)] * 3)
                    a[0] += F(p); a[1] += F(ng); a[2] += F(s)
            acc = {k: tuple(v) for k, v in acc.items()}
            if acc != totals:
                bad('totals', 'period totals differ from the sum of the register\'s daily totals', {'totals': repr(totals)[:800], 'sum_of_daily': repr(acc)[:800]})
            # reg -s X rows
            rows = re.findall(rb'^\S+ +(.*?) +(' + NUM + rb') +(' + NUM + rb') = *(' + NUM + rb')$', o['reg -s'], re.M)
            sp = sum((F(r[1]) for r in rows), Fraction(0))
            sn = sum((F(r[2]) for r in rows), Fraction(0))
            ss = sum((F(r[3]) for r in rows), Fraction(0))
            tx = totals.get(x, (Fraction(0),) * 3)
            if (sp, -sn, ss) != tx:
                bad('reg -s', 'period totals of %s differ from the sum of the single-element register rows' % x.decode(), {'totals_row': repr(tx), 'reg_s_sums': repr((sp, -sn, ss))})
            # the CSV form of the single-element register carries the same three figures per day as the text form
            crow = re.findall(rb'^([^;]*);"(.*)";(' + NUM + rb');(' + NUM + rb');(' + NUM + rb')$', o['reg -s --csv'], re.M)
            trow = re.findall(rb'^(\S+) +(.*?) +(' + NUM + rb') +(' + NUM + rb') = *(' + NUM + rb')$', o['reg -s'], re.M)
            if [(a, F(p), F(n_), F(s_)) for a, _, p, n_, s_ in crow] != [(a, F(p), F(n_), F(s_)) for a, _, p, n_, s_ in trow] or len(crow) != o['reg -s --csv'].count(b'\n'):
                bad('reg -s --csv', 'the CSV form of the single-element register of %s differs from its text form' % x.decode(),
                    {'csv': o['reg -s --csv'].decode('utf-8', 'replace')[:600], 'text': o['reg -s'].decode('utf-8', 'replace')[:600]}, 'reg-single-csv')
            # bal -s X grand total
            _, total = spec.parse_balance(o['bal -s'])
            if total is None or F(total[0]) != tx[2]:
                bad('bal -s', 'single-element balance grand total of %s differs from the period total' % x.decode(), {'bal_total': repr(total), 'totals_row': repr(tx)}, 'bal-single-vs-totals')
            # reg -s -g rows: only foods the book defines
            byfood = [(l.split(b'\t')[1], F(l.split(b'\t')[0].strip())) for l in o['reg -s -g'].split(b'\n') if l]
            rows_b, _ = spec.parse_balance(o['bal -s'])
            # quantity vs balance leaves vs csv log sums
            qty = {n: F(v) for n, v in spec.parse_value_rows(o['quantity'])}
            rows_bal, _ = spec.parse_balance(o['bal'])
            leaves = {p: F(a) for p, a in spec.balance_leaves(rows_bal)}
            csvrows = list(pycsv.reader(io.StringIO(o['csv log'].decode('utf-8'), newline='')))
            sums = {}
            for d, n, v in csvrows:
                sums[n.encode()] = sums.get(n.encode(), Fraction(0)) + Fraction(v)
            if not (qty == leaves == sums):
                bad('quantity', 'quantities per food, balance leaf amounts and sums of the CSV log rows disagree',
                    {'quantity': repr(qty)[:600], 'balance_leaves': repr(leaves)[:600], 'csv_sums': repr(sums)[:600]})
            # element-total vs resolved csv
            et = sorted((n, F(v)) for n, v in spec.parse_value_rows(o['element-total']))
            res = sorted((r[0].encode(), Fraction(r[2])) for r in pycsv.reader(io.StringIO(o['csv resolved'].decode('utf-8'), newline='')) if r[1].encode() == x)
            if et != res:
                bad('element-total', 'element-total rows differ from the matching rows of the resolved-book CSV', {'element_total': repr(et)[:600], 'resolved_csv': repr(res)[:600]})
            # summary vs register of that day
            sm = o['summary'].split(b'\n')
            regday = spec.parse_register_default(o['reg day'])
            sdays = []
            cur = None
            part = 0
            for line in sm:
                if not line:
                    continue
                if line.endswith(b' :') and not line.startswith(b' '):
                    cur = {'date': line[:-2], 'tot': [], 'els': []}
                    sdays.append(cur)
                    part = 0
                elif line == b'------------':
                    part = 1
                else:
                    m = re.match(rb'^ *(' + NUM + rb') : (.*)$', line, re.S)
                    (cur['tot'] if part == 0 else cur['els']).append((m.group(2), F(m.group(1))))
            want = [{'date': d['date'], 'tot': [(n, F(p)) for n, p, _, _ in d['totals'] or []], 'els': [(n, F(v)) for n, v, _ in d['foods']]} for d in regday]
            if sdays != want:
                bad('summary', 'summary differs from the register for that day', {'summary': repr(sdays)[:800], 'register': repr(want)[:800]})
            # unresolved = logged foods the book does not define
            per = info['period']
            b = datetime.datetime.strptime(per['begin'], '%Y/%m/%d').date() if 'begin' in per else None
            e = datetime.datetime.strptime(per['end'], '%Y/%m/%d').date() if 'end' in per else None
            sel = [(d, ents) for d, ents, _ in info['log'] if (b is None or d >= b) and (e is None or d <= e)]
            defined = {n for n, _ in info['book']}
            logged = {f for _, ents in sel for f, _ in ents}
            unres = [l for l in o['unresolved'].split(b'\n') if l]
            if unres != sorted(logged - defined):
                bad('unresolved', 'unresolved list is not exactly the logged foods the book does not define', {'unresolved': repr(unres), 'expected': repr(sorted(logged - defined))}, 'unresolved-set')
            # stats
            st = o['stats'].decode()
            heads = [d for d, _, _ in info['log']]
            today = datetime.date(2021, 1, 28)
            exp = ['  Database records:   %d' % len(info['book']), '  Log records:        %d' % len(heads),
                   '  First record:       %s (%d days ago)' % (heads[0].strftime('%Y/%m/%d'), (today - heads[0]).days),
                   '  Last record:        %s (%d days ago)' % (heads[-1].strftime('%Y/%m/%d'), (today - heads[-1]).days)]
            if not all(line in st.split('\n') for line in exp):
                bad('stats', 'stats counts / dates differ from the headings of the files', {'stats': st, 'expected_lines': exp}, 'stats')
            # raw csv database rows = entries of the book file
            raw = list(pycsv.reader(io.StringIO(o['csv database'].decode('utf-8'), newline='')))
            wantraw = [[n.decode(), i.decode(), spec.fmt_fixed(q.value, 2)] for n, ings in info['book'] for i, q in ings]
            if raw != wantraw:
                bad('csv database', 'raw csv of the book differs from its entries', {'csv': repr(raw)[:500], 'entries': repr(wantraw)[:500]}, 'csv-rows')
        except Exception as ex:
            bad('totals', 'reports cannot be related: %r' % ex, {}, 'reports-unreadable')


def run(ctx):
    g = G(ctx.seed)
    groups = gen(g, 250 if ctx.tier == 'quick' else 900)
    cases = [c for grp, _ in groups for c in grp.values()]
    impl, model = run_apps(ctx, cases)
    judge(ctx, groups, impl)
    for grp, info in groups:
        if len(info['log']) >= 2:
            ctx.mark_nontrivial(sig(grp['totals'].files, info['period']))
        ctx.count('days:%d' % len(info['log']))
    ctx.sample({'cmd': groups[0][0]['bal -s'].shell(), 'log': groups[0][0]['totals'].files[b'log.yaml'].decode('utf-8', 'replace')[:400]})
    stats_distances(ctx, g)


FAR = [(1, 1, 1), (999, 12, 31), (1582, 10, 15), (1799, 12, 31), (1800, 3, 1), (1899, 12, 31), (1900, 2, 28), (1900, 3, 1), (1901, 1, 1), (1970, 1, 1), (1999, 12, 31),
       (2000, 2, 29), (2000, 3, 1), (2020, 2, 29), (2021, 1, 1), (2099, 12, 31), (2100, 2, 28), (2100, 3, 1), (2101, 1, 1), (2400, 2, 29), (9999, 12, 31)]
MAXDAYS = 106751        # a Go Duration holds 292 years: the distance saturates there


def stats_distances(ctx, g):
    """the `(N days ago)` figures of stats are distances in calendar days, also across century years and leap days, also when the
    record lies after the current date"""
    r = g.r
    cases = []
    for _ in range(40 if ctx.tier == 'quick' else 200):
        first, last, today = (datetime.date(*r.choice(FAR)) for _ in range(3))
        L = r.choice(LAYOUTS) if r.random() < 0.4 else '2006/01/02'          # also layouts with single-digit days and months
        tz = 'UTC'
        if r.random() < 0.4:
            # a span across a daylight-saving switch of the process zone is still a whole number of days
            first, last, today = (datetime.date(*r.choice([(2021, 3, 10), (2021, 3, 13), (2021, 3, 14), (2021, 3, 15), (2021, 3, 17), (2021, 3, 27), (2021, 3, 29), (2021, 10, 30),
                                                            (2021, 11, 1), (2021, 11, 6), (2021, 11, 8), (2021, 11, 10), (2021, 4, 3), (2021, 4, 5), (2021, 10, 2), (2021, 10, 4)])) for _ in range(3))
            tz = r.choice(['America/New_York', 'America/Los_Angeles', 'Europe/Berlin', 'Australia/Lord_Howe', 'Asia/Tokyo', 'Pacific/Kiritimati', 'Pacific/Pago_Pago'])
        files = {b'food.yaml': b'', b'log.yaml': ('%s:\n  a: 1\n%s:\n  b: 2\n' % (fmt_date_layout(first, L), fmt_date_layout(last, L))).encode()}
        gopt = {'today': fmt_date_layout(today, L), 'noColor': True}
        if L != '2006/01/02':
            gopt['dateFormat'] = L
        c = app(['stats'], files, g=gopt, kind='stats distances', disk=True, tz=tz, today_date=today)
        c.meta.update({'first': first, 'last': last, 'today': today, 'L': L})
        cases.append(c)
    # every layout with one- and two-digit days and months among the first, the last and the current date
    for L in LAYOUTS:
        for first, last, today in (((2024, 1, 5), (2024, 11, 12), (2024, 11, 20)), ((2021, 12, 31), (2022, 1, 1), (2022, 10, 9)), ((2021, 10, 10), (2021, 2, 3), (2021, 3, 1))):
            first, last, today = datetime.date(*first), datetime.date(*last), datetime.date(*today)
            files = {b'food.yaml': b'', b'log.yaml': ('%s:\n  a: 1\n%s:\n  b: 2\n' % (fmt_date_layout(first, L), fmt_date_layout(last, L))).encode()}
            gopt = {'today': fmt_date_layout(today, L), 'noColor': True}
            if L != '2006/01/02':
                gopt['dateFormat'] = L
            c = app(['stats'], files, g=gopt, kind='stats distances', disk=True)
            c.meta.update({'first': first, 'last': last, 'today': today, 'L': L})
            cases.append(c)
    impl, model = run_apps(ctx, cases)
    for c in cases:
        st = out_of(impl[c.id]).decode('utf-8', 'replace').split('\n')
        def dist(d):
            n = (c.meta['today'] - d).days
            return max(-MAXDAYS, min(MAXDAYS, n))
        L = c.meta['L']
        exp = ['  First record:       %s (%d days ago)' % (fmt_date_layout(c.meta['first'], L), dist(c.meta['first'])),
               '  Last record:        %s (%d days ago)' % (fmt_date_layout(c.meta['last'], L), dist(c.meta['last']))]
        if impl[c.id].get('status') != 'ok' or not all(l in st for l in exp):
            ctx.problem('oracle', 'stats: the distance in days between the current date and a record is not the calendar distance', c,
                        {'stats': '\n'.join(st), 'expected_lines': exp}, signature='stats-distance')
        ctx.mark_nontrivial(('stats', c.meta['first'], c.meta['last'], c.meta['today']))


def search(ctx, seed):
    g = G(seed)
    groups = gen(g, 40)
    cases = [c for grp, _ in groups for c in grp.values()]
    for c in cases:
        c.id = ctx.fresh('s')
    impl = ctx.go([c.go() for c in cases])
    ctx.evaluations += len(cases)
    judge(ctx, groups, impl)
