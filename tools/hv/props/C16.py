"""C16 — settings follow flag > environment > configuration file > default."""
import datetime
from fractions import Fraction
from .. import spec
from ..gen import G, Qty
from ..common import run_apps, app, out_of, sig
from ..appcase import AppCase
from ..core import unhx

THEOREMS = ['pick_precedence', 'load_uses_effective', 'database_precedence', 'logfile_precedence', 'date_format_precedence', 'maxdepth_precedence', 'today_precedence', 'config_entries_iff_loaded', 'explicit_config_missing_is_error', 'explicit_config_loaded', 'no_database_is_empty_book', 'empty_book_same_parse', 'today_shown_as_given', 'no_database_touches_only_the_book']
LEVEL = 'proof'
RULE = ('the full product {flag set/unset} x {env set/unset} x {config entry set / unset / file absent} x config location {default, --config, HR_CONFIG} '
        'for database, logfile, date-format and maxdepth, flag x config for the current date, with a distinguishable value at every level, and with an explicit flag / environment value that equals the built-in default; explicitly '
        'named configuration files that exist / do not exist; --no-database with and without a food.yaml and with a recipe book named by flag / environment / configuration file; non-trivial = >= 2 sources set; distinct by combination')
ASSUMPTIONS = ['urfave/cli flag/env lookup and gcfg parsing are modelled, not verified; the real Load() and GetApp() run in-process with a scratch $HOME']

LAYOUT = {'flag': '2006-01-02', 'env': '02.01.2006', 'cfg': '2006.01.02', 'default': '2006/01/02'}
DEPTH = {'flag': 2, 'env': 3, 'cfg': 4, 'default': 10}
DAY = datetime.date(2021, 1, 24)


def fmt(d, layout):
    from ..gen import fmt_date_layout
    return fmt_date_layout(d, layout)


def chain(n):
    """recipes c0 -> c1 -> ... with n references from c0"""
    lines = []
    for i in range(n):
        nxt = 'c%d' % (i + 1) if i + 1 < n else 'calories'
        lines.append('c%d:\n  %s: 1\n' % (i, nxt))
    return '\n'.join(lines).encode()


def combos():
    for setting in ('database', 'logfile', 'dateFormat', 'maxdepth'):
        for flag in (False, True):
            for env in (False, True):
                for cfg in ('absent', 'set', 'unset'):
                    for where in (('none',) if cfg == 'absent' else ('default', 'flag', 'env')):
                        yield setting, flag, env, cfg, where


def winner(flag, env, cfg):
    return 'flag' if flag else 'env' if env else 'cfg' if cfg == 'set' else 'default'


def build(setting, flag, env, cfg, where, variant=0, explicit_default=None):
    """explicit_default='flag' / 'env': that source is given explicitly with the value that is also the built-in default
    (an explicit value wins even when it happens to equal the default)"""
    w = winner(flag, env, cfg)
    vflag = 'default' if explicit_default == 'flag' else 'flag'
    venv = 'default' if explicit_default == 'env' else 'env'
    w = {'flag': vflag, 'env': venv}.get(w, w)
    DBN = {'flag': 'food_flag.yaml', 'env': 'food_env.yaml', 'default': 'food.yaml'}
    LGN = {'flag': 'log_flag.yaml', 'env': 'log_env.yaml', 'default': 'log.yaml'}
    files = {}
    g, e, entries = {}, {}, {}
    path, args = ['csv', 'log'], ()
    expect = None
    if setting == 'database':
        for lvl, name in (('flag', 'food_flag.yaml'), ('env', 'food_env.yaml'), ('cfg', 'food_cfg.yaml'), ('default', 'food.yaml')):
            files[name.encode()] = ('src_%s:\n  calories: 1\n' % lvl).encode()
        if flag:
            g['database'] = DBN[vflag]
        if env:
            e['database'] = DBN[venv]
        if cfg == 'set':
            entries['DbFileName'] = 'food_cfg.yaml'
        path = ['csv', 'database']
        expect = ('out', ('src_%s,calories,1.00\n' % w).encode())
    elif setting == 'logfile':
        for lvl, name in (('flag', 'log_flag.yaml'), ('env', 'log_env.yaml'), ('cfg', 'log_cfg.yaml'), ('default', 'log.yaml')):
            files[name.encode()] = ('2021/01/24:\n  src_%s: 1\n' % lvl).encode()
        if flag:
            g['logfile'] = LGN[vflag]
        if env:
            e['logfile'] = LGN[venv]
        if cfg == 'set':
            entries['LogFileName'] = 'log_cfg.yaml'
        expect = ('out', ('2021-01-24,src_%s,1.000\n' % w).encode())
    elif setting == 'dateFormat':
        files[b'log.yaml'] = ('%s:\n  a: 1\n' % fmt(DAY, LAYOUT[w])).encode()
        if flag:
            g['dateFormat'] = LAYOUT[vflag]
        if env:
            e['dateFormat'] = LAYOUT[venv]
        if cfg == 'set':
            entries['DateFormat'] = LAYOUT['cfg']
        expect = ('out', b'2021-01-24,a,1.000\n')
    elif setting == 'maxdepth':
        n = DEPTH[w]
        # variant 0: a chain of n-1 references must resolve; variant 1: a chain of n references must not
        files[b'food.yaml'] = chain(n - 1 if variant == 0 else n)
        if flag:
            g['maxdepth'] = DEPTH[vflag]
        if env:
            e['maxdepth'] = DEPTH[venv]
        if cfg == 'set':
            entries['MaxDepth'] = DEPTH['cfg']
        # the depth limit in force is the same for every command that resolves the book: rotate through them
        RES = [(['csv', 'database-resolved'], (), {}), (['reg'], (), {}), (['bal'], (), {}), (['bal'], (), {'singleElement': 'calories'}), (['report', 'totals'], (), {}),
               (['report', 'element-total'], ('calories',), {}), (['report', 'unresolved'], (), {}), (['summary'], ('2021/01/24',), {}), (['bal'], (), {'collapse': True}),
               (['reg'], (), {'singleElement': 'calories'})]
        build.rot = getattr(build, 'rot', 0) + 1
        path, args, sflags = RES[build.rot % len(RES)]
        expect = ('status', 'ok') if variant == 0 else ('class', 'depth')
    if cfg == 'unset':
        # the file exists but says nothing about this setting
        entries = {'LogFileName': 'log.yaml'} if setting != 'logfile' else {'DbFileName': 'food.yaml'}
    cfgd = None
    if cfg != 'absent':
        cfgd = {'where': where, 'path': 'my.cfg', 'exists': True, 'entries': entries}
        if where == 'flag':
            g['config'] = 'my.cfg'
        elif where == 'env':
            e['config'] = 'my.cfg'
    files.setdefault(b'log.yaml', b'')
    files.setdefault(b'food.yaml', b'')
    gg = {'noColor': True}
    gg.update(g)
    c = AppCase(path, args, g=gg, s=(sflags if setting == 'maxdepth' else {}), env=e, cfg=cfgd, files=files, disk=True,
                meta={'kind': 'load:' + setting + (' (explicit %s = default value)' % explicit_default if explicit_default else ''), 'setting': setting, 'flag': flag, 'env': env,
                      'cfg': cfg, 'where': where, 'winner': w, 'expect': expect, 'variant': str(variant) + (explicit_default or '')})
    return c


def run(ctx):
    cases = []
    for setting, flag, env, cfg, where in combos():
        for variant in ((0, 1) if setting == 'maxdepth' else (0,)):
            cases.append(build(setting, flag, env, cfg, where, variant))
            if setting == 'maxdepth' and cfg == 'set' and not flag and not env:
                for _ in range(9):          # the other nine commands of the rotation
                    cases.append(build(setting, flag, env, cfg, where, variant))
    # an explicit flag / environment value that equals the built-in default still beats the configuration file
    for setting in ('database', 'logfile', 'dateFormat', 'maxdepth'):
        for src in ('flag', 'env'):
            for where in ('default', 'flag', 'env'):
                for variant in ((0, 1) if setting == 'maxdepth' else (0,)):
                    cases.append(build(setting, src == 'flag', src == 'env', 'set', where, variant, explicit_default=src))
                    if src == 'env':
                        # ... and an explicit environment value equal to the default is still beaten by the flag
                        cases.append(build(setting, True, True, 'set', where, variant, explicit_default='env'))
    ctx.exhaustive = True
    # the current date: --today > [Global] Now
    for flag in (False, True):
        for cfg, where in (('absent', 'none'), ('set', 'default'), ('set', 'flag'), ('set', 'env')):
            if not flag and cfg == 'absent':
                continue
            g, e = {'noColor': True}, {}
            entries = {'Now': '2020-03-04T00:00:00Z'} if cfg == 'set' else {}
            cfgd = None
            if cfg != 'absent':
                cfgd = {'where': where, 'path': 'my.cfg', 'exists': True, 'entries': entries}
                if where == 'flag':
                    g['config'] = 'my.cfg'
                elif where == 'env':
                    e['config'] = 'my.cfg'
            if flag:
                g['today'] = '2021/05/06'
            want = '2021/05/06' if flag else '2020/03/04'
            files = {b'food.yaml': b'', b'log.yaml': b'2020/03/01:\n  a: 1\n'}
            # the current date is a calendar day: the process time zone must not move it
            for tz in ('UTC', 'America/New_York', 'Pacific/Honolulu', 'Asia/Tokyo'):
                cases.append(AppCase(['stats'], (), g=g, env=e, cfg=cfgd, files=files, disk=True, tz=tz,
                                     meta={'kind': 'load:today', 'setting': 'today', 'flag': flag, 'env': False, 'cfg': cfg, 'where': where, 'winner': 'flag' if flag else 'cfg',
                                           'variant': tz, 'expect': ('contains', ('  Today:              %s\n  First record:       2020/03/01 (%d days ago)\n' % (want, 431 if flag else 3)).encode())}))
    # interactions: dates on the command line are read in the effective date format, whatever its source
    for fsrc in ('flag', 'env', 'cfg', 'default'):
        for where in (('default', 'flag', 'env') if fsrc == 'cfg' else ('none',)):
            g, e = {'noColor': True}, {}
            entries = {}
            if fsrc == 'flag':
                g['dateFormat'] = LAYOUT['flag']
            elif fsrc == 'env':
                e['dateFormat'] = LAYOUT['env']
            elif fsrc == 'cfg':
                entries['DateFormat'] = LAYOUT['cfg']
            cfgd = None
            if fsrc == 'cfg':
                cfgd = {'where': where, 'path': 'my.cfg', 'exists': True, 'entries': entries}
                if where == 'flag':
                    g['config'] = 'my.cfg'
                elif where == 'env':
                    e['config'] = 'my.cfg'
            lay = LAYOUT[fsrc]
            today = datetime.date(2021, 5, 6)
            files = {b'food.yaml': b'', b'log.yaml': ('%s:\n  a: 1\n%s:\n  b: 2\n' % (fmt(datetime.date(2021, 5, 5), lay), fmt(today, lay))).encode()}
            g1 = dict(g, today=fmt(today, lay))
            cases.append(AppCase(['stats'], (), g=g1, env=e, cfg=cfgd, files=files, disk=True,
                                 meta={'kind': 'load:today-in-format', 'setting': 'today x date-format', 'flag': True, 'env': fsrc == 'env', 'cfg': 'set' if fsrc == 'cfg' else 'absent', 'where': where,
                                       'winner': fsrc, 'expect': ('contains', ('  Today:              %s\n' % fmt(today, lay)).encode())}))
            g2 = dict(g1, begin='today')
            cases.append(AppCase(['csv', 'log'], (), g=g2, env=e, cfg=cfgd, files=files, disk=True,
                                 meta={'kind': 'load:begin-today-in-format', 'setting': 'begin x today x date-format', 'flag': True, 'env': fsrc == 'env', 'cfg': 'set' if fsrc == 'cfg' else 'absent', 'where': where,
                                       'winner': fsrc, 'expect': ('out', b'2021-05-06,b,2.000\n')}))
            g3 = dict(g, today=fmt(today, lay), end=fmt(datetime.date(2021, 5, 5), lay))
            cases.append(AppCase(['csv', 'log'], (), g=g3, env=e, cfg=cfgd, files=files, disk=True,
                                 meta={'kind': 'load:end-in-format', 'setting': 'end x date-format', 'flag': True, 'env': fsrc == 'env', 'cfg': 'set' if fsrc == 'cfg' else 'absent', 'where': where,
                                       'winner': fsrc, 'expect': ('out', b'2021-05-05,a,1.000\n')}))
    # explicitly named configuration file that does not exist
    for where in ('flag', 'env'):
        g, e = {'noColor': True, 'today': '2021/01/28'}, {}
        if where == 'flag':
            g['config'] = 'nosuch.cfg'
        else:
            e['config'] = 'nosuch.cfg'
        cases.append(AppCase(['csv', 'log'], (), g=g, env=e, cfg={'where': where, 'path': 'nosuch.cfg', 'exists': False, 'entries': {}},
                             files={b'food.yaml': b'', b'log.yaml': b'2021/01/24:\n  a: 1\n'}, disk=True,
                             meta={'kind': 'load:config-missing', 'setting': 'config', 'flag': where == 'flag', 'env': where == 'env', 'cfg': 'missing', 'where': where, 'winner': '-', 'expect': ('status', 'err')}))
    # --no-database behaves as an empty recipe book
    book = b'soup:\n  calories: 40\n  fat: 2\n'
    log = b'2021/01/24:\n  soup: 2\n  bread: 1\n'
    pairs = []
    for path, args in ((['reg'], ()), (['bal'], ()), (['report', 'totals'], ()), (['report', 'unresolved'], ()), (['summary'], ('2021/01/24',)), (['csv', 'database'], ()), (['stats'], ())):
        for have_file in (True, False):
            files = {b'log.yaml': log}
            if have_file:
                files[b'food.yaml'] = book
            a = AppCase(path, args, g={'noColor': True, 'today': '2021/01/28', 'noDatabase': True}, files=files, disk=True,
                        meta={'kind': 'no-database:' + ' '.join(path), 'setting': 'noDatabase', 'flag': True, 'env': False, 'cfg': 'absent', 'where': 'none', 'winner': '-', 'expect': None, 'have_file': have_file})
            b = AppCase(path, args, g={'noColor': True, 'today': '2021/01/28'}, files={b'log.yaml': log, b'food.yaml': b''}, disk=True,
                        meta={'kind': 'empty-book:' + ' '.join(path), 'setting': 'noDatabase', 'flag': False, 'env': False, 'cfg': 'absent', 'where': 'none', 'winner': '-', 'expect': None})
            cases += [a, b]
            pairs.append((a, b))
        if path != ['stats']:
            # --no-database also beats a recipe book named by flag, environment or configuration file
            for src in ('flag', 'env', 'cfg'):
                files = {b'log.yaml': log, b'named.yaml': book}
                g = {'noColor': True, 'today': '2021/01/28', 'noDatabase': True}
                e, cfgd = {}, None
                if src == 'flag':
                    g['database'] = 'named.yaml'
                elif src == 'env':
                    e['database'] = 'named.yaml'
                else:
                    cfgd = {'where': 'flag', 'path': 'my.cfg', 'exists': True, 'entries': {'DbFileName': 'named.yaml'}}
                    g['config'] = 'my.cfg'
                a = AppCase(path, args, g=g, env=e, cfg=cfgd, files=files, disk=True,
                            meta={'kind': 'no-database (book named by %s):' % src + ' '.join(path), 'setting': 'noDatabase', 'flag': True, 'env': src == 'env', 'cfg': 'set' if src == 'cfg' else 'absent',
                                  'where': 'none', 'winner': '-', 'expect': None, 'have_file': True})
                b = AppCase(path, args, g={'noColor': True, 'today': '2021/01/28'}, files={b'log.yaml': log, b'food.yaml': b''}, disk=True,
                            meta={'kind': 'empty-book:' + ' '.join(path), 'setting': 'noDatabase', 'flag': False, 'env': False, 'cfg': 'absent', 'where': 'none', 'winner': '-', 'expect': None})
                cases += [a, b]
                pairs.append((a, b))
    # --no-database leaves every other setting alone: the log named by flag, environment or configuration file is still the one read,
    # the date format given by any of them still applies
    for path, args in ((['reg'], ()), (['csv', 'log'], ()), (['report', 'totals'], ()), (['bal'], ())):
        for setting in ('logfile', 'dateFormat'):
            for src in ('flag', 'env', 'cfg'):
                if setting == 'logfile':
                    files = {b'log.yaml': b'2021/01/24:\n  wrong: 9\n', b'other.yaml': log, b'food.yaml': book}
                    val, key = 'other.yaml', 'LogFileName'
                else:
                    files = {b'log.yaml': b'24.01.2021:\n  soup: 2\n  bread: 1\n', b'food.yaml': book}
                    val, key = '02.01.2006', 'DateFormat'
                g = {'noColor': True, 'today': '28.01.2021' if setting == 'dateFormat' else '2021/01/28'}
                e, cfgd = {}, None
                if src == 'flag':
                    g[setting] = val
                elif src == 'env':
                    e[setting] = val
                else:
                    cfgd = {'where': 'flag', 'path': 'my.cfg', 'exists': True, 'entries': {key: val}}
                    g['config'] = 'my.cfg'
                a = AppCase(path, args, g=dict(g, noDatabase=True), env=e, cfg=cfgd, files=files, disk=True,
                            meta={'kind': 'no-database (%s by %s):' % (setting, src) + ' '.join(path), 'setting': 'noDatabase x ' + setting, 'flag': True, 'env': src == 'env',
                                  'cfg': 'set' if src == 'cfg' else 'absent', 'where': 'none', 'winner': '-', 'expect': None, 'have_file': True})
                b = AppCase(path, args, g=g, env=e, cfg=cfgd, files={**files, b'food.yaml': b''}, disk=True,
                            meta={'kind': 'empty-book (%s by %s):' % (setting, src) + ' '.join(path), 'setting': 'noDatabase x ' + setting, 'flag': False, 'env': src == 'env',
                                  'cfg': 'set' if src == 'cfg' else 'absent', 'where': 'none', 'winner': '-', 'expect': None})
                cases += [a, b]
                pairs.append((a, b))
    # a path of several hundred bytes (short components) is a path like any other, whichever source names it
    deep = '/'.join('dir%02d' % i for i in range(60))
    for setting, fname, path, want in (('logfile', deep + '/log.yaml', ['csv', 'log'], b'2021-01-24,soup,2.000\n2021-01-24,bread,1.000\n'),
                                       ('database', deep + '/food.yaml', ['csv', 'database'], b'soup,calories,40.00\nsoup,fat,2.00\n')):
        for src in ('flag', 'env', 'cfg'):
            files = {b'log.yaml': b'2021/01/24:\n  wrong: 9\n', b'food.yaml': b'wrong:\n  x: 1\n', fname.encode(): log if setting == 'logfile' else book}
            g, e, cfgd = {'noColor': True, 'today': '2021/01/28'}, {}, None
            if src == 'flag':
                g[setting] = fname
            elif src == 'env':
                e[setting] = fname
            else:
                cfgd = {'where': 'flag', 'path': 'my.cfg', 'exists': True, 'entries': {'LogFileName' if setting == 'logfile' else 'DbFileName': fname}}
                g['config'] = 'my.cfg'
            cases.append(AppCase(path, (), g=g, env=e, cfg=cfgd, files=files, disk=(cfgd is not None),
                                 meta={'kind': 'load:%s (a path of %d bytes)' % (setting, len(fname)), 'setting': setting, 'flag': src == 'flag', 'env': src == 'env',
                                       'cfg': 'set' if src == 'cfg' else 'absent', 'where': 'flag' if src == 'cfg' else 'none', 'winner': src, 'variant': 'long path', 'expect': ('out', want)}))
    # a depth limit of 1 from the configuration file is a limit like any other (not "unset")
    for variant in (0, 1):
        files = {b'food.yaml': chain(variant), b'log.yaml': b''}
        cases.append(AppCase(['csv', 'database-resolved'], (), g={'noColor': True, 'config': 'my.cfg'}, cfg={'where': 'flag', 'path': 'my.cfg', 'exists': True, 'entries': {'MaxDepth': 1}},
                             files=files, disk=True,
                             meta={'kind': 'load:maxdepth (configuration file says 1)', 'setting': 'maxdepth', 'flag': False, 'env': False, 'cfg': 'set', 'where': 'flag', 'winner': 'cfg',
                                   'variant': 'one%d' % variant, 'expect': ('status', 'ok') if variant == 0 else ('class', 'depth')}))
    # every third configuration file carries a comment header of 4 to 7 KB: the entries come after it
    for k, c in enumerate(cases):
        if c.cfg and c.cfg.get('exists') and k % 3 == 0:
            c.cfg = dict(c.cfg, pad=4200 + (k % 5) * 700)
            ctx.count('configuration file with a long header')
    impl, model = run_apps(ctx, cases)
    # the real binary: a named configuration file that exists but cannot be read is an error; no $HOME / $USER is not a crash
    from .. import core
    binary = ctx.real()
    logf = {b'food.yaml': b'', b'log.yaml': b'2021/01/24:\n  a: 1\n', b'secret.cfg': b'[Global]\nDateFormat=2006-01-02\n'}
    rc, out, err = core.run_real_binary(binary, ['--today', '2021/01/28', '-c', 'secret.cfg', 'csv', 'log'], logf, modes={'secret.cfg': 0})
    ctx.evaluations += 1
    if core.SCRATCH_UID and rc == 0:
        ctx.problem('oracle', 'a configuration file named with --config exists but cannot be read, and the command succeeds as if it were not there', None,
                    {'stdout': out.decode('utf-8', 'replace')[:300]}, signature='unreadable-config-ignored')
    # a configuration file reached through a symbolic link (dotfiles kept in a repository) is a configuration file
    linkf = {b'food.yaml': b'', b'iso.yaml': b'2021-01-24:\n  a: 1\n', b'real.cfg': b'[Global]\nDateFormat=2006-01-02\nLogFileName=iso.yaml\n'}
    for how, argv, kw in (('--config', ['--today', '2021-01-28', '-c', 'link.cfg', 'csv', 'log'], {'links': {'link.cfg': 'real.cfg'}}),
                          ('HR_CONFIG', ['--today', '2021-01-28', 'csv', 'log'], {'links': {'link.cfg': 'real.cfg'}, 'env_extra': {'HR_CONFIG': 'link.cfg'}})):
        rc, out, err = core.run_real_binary(binary, argv, linkf, **kw)
        ctx.evaluations += 1
        if rc != 0 or out != b'2021-01-24,a,1.000\n':
            ctx.problem('oracle', 'a configuration file named with %s that is a symbolic link to a regular file is not used (exit status %d)' % (how, rc), None,
                        {'stdout': out.decode('utf-8', 'replace')[:300], 'stderr': err.decode('utf-8', 'replace')[:300]}, signature='config-symlink')
    if core.SCRATCH_UID:
        homecfg = b'[Global]\nDateFormat=2006-01-02\nLogFileName=iso.yaml\n'
        for extra in ({}, {'XDG_CONFIG_HOME': '.'}, {'XDG_CONFIG_HOME': '/tmp'}, {'APPDATA': '.', 'XDG_DATA_HOME': '.'}):
            rc, out, err = core.run_real_binary(binary, ['--today', '2021-01-28', 'csv', 'log'], {b'food.yaml': b'', b'iso.yaml': b'2021-01-24:\n  a: 1\n'}, home_config=homecfg, env_extra=extra)
            ctx.evaluations += 1
            if rc != 0 or out != b'2021-01-24,a,1.000\n':
                ctx.problem('oracle', 'the configuration file at the default location is not used when %s is set (exit status %d)' % (', '.join('%s=%s' % kv for kv in extra.items()) or 'nothing else', rc), None,
                            {'stdout': out.decode('utf-8', 'replace')[:300], 'stderr': err.decode('utf-8', 'replace')[:300]}, signature='default-config-moved')
    rc, out, err = core.run_real_binary(binary, ['--today', '2021/01/28', 'csv', 'log'], logf, drop_env=('HOME', 'USER'))
    ctx.evaluations += 1
    if rc not in (0, 1) or b'panic' in err or b'fatal error' in err:
        ctx.problem('oracle', 'without $HOME and $USER (no default configuration location) the program crashes', None,
                    {'rc': rc, 'stderr': err.decode('utf-8', 'replace')[:400]}, signature='no-home-crash')
    for c in cases:
        i = impl[c.id]
        exp = c.meta['expect']
        m = c.meta
        label = '%s: flag=%s env=%s config=%s(%s)' % (m['setting'], m['flag'], m['env'], m['cfg'], m['where'])
        ctx.count('setting:' + m['setting'])
        if sum([bool(m['flag']), bool(m['env']), m['cfg'] == 'set']) >= 2:
            ctx.mark_nontrivial(label + str(m.get('variant')))
        if exp is None:
            continue
        kind, val = exp
        ok = ((kind == 'out' and i.get('status') == 'ok' and unhx(i.get('out', '')) == val) or
              (kind == 'status' and i.get('status') == val) or
              (kind == 'class' and i.get('class') == val) or
              (kind == 'contains' and i.get('status') == 'ok' and val in unhx(i.get('out', ''))))
        if not ok:
            signature = 'precedence'
            if m['cfg'] in ('set', 'unset'):
                signature = 'config-file-not-loaded'
            ctx.problem('oracle', '%s: the value from %s must win; got status=%s %s out=%r' % (
                label, m['winner'], i.get('status'), unhx(i.get('text', '') or '').decode('utf-8', 'replace')[:120], unhx(i.get('out', ''))[:120]), c,
                {'expected': repr(exp)}, signature=signature)
    for a, b in pairs:
        ia, ib = impl[a.id], impl[b.id]
        same = ia.get('status') == ib.get('status') and ia.get('out') == ib.get('out')
        if a.path == [b'stats']:
            same = ia.get('status') == ib.get('status') and b'Database records:   0' in unhx(ia.get('out', ''))
        if not same:
            ctx.problem('oracle', '`--no-database %s` (food.yaml %s) does not behave as an empty recipe book' % (a.meta['kind'].split(':')[1], 'present' if a.meta['have_file'] else 'absent'), a,
                        {'with_no_database': unhx(ia.get('out', '')).decode('utf-8', 'replace')[:400] + ' / ' + str(ia.get('status')) + ' ' + unhx(ia.get('text', '') or '').decode('utf-8', 'replace'),
                         'with_empty_book': unhx(ib.get('out', '')).decode('utf-8', 'replace')[:400]}, signature='no-database-reads-default-file')
    ctx.sample({'cmd': cases[37].shell(), 'config': cases[37].cfg, 'expect': repr(cases[37].meta['expect'])})


def search(ctx, seed):
    pass
