"""C06 — date range selection is exact, inclusive and independent of layout and time zone."""
import datetime
import itertools
from .. import spec, core
from ..gen import G, WINDOW, fmt_date_layout, LAYOUTS
from ..common import run_apps, app, out_of, sig
from ..core import unhx

THEOREMS = ['interval_exact', 'inverted_is_empty', 'filter_eq_delete', 'innermost_wins', 'keywords', 'summary_selects_day', 'summary_date_selects_day', 'day_count_advances', 'yesterday_is_previous_day', 'parsed_date_is_calendar_day', 'instants_order_is_calendar_order', 'period_is_calendar_interval', 'day_number_reads_back', 'summary_date_is_that_day', 'mixed_levels_keep_both', 'bounds_independent', 'single_day_period']
LEVEL = 'proof'
RULE = ('logs with days in any order and repeated dates x every (begin, end) over a 5-day window incl. absent / equal / inverted / outside x '
        '{reg, bal, csv log, print, report totals / quantity / unresolved} x the command\'s other switches (single element / food, old and left-aligned layouts, totals-only, collapse modes, --desc) x flag position {global, sub-command, both with different values, one bound on each level} x keywords '
        '(today, yesterday, last7, last30) against --today, days from year 1 to 9999 (before 1678 and after 2262 included), also across daylight-saving switches of the process zone (New York, Berlin, Lord Howe) x summary DATE x TZ {UTC, America/New_York, Pacific/Kiritimati} (in-process zone and the real binary); '
        'metamorphic oracle: output with a period = output on the file with the other days deleted; dates shown by reg / print / csv log / summary = dates of the selected days as written in the log; non-trivial = a bound that falls on a logged day or an unsorted / repeated log; '
        'distinct by (log hash, command, bounds, position, zone)')
ASSUMPTIONS = ['naturaldate free-text dates are outside the model; the model has no zones (a heading is a UTC midnight), daylight-saving switches are exercised on the implementation by the metamorphic oracle', '--today fixes the current date (a UTC midnight)']

CMDS = [(['reg'], True), (['bal'], True), (['csv', 'log'], True), (['print'], True), (['report', 'totals'], False), (['report', 'quantity'], False), (['report', 'unresolved'], False)]
# other switches of the same command: the period must select the same days whatever else the command is asked to do
VARIANTS = {'reg': [{}, {}, {}, {'singleElement': 'calories'}, {'singleElement': 'calories', 'groupFood': True}, {'singleElement': 'calories', 'csv': True}, {'singleFood': 'a'},
                    {'oldReg': True}, {'template': 'left-aligned'}, {'totalsOnly': True}, {'noTotals': True}, {'shorten': True}],
            'bal': [{}, {}, {'singleElement': 'calories'}, {'collapse': True}, {'collapseLast': True}, {'singleElement': 'calories', 'collapse': True}],
            'report quantity': [{}, {'desc': True}]}
TZS = ['UTC', 'America/New_York', 'Pacific/Kiritimati']
DAYS = WINDOW[:5]
# (zone, day of a daylight-saving switch)
DST = [('America/New_York', datetime.date(2021, 3, 14)), ('America/New_York', datetime.date(2021, 11, 7)),
       ('Europe/Berlin', datetime.date(2021, 3, 28)), ('Europe/Berlin', datetime.date(2021, 10, 31)),
       ('Australia/Lord_Howe', datetime.date(2021, 4, 4)), ('Australia/Lord_Howe', datetime.date(2021, 10, 3))]


def sources(r, today, layout, fmt):
    """the current date and the date format reach the program from the command line, the environment or the configuration file:
    (global flags, environment, configuration) for one of the combinations"""
    gf, env, entries = {}, {}, {}
    if r.random() < 0.3:
        entries['Now'] = '%04d-%02d-%02dT00:00:00Z' % (today.year, today.month, today.day)
    else:
        gf['today'] = fmt(today)
    if layout != '2006/01/02':
        src = r.choice(['flag', 'flag', 'env', 'cfg'])
        if src == 'flag':
            gf['dateFormat'] = layout
        elif src == 'env':
            env['dateFormat'] = layout
        else:
            entries['DateFormat'] = layout
    cfg = None
    if entries:
        cfg = {'where': 'flag', 'path': 'my.cfg', 'exists': True, 'entries': entries}
        gf['config'] = 'my.cfg'
    return gf, env, cfg


def render(g, log, layout):
    return g.render_log(log, layout=layout, varied=False)


def gen(g, nlogs, tier):
    r = g.r
    cases = []
    for n in range(nlogs):
        layout = '2006/01/02' if n % 3 else r.choice(LAYOUTS)
        book = g.book(depth=1, exact=True, per_layer=2, unusual=0.05)
        if len(spec.book_map(book)) != len(book):
            continue
        log = g.log(book=book, exact=True, days=r.randint(2, 7), dates=DAYS[1:4] + [DAYS[2]], max_entries=3, unusual=0.05, notes=0)
        bookfile = g.render_book(book, varied=False)
        fmt = lambda d: fmt_date_layout(d, layout)
        bounds = [None] + [DAYS[0], DAYS[1], DAYS[2], DAYS[3], DAYS[4]]
        pairs = list(itertools.product(bounds, bounds))
        if tier == 'quick':
            pairs = r.sample(pairs, 12)
        for (b, e) in pairs:
            kept = [(d, ents, ns) for d, ents, ns in log if (b is None or d >= b) and (e is None or d <= e)]
            f_all = {b'food.yaml': bookfile, b'log.yaml': render(g, log, layout)}
            f_kept = {b'food.yaml': bookfile, b'log.yaml': render(g, kept, layout)}
            base_g = {'today': fmt(datetime.date(2021, 1, 28))}
            if layout != '2006/01/02':
                base_g['dateFormat'] = layout
            for path, has_sub in (CMDS if tier == 'thorough' else r.sample(CMDS, 3)):
                pos = r.choice(['global', 'sub', 'both', 'begin global, end sub', 'end global, begin sub'] if has_sub else ['global'])
                gf, sf = dict(base_g), {}
                if pos == 'global':
                    if b:
                        gf['begin'] = fmt(b)
                    if e:
                        gf['end'] = fmt(e)
                elif pos == 'sub':
                    if b:
                        sf['begin'] = fmt(b)
                    if e:
                        sf['end'] = fmt(e)
                elif pos == 'begin global, end sub':
                    # each bound on a different level: neither may be lost
                    if b:
                        gf['begin'] = fmt(b)
                    if e:
                        sf['end'] = fmt(e)
                elif pos == 'end global, begin sub':
                    if e:
                        gf['end'] = fmt(e)
                    if b:
                        sf['begin'] = fmt(b)
                else:
                    # both: the global flags carry *different* values, the sub-command's must win
                    gf['begin'] = fmt(DAYS[4])
                    gf['end'] = fmt(DAYS[0])
                    if b:
                        sf['begin'] = fmt(b)
                    else:
                        gf.pop('begin')
                    if e:
                        sf['end'] = fmt(e)
                    else:
                        gf.pop('end')
                tz = r.choice(TZS)
                short = set(x for x in ('g.begin', 'g.end', 's.begin', 's.end') if r.random() < 0.5)
                extra = r.choice(VARIANTS.get(' '.join(path), [{}]))
                label = ' '.join(path) + (' [' + '+'.join(extra) + ']' if extra else '')
                a = app(path, f_all, g=gf, s=dict(sf, **extra), kind=label, tz=tz, short=short, today_date=datetime.date(2021, 1, 28))
                k = app(path, f_kept, g=base_g, s=dict(extra), kind=label + ' (deleted)', tz=tz, today_date=datetime.date(2021, 1, 28))
                a.meta.update({'pair': k, 'b': b, 'e': e, 'pos': pos, 'log': log, 'kept_days': kept, 'layout': layout})
                cases += [a, k]
        # keywords against --today, and summary
        for kw, delta in (('today', 0), ('yesterday', 1), ('last7', 7), ('last30', 30)):
            today = r.choice(DAYS[1:5]) + datetime.timedelta(days=delta if delta < 7 else 0)
            today = r.choice(DAYS[2:5]) if delta >= 7 else r.choice(DAYS[1:5])
            bound = today - datetime.timedelta(days=delta)
            for which in ('begin', 'end'):
                tz = r.choice(TZS + ['Europe/Berlin', 'Asia/Tokyo', 'Pacific/Pago_Pago'])
                gf, env_, cfg_ = sources(r, today, layout, fmt)
                kept = [(d, ents, ns) for d, ents, ns in log if (d >= bound if which == 'begin' else d <= bound)]
                a = app(['csv', 'log'], {b'food.yaml': bookfile, b'log.yaml': render(g, log, layout)}, g=dict(gf, **{which: kw}), env=env_, cfg=cfg_, disk=cfg_ is not None, kind='csv log kw:' + kw, tz=tz, today_date=today)
                k = app(['csv', 'log'], {b'food.yaml': bookfile, b'log.yaml': render(g, kept, layout)}, g=gf, env=env_, cfg=cfg_, disk=cfg_ is not None, kind='csv log (deleted)', tz=tz, today_date=today)
                if cfg_ and 'Now' in cfg_['entries']:
                    a.g.pop('today', None)          # (the helper adds a default --today, which would win over the configuration file)
                    k.g.pop('today', None)
                a.meta.update({'pair': k, 'b': kw, 'e': which, 'pos': 'global', 'log': log, 'kept_days': kept, 'layout': layout})
                cases += [a, k]
        # a bound that is not a date (another numeric layout, an impossible calendar date) is an error, never "no bound"
        if layout == '2006/01/02' and n % 3 == 1:
            for path, has_sub in r.sample(CMDS, 3):
                for val in ('2021-01-24', '2021/02/30', '2021/13/01', '2021.01.24'):
                    which = r.choice(['begin', 'end'])
                    pos = r.choice(['global', 'sub'] if has_sub else ['global'])
                    gf, sf = {'today': fmt(datetime.date(2021, 1, 28))}, {}
                    (gf if pos == 'global' else sf)[which] = val
                    a = app(path, {b'food.yaml': bookfile, b'log.yaml': render(g, log, layout)}, g=gf, s=sf, kind=' '.join(path) + ' (bad bound)')
                    a.meta.update({'bad_bound': val, 'which': which})
                    cases.append(a)
        # keywords across a daylight-saving switch of the process zone: the day arithmetic must not pick up the hour
        if n % 2 == 0:
            import os
            for tz, T in DST:
                if not os.path.exists('/usr/share/zoneinfo/' + tz):
                    continue
                for kw, delta in (('yesterday', 1), ('last7', 7), ('last30', 30)):
                    today = T + datetime.timedelta(days=r.randint(1, delta))
                    bound = today - datetime.timedelta(days=delta)
                    days = [bound - datetime.timedelta(days=1), bound, bound + datetime.timedelta(days=1), today]
                    dlog = [(d, [(r.choice([b'a/b', b'c', b'milk/1l']), g.qty_exact(small=True))], []) for d in days]
                    which = r.choice(['begin', 'end'])
                    gf = {'today': fmt(today)}
                    if layout != '2006/01/02':
                        gf['dateFormat'] = layout
                    kept = [(d, ents, ns) for d, ents, ns in dlog if (d >= bound if which == 'begin' else d <= bound)]
                    path = r.choice([['csv', 'log'], ['print'], ['reg']])
                    a = app(path, {b'food.yaml': bookfile, b'log.yaml': render(g, dlog, layout)}, g=dict(gf, **{which: kw}), kind=' '.join(path) + ' dst kw:' + kw, tz=tz, today_date=today)
                    k = app(path, {b'food.yaml': bookfile, b'log.yaml': render(g, kept, layout)}, g=gf, kind=' '.join(path) + ' dst (deleted)', tz=tz, today_date=today)
                    a.meta.update({'pair': k, 'b': kw, 'e': which, 'pos': 'global', 'log': dlog, 'kept_days': kept, 'layout': layout})
                    cases += [a, k]
        # the keywords next to the first day a four-digit layout can write: `yesterday` of 0000/01/01 has no spelling, but it is
        # never spelled: keywords are moments, not texts (files written by hand: year 0 is below the range of the generator's dates)
        if n == 0:
            y0 = [b'0000/01/01', b'0000/01/03', b'0000/01/04', b'0000/01/05', b'0000/02/10']
            def y0log(days):
                return b''.join(d_ + b':\n  a/b: 1\n' for d_ in days)
            for today, kw, which, keep in (('0000/01/05', 'last7', 'begin', y0), ('0000/01/05', 'last30', 'begin', y0), ('0000/01/01', 'yesterday', 'begin', y0),
                                          ('0000/01/05', 'yesterday', 'begin', y0[2:]), ('0000/01/05', 'yesterday', 'end', y0[:3]), ('0000/01/01', 'yesterday', 'end', []),
                                          ('0000/01/04', 'today', 'end', y0[:3]), ('0000/02/10', 'last30', 'begin', y0[4:]), ('0000/02/10', 'last30', 'end', y0[:4])):
                for path in (['csv', 'log'], ['print'], ['reg']):
                    a = app(path, {b'food.yaml': bookfile, b'log.yaml': y0log(y0)}, g={'today': today, which: kw}, kind=' '.join(path) + ' year0 kw:' + kw)
                    k = app(path, {b'food.yaml': bookfile, b'log.yaml': y0log(keep)}, g={'today': today}, kind=' '.join(path) + ' year0 (deleted)')
                    a.meta.update({'pair': k, 'b': kw, 'e': which, 'pos': 'global', 'log': []})
                    cases += [a, k]
        # days centuries away from the epoch of the clock (before 1678, after 2262: beyond the range of nanosecond counters),
        # the first and the last year a four-digit layout can write
        if n % 3 == 0:
            far = [datetime.date(y, m, d_) for y, m, d_ in ((1, 1, 1), (999, 12, 31), (1500, 1, 1), (1677, 9, 21), (1677, 9, 22), (1969, 12, 31), (1970, 1, 1),
                                                          (2262, 4, 11), (2262, 4, 12), (2600, 1, 1), (9999, 12, 31), (2021, 6, 15))]
            flog = [(d_, [(r.choice([b'a/b', b'c', b'milk/1l']), g.qty_exact(small=True))], []) for d_ in r.sample(far, 6)]
            for _ in range(4):
                b, e = r.choice([None] + far), r.choice([None] + far)
                kept = [(d_, ents, ns) for d_, ents, ns in flog if (b is None or d_ >= b) and (e is None or d_ <= e)]
                gf = {'today': fmt(datetime.date(2021, 1, 28))}
                if layout != '2006/01/02':
                    gf['dateFormat'] = layout
                path = r.choice([['csv', 'log'], ['print'], ['reg'], ['report', 'totals'], ['bal']])
                ga = dict(gf)
                if b:
                    ga['begin'] = fmt(b)
                if e:
                    ga['end'] = fmt(e)
                a = app(path, {b'food.yaml': bookfile, b'log.yaml': render(g, flog, layout)}, g=ga, kind=' '.join(path) + ' far', today_date=datetime.date(2021, 1, 28))
                k = app(path, {b'food.yaml': bookfile, b'log.yaml': render(g, kept, layout)}, g=gf, kind=' '.join(path) + ' far (deleted)', today_date=datetime.date(2021, 1, 28))
                a.meta.update({'pair': k, 'b': b, 'e': e, 'pos': 'global', 'log': flog})
                cases += [a, k]
        for d in DAYS[1:4]:
            for arg, today in ((fmt(d), datetime.date(2021, 1, 28)), ('today', d), ('yesterday', d + datetime.timedelta(days=1))):
                # the day window of `summary` is built in the process zone: offsets near the ends of the day matter most
                tz = r.choice(TZS + ['Etc/GMT+1', 'Etc/GMT+1', 'Etc/GMT-1', 'Etc/GMT+12', 'Etc/GMT-14', 'Asia/Kolkata'])
                gf, env_, cfg_ = sources(r, today, layout, fmt)
                kept = [(dd, ents, ns) for dd, ents, ns in log if dd == d]
                ga = dict(gf)
                if r.random() < 0.4:
                    # a period given globally does not apply to `summary`: the argument names the day
                    if r.random() < 0.7:
                        ga['begin'] = r.choice([fmt(r.choice(DAYS)), 'last7', 'yesterday'])
                    if r.random() < 0.7:
                        ga['end'] = r.choice([fmt(r.choice(DAYS)), 'today', 'yesterday'])
                a = app(['summary'], {b'food.yaml': bookfile, b'log.yaml': render(g, log, layout)}, args=(arg,), g=ga, env=env_, cfg=cfg_, disk=cfg_ is not None, kind='summary', tz=tz, today_date=today)
                # summary of the file that holds only that day, asked for the same day
                k = app(['summary'], {b'food.yaml': bookfile, b'log.yaml': render(g, kept, layout)}, args=(arg,), g=gf, env=env_, cfg=cfg_, disk=cfg_ is not None, kind='summary (deleted)', tz=tz, today_date=today)
                if cfg_ and 'Now' in cfg_['entries']:
                    a.g.pop('today', None)
                    k.g.pop('today', None)
                a.meta.update({'pair': k, 'b': arg, 'e': 'summary', 'pos': 'arg', 'log': log, 'summary_day': d, 'kept': kept, 'kept_days': kept, 'layout': layout})
                cases += [a, k]
    return cases


def printed_dates(c, out):
    """(dates the report shows, dates it must show) for the commands that print one heading or one row per selected day"""
    kind = c.meta['kind'].split(' dst')[0].split(' kw:')[0]
    kept, layout = c.meta['kept_days'], c.meta['layout']
    text = out.decode('latin-1')
    if kind == 'csv log':
        import csv, io
        want = [fmt_date_layout(d, '2006-01-02') for d, ents, ns in kept for _ in spec.merge_day(ents)]
        got = [row[0] for row in csv.reader(io.StringIO(text)) if row]
        return got, want
    if kind == 'print':
        return [l for l in text.split('\n') if l and l[0] not in ' \t#'], [fmt_date_layout(d, layout) + ':' for d, ents, ns in kept]
    if kind == 'reg':
        return [l for l in text.split('\n') if l and l[0] not in ' \t-'], [fmt_date_layout(d, layout) for d, ents, ns in kept]
    if kind == 'summary':
        return [l for l in text.split('\n') if l.endswith(' :') and l[0] not in ' \t'], [fmt_date_layout(d, layout) + ' :' for d, ents, ns in kept]
    return None, None


def judge(ctx, cases, impl):
    for c in cases:
        if 'bad_bound' in c.meta and impl[c.id].get('status') != 'err':
            ctx.problem('oracle', '`%s` accepts the period bound --%s %s (not a date in the date format, not a date phrase) and reports as if no bound were given' % (
                c.meta['kind'], c.meta['which'], c.meta['bad_bound']), c, {'out': out_of(impl[c.id]).decode('utf-8', 'replace')[:400]}, signature='bad-bound-accepted')
        k = c.meta.get('pair')
        if k is None:
            continue
        i, j = impl[c.id], impl[k.id]
        if i.get('status') != j.get('status') or out_of(i) != out_of(j):
            ctx.problem('oracle', '`%s` with period (%s, %s) given %s under TZ=%s differs from the same command on the log with the other days deleted' % (
                c.meta['kind'], c.meta['b'], c.meta['e'], c.meta['pos'], c.tz), c,
                {'with_period': out_of(i).decode('utf-8', 'replace')[:1200] + ' [%s %s]' % (i.get('status'), unhx(i.get('text', '') or '').decode('utf-8', 'replace')),
                 'days_deleted': out_of(j).decode('utf-8', 'replace')[:1200] + ' [%s]' % j.get('status')}, signature='period-selection')
        if i.get('status') == 'ok' and 'kept_days' in c.meta:
            got, want = printed_dates(c, out_of(i))
            if got is not None and got != want:
                ctx.problem('oracle', '`%s` under TZ=%s does not show the dates of the selected days as they are written in the log' % (c.meta['kind'], c.tz), c,
                            {'dates_shown': repr(got)[:600], 'dates_of_selected_days': repr(want)[:600], 'out': out_of(i).decode('utf-8', 'replace')[:600]}, signature='printed-dates')
        if c.meta['kind'] == 'summary' and i.get('status') != 'ok' and i.get('status') in ('err', 'panic', 'crash'):
            ctx.problem('oracle', '`summary %s` fails although the argument is a date in the date format in force (or a keyword): %s' % (
                c.meta['b'], unhx(i.get('text', '') or '').decode('utf-8', 'replace')[:200]), c, {'class': i.get('class')}, signature='summary-fails')
        if c.meta['kind'] == 'summary' and i.get('status') == 'ok':
            # exactly that calendar day: one block per heading of that date
            n_blocks = out_of(i).count(b'------------\n')
            if n_blocks != len(c.meta['kept']):
                ctx.problem('oracle', '`summary %s` shows %d day blocks, the log has %d headings of that date' % (c.meta['b'], n_blocks, len(c.meta['kept'])), c, {}, signature='summary-day')


def run(ctx):
    g = G(ctx.seed)
    cases = gen(g, 24 if ctx.tier == 'quick' else 40, ctx.tier)
    impl, model = run_apps(ctx, cases)
    judge(ctx, cases, impl)
    for c in cases:
        if 'pair' in c.meta:
            ctx.count('pos:' + c.meta['pos'])
            ctx.count('tz:' + c.tz)
            ctx.mark_nontrivial(sig(c.files, c.g, c.s, c.args, c.tz))
    ctx.sample({'cmd': cases[0].shell(), 'log': cases[0].files[b'log.yaml'].decode('utf-8', 'replace')[:300]})
    # the real binary under the three zones
    binary = ctx.real()
    paired = [c for c in cases if 'pair' in c.meta]
    sub = paired[:: (40 if ctx.tier == 'quick' else 25)]
    # and two of every shape of period (command, which bounds are given, where they are given): the Command() wrappers run only
    # here (round t: a wrapper that closes an open period of `bal -b` at --today)
    shapes, extra_sub = {}, []
    for c in paired:
        shapes.setdefault((str(c.meta.get('kind')), bool(c.meta.get('b')), bool(c.meta.get('e')), str(c.meta.get('pos'))), []).append(c)
    for cs in shapes.values():
        for c in (cs[0], cs[-1]):
            if all(c is not x for x in sub) and len(extra_sub) < (400 if ctx.tier == 'quick' else 1200):
                extra_sub.append(c)
    ctx.count('real-binary:period shapes', len(shapes))
    n = 0
    for c in sub + extra_sub:
        # (the cases added per shape run under their own zone only)
        for tz in (TZS if any(c is x for x in sub) else [c.tz]):
            def real(x):
                from ..appcase import ENV_NAMES
                files = dict(x.files)
                if x.cfg and x.cfg.get('exists'):
                    files[x.cfg['path'].encode()] = x.config_text()
                return core.run_real_binary(binary, x.argv(), files, tz=tz, env_extra={ENV_NAMES[k_]: str(v) for k_, v in x.env.items()})
            rc, out, err = real(c)
            rc2, out2, err2 = real(c.meta['pair'])
            n += 2
            if (rc, core.canon_out(out)) != (rc2, core.canon_out(out2)):
                ctx.problem('oracle', 'real binary, TZ=%s: `%s` with its period differs from the log with the other days deleted' % (tz, c.meta['kind']), c,
                            {'with_period': out.decode('utf-8', 'replace')[:800], 'days_deleted': out2.decode('utf-8', 'replace')[:800], 'stderr': err.decode('utf-8', 'replace')[:300]}, signature='real-binary:period-selection')
            i = impl[c.id]
            if i.get('status') == 'ok' and core.canon_out(out) != out_of(i):
                ctx.problem('corr', 'real binary and in-process driver disagree for `%s` under TZ=%s' % (c.meta['kind'], tz), c, {'real': out.decode('utf-8', 'replace')[:500], 'driver': out_of(i).decode('utf-8', 'replace')[:500]})
    ctx.evaluations += n
    ctx.notes.append('%d runs of the untagged binary under TZ in %s' % (n, TZS))


def search(ctx, seed):
    g = G(seed)
    cases = gen(g, 6, 'quick')
    for c in cases:
        c.id = ctx.fresh('s')
    impl = ctx.go([c.go() for c in cases])
    ctx.evaluations += len(cases)
    judge(ctx, cases, impl)
