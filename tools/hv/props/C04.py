"""C04 — well-formed files parse to exactly their records, entries and values."""
import itertools
from fractions import Fraction

from ..core import hx, unhx
from ..gen import G
from ..appcase import AppCase

THEOREMS = ['parse_body', 'parse_preamble', 'parse_records', 'parse_render', 'layout_irrelevant', 'last_record_kept', 'crlf_irrelevant']
LEVEL = 'proof'
RULE = ('documents generated from the documented grammar (random layouts per line) and all token sequences up to a bound; '
        'non-trivial = at least two records or at least two different layout variants in one file; distinct by content hash')
ASSUMPTIONS = ['strconv.ParseFloat is correctly rounded (trusted); values are compared as exact rationals where the literal is exactly representable']


class ParseCase:
    def __init__(self, src, spec=None, meta=None, fail_at=None):
        self.src = src
        self.spec = spec
        self.meta = meta or {}
        self.fail_at = fail_at
        self.id = None

    def go(self):
        j = {'id': self.id, 'mode': 'parse', 'src': hx(self.src)}
        if self.fail_at is not None:
            j['failAt'] = self.fail_at
        return j

    lean = go

    def describe(self):
        return {'src': self.src.decode('utf-8', 'replace'), 'src_hex': hx(self.src), 'failAt': self.fail_at, 'spec': repr(self.spec)}


def strip_msgs(evs):
    return evs


def nodes_of(obs):
    out = []
    for e in obs.get('events', []):
        if e.get('t') == 'node':
            out.append((unhx(e['header']), [(unhx(n), v) for n, v in e['elements']], [(unhx(a), unhx(b)) for a, b in e['notes']]))
        else:
            out.append(('error', e.get('t'), e.get('line')))
    return out


def frac_str(fr):
    return '%d/%d' % (fr.numerator, fr.denominator)


def spec_nodes(records):
    return [(h, [(n, frac_str(q.value)) for n, q in ents], list(notes)) for h, ents, notes in records]


TOKENS = [
    (b'2021/01/24:', ('H', b'2021/01/24')),
    (b'apple pie', ('H', b'apple pie')),
    (b'  a: 1', ('E', b'a', Fraction(1))),
    (b'\tb c  2.5', ('E', b'b c', Fraction(5, 2))),
    (b'- "q": -3', ('E', b'q', Fraction(-3))),
    (b'  - d/e: 1e1 ', ('E', b'd/e', Fraction(10))),
    (b'  # note: x', ('N', b'note', b'x')),
    (b'# comment', ('S',)),
    (b'   ', ('S',)),
]


def token_spec(seq):
    recs = []
    for _, sem in seq:
        if sem[0] == 'H':
            recs.append((sem[1], [], []))
        elif sem[0] == 'E' and recs:
            recs[-1][1].append((sem[1], frac_str(sem[2])))
        elif sem[0] == 'N' and recs:
            recs[-1][2].append((sem[1], sem[2]))
    return recs


def gen_doc(g, exact=True):
    r = g.r
    if r.random() < 0.5:
        book = g.book(exact=exact, unusual=0.3)
        recs = [(n, ings, []) for n, ings in book]
    else:
        log = g.log(book=g.book(exact=exact), exact=exact, unusual=0.3)
        recs = [(d.strftime('%Y/%m/%d').encode(), ents, ns) for d, ents, ns in log]
    if recs and r.random() < 0.03:
        # one long line (a food name of 4 to 60 KB, or a note of that size): below the 64 KiB limit it is a line like any other
        n = r.choice([4090, 4096, 4097, 5000, 8192, 20000, 60000])
        k = r.randrange(len(recs))
        h, ents, ns = recs[k]
        if ents and r.random() < 0.5:
            j = r.randrange(len(ents))
            ents = list(ents)
            ents[j] = (b'long/' + b'n' * n, ents[j][1])
        elif h[:4].isdigit():
            ns = list(ns) + [(b'', b'z' * n)]
        recs = recs[:k] + [(h, ents, ns)] + recs[k + 1:]
    lines = [g.render_record(h, ents, ns, True) for h, ents, ns in recs]
    src = g.render_file(lines, True)
    return src, recs


def run(ctx):
    g = G(ctx.seed)
    n_random = 2000 if ctx.tier == 'quick' else 6000
    maxlen = 4 if ctx.tier == 'quick' else 5
    cases = []
    # exhaustive: all token sequences up to maxlen, LF and CRLF, with and without final newline
    for k in range(0, maxlen + 1):
        for seq in itertools.product(TOKENS, repeat=k):
            for eol, final in ((b'\n', True), (b'\r\n', True), (b'\n', False)):
                if k == maxlen and eol != b'\n':
                    continue
                src = eol.join(t for t, _ in seq) + (eol if final and seq else b'')
                cases.append(ParseCase(src, token_spec(seq), {'kind': 'tokens', 'k': k}))
    ctx.exhaustive = True
    for _ in range(n_random):
        src, recs = gen_doc(g, exact=True)
        cases.append(ParseCase(src, spec_nodes(recs), {'kind': 'random', 'records': len(recs)}))
    impl, model = ctx.both(cases)
    import hashlib
    for c in cases:
        i, m = impl[c.id], model[c.id]
        ok = (i.get('events') == m.get('events') and i.get('scanErr') == m.get('scanErr'))
        ctx.op('parse-events', ok)
        if not ok:
            ctx.problem('corr', 'ParseStreamCallback event sequence differs from the model', c, {'impl': i, 'model': m})
        got = nodes_of(i)
        if got != c.spec or i.get('scanErr') != 'none':
            ctx.problem('oracle', 'parsed records differ from the document that was rendered', c,
                        {'impl_nodes': repr(got)[:2000], 'spec_nodes': repr(c.spec)[:2000]}, signature='parse-spec')
        ctx.count('kind:' + c.meta['kind'])
        if len(c.spec) >= 2 or (c.meta['kind'] == 'random'):
            ctx.mark_nontrivial(hashlib.sha1(c.src).hexdigest())
        if c.meta['kind'] == 'random':
            ctx.count('records:%d' % min(c.meta['records'], 8))
    for c in cases[-3:]:
        ctx.sample({'src': c.src.decode('utf-8', 'replace')[:400], 'expected_records': len(c.spec)})
    # through the commands: csv database (raw, file order), csv log, print
    apps = []
    for _ in range(250 if ctx.tier == 'quick' else 800):
        book = g.book(exact=True, unusual=0.3)
        log = g.log(book=book, exact=True, unusual=0.3)
        files = {b'food.yaml': g.render_book(book), b'log.yaml': g.render_log(log)}
        for path in (['csv', 'database'], ['csv', 'log'], ['print']):
            apps.append(AppCase(path, files=files, g={'today': '2021/01/26', 'noColor': True}, meta={'kind': ' '.join(path)}))
    impl, model = ctx.both(apps)
    for c in apps:
        ok = core_equal(impl[c.id], model[c.id])
        ctx.op('app:' + c.meta['kind'], ok)
        if not ok:
            ctx.problem('corr', 'output of `%s` differs from the model' % c.meta['kind'], c, {'impl': impl[c.id], 'model': model[c.id]})
        if impl[c.id].get('status') != 'ok':
            ctx.problem('oracle', '`%s` fails on a well-formed file' % c.meta['kind'], c, {'impl': impl[c.id]}, signature='wf-file-rejected')


def core_equal(i, m):
    from .. import core
    return core.obs_equal(i, m, exact=True)


def search(ctx, seed):
    g = G(seed)
    cases = []
    for _ in range(1500):
        src, recs = gen_doc(g, exact=True)
        cases.append(ParseCase(src, spec_nodes(recs), {'kind': 'random', 'records': len(recs)}))
    for c in cases:
        c.id = ctx.fresh('s')
    impl = ctx.go([c.go() for c in cases])
    ctx.evaluations += len(cases)
    for c in cases:
        got = nodes_of(impl[c.id])
        if got != c.spec:
            ctx.problem('oracle', 'parsed records differ from the document that was rendered', c,
                        {'impl_nodes': repr(got)[:2000], 'spec_nodes': repr(c.spec)[:2000]}, signature='parse-spec')
            return
