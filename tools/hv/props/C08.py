"""C08 — no input makes a command crash or hang."""
from .. import spec
from ..gen import G
from ..common import run_apps, app, out_of, sig, base_files
from ..core import unhx

THEOREMS = ['callbacks_never_panic', 'delivery_exclusive', 'depth_is_bounded', 'parse_total']
LEVEL = 'proof'
RULE = ('arbitrary byte strings and grammar-aware mutations of valid files (truncated lines, bad numbers, stray separators, invalid UTF-8, NaN/Inf/hex floats/1e999, '
        'cycles, empty files, 70 KiB lines) in the log, the book and the linted file x every command and flag shape, under recover() with a timeout; '
        'non-trivial = the input is not accepted verbatim by the grammar; distinct by (input hash, command)')
ASSUMPTIONS = ['real stack exhaustion / allocation failure are outside the model: the model proves the recursion bounds that rule them out',
               'naturaldate and regexp (reg -f) are reached with plain arguments only']

CMDS = [(['reg'], (), {}), (['reg'], (), {'oldReg': True}), (['reg'], (), {'template': 'left-aligned', 'shorten': True}), (['reg'], (), {'shorten': True}),
        (['reg'], (), {'singleElement': 'calories'}), (['reg'], (), {'singleElement': 'calories', 'groupFood': True}), (['reg'], (), {'singleElement': 'calories', 'csv': True}),
        (['reg'], (), {'singleFood': 'a'}), (['reg'], (), {'totalsOnly': True}), (['reg'], (), {'noTotals': True}),
        (['bal'], (), {}), (['bal'], (), {'collapse': True}), (['bal'], (), {'collapseLast': True}), (['bal'], (), {'singleElement': 'calories'}), (['bal'], (), {'singleElement': 'calories', 'collapse': True}),
        (['report', 'totals'], (), {}), (['report', 'unresolved'], (), {}), (['report', 'quantity'], (), {}), (['report', 'quantity'], (), {'desc': True}),
        (['report', 'element-total'], ('calories',), {}), (['csv', 'log'], (), {}), (['csv', 'database'], (), {}), (['csv', 'database-resolved'], (), {}),
        (['summary'], ('2021/01/24',), {}), (['summary'], ('today',), {}), (['print'], (), {}), (['stats'], (), {}), (['lint'], ('log.yaml',), {}), (['lint'], ('food.yaml',), {'silent': True})]

NASTY_NUMS = [b'nan', b'NaN', b'inf', b'-Inf', b'+infinity', b'1e999', b'-1e999', b'1e-999', b'0x1p-2', b'0x1.8p1', b'0x', b'1_000', b'_1', b'1__0', b'1e', b'.', b'-', b'+', b'1.2.3',
              b'1e400', b'179769313486231580793728971405303415079934132710037826936173778980444968292764750946649017977587207096330286416692887910946555547851940402630657488671505820681908902000708383676273854845817711531764475730270069855571366959622842914819860834936475292719074168444365510704342711559699508093042880177904174497791.999', b'0.0000000000000000000000001', b'00012', b'-0', b'1E3', b'Infinity',
              b'1e-324', b'3e-324', b'2.4703282292062327e-324', b'2.4703282292062328e-324', b'4.9e-324', b'-1e-400', b'0x1p-1075', b'0x1.000001p-1075', b'0x1p-1074']


def mutate(g, data):
    r = g.r
    b = bytearray(data)
    k = r.randint(1, 6)
    for _ in range(k):
        op = r.randint(0, 9)
        pos = r.randint(0, len(b)) if b else 0
        if op == 0 and b:
            del b[pos:pos + r.randint(1, 8)]
        elif op == 1:
            b[pos:pos] = bytes(r.randrange(256) for _ in range(r.randint(1, 4)))
        elif op == 2:
            b[pos:pos] = r.choice([b'\n', b'\r\n', b'\t', b' ', b':', b'"', b'-', b'#', b'/', b'\x00', b'\xff', b'\xc3', b'\xe2\x80', b'\xc2\xa0', b'\x0b', b'\x0c'])
        elif op == 3:
            b[pos:pos] = b' ' + r.choice(NASTY_NUMS)
        elif op == 4 and pos < len(b):
            b[pos] = r.randrange(256)
        elif op == 5:
            b[pos:pos] = b'\n  ' + g.word(1, 5, 0.3).encode() + r.choice([b':', b' ', b': ']) + r.choice(NASTY_NUMS) + b'\n'
        elif op == 6:
            b = b[:pos]
        elif op == 7:
            line = b'\n' + r.choice([b'2021/02/30', b'2021/13/01', b'0000/00/00', b'99999/01/01', b'2021/1/1', b'2021-01-24', b'20210124', b'2021/01/24 ', b'2021/01/2x']) + b':\n  a: 1\n'
            b[pos:pos] = line
        elif op == 8:
            b[pos:pos] = b'\n  # ' + r.choice([b'a: #', b': x', b'#', b':', b'a:\xc2\xa0', b'note \xe2\x80\xa8', b'## h ##', b'a: b -#'])
        else:
            b[pos:pos] = b'\n' + r.choice([b'  - ', b'\t', b'-', b'- -', b'  "', b'  :']) + g.word(1, 4, 0.3).encode() + b' 1\n'
    return bytes(b)


def gen(g, count, tier):
    r = g.r
    cases = []
    for n in range(count):
        book = g.book(depth=r.choice([0, 1, 2]), exact=True, unusual=0.3)
        log = g.log(book=book, exact=True, unusual=0.3, notes=0.4)
        files = base_files(g, book, log)
        style = n % 6
        if style == 0:
            files[b'log.yaml'] = bytes(r.randrange(256) for _ in range(r.randint(0, 300)))
        elif style == 1:
            files[b'food.yaml'] = bytes(r.choice(b'\n\n\t  :-"#ab1.') if r.random() < 0.7 else r.randrange(256) for _ in range(r.randint(0, 300)))
        elif style == 2:
            files[b'log.yaml'] = mutate(g, files[b'log.yaml'])
        elif style == 3:
            files[b'food.yaml'] = mutate(g, files[b'food.yaml'])
        elif style == 4:
            files[b'food.yaml'] = g.render_book(g.chain_book(r.randint(1, 6), cycle=r.randint(1, 3)))
            files[b'log.yaml'] = mutate(g, files[b'log.yaml']) if r.random() < 0.5 else files[b'log.yaml']
        else:
            files[b'log.yaml'] = r.choice([b'', b'\n', b'\r\n', b'#', b'2021/01/24', b'2021/01/24:', b'  a: 1', b'\xff\xfe', b':', b'-', b'2021/01/24:\n  ' + b'x' * 70000 + b': 1\n'])
            if r.random() < 0.5:
                files[b'food.yaml'] = r.choice([b'', b'a:', b'a:\n  a: 1', b'a:\n  b: 1\nb:\n  a: 1', b'\x00'])
        gf = {}
        if r.random() < 0.15:
            gf['maxdepth'] = r.choice([0, 1, -1, 2, 5000])
        if r.random() < 0.1:
            gf['begin'] = r.choice(['2021/01/24', 'today', 'last7', 'yesterday'])
        if r.random() < 0.1:
            gf['noDatabase'] = True
        picks = CMDS if tier == 'thorough' else r.sample(CMDS, 7)
        for path, args, s in picks:
            c = app(path, files, args=args, s=s, g=gf, kind=' '.join(path + list(s)), disk=(path == ['stats']), exact=False)
            c.g.pop('noColor', None) if r.random() < 0.3 else None
            c.meta['style'] = style
            cases.append(c)
    return cases


FLAG_FUZZ = ['', ' ', 'a[', '*bread', 'coffee (black', 'x{2,1}', '\\', '(?i)A', '[[:alpha:]', '(?P<n', 'a|b', '.*', '^$', '\xff', 'tomorrow', 'next week', 'yesterday at 5pm',
             '5 days ago', 'last year', 'in 3 fortnights', '2021/13/45', '99999999999999999999', '-1', '0', 'today', 'last7', '2006-01-02', 'Jan 2 2006', '02 Jan 06 15:04 MST',
             '%s%d', '../../x', 'a/b', 'NaN', '1e999', 'left-aligned', 'default', 'nosuch', '\n', '--', '-b',
             '2021-01-24', '2021.01.24', '2021/02/30', '2021/00/10', '0000/01/01', '2021/01/32']


def gen_flags(g, count):
    """well-formed files, hostile flag values"""
    r = g.r
    cases = []
    for n in range(count):
        book = g.book(depth=1, exact=True, unusual=0.1)
        log = g.log(book=book, exact=True, unusual=0.1)
        files = base_files(g, book, log)
        v = r.choice(FLAG_FUZZ)
        shape = n % 12
        if shape in (0, 1, 8, 9) and r.random() < 0.5:
            # near misses of names that do occur: another letter case, a prefix, a suffix, surrounding blanks
            pool = [i for _, ings in book for i, _ in ings] + [f for _, ents, _ in log for f, _ in ents] + [nm for nm, _ in book]
            if pool:
                nm = r.choice(pool).decode('utf-8', 'replace')
                v = r.choice([nm.swapcase(), nm.upper(), nm.capitalize(), nm[:max(1, len(nm) // 2)], nm[len(nm) // 2:], ' ' + nm, nm + ' ', nm + '/', nm.title()])
                if not v or v.startswith('-'):
                    v = 'X' + v
        path, args, s, gf = ['reg'], (), {}, {}
        if shape == 0:
            s = {'singleFood': v}
        elif shape == 1:
            s = {'singleElement': v}
        elif shape == 2:
            s = {'begin': v}
        elif shape == 3:
            gf = {'end': v}
        elif shape == 4:
            path, args = ['summary'], (v,)
        elif shape == 5:
            gf = {'dateFormat': v}
        elif shape == 6:
            gf = {'today': v}
        elif shape == 7:
            s = {'template': v}
        elif shape == 8:
            path, s = ['bal'], {'singleElement': v}
        elif shape == 9:
            path, args = ['report', 'element-total'], (v,)
        elif shape == 10:
            path, args = ['lint'], (v,)
        else:
            gf = {'database': v, 'logfile': v}
        if any(x == '' or x.startswith('-') for x in args):
            continue
        c = app(path, files, args=args, s=s, g=gf, kind='flagfuzz ' + ' '.join(path), exact=False)
        if shape == 6:
            c.g['today'] = v
        c.meta['style'] = 'flags'
        cases.append(c)
    return cases


REG_SWITCHES = [('oldReg', True), ('template', 'left-aligned'), ('shorten', True), ('totalsOnly', True), ('noTotals', True), ('csv', True), ('groupFood', True),
                ('singleElement', 'calories'), ('singleFood', 'a'), ('noColor', True)]
BAL_SWITCHES = [('collapse', True), ('collapseLast', True), ('singleElement', 'calories')]        # (balance has no --no-color of its own)


def gen_switches(g, nfiles):
    """well-formed files, every pair of switches of register and balance (and a sample of triples): options that are harmless
    one by one must be harmless together"""
    import itertools
    r = g.r
    cases = []
    for _ in range(nfiles):
        book = g.book(depth=1, exact=True, unusual=0.1)
        log = g.log(book=book, exact=True, unusual=0.1, days=r.randint(1, 3))
        if r.random() < 0.5:
            log.append((log[0][0], [], []))
        files = base_files(g, book, log)
        combos = [(['reg'], c) for c in itertools.combinations(REG_SWITCHES, 2)] + [(['bal'], c) for c in itertools.combinations(BAL_SWITCHES, 2)]
        combos += [(['reg'], c) for c in r.sample(list(itertools.combinations(REG_SWITCHES, 3)), 25)] + [(['bal'], c) for c in itertools.combinations(BAL_SWITCHES, 3)]
        for path, combo in combos:
            c = app(path, files, s=dict(combo), kind='switches ' + ' '.join(path) + ' ' + '+'.join(k for k, _ in combo))
            c.meta['style'] = 'switches'
            cases.append(c)
        # one global option with one or two switches of the sub-command
        days = sorted({d for d, _, _ in log})
        d1 = days[0].strftime('%Y/%m/%d')
        d2 = days[-1].strftime('%Y/%m/%d')
        globals_ = [('noDatabase', True), ('begin', d2), ('end', d1), ('maxdepth', 1), ('maxdepth', 2)]
        subs = [(['reg'], c) for k in (1, 2) for c in itertools.combinations(REG_SWITCHES + [('begin', d1), ('end', d2)], k)]
        subs += [(['bal'], c) for k in (1, 2) for c in itertools.combinations(BAL_SWITCHES + [('begin', d1), ('end', d2)], k)]
        subs += [(['report', 'quantity'], (('desc', True),)), (['report', 'totals'], ()), (['report', 'unresolved'], ()), (['csv', 'log'], (('begin', d1),)), (['print'], (('end', d2),))]
        for gopt in globals_:
            for path, combo in (subs if gopt[0] != 'maxdepth' else r.sample(subs, 25)):
                c = app(path, files, g=dict([gopt]), s=dict(combo), kind='switches %s + %s %s' % (gopt[0], ' '.join(path), '+'.join(k for k, _ in combo)))
                c.meta['style'] = 'switches'
                cases.append(c)
    return cases


def judge(ctx, cases, impl):
    for c in cases:
        i = impl[c.id]
        if i.get('status') in ('panic', 'timeout', 'crash'):
            txt = unhx(i.get('text', '') or '').decode('utf-8', 'replace')
            ctx.problem('oracle', '`%s` %s: %s' % (c.meta['kind'], {'panic': 'panics', 'timeout': 'does not terminate in time', 'crash': 'kills the process'}[i['status']], txt[:200]), c,
                        {'stack': (i.get('stack') or '')[:1500]}, signature=('stack-overflow-huge-maxdepth' if 'stack' in txt and 'overflow' in txt else i['status'] + ':' + c.meta['kind'].split(' ')[0]))


def run(ctx):
    g = G(ctx.seed)
    cases = gen(g, 500 if ctx.tier == 'quick' else 2500, ctx.tier)
    cases += gen_flags(g, 720 if ctx.tier == 'quick' else 3000)
    cases += gen_switches(g, 3 if ctx.tier == 'quick' else 12)
    # an unbounded --maxdepth on a cyclic book (recursion depth = maxdepth)
    deep = app(['csv', 'database-resolved'], {b'food.yaml': b'a:\n  a: 1\n', b'log.yaml': b''}, g={'maxdepth': 100000000}, kind='csv database-resolved maxdepth=1e8')
    deep.meta['style'] = 'deep'
    cases.append(deep)
    # ... the same bound arriving through the environment and through the configuration file, and other absurd depths
    cyc = {b'food.yaml': b'a:\n  b: 1\nb:\n  a: 2\n', b'log.yaml': b'2021/01/24:\n  a: 1\n'}
    for path in (['csv', 'database-resolved'], ['reg'], ['bal'], ['report', 'totals']):
        for depth in (100000000, 10001, 10000, -1, 0, 9223372036854775807):
            for src in ('flag', 'env', 'cfg'):
                g_, e_, cfg_ = {}, {}, None
                if src == 'flag':
                    g_['maxdepth'] = depth
                elif src == 'env':
                    e_['maxdepth'] = depth
                else:
                    cfg_ = {'where': 'flag', 'path': 'my.cfg', 'exists': True, 'entries': {'MaxDepth': depth}}
                    g_['config'] = 'my.cfg'
                c = app(path, cyc, g=g_, env=e_, cfg=cfg_, disk=True, kind='%s maxdepth=%d via %s on a cyclic book' % (' '.join(path), depth, src), exact=False)
                c.meta['style'] = 'deep'
                cases.append(c)
    # date layouts whose separators are a backslash, a quote, a brace, a per-cent sign
    for lay, d1 in (('02\\01\\2006', '24\\01\\2021'), ('2006"01"02', '2021"01"24'), ('2006{{01}}02', '2021{{01}}24'), ('2006%01%02', '2021%01%24'), ("2006'01'02", "2021'01'24"), ('2006`01`02', '2021`01`24')):
        lfiles = {b'food.yaml': b'a:\n  calories: 1\n', b'log.yaml': d1.encode() + b':\n  a: 1\n'}
        for path, args in ((['summary'], (d1,)), (['reg'], ()), (['print'], ()), (['stats'], ()), (['csv', 'log'], ()), (['bal'], ())):
            for src in ('flag', 'env'):
                c = app(path, lfiles, args=args, g=dict({'today': d1}, **({'dateFormat': lay} if src == 'flag' else {})), env={'dateFormat': lay} if src == 'env' else {},
                        kind='%s with the date layout %s' % (' '.join(path), lay), disk=(path == ['stats']), exact=False)
                c.meta['style'] = 'odd date layout'
                cases.append(c)
    # settings that are present but empty (an exported variable without a value, -d '')
    efiles = {b'food.yaml': b'a:\n  calories: 1\n', b'log.yaml': b'2021/01/24:\n  a: 1\n'}
    for key in ('database', 'logfile', 'dateFormat', 'config'):
        for path, args in ((['reg'], ()), (['print'], ()), (['lint'], ('log.yaml',)), (['bal'], ()), (['csv', 'log'], ())):
            for where in ('env', 'flag'):
                if where == 'flag' and key == 'maxdepth':
                    continue
                c = app(path, efiles, args=args, env={key: ''} if where == 'env' else {}, g={key: ''} if where == 'flag' else {},
                        kind='%s with an empty %s (%s)' % (' '.join(path), key, where), disk=(path == ['stats']), exact=False)
                c.meta['style'] = 'empty setting'
                cases.append(c)
    # category paths far deeper than any indentation anyone planned for
    for depth in (16, 17, 18, 33, 64, 100, 101, 102, 150, 300):
        deep_name = '/'.join('l%d' % (i % 7) for i in range(depth)).encode()
        dfiles = {b'food.yaml': b'x:\n  calories: 2\n', b'log.yaml': b'2021/01/24:\n  ' + deep_name + b': 1\n  ' + deep_name + b'/x: 2\n  x: 1\n'}
        for path, sw in ((['bal'], {}), (['bal'], {'collapse': True}), (['bal'], {'collapseLast': True}), (['bal'], {'singleElement': 'calories'}), (['reg'], {}), (['report', 'quantity'], {})):
            c = app(path, dfiles, s=sw, kind='%s %s, a category path of %d levels' % (' '.join(path), '+'.join(sw), depth))
            c.meta['style'] = 'deep category path'
            cases.append(c)
    # a failing output under a report of several buffers: an error, never a crash
    bigbook = g.book(depth=1, exact=True, per_layer=120, unusual=0.1)
    biglog = g.log(book=bigbook, exact=True, days=60, max_entries=6, unusual=0.1)
    bigfiles = base_files(g, bigbook, biglog)
    for path, args, sw in ((['csv', 'database'], (), {}), (['csv', 'database-resolved'], (), {}), (['csv', 'log'], (), {}), (['reg'], (), {}), (['bal'], (), {}), (['print'], (), {}),
                           (['report', 'totals'], (), {}), (['report', 'element-total'], ('calories',), {}), (['reg'], (), {'singleElement': 'calories', 'csv': True})):
        for k in (0, 1, 4095, 4096, 4097, 8192, 12288, 20000):
            c = app(path, bigfiles, args=args, s=sw, sink_fail=k, kind='%s, output fails after %d bytes' % (' '.join(path), k))
            c.meta['style'] = 'failing sink, large report'
            cases.append(c)
    impl, model = run_apps(ctx, cases)
    judge(ctx, cases, impl)
    for c in cases:
        ctx.count('style:%s' % c.meta['style'])
        ctx.count('status:' + str(impl[c.id].get('status')) + ('/' + str(impl[c.id].get('class')) if impl[c.id].get('class') else ''))
        ctx.mark_nontrivial(sig(c.files, c.meta['kind'], c.g))
    # inputs that only the real program reads: a malformed configuration file, a sub-command without its argument
    from .. import core
    binary = ctx.real()
    files = {b'food.yaml': b'a:\n  calories: 1\n', b'log.yaml': b'2021/01/24:\n  a: 1\n'}
    configs = [b'[Global', b'[Global]\nDateFormat', b'[Nope]\nx=1\n', b'[Global]\nNope=1\n', b'\x00\xff\xfe', b'[Global]\nNow=yesterday\n', b'[Resolver]\nMaxDepth=many\n',
               b'[Global]\nDateFormat="unterminated\n', b'=\n', b'[Global]\n' + b'x' * 70000 + b'=1\n', b'[Resolver]\nMaxDepth=99999999999999999999\n']
    n = 0
    for cfgtext in configs:
        for argv in (['reg'], ['stats'], ['--no-color', 'bal'], ['lint', 'log.yaml'], ['gen', 'markdown']):
            for where in ('home', 'flag'):
                fs = dict(files)
                a = ['--today', '2021/01/28'] + argv
                if where == 'flag':
                    fs[b'my.cfg'] = cfgtext
                    a = ['-c', 'my.cfg'] + a
                rc, out, err = core.run_real_binary(binary, a, fs, home_config=cfgtext if where == 'home' else None)
                n += 1
                ctx.count('real-binary:config rc=%d' % rc)
                if rc < 0 or b'goroutine ' in err or b'panic:' in err:
                    ctx.problem('oracle', '`%s` with a malformed configuration file (%s) ends with status %d: %s' % (' '.join(argv), where, rc, err.decode('utf-8', 'replace')[:200]), None,
                                {'config': cfgtext[:200].decode('utf-8', 'replace'), 'argv': a}, signature='panic:config')
    for argv in (['lint'], ['report', 'element-total'], ['summary'], ['report'], ['csv'], ['gen'], ['reg', 'x', 'y'], ['lint', 'a', 'b'], ['summary', 'today', 'extra'], ['nosuch'], ['reg', '--nosuch'], ['--nosuch', 'reg'], [],
                 ['--maxdepth', 'abc', 'reg'], ['--no-colour', 'reg'], ['--maxdepth', 'abc', 'bal'], ['-x', 'csv', 'log'], ['reg', '--begin'], ['--date-format'], ['bal', '-e'],
                 ['--maxdepth', '1.5', 'report', 'totals'], ['--nosuch=1', 'stats'], ['print', '--nosuch'], ['csv', 'log', '--nosuch'], ['lint', '--nosuch', 'log.yaml']):
        rc, out, err = core.run_real_binary(binary, ['--today', '2021/01/28'] + argv, files)
        n += 1
        ctx.count('real-binary:arguments rc=%d' % rc)
        if rc < 0 or b'goroutine ' in err or b'panic:' in err:
            ctx.problem('oracle', '`%s` (missing or surplus argument) ends with status %d: %s' % (' '.join(argv), rc, err.decode('utf-8', 'replace')[:200]), None, {'argv': argv}, signature='panic:arguments')
        elif rc == 0 and not out.strip() and (any(a.startswith('-') and ('nosuch' in a or a in ('-x', '--no-colour')) for a in argv) or 'abc' in argv or '1.5' in argv
                                              or argv[-1] in ('--begin', '--date-format', '-e')):
            # an unknown flag, a value that is no number, a flag without its value: "either a report or an error message and a
            # non-zero exit status" - an empty standard output with status 0 is neither (round t: a usage-error hook that returned
            # nil).  (An empty report is a report: `summary today` on a day without entries prints nothing and succeeds.)
            ctx.problem('oracle', '`%s` is no valid command line, yet it ends with status 0 and prints nothing on standard output (stderr: %s)' % (' '.join(argv), err.decode('utf-8', 'replace')[:160]), None,
                        {'argv': argv}, signature='silent-success:arguments')
    if core.SCRATCH_UID:
        try:
            cgobin = core.build_go(False, cgo=True)
        except core.Infra:
            cgobin = None            # no C compiler: the cgo flavour cannot be built here
        if cgobin:
            for argv in (['reg'], ['--help'], ['stats'], ['lint', 'log.yaml']):
                for drop in ((), ('HOME',), ('HOME', 'USER')):
                    rc, out, err = core.run_real_binary(cgobin, ['--today', '2021/01/28'] + argv, files, drop_env=drop)
                    n += 1
                    ctx.count('real-binary (cgo, uid without passwd entry) rc=%d' % rc)
                    if rc < 0 or b'goroutine ' in err or b'panic:' in err:
                        ctx.problem('oracle', '`%s` of the cgo build crashes under a uid that has no entry in the user database%s: %s' % (
                            ' '.join(argv), ' without ' + '/'.join(drop) if drop else '', err.decode('utf-8', 'replace')[:200]), None, {'argv': argv, 'unset': list(drop)}, signature='panic:no-passwd-entry')
    ctx.evaluations += n
    ctx.notes.append('%d runs of the untagged binary with malformed configuration files and missing / surplus arguments' % n)
    c = cases[10]
    ctx.sample({'cmd': c.shell(), 'log_hex': c.files[b'log.yaml'][:120].hex(), 'book': c.files[b'food.yaml'].decode('utf-8', 'replace')[:200]})


def search(ctx, seed):
    g = G(seed)
    cases = gen(g, 120, 'quick') + gen_flags(g, 200)
    for c in cases:
        c.id = ctx.fresh('s')
    impl = ctx.go([c.go() for c in cases])
    ctx.evaluations += len(cases)
    judge(ctx, cases, impl)
