"""C05 — every report is a pure function of its inputs (no dependence on map iteration order)."""
import re
from .. import spec
from ..gen import G, Qty
from ..common import run_apps, app, out_of, sig, base_files, summarize
from fractions import Fraction

THEOREMS = ['set_keys_nodup', 'ofNodes_keys_nodup', 'resolve_any_order', 'run_order_independent', 'sorted_totals_order_irrelevant', 'sorted_elements_order_irrelevant']
LEVEL = 'proof'
RULE = ('every command on inputs biased towards what map order could expose: >= 3 unresolved foods, tied quantities, tied element values, near-tied amounts (unequal, closer than 1e-9, names running against the amounts), totals on a half-cent boundary built from non-dyadic terms in >= 3 categories, category quantities on a half-cent boundary, foods whose names differ only in letter case, '
        'recipe chains around the depth limit; each invocation repeated R times in-process (thorough: also as separate processes); '
        'non-trivial = >= 3 entries at a ranged map or >= 2 tied sort keys; distinct by input hash')
ASSUMPTIONS = ["Go's actual map randomisation is sampled by repetition; the theorem covers every visiting order of the model"]

CMDS = [(['reg'], (), {}), (['reg'], (), {'oldReg': True}), (['reg'], (), {'singleElement': 'calories', 'groupFood': True}), (['reg'], (), {'singleElement': 'calories', 'csv': True}),
        (['bal'], (), {}), (['bal'], (), {'collapse': True}), (['bal'], (), {'singleElement': 'calories'}),
        (['report', 'totals'], (), {}), (['report', 'unresolved'], (), {}), (['report', 'quantity'], (), {}), (['report', 'quantity'], (), {'desc': True}),
        (['report', 'element-total'], ('calories',), {}), (['report', 'element-total'], ('calories',), {'desc': True}),
        (['csv', 'database-resolved'], (), {}), (['csv', 'log'], (), {}), (['summary'], ('2021/01/24',), {}), (['print'], (), {}),
        (['gen', 'markdown'], (), {}), (['stats'], (), {})]


def gen(g, count, reps):
    cases = []
    r = g.r
    for _ in range(count):
        book = g.book(depth=r.choice([1, 2, 3]), exact=True, unusual=0.1, per_layer=r.randint(2, 5))
        if len(spec.book_map(book)) != len(book):
            continue
        # tie element values: several recipes with the same calories figure
        tie = Qty(b'100', Fraction(100))
        book = [(n, ings + [(b'calories', tie)] if r.random() < 0.5 else ings) for n, ings in book]
        log = g.log(book=book, exact=True, unusual=0.1, in_book=0.35, direct=0.1, max_entries=10)
        # tie quantities: many foods logged with quantity 1
        log = [(d, [(f, Qty(b'1', Fraction(1)) if r.random() < 0.5 else q) for f, q in ents], ns) for d, ents, ns in log]
        exact = True
        if r.random() < 0.3:
            # near ties: unequal amounts closer than any plausible tolerance, names running against the amounts,
            # every food logged once (so that no rounding of sums is involved)
            from ..gen import dec_str
            foods = sorted({f for _, ents, _ in log for f, _ in ents}, reverse=r.random() < 0.7)
            base = Fraction(r.choice([25, 150, 100, 330, 5]), 100)
            delta = Fraction(r.choice([1, 4, 6, 10]), 10 ** r.choice([10, 10, 11, 12]))
            amount = {f: base + k * delta for k, f in enumerate(foods)}
            seen = set()
            nlog = []
            for d, ents, ns in log:
                ne = []
                for f, q in ents:
                    if f in seen:
                        continue
                    seen.add(f)
                    ne.append((f, Qty(dec_str(amount[f]), amount[f], False)))
                nlog.append((d, ne, ns))
            log = nlog
            # the same for element values (element-total orders the resolved database by value)
            names = sorted([n for n, _ in book], reverse=True)
            kcal = {n: Fraction(100) + k * delta for k, n in enumerate(names)}
            # (no recipe inside a recipe here: a sum of near-tied figures rounds, and the rounding may reorder them, which is not what is tested)
            book = [(n, [(i, q) for i, q in ings if i != b'calories' and i not in kcal] + [(b'calories', Qty(dec_str(kcal[n]), kcal[n], False))]) for n, ings in book]
            exact = False
            g.r.random()
        if r.random() < 0.2:
            # half-cent boundary: >= 3 top-level categories whose contributions to `calories` add up to exactly x.xx5, from
            # non-dyadic terms, so that the printed total depends on the order in which floating point adds them
            from ..gen import dec_str
            import datetime
            k = r.randint(3, 6)
            foods = []
            while len(foods) < k:
                nm = (g.word(3, 6, 0) + '/' + g.word(3, 6, 0)).encode()
                if nm.split(b'/')[0] not in [f.split(b'/')[0] for f in foods]:
                    foods.append(nm)
            vals = [Fraction(r.randint(100, 3000), 100) for _ in foods]
            qs = [Fraction(r.choice([1, 2, 3, 5, 7, 25, 15]), r.choice([10, 10, 20, 4])) for _ in foods]
            partial = sum(v * q for v, q in zip(vals[:-1], qs[:-1]))
            target = Fraction(int(partial * 100) + r.randint(1, 300), 100) + Fraction(5, 1000)
            qs[-1] = Fraction(1)
            vals[-1] = target - partial
            book = [(f, [(b'calories', Qty(dec_str(v), v, False)), (b'fat', Qty(b'1.5', Fraction(3, 2)))]) for f, v in zip(foods, vals)]
            order = list(range(k))
            r.shuffle(order)
            log = [(datetime.date(2021, 1, 24), [(foods[i], Qty(dec_str(qs[i]), qs[i], False)) for i in order], [])]
            exact = False
        if r.random() < 0.15:
            # half-cent boundary in the *quantities* of one category: plain `bal` adds the logged quantities of a category, the sum
            # is exactly x.xx5 from non-dyadic terms, so the printed category total depends on the order of the additions
            from ..gen import dec_str
            import datetime
            k = r.randint(3, 6)
            cat = g.word(3, 6, 0)
            foods = []
            while len(foods) < k:
                nm = (cat + '/' + g.word(3, 7, 0)).encode()
                if nm not in foods:
                    foods.append(nm)
            qs = [Fraction(r.randint(1, 1999), r.choice([100, 1000, 1000])) for _ in foods]
            partial = sum(qs[:-1])
            qs[-1] = Fraction(int(partial * 100) + r.randint(1, 200), 100) + Fraction(5, 1000) - partial
            other = [(g.word(3, 6, 0).encode(), Qty(b'1', Fraction(1)))]
            order = list(range(k))
            r.shuffle(order)
            log = [(datetime.date(2021, 1, 24), [(foods[i], Qty(dec_str(qs[i]), qs[i], False)) for i in order] + other, [])]
            book = []
            exact = False
        if r.random() < 0.3 and log:
            # names that differ only in letter case are different foods, ordered byte-wise
            pool = sorted({f for _, ents, _ in log for f, _ in ents if f.isascii() and f.lower() != f.upper()})
            if pool:
                idx = r.randrange(len(log))
                d0, ents0, ns0 = log[idx]
                ents0 = list(ents0)
                defined = dict(book)
                for f in r.sample(pool, min(len(pool), 2)):
                    for v in sorted({f.upper(), f.capitalize(), f.swapcase(), f.lower()} - {f}):
                        if g.wf_name(v):
                            ents0.append((v, Qty(b'1', Fraction(1))))
                            if f in defined and v not in defined and r.random() < 0.7:
                                # ... and different recipes when the book defines both spellings
                                book = book + [(v, list(defined[f]))]
                                defined[v] = defined[f]
                log = log[:idx] + [(d0, ents0, ns0)] + log[idx + 1:]
        files = base_files(g, book, log)
        n = r.choice([None, None, spec.max_height(spec.book_map(book)), spec.max_height(spec.book_map(book)) + 1])
        for path, args, s in CMDS:
            c = app(path, files, args=args, s=s, g={'maxdepth': n} if n else {}, reps=reps, exact=exact, kind=' '.join(path + [k for k in s]), disk=(path == ['stats']))
            c.meta['near_ties'] = not exact
            c.meta.update({'log': log, 'book': book})
            cases.append(c)
    return cases


def differs_across_processes(ctx, c, n=16):
    """the property speaks of runs of the program: repeat the invocation as separate processes of the untagged binary"""
    from .. import core
    outs = set()
    for _ in range(n):
        try:
            rc, out, err = core.run_real_binary(ctx.real(), c.argv(), c.files, tz=c.tz, stable_dir=True)
        except Exception:
            return True          # cannot be run from outside (a name that is no file name): keep the in-process verdict
        outs.add((rc, out, re.sub(rb'(?m)^\d{4}/\d\d/\d\d \d\d:\d\d:\d\d ', b'', err)))
        if len(outs) > 1:
            return True
    return False


def judge(ctx, cases, impl):
    verdict = {}         # command -> do separate processes differ too? (decided on the first two cases of that command)
    for c in cases:
        i = impl[c.id]
        if i.get('distinct', 1) != 1:
            # repeated runs inside one process differ.  Map order shows in separate processes too; state carried from one run to
            # the next inside the driver's process does not, and the program runs once per process.
            kind = c.meta['kind']
            seen = verdict.setdefault(kind, [])
            if len(seen) < 2 and not c.cfg and not c.env:
                seen.append(differs_across_processes(ctx, c))
            if seen and not any(seen):
                if True:
                    ctx.problem('corr', 'repeated runs of `%s` inside one process differ, 16 separate runs of the program agree: something is carried from one run to the next '
                                'inside the process (the in-process driver is then no faithful observer of the program; the property is not shown to fail)' % c.meta['kind'], c,
                                {'first': summarize(i), 'other': summarize(i.get('other') or {})})
                    continue
            ctx.problem('oracle', 'identical invocations of `%s` produce different results' % c.meta['kind'], c,
                        {'first': summarize(i), 'other': summarize(i.get('other') or {})}, signature='nondeterministic:' + c.meta['kind'].split(' desc')[0])


def run(ctx):
    g = G(ctx.seed)
    reps = 8 if ctx.tier == 'quick' else 40
    cases = gen(g, 120 if ctx.tier == 'quick' else 500, reps)
    impl, model = run_apps(ctx, cases)
    judge(ctx, cases, impl)
    ctx.notes.append('each invocation repeated %d times in-process' % reps)
    for c in cases:
        unresolved = {f for _, ents, _ in c.meta['log'] for f, _ in ents} - {n for n, _ in c.meta['book']}
        ctx.count('unresolved>=3' if len(unresolved) >= 3 else 'unresolved<3')
        ctx.count('near-tie amounts' if c.meta.get('near_ties') else 'ordinary amounts')
        if len(unresolved) >= 3:
            ctx.mark_nontrivial(sig(c.files, c.meta['kind']))
    ctx.sample({'cmd': cases[0].shell(), 'repetitions': reps, 'log': cases[0].files[b'log.yaml'].decode('utf-8', 'replace')[:400]})
    if ctx.tier == 'thorough':
        # separate processes of the real binary
        from .. import core
        binary = ctx.real()
        n = 0
        for c in cases[::7][:150]:
            outs = set()
            for _ in range(6):
                rc, out, err = core.run_real_binary(binary, c.argv(), c.files, stable_dir=True)
                # the message on stderr carries log.Fatal's time stamp, which is not part of the result
                outs.add((rc, out, re.sub(rb'(?m)^\d{4}/\d\d/\d\d \d\d:\d\d:\d\d ', b'', err)))
            n += 1
            if len(outs) != 1:
                ctx.problem('oracle', 'separate runs of the real binary differ for `%s`' % c.meta['kind'], c, {'n_distinct': len(outs)}, signature='nondeterministic:' + c.meta['kind'])
        ctx.notes.append('%d invocations also run 6 times each as separate processes of the untagged binary' % n)


def search(ctx, seed):
    g = G(seed)
    cases = gen(g, 25, 12)
    for c in cases:
        c.id = ctx.fresh('s')
    impl = ctx.go([c.go() for c in cases])
    ctx.evaluations += len(cases)
    judge(ctx, cases, impl)
