"""C12 — reports compose over the log history."""
import re
from fractions import Fraction
from .. import spec
from ..gen import Qty, G
from ..common import run_apps, app, out_of, sig
from ..core import unhx

THEOREMS = ['walk_composes', 'register_composes', 'csv_log_composes', 'print_composes', 'totals_additive', 'totals_prints_acc', 'quantity_additive', 'balance_tree_composes', 'scan_lines_of_fit', 'parse_text_concat', 'balance_rows_additive']
LEVEL = 'proof'
RULE = ('histories log_1 ++ ... ++ log_k (k in 2..5) of appended day blocks incl. repeated dates, empty days and blocks that differ only in order x random books; '
        'per-day commands: out(L1 ++ L2) = out(L1) ++ out(L2); period commands: the printed rows of the concatenation are the element-wise sums; '
        'non-trivial = a repeated date across blocks or k >= 3; distinct by history hash')
ASSUMPTIONS = ['period figures are compared as printed on inputs whose arithmetic is exact in float64']

PER_DAY = [(['reg'], {}), (['reg'], {'oldReg': True}), (['reg'], {'template': 'left-aligned'}), (['csv', 'log'], {}), (['print'], {}),
           (['reg'], {'singleFood': 'a'}), (['reg'], {'singleElement': 'calories'}), (['reg'], {'singleElement': 'calories', 'csv': True})]
PERIOD = [(['bal'], {}), (['report', 'totals'], {}), (['report', 'quantity'], {}), (['reg'], {'singleElement': 'calories', 'groupFood': True})]


def num_rows(out, kind):
    """name -> tuple of Fractions, parsed from a period report"""
    rows = {}
    if kind == 'bal':
        r, _ = spec.parse_balance(out)
        stack = []
        for ind, label, amount in r:
            stack = stack[:ind] + [label]
            rows[b'/'.join(stack)] = (Fraction(amount.decode()),)
    elif kind == 'report totals':
        for name, p, n, s in spec.parse_totals(out):
            rows[name] = (Fraction(p.decode()), Fraction(n.decode()), Fraction(s.decode()))
    else:
        for name, v in spec.parse_value_rows(out):
            rows[name] = (Fraction(v.decode()),)
    return rows


def gen(g, count):
    r = g.r
    groups = []
    for _ in range(count):
        book = g.book(depth=r.choice([0, 1, 2]), exact=True, unusual=0.1)
        if len(spec.book_map(book)) != len(book):
            continue
        bookfile = g.render_book(book, varied=False)
        k = r.randint(2, 5)
        long_blocks = r.random() < 0.03
        if long_blocks:
            k = 2
        blocks = [g.log(book=book, exact=True, days=r.randint(0, 3) if not long_blocks else r.choice([120, 150, 300]), unusual=0.1, max_entries=4) for _ in range(k)]
        if r.random() < 0.3 and blocks[0]:
            blocks[1] = list(reversed(blocks[0]))          # a block that differs only in order
        if r.random() < 0.03:
            # a period with scores of distinct foods, some of them logged again in the next block (tables that grow, then are revisited)
            import datetime
            pool = [('item/n%03d' % i).encode() for i in range(r.choice([65, 70, 130, 300]))]
            r.shuffle(pool)
            one = Qty(b'1', Fraction(1))
            two = Qty(b'2', Fraction(2))
            blocks = [[(datetime.date(2021, 1, 24), [(f, one) for f in pool], [])],
                      [(datetime.date(2021, 1, 25), [(f, two) for f in r.sample(pool, 12)] + [(pool[0], one), (pool[-1], one)], [])]]
        # quantities with two decimals at most, so that printed period figures add up exactly
        texts = [g.render_log(b, varied=False, crlf=False, final_nl=True) for b in blocks]
        # blocks end with a newline and start with a heading: plain concatenation is the appended file
        whole = b''.join(texts)
        cmds = r.sample(PER_DAY, 3) + r.sample(PERIOD, 2)
        for path, s in cmds:
            kind = ' '.join(path + list(s))
            cw = app(path, {b'food.yaml': bookfile, b'log.yaml': whole}, s=s, kind=kind)
            parts = [app(path, {b'food.yaml': bookfile, b'log.yaml': t}, s=s, kind=kind + ' (part)') for t in texts]
            groups.append((cw, parts, (path, s) in PER_DAY or any(path == p and s == q for p, q in PER_DAY), blocks))
    return groups


def judge(ctx, groups, impl):
    for cw, parts, per_day, blocks in groups:
        iw = impl[cw.id]
        ips = [impl[p.id] for p in parts]
        if iw.get('status') != 'ok' or any(p.get('status') != 'ok' for p in ips):
            failing = cw if iw.get('status') != 'ok' else next(p for p, o in zip(parts, ips) if o.get('status') != 'ok')
            ctx.problem('oracle', '`%s` fails on a valid history' % cw.meta['kind'], failing, {}, signature='history-fails', related=[cw] + parts)
            continue
        if per_day:
            cat = b''.join(unhx(p['out']) for p in ips)
            if unhx(iw['out']) != cat:
                ctx.problem('oracle', '`%s` of the concatenated log is not the concatenation of the reports of its parts' % cw.meta['kind'], cw,
                            {'whole': unhx(iw['out']).decode('utf-8', 'replace')[:1200], 'parts_concatenated': cat.decode('utf-8', 'replace')[:1200]}, signature='per-day-not-compositional', related=parts)
        else:
            kind = ' '.join(x.decode() for x in cw.path)
            try:
                whole = num_rows(out_of(iw), kind)
                acc = {}
                for p in ips:
                    for name, vals in num_rows(out_of(p), kind).items():
                        cur = acc.get(name)
                        acc[name] = vals if cur is None else tuple(a + b for a, b in zip(cur, vals))
            except Exception as e:
                ctx.problem('oracle', '`%s` output unreadable: %s' % (kind, e), cw, {}, signature='period-unreadable')
                continue
            # every printed figure is within half a cent of its exact value: k parts and the whole → (k + 1) half cents
            bad = [n for n in set(whole) | set(acc) if n not in whole or n not in acc or any(abs(a - b) > Fraction(len(parts) + 1, 200) + Fraction(1, 10 ** 9) for a, b in zip(whole[n], acc[n]))]
            if bad:
                ctx.problem('oracle', '`%s` of the concatenated log is not the element-wise sum of its parts (rows %s)' % (kind, [b.decode('utf-8', 'replace') for b in bad[:3]]), cw,
                            {'whole': {k.decode('utf-8', 'replace'): [str(x) for x in v] for k, v in list(whole.items())[:20]},
                             'sum_of_parts': {k.decode('utf-8', 'replace'): [str(x) for x in v] for k, v in list(acc.items())[:20]}}, signature='period-not-additive', related=parts)


def run(ctx):
    g = G(ctx.seed)
    groups = gen(g, 250 if ctx.tier == 'quick' else 800)
    cases = [c for cw, parts, _, _ in groups for c in [cw] + parts]
    impl, model = run_apps(ctx, cases)
    judge(ctx, groups, impl)
    for cw, parts, per_day, blocks in groups:
        ctx.count('k:%d' % len(parts))
        dates = [set(d for d, _, _ in b) for b in blocks]
        repeated = any(dates[i] & dates[j] for i in range(len(dates)) for j in range(i + 1, len(dates)))
        if repeated or len(parts) >= 3:
            ctx.mark_nontrivial(sig(cw.files, cw.meta['kind']))
    ctx.sample({'cmd': groups[0][0].shell(), 'parts': len(groups[0][1]), 'log': groups[0][0].files[b'log.yaml'].decode('utf-8', 'replace')[:400]})


def search(ctx, seed):
    g = G(seed)
    groups = gen(g, 40)
    cases = [c for cw, parts, _, _ in groups for c in [cw] + parts]
    for c in cases:
        c.id = ctx.fresh('s')
    impl = ctx.go([c.go() for c in cases])
    ctx.evaluations += len(cases)
    judge(ctx, groups, impl)
