"""C18 — the channel parser delivers the callback parser's result under every schedule."""
from ..gen import G
from ..common import sig
from ..core import hx, unhx
from .C04 import ParseCase
from .C09 import planted

THEOREMS = ['every_schedule_terminates', 'sends_end_with_done', 'terminal_received', 'documented_consumer', 'draining_consumer', 'unreadable_file_drains', 'schedule_independent']
LEVEL = 'proof'
RULE = ('inputs: valid, with one or several malformed lines, empty, failing reader, unreadable path; through ParseStream and through ParseFile on a regular file, a named pipe and a directory x consumer policies {stop at first error, '
        'drain until Done} x scheduling-jitter seeds (thorough: race-detector build); non-trivial = input with an error or >= 2 records; '
        'distinct by (input hash, policy, jitter seed)')
ASSUMPTIONS = ['data races and scheduler starvation are outside the model (race detector in the thorough tier)']


class ChanCase:
    def __init__(self, src, policy, jitter, fail_at=None, unreadable=False, via=''):
        self.src, self.policy, self.jitter, self.fail_at, self.unreadable = src, policy, jitter, fail_at, unreadable
        self.via = via       # '' = ParseStream on a reader; 'file' / 'fifo' = ParseFile on a regular file / named pipe holding src;
        self.id = None       # 'dir' / 'procdir' = ParseFile on a directory: opens, then every read fails (the model: reader failing at 0)
        self.meta = {}

    def lean(self):
        j = {'id': self.id, 'mode': 'chan', 'src': hx(self.src), 'policy': self.policy, 'jitter': self.jitter, 'unreadable': self.unreadable, 'timeoutMs': 1500}
        if self.fail_at is not None:
            j['failAt'] = self.fail_at
        return j

    def go(self):
        j = self.lean()
        if self.via:
            j['via'] = self.via
            j.pop('failAt', None)
        return j

    def describe(self):
        return {'src': self.src.decode('utf-8', 'replace'), 'policy': self.policy, 'jitter_seed': self.jitter, 'failAt': self.fail_at, 'unreadable': self.unreadable,
                'parseFile_on': self.via or None}


def expected_from_callback(obs, policy, unreadable):
    """what the callback parser reports on the same input → what each consumer must see"""
    if unreadable:
        seq = [{'t': 'ioerr'}]
    else:
        seq = []
        for e in obs['events']:
            if e['t'] == 'node':
                seq.append({'t': 'node', 'header': e['header']})
            else:
                seq.append({'t': 'perr', 'msg': e['msg']})
                break
        else:
            if obs['scanErr'] != 'none':
                seq.append({'t': 'ioerr'})
    if policy == 'first':
        for idx, m in enumerate(seq):
            if m['t'] != 'node':
                return seq[:idx + 1]
        return seq + [{'t': 'done'}]
    return seq + [{'t': 'done'}]


def gen(g, count, seeds):
    r = g.r
    cases = []
    for n in range(count):
        log = g.log(book=[], exact=True, days=r.randint(0, 4), max_entries=3)
        recs = [g.render_record(d.strftime('%Y/%m/%d').encode(), ents, ns, True) for d, ents, ns in log]
        k = r.choice([0, 0, 1, 1, 2, 3])
        for _ in range(k):
            if recs:
                rec = r.choice(recs)
                rec.insert(r.randint(1, len(rec)), planted(g)[0])
        src = g.render_file(recs, True)
        fail = r.choice([None, None, None, r.randint(0, len(src))])
        unread = (n % 9 == 8)
        for policy in ('first', 'drain'):
            for s in range(seeds):
                cases.append(ChanCase(src, policy, 1000 * n + s, fail, unread))
            # the file front end: the same text in a regular file and in a named pipe; a directory (opens, cannot be read)
            if n % 3 == 0:
                cases.append(ChanCase(src, policy, 1000 * n + 500, None, False, via='file'))
                cases.append(ChanCase(src, policy, 1000 * n + 501, None, False, via='fifo'))
            if n % 25 == 0:
                cases.append(ChanCase(b'', policy, 1000 * n + 502, 0, False, via='dir'))
                cases.append(ChanCase(b'', policy, 1000 * n + 503, 0, False, via='procdir'))
    return cases


def run(ctx):
    g = G(ctx.seed)
    cases = gen(g, 150 if ctx.tier == 'quick' else 600, 2 if ctx.tier == 'quick' else 6)
    refs = {}
    pcs = []
    for c in cases:
        key = (c.src, c.fail_at)
        if key not in refs:
            pc = ParseCase(c.src, None, {}, fail_at=c.fail_at)
            pc.id = ctx.fresh('p')
            refs[key] = pc
            pcs.append(pc)
    pimpl = ctx.go([p.go() for p in pcs])
    impl, model = ctx.both(cases)
    for c in cases:
        i, m = impl[c.id], model[c.id]
        want_model = m['first'] if c.policy == 'first' else m['drain']
        got = i.get('received')
        ok = (i.get('consumer') == 'returned' and got == want_model and (c.policy == 'first' or i.get('producer') == 'exited'))
        ctx.op('chan:' + c.policy + (' ParseFile' if c.via else ''), ok)
        if not ok:
            ctx.problem('corr', 'ParseStream/ParseFile with the %s consumer differs from the model' % c.policy, c, {'impl': i, 'model': want_model})
        want = expected_from_callback(pimpl[refs[(c.src, c.fail_at)].id], c.policy, c.unreadable)
        if i.get('consumer') != 'returned':
            ctx.problem('oracle', 'the %s consumer never terminates (%s)' % (c.policy, 'unreadable path: no Done is sent' if c.unreadable else 'producer stuck'), c, {'impl': i},
                        signature='chan-no-done-after-open-error' if c.unreadable else 'chan-hang')
        elif got != want:
            dup = len([x for x in got if x['t'] in ('perr', 'ioerr')]) > len([x for x in want if x['t'] in ('perr', 'ioerr')])
            ctx.problem('oracle', 'the %s consumer received %s' % (c.policy, 'the error twice' if dup else 'a sequence that differs from the callback parser'), c,
                        {'received': got, 'callback_parser': want}, signature='chan-error-sent-twice' if dup else 'chan-sequence')
        elif c.policy == 'drain' and i.get('producer') != 'exited':
            ctx.problem('oracle', 'the producer goroutine is still blocked after the draining consumer saw Done', c, {'impl': i}, signature='chan-producer-leak')
        ctx.count('policy:' + c.policy)
        ctx.count('ParseFile:' + c.via if c.via else 'unreadable' if c.unreadable else 'failing-reader' if c.fail_at is not None else 'readable')
        if len(want) >= 3 or any(x['t'] != 'node' and x['t'] != 'done' for x in want):
            ctx.mark_nontrivial((sig(c.src), c.policy, c.jitter, c.fail_at, c.unreadable, c.via))
    ctx.sample(cases[3].describe())
    if ctx.tier == 'thorough' and getattr(ctx, 'blackbox', None) is None:
        from .. import core
        race = core.GoDriver(core.build_go(True, race=True), 'C18race')
        sub = cases[::5]
        for c in sub:
            c.id = ctx.fresh('r')
        rimpl = race.run([c.go() for c in sub])
        bad = [c for c in sub if rimpl[c.id].get('status') in ('crash', 'panic') or 'DATA RACE' in str(rimpl[c.id])]
        for c in bad[:3]:
            ctx.problem('oracle', 'race detector / crash in the channel parser', c, {'impl': rimpl[c.id]}, signature='chan-race')
        ctx.notes.append('%d cases re-run under the -race build' % len(sub))


def search(ctx, seed):
    pass
