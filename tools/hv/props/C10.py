"""C10 — unreadable input is an error, never a silently shortened report."""
from .. import spec
from .. import core as _core
from ..gen import G
from ..common import run_apps, app, out_of, sig, base_files
from ..core import unhx
from .C04 import ParseCase

THEOREMS = ['read_fault_is_error', 'long_line_is_error', 'success_implies_complete', 'command_success_implies_complete']
LEVEL = 'proof'
RULE = ('small generated files with the reader failing at every byte offset (exhaustive over offsets), through the parser and through the commands; '
        'files with a line of 65535 / 65536 / 70000 bytes at first / middle / last position; a directory and a missing path on the real binary; '
        'non-trivial = fault strictly inside the data; distinct by (file hash, offset)')
ASSUMPTIONS = ['OS-level read errors are represented by a reader that fails at a chosen offset',
               "bufio.Scanner's chunking is modelled only as 'which lines are delivered'"]

CMDS = [(['reg'], ()), (['bal'], ()), (['csv', 'log'], ()), (['print'], ()), (['report', 'totals'], ()), (['report', 'quantity'], ()),
        (['csv', 'database'], ()), (['csv', 'database-resolved'], ()), (['report', 'element-total'], ('calories',)),
        (['summary'], ('2021/01/24',)), (['report', 'unresolved'], ()), (['lint'], ('food.yaml',)), (['lint'], ('log.yaml',))]
# the same commands with switches that route the data through another reporter
VARIANTS = [(['reg'], (), {'singleElement': 'calories'}), (['reg'], (), {'singleElement': 'calories', 'groupFood': True}), (['reg'], (), {'singleFood': 'a'}), (['reg'], (), {'oldReg': True}),
            (['reg'], (), {'template': 'left-aligned'}), (['bal'], (), {'collapse': True}), (['bal'], (), {'collapseLast': True}), (['bal'], (), {'singleElement': 'calories'}),
            (['report', 'quantity'], (), {'desc': True}), (['report', 'element-total'], ('calories',), {'desc': True})]
DB_ONLY = {'csv database', 'csv database-resolved', 'report element-total', 'lint food.yaml'}
LOG_ONLY = {'csv log', 'print', 'report quantity', 'lint log.yaml'}


def run(ctx):
    g = G(ctx.seed)
    r = g.r
    # --- parser level: every offset of small files
    pcases = []
    nfiles = 14 if ctx.tier == 'quick' else 40
    for _ in range(nfiles):
        log = g.log(book=[], exact=True, days=r.randint(1, 3), max_entries=3)
        src = g.render_log(log, varied=True)
        if len(src) > (220 if ctx.tier == 'quick' else 2048):
            src = src[:220]
        base = ParseCase(src, None, {'file': sig(src)})
        pcases.append(base)
        for k in range(0, len(src) + 1):
            pcases.append(ParseCase(src, None, {'file': sig(src), 'k': k, 'base': base}, fail_at=k))
    ctx.exhaustive = True
    impl, model = ctx.both(pcases)
    for c in pcases:
        i, m = impl[c.id], model[c.id]
        ok = i.get('events') == m.get('events') and i.get('scanErr') == m.get('scanErr')
        ctx.op('parse-under-failing-reader', ok)
        if not ok:
            ctx.problem('corr', 'ParseStreamCallback under a failing reader differs from the model', c, {'impl': i, 'model': m})
        if c.fail_at is not None:
            if i.get('scanErr') == 'none':
                ctx.problem('oracle', 'ParseStreamCallback returns nil although the reader failed at offset %d of %d' % (c.fail_at, len(c.src)), c,
                            {'events_delivered': len(i.get('events', []))}, signature='scanner-err-ignored')
            if 0 < c.fail_at < len(c.src):
                ctx.mark_nontrivial((c.meta['file'], c.fail_at))
    # --- long lines
    lcases = []
    for length in (65534, 65535, 65536, 70000):
        for pos in ('first', 'middle', 'last'):
            for term in (b'\n', b''):
                long_line = b'  ' + b'x' * (length - 5) + b': 1'
                assert len(long_line) == length
                head = b'2021/01/24:\n'
                parts = {'first': [head, long_line, b'\n  a: 1\n2021/01/25:\n  b: 2' + term],
                         'middle': [head + b'  a: 1\n', long_line, b'\n2021/01/25:\n  b: 2' + term],
                         'last': [head + b'  a: 1\n2021/01/25:\n  b: 2\n', long_line, term]}[pos]
                src = b''.join(parts)
                lcases.append(ParseCase(src, None, {'len': length, 'pos': pos}))
    impl2, model2 = ctx.both(lcases)
    for c in lcases:
        i, m = impl2[c.id], model2[c.id]
        ok = i.get('events') == m.get('events') and i.get('scanErr') == m.get('scanErr')
        ctx.op('parse-long-line', ok)
        if not ok:
            ctx.problem('corr', 'ParseStreamCallback on a %d-byte line differs from the model' % c.meta['len'], c,
                        {'impl_scanErr': i.get('scanErr'), 'model_scanErr': m.get('scanErr'), 'impl_events': len(i.get('events', [])), 'model_events': len(m.get('events', []))})
        n_nodes = len([e for e in i.get('events', []) if e.get('t') == 'node'])
        if i.get('scanErr') == 'none' and n_nodes < 2:
            ctx.problem('oracle', 'a file with a %d-byte line parses "successfully" to %d of its 2 records' % (c.meta['len'], n_nodes), c, {}, signature='scanner-err-ignored')
        ctx.count('longline:%d' % c.meta['len'])
    # --- command level
    acases = []
    for _ in range(6 if ctx.tier == 'quick' else 20):
        book = g.book(depth=1, exact=True, per_layer=2, unusual=0.1)
        if len(spec.book_map(book)) != len(book):
            continue
        log = g.log(book=book, exact=True, days=2, max_entries=3, unusual=0.1)
        files = base_files(g, book, log)
        for path, args, sw in [(p_, a_, {}) for p_, a_ in CMDS] + VARIANTS:
            if path == ['summary'] and log:
                args = (log[0][0].strftime('%Y/%m/%d'),)          # a day the log has (the first one: the faults come after it)
            kind0 = ' '.join(path + [a for a in args if path == ['lint']])
            kind = kind0 + (' [' + '+'.join(sw) + ']' if sw else '')
            base = app(path, files, args=args, s=sw, kind=kind)
            acases.append(base)
            targets = [b'food.yaml'] if kind0 in DB_ONLY else [b'log.yaml'] if kind0 in LOG_ONLY else [b'food.yaml', b'log.yaml']
            for t in targets:
                n = len(files[t])
                offs = range(0, n + 1) if ctx.tier == 'thorough' else sorted(set(list(range(0, n + 1, max(1, n // (12 if not sw else 5)))) + [n - 1, n]))
                for k in offs:
                    c = app(path, files, args=args, s=sw, kind=kind, read_fail={t: k})
                    c.meta.update({'base': base, 'target': t.decode(), 'k': k})
                    acases.append(c)
    impl3, model3 = run_apps(ctx, acases)
    for c in acases:
        if 'base' not in c.meta:
            continue
        i = impl3[c.id]
        b_ = impl3[c.meta['base'].id]
        if i.get('status') == 'ok':
            ctx.problem('oracle', '`%s` reports success although reading %s failed at offset %d (output %s the complete report)' % (
                c.meta['kind'], c.meta['target'], c.meta['k'], 'equals' if out_of(i) == out_of(b_) else 'is shorter than'), c,
                {'out': out_of(i).decode('utf-8', 'replace')[:600], 'complete': out_of(b_).decode('utf-8', 'replace')[:600]}, signature='scanner-err-ignored')
        ctx.mark_nontrivial((sig(c.files), c.meta['kind'], c.meta['target'], c.meta['k']))
    # --- command level, a line longer than the scanner's buffer in one of the two files (files on disk, so that commands
    #     that open the files themselves, like stats, are covered)
    dcases = []
    for _ in range(3 if ctx.tier == 'quick' else 10):
        book = g.book(depth=1, exact=True, per_layer=2, unusual=0.1)
        if len(spec.book_map(book)) != len(book):
            continue
        log = g.log(book=book, exact=True, days=3, max_entries=3, unusual=0.1)
        files = base_files(g, book, log)
        for t in (b'food.yaml', b'log.yaml'):
            lines = files[t].split(b'\n')
            heads = [k for k, l in enumerate(lines) if l[:1] not in (b' ', b'\t', b'-', b'#', b'') and l.strip()]
            if len(heads) < 2:
                continue
            at = r.choice(heads[1:]) if r.random() < 0.7 else heads[0]
            long_line = b'  ' + b'x' * r.choice([65536, 70000, 131072]) + b': 1'
            broken = dict(files)
            broken[t] = b'\n'.join(lines[:at + 1] + [long_line] + lines[at + 1:])
            for path, args, sw in [(p_, a_, {}) for p_, a_ in CMDS + [(['stats'], ())]] + VARIANTS:
                if path == ['summary'] and log:
                    args = (log[0][0].strftime('%Y/%m/%d'),)
                kind = ' '.join(path + [a for a in args if path == ['lint']])
                if (kind in DB_ONLY and t != b'food.yaml') or (kind in LOG_ONLY and t != b'log.yaml'):
                    continue
                kind += ' [' + '+'.join(sw) + ']' if sw else ''
                c = app(path, broken, args=args, s=sw, kind=kind + ' (long line)', disk=True)
                c.meta.update({'target': t.decode()})
                dcases.append(c)
    impl4, model4 = run_apps(ctx, dcases)
    for c in dcases:
        i = impl4[c.id]
        if i.get('status') == 'ok':
            ctx.problem('oracle', '`%s` reports success although %s has a line longer than the scanner can read' % (c.meta['kind'], c.meta['target']), c,
                        {'out': out_of(i).decode('utf-8', 'replace')[:600]}, signature='scanner-err-ignored')
        ctx.mark_nontrivial((sig(c.files), c.meta['kind'], c.meta['target'], 'long'))
    # inputs that are not regular files: a named pipe delivers its bytes but reports size 0; every command reads it like the file
    binary = ctx.real()
    pbook = b'soup:\n  calories: 40\n  fat: 2\nbread:\n  calories: 80\n'
    plog = b'2021/01/24:\n  soup: 2\n  bread: 1\n2021/01/25:\n  bread: 3\n'
    npipe = 0
    base = ['--today', '2021/01/28', '--no-color']
    for argv in (['reg'], ['bal'], ['csv', 'log'], ['print'], ['report', 'totals'], ['report', 'quantity'], ['report', 'element-total', 'calories'], ['csv', 'database'],
                 ['csv', 'database-resolved'], ['summary', '2021/01/24'], ['stats'], ['lint', 'p.yaml']):
        for role in ('log', 'book'):
            if argv[0] == 'lint':
                plain = _core.run_real_binary(binary, base + ['lint', 'p.yaml'], {b'p.yaml': plog})
                piped = _core.run_real_binary(binary, base + ['lint', 'p.yaml'], {}, fifos={'p.yaml': plog})
            elif role == 'log':
                plain = _core.run_real_binary(binary, base + ['-l', 'p.yaml'] + argv, {b'food.yaml': pbook, b'p.yaml': plog})
                piped = _core.run_real_binary(binary, base + ['-l', 'p.yaml'] + argv, {b'food.yaml': pbook}, fifos={'p.yaml': plog})
            else:
                plain = _core.run_real_binary(binary, base + ['-d', 'p.yaml'] + argv, {b'log.yaml': plog, b'p.yaml': pbook})
                piped = _core.run_real_binary(binary, base + ['-d', 'p.yaml'] + argv, {b'log.yaml': plog}, fifos={'p.yaml': pbook})
            npipe += 2
            if (plain[0], plain[1]) != (piped[0], piped[1]):
                ctx.problem('oracle', '`%s` with the %s read from a named pipe does not give the report it gives for the same bytes in a regular file (exit status %d vs %d)' % (
                    ' '.join(argv), role, piped[0], plain[0]), None, {'pipe': piped[1].decode('utf-8', 'replace')[:400], 'file': plain[1].decode('utf-8', 'replace')[:400]}, signature='pipe-input')
    # the writer of the pipe may open it after the program has (round t: an open that does not wait for the writer reads an empty file)
    for argv, role in ((['report', 'quantity'], 'log'), (['csv', 'log'], 'log'), (['csv', 'database'], 'book'), (['reg'], 'book')):
        if role == 'log':
            plain = _core.run_real_binary(binary, base + ['-l', 'p.yaml'] + argv, {b'food.yaml': pbook, b'p.yaml': plog})
            piped = _core.run_real_binary(binary, base + ['-l', 'p.yaml'] + argv, {b'food.yaml': pbook}, fifos={'p.yaml': plog}, fifo_delay=0.4)
        else:
            plain = _core.run_real_binary(binary, base + ['-d', 'p.yaml'] + argv, {b'log.yaml': plog, b'p.yaml': pbook})
            piped = _core.run_real_binary(binary, base + ['-d', 'p.yaml'] + argv, {b'log.yaml': plog}, fifos={'p.yaml': pbook}, fifo_delay=0.4)
        npipe += 2
        if (plain[0], plain[1]) != (piped[0], piped[1]):
            ctx.problem('oracle', '`%s` with the %s read from a named pipe whose writer opens it 0.4 s late does not give the report it gives for the same bytes in a regular file (exit status %d vs %d)' % (
                ' '.join(argv), role, piped[0], plain[0]), None, {'pipe': piped[1].decode('utf-8', 'replace')[:400], 'file': plain[1].decode('utf-8', 'replace')[:400]}, signature='pipe-input-late-writer')
    # a recipe book of more than 4 MiB is read to its end (element-total lists what the resolved book has)
    big = b''.join(b'r%06d:\n  calories: 1\n' % i for i in range(190000))          # 4.5 MB
    rc1, out1, err1 = _core.run_real_binary(binary, base + ['report', 'element-total', 'calories'], {b'food.yaml': big, b'log.yaml': b''}, timeout=120)
    rc2, out2, err2 = _core.run_real_binary(binary, base + ['csv', 'database'], {b'food.yaml': big, b'log.yaml': b''}, timeout=120)
    npipe += 2
    if rc1 != 0 or rc2 != 0 or out1.count(b'\n') != 190000 or out2.count(b'\n') != 190000:
        ctx.problem('oracle', 'a recipe book of %d bytes with 190000 recipes: `report element-total` lists %d rows (exit %d), `csv database` %d rows (exit %d)' % (
            len(big), out1.count(b'\n'), rc1, out2.count(b'\n'), rc2), None, {}, signature='large-book-cut')
    ctx.evaluations += npipe
    ctx.notes.append('%d runs of the untagged binary with named pipes as inputs and with a 4.5 MB recipe book' % npipe)
    ctx.sample({'cmd': acases[1].shell(), 'readFail': acases[1].read_fail and {k.decode(): v for k, v in acases[1].read_fail.items()}})
    # --- real binary: a directory given as log file, a missing file
    from .. import core
    import os
    binary = ctx.real()
    files = {b'food.yaml': b'a:\n  calories: 1\n'}
    rc, out, err = core.run_real_binary(binary, ['--today', '2021/01/28', '-l', '.', 'csv', 'log'], files)
    ctx.evaluations += 1
    if rc == 0:
        ctx.problem('oracle', 'a directory given as log file: `csv log` exits 0', None, {'stdout': out.decode('utf-8', 'replace'), 'stderr': err.decode('utf-8', 'replace')}, signature='scanner-err-ignored')
    rc, out, err = core.run_real_binary(binary, ['--today', '2021/01/28', '-l', 'missing.yaml', 'csv', 'log'], files)
    ctx.evaluations += 1
    if rc == 0:
        ctx.problem('oracle', 'a missing log file: `csv log` exits 0', None, {'stderr': err.decode('utf-8', 'replace')}, signature='missing-file-ok')
    long_log = b'2021/01/24:\n  a: 1\n  ' + b'y' * 70000 + b': 2\n2021/01/25:\n  b: 3\n'
    rc, out, err = core.run_real_binary(binary, ['--today', '2021/01/28', 'csv', 'log'], {**files, b'log.yaml': long_log})
    ctx.evaluations += 1
    if rc == 0:
        ctx.problem('oracle', 'a log with a 70000-byte line: `csv log` exits 0 with %d of 3 rows' % out.count(b'\n'), None, {'stdout': out.decode('utf-8', 'replace')[:300]}, signature='scanner-err-ignored')
