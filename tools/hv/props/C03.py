"""C03 — balance tree conserves logged quantities in every display mode."""
import itertools
from fractions import Fraction

from .. import spec
from ..gen import G, Qty
from ..common import run_apps, app, out_of, sig, base_files

THEOREMS = ['separator_is_one_byte', 'balance_amounts', 'balance_rows', 'collapse_only_joins', 'collapse_last_joins', 'top_level_amounts_conserved', 'single_element_total', 'collapse_is_plain_of_joined', 'collapse_last_is_plain_of_joined', 'display_modes_same_leaves', 'collapse_preserves_leaves', 'balance_rows_follow_source', 'balance_single_footer_follows_source']
LEVEL = 'proof'
RULE = ('exhaustive: every set of <= 4 (thorough: 5) paths of depth <= 3 over a two-letter alphabet, in the three display modes; random logs and '
        'books beyond, with and without --single-element; non-trivial = a fork below a single-child chain or two foods sharing a prefix; '
        'distinct by path set / input hash')
ASSUMPTIONS = ['amounts are compared as printed (two decimals) on inputs whose arithmetic is exact in float64']

MODES = [('bal', {}), ('bal -c', {'collapse': True}), ('bal --collapse-last', {'collapseLast': True})]


def canon_num(x):
    s = x.decode() if isinstance(x, bytes) else x
    if s.startswith('-') and not s.strip('-0.'):
        return s[1:]
    return s


def elements_of(log):
    out = []
    for _, ents, _ in log:
        out.extend(spec.merge_day(ents))
    return out


def judge_group(ctx, group, impl, elements, single=None, res=None):
    """group: {mode: case}; elements: [(name, Fraction)] that reach the tree"""
    names = [n for n, _ in elements]
    want_rows = [(ind, label, spec.fmt_fixed(v, 2)) for ind, label, v in spec.balance_spec(elements)]
    want_rows = [(a, b, canon_num(c)) for a, b, c in want_rows]
    agg = {}
    for n, v in elements:
        agg[n] = agg.get(n, Fraction(0)) + v
    want_leaves = sorted((n, canon_num(spec.fmt_fixed(v, 2))) for n, v in agg.items())
    nopref = spec.no_prefix(names)
    parsed = {}
    for mode, c in group.items():
        i = impl[c.id]
        if i.get('status') != 'ok':
            ctx.problem('oracle', '`%s` fails on a valid log' % mode, c, {'impl': i.get('class')}, signature='balance-fails')
            continue
        try:
            rows, total = spec.parse_balance(out_of(i))
        except (ValueError, IndexError, AttributeError) as e:
            ctx.problem('oracle', '`%s` output is not a balance table: %s' % (mode, e), c, {}, signature='balance-unreadable')
            continue
        rows = [(a, b, canon_num(c_)) for a, b, c_ in rows]
        parsed[mode] = (rows, total)
        if mode == 'bal' and rows != want_rows:
            ctx.problem('oracle', 'balance rows are not the prefix sums of the logged quantities (each path once, siblings sorted)', c,
                        {'impl': repr(rows)[:2000], 'spec': repr(want_rows)[:2000]}, signature='balance-rows' if single is None else 'balance-single-rows')
        if nopref:
            leaves = sorted((p, a) for p, a in spec.balance_leaves(rows))
            if leaves != want_leaves:
                ctx.problem('oracle', '`%s` does not show the same leaf paths and amounts as the log (a branch is dropped or an amount changed)' % mode, c,
                            {'impl_leaves': repr(leaves)[:1500], 'spec_leaves': repr(want_leaves)[:1500], 'output': out_of(i).decode('utf-8', 'replace')[:1000]},
                            signature='collapse-drops-branch' if mode == 'bal -c' else 'balance-leaves')
        # conservation: the top-level rows of every mode add up to everything that was logged
        top = sum((Fraction(a) for ind, _, a in rows if ind == 0), Fraction(0))
        logged = sum((Fraction(spec.fmt_fixed(v, 2)) for (ind, _, v) in spec.balance_spec(elements) if ind == 0), Fraction(0))
        if top != logged:
            ctx.problem('oracle', '`%s`: the top-level rows add up to %s, the logged quantities to %s' % (mode, top, logged), c,
                        {'output': out_of(i).decode('utf-8', 'replace')[:1000]}, signature='balance-not-conserved')
        if single is not None:
            tot = sum((v for _, v in elements), Fraction(0))
            if total is None or canon_num(total[0]) != canon_num(spec.fmt_fixed(tot, 2)) or total[1] != single:
                ctx.problem('oracle', 'single-element grand total is not the sum of the contributions of %r' % single, c,
                            {'impl_total': repr(total), 'spec_total': spec.fmt_fixed(tot, 2)}, signature='balance-single-total')


def run(ctx):
    g = G(ctx.seed)
    # exhaustive small scope
    alphabet = [b'a', b'b']
    paths = [b'/'.join(p) for k in (1, 2, 3) for p in itertools.product(alphabet, repeat=k)]
    maxk = 4 if ctx.tier == 'quick' else 5
    groups = []
    cases = []
    count = 0
    for k in range(1, maxk + 1):
        for subset in itertools.combinations(paths, k):
            count += 1
            if ctx.tier == 'quick' and k == 4 and count % 3:
                continue
            ents = [(p, Qty(str(2 ** j).encode(), Fraction(2 ** j))) for j, p in enumerate(subset)]
            log = [(__import__('datetime').date(2021, 1, 24), ents, [])]
            files = {b'food.yaml': b'', b'log.yaml': g.render_log(log, varied=False)}
            grp = {}
            for mode, s in MODES:
                c = app(['bal'], files, s=s, kind=mode)
                grp[mode] = c
                cases.append(c)
            groups.append((grp, elements_of(log), None, subset))
    # the same with empty path components (`a/`, `/a`, `a//a`, `/`): a component like any other
    paths2 = [b'/'.join(p) for k in (1, 2, 3) for p in itertools.product([b'a', b''], repeat=k)]
    paths2 = [p for p in paths2 if G.wf_name(p) and b'' in p.split(b'/')]
    for k in range(1, 3 if ctx.tier == 'quick' else 4):
        for subset in itertools.combinations(paths2 + [b'a', b'a/a'], k):
            ents = [(p, Qty(str(2 ** j).encode(), Fraction(2 ** j))) for j, p in enumerate(subset)]
            log = [(__import__('datetime').date(2021, 1, 24), ents, [])]
            files = {b'food.yaml': b'', b'log.yaml': g.render_log(log, varied=False)}
            grp = {}
            for mode, s in MODES:
                c = app(['bal'], files, s=s, kind=mode)
                grp[mode] = c
                cases.append(c)
            groups.append((grp, elements_of(log), None, subset))
    # deep trees: a staircase (a fork at every level) and a long chain, far deeper than any indentation table
    for depth in (6, 11, 12, 13, 21, 40):
        stair = [b'/'.join([b'c%d' % j for j in range(k + 1)] + [b'item']) for k in range(depth)]
        chain = [b'/'.join(b'd%d' % j for j in range(depth + 1))]
        for subset in (stair, chain, stair + chain):
            ents = [(p, Qty(b'1', Fraction(1))) for p in subset]
            log = [(__import__('datetime').date(2021, 1, 24), ents, [])]
            files = {b'food.yaml': b'', b'log.yaml': g.render_log(log, varied=False)}
            grp = {}
            for mode, s in MODES:
                c = app(['bal'], files, s=s, kind=mode)
                grp[mode] = c
                cases.append(c)
            groups.append((grp, elements_of(log), None, tuple(subset)))
    ctx.exhaustive = (ctx.tier != 'quick')
    # random logs and books, with and without a single element
    for _ in range(300 if ctx.tier == 'quick' else 1200):
        book = g.book(depth=g.r.choice([0, 1, 2]), exact=True, unusual=0.15)
        if len(spec.book_map(book)) != len(book):
            continue
        log = g.log(book=book, exact=True, unusual=0.15, direct=0.3)
        files = base_files(g, book, log)
        grp = {}
        for mode, s in MODES:
            c = app(['bal'], files, s=s, kind=mode)
            grp[mode] = c
            cases.append(c)
        groups.append((grp, elements_of(log), None, None))
        res = spec.resolved(spec.book_map(book))
        x = g.r.choice([b'calories', b'fat', b'protein'])
        sel = []
        for f, q in elements_of(log):
            for leaf, v in spec.contributions(res, f, q):
                if leaf == x:
                    sel.append((f, v))
        grp = {}
        for mode, s in MODES:
            c = app(['bal'], files, s=dict(s, singleElement=x), kind=mode + ' -s')
            grp[mode] = c
            cases.append(c)
        groups.append((grp, sel, x, None))
    impl, model = run_apps(ctx, cases)
    for grp, elements, single, subset in groups:
        judge_group(ctx, grp, impl, elements, single)
        names = [n for n, _ in elements]
        ctx.count('single' if single else ('exhaustive' if subset else 'random'))
        if not spec.no_prefix(names) or len({n.split(b'/')[0] for n in names}) < len(set(names)):
            ctx.mark_nontrivial(sig(sorted(set(names)), single))
    ctx.sample({'cmd': cases[-1].shell(), 'log': cases[-1].files[b'log.yaml'].decode('utf-8', 'replace')[:400]})
    ctx.sample({'exhaustive path set': [p.decode() for p in groups[200][3]] if len(groups) > 200 and groups[200][3] else None})


def search(ctx, seed):
    g = G(seed)
    cases, groups = [], []
    for _ in range(150):
        book = g.book(depth=g.r.choice([0, 1, 2]), exact=True)
        if len(spec.book_map(book)) != len(book):
            continue
        log = g.log(book=book, exact=True, direct=0.3)
        files = base_files(g, book, log)
        grp = {}
        for mode, s in MODES:
            c = app(['bal'], files, s=s, kind=mode)
            c.id = ctx.fresh('s')
            grp[mode] = c
            cases.append(c)
        groups.append((grp, elements_of(log), None))
    impl = ctx.go([c.go() for c in cases])
    ctx.evaluations += len(cases)
    for grp, elements, single in groups:
        judge_group(ctx, grp, impl, elements, single)
