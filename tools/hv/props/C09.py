"""C09 — malformed entries are reported with their exact line by lint and every command."""
from .. import spec
from ..gen import G
from ..common import run_apps, app, out_of, sig
from ..core import unhx

THEOREMS = ['events_errors', 'error_line_exact', 'errors_in_file_order', 'message_quotes_line', 'book_fails_first', 'walk_fails_first', 'csv_database_fails_first', 'lint_lists_all']
LEVEL = 'proof'
RULE = ('k in 0..4 (6 % of the files: 20..64) malformed lines (no blank before the value / value not a number) planted inside records of generated well-formed files '
        '(blank lines, comments, notes, CRLF, one comment or note line of 4 to 60 KB, a CRLF pair across the 4096-byte refill of the line reader) x every file-reading command x lint with and without --silent; '
        'non-trivial = k >= 1 and the first planted line is not line 2; distinct by file hash')
ASSUMPTIONS = ["lint's exit status on a file with errors is not asserted (the statement gives lint its own clause)"]

DB_CMDS = [(['reg'], ()), (['bal'], ()), (['report', 'totals'], ()), (['report', 'unresolved'], ()), (['report', 'element-total'], ('calories',)),
           (['csv', 'database'], ()), (['csv', 'database-resolved'], ()), (['summary'], ('2021/01/24',)), (['stats'], ())]
LOG_CMDS = [(['reg'], ()), (['bal'], ()), (['report', 'totals'], ()), (['report', 'unresolved'], ()), (['report', 'quantity'], ()),
            (['csv', 'log'], ()), (['print'], ()), (['summary'], ('2021/01/24',)), (['stats'], ())]


# the same commands with switches that route the data through another reporter: the first malformed line is reported all the same
VARIANTS = [(['reg'], (), {'singleElement': 'calories'}), (['reg'], (), {'singleElement': 'calories', 'groupFood': True}), (['reg'], (), {'singleFood': 'a'}), (['reg'], (), {'oldReg': True}),
            (['reg'], (), {'template': 'left-aligned'}), (['reg'], (), {'totalsOnly': True}), (['bal'], (), {'collapse': True}), (['bal'], (), {'collapseLast': True}),
            (['bal'], (), {'singleElement': 'calories'}), (['report', 'totals'], (), {}), (['report', 'unresolved'], (), {})]


def planted(g):
    r = g.r
    name = g.word(2, 6, 0.2).encode()
    if r.random() < 0.25:
        # bytes that a careless message formatter would mangle: printf verbs, quotes, backslashes, tabs
        name += r.choice([b'%', b'-50%', b'%d', b'%s', b'%!', b'"q"x', b'\\n', b'%v%',
                          b'\x1b[31m', b'\x00', b'\x0b', b'\x7f', '\u00a0x'.encode(), '\u3000x'.encode(), '\u200cx'.encode(), '\u200e'.encode(), '\ufeffx'.encode(), '\u0085x'.encode(),
                          b'caf\xe9', b'\xff\xfe', b'\xc3', '\u0301'.encode()])
    if r.random() < 0.06:
        # a malformed line of several hundred bytes (ASCII or two-byte letters): it is quoted whole
        name = (g.word(4, 8, 0) + '/').encode() * r.randint(30, 60) + name if r.random() < 0.5 else ('\u0431\u0430\u043d\u0438\u0446\u0430_' * r.randint(20, 40)).encode() + name
    indent = r.choice([b'  ', b'\t', b'    ', b'- ', b'  - '])
    if r.random() < 0.5:
        body = name + r.choice([b':1', b'', b':', b'=2', b':1.5'])
        body = body if body.strip(b'\t :"-') else name
        line = indent + body
        return line, 'badSyntax', None
    bad = r.choice([b'abc', b'1,5', b'1.2.3', b'--1', b'1e', b'0x10', b'1_', b'12kg', b'.', b'e5', b'+-1', b'1e999', b'1.5%', b'%d', b'5\\', b'1"x'])
    line = indent + name + r.choice([b': ', b'  ', b':\t']) + bad
    return line, 'conversion', bad


def message(kind, lineno, raw, text):
    if kind == 'badSyntax':
        return b'bad syntax on line %d, "%s".' % (lineno, raw)
    return b'error converting "%s" to float on line %d "%s".' % (text, lineno, raw)


def build_file(g, records, k, crlf):
    """records: list of line lists (first line = heading). returns (bytes, [messages])"""
    r = g.r
    lines = []
    if r.random() < 0.4:
        lines.append(b'# leading comment')
    if r.random() < 0.2:
        lines.append(b'')
    slots = []
    long_at = r.randrange(len(records)) if records and r.random() < 0.15 else None
    for ri, rec in enumerate(records):
        start = len(lines)
        if ri == long_at:
            # one long line (a comment above the record, or a note inside it) below the 64 KiB limit of the line reader, around and
            # above the sizes of its internal buffers: it is one line, and the lines after it keep their numbers
            n = r.choice([4094, 4095, 4096, 4097, 5000, 8192, 8193, 20000, 60000])
            if r.random() < 0.5:
                lines.append(b'# ' + b'x' * n)
                start = len(lines)
            else:
                rec = [rec[0], b'  # ' + b'y' * n] + list(rec[1:])
        lines.extend(rec)
        slots.extend(range(start + 1, len(lines) + 1))   # positions after the heading, inside the record
        if r.random() < 0.7:
            lines.append(b'')
    plants = []
    if slots:
        for pos in sorted(r.sample(slots, min(k, len(slots))), reverse=True):
            line, kind, text = planted(g)
            lines.insert(pos, line)
            plants.append((pos, line, kind, text))
    if crlf and r.random() < 0.35:
        # a CRLF pair across the line reader's first refill: the carriage return is byte 4095, the line feed byte 4096
        # (one line end, not two); filler comments bring the file past that point, one pad comment sets the alignment
        fill = []
        while sum(len(l) + 2 for l in fill + lines) < 4500:
            fill.append(b'# filler %d' % len(fill))
        lines[0:0] = fill
        off, ends = 0, []
        for l in lines:
            ends.append(off + len(l))           # offset of this line's carriage return
            off += len(l) + 2
        cand = [e for e in ends if e <= 4000]
        if cand:
            x = 4093 - cand[-1]                 # a pad line of x bytes shifts everything by x + 2
            lines.insert(0, b'# ' + b'p' * (x - 2))
    # recompute physical positions after all insertions
    msgs = []
    planted_lines = {id(p[1]): p for p in plants}
    for idx, l in enumerate(lines):
        for p in plants:
            if l is p[1]:
                msgs.append(message(p[2], idx + 1, l, p[3]))
    eol = b'\r\n' if crlf else b'\n'
    data = eol.join(lines) + (eol if r.random() < 0.85 else b'')
    return data, msgs


def gen(g, count):
    cases = []
    for _ in range(count):
        r = g.r
        book = g.book(depth=r.choice([0, 1, 2]), exact=True, unusual=0.2)
        if len(spec.book_map(book)) != len(book):
            continue
        many = r.random() < 0.06          # a file with dozens of malformed lines: every one of them is listed
        log = g.log(book=book, exact=True, unusual=0.2, days=r.randint(1, 4) if not many else r.randint(20, 30))
        db_recs = [g.render_record(n, ings, (), True) for n, ings in book]
        log_recs = [g.render_record(d.strftime('%Y/%m/%d').encode(), ents, ns, True) for d, ents, ns in log]
        k = r.choice([0, 1, 1, 2, 3, 4]) if not many else r.choice([20, 21, 22, 33, 64])
        which = r.choice(['db', 'log']) if not many else 'log'
        crlf = r.random() < 0.3
        dbdata, dbmsgs = build_file(g, db_recs, k if which == 'db' else 0, crlf)
        logdata, logmsgs = build_file(g, log_recs, k if which == 'log' else 0, crlf)
        files = {b'food.yaml': dbdata, b'log.yaml': logdata}
        msgs = dbmsgs if which == 'db' else logmsgs
        meta = {'which': which, 'k': len(msgs), 'msgs': msgs}
        for path, args, sw in [(p_, a_, {}) for p_, a_ in (DB_CMDS if which == 'db' else LOG_CMDS)] + r.sample(VARIANTS, 4):
            c = app(path, files, args=args, s=sw, kind=' '.join(path) + (' [' + '+'.join(sw) + ']' if sw else ''), disk=(path == ['stats']))
            c.meta.update(meta)
            cases.append(c)
        if which == 'log' and log:
            # a period selects what is reported, not what is read: a malformed line outside it (or after the last selected day) is still an error
            for path, args in r.sample([(['reg'], ()), (['bal'], ()), (['csv', 'log'], ()), (['print'], ()), (['report', 'totals'], ()), (['report', 'quantity'], ()), (['report', 'unresolved'], ())], 3):
                d0 = r.choice(log)[0].strftime('%Y/%m/%d')
                gp = r.choice([{'begin': d0, 'end': d0}, {'end': d0}, {'begin': d0}])
                c = app(path, files, args=args, g=gp, kind=' '.join(path) + ' [period]')
                c.meta.update(meta)
                cases.append(c)
            for d_ in {x[0] for x in log}:
                c = app(['summary'], files, args=(d_.strftime('%Y/%m/%d'),), kind='summary [each day]')
                c.meta.update(meta)
                cases.append(c)
        target = b'food.yaml' if which == 'db' else b'log.yaml'
        for silent in (False, True):
            c = app(['lint'], files, args=(target,), s={'silent': True} if silent else {}, kind='lint --silent' if silent else 'lint')
            c.meta.update(meta)
            c.meta['silent'] = silent
            cases.append(c)
    return cases


def judge(ctx, cases, impl):
    for c in cases:
        i = impl[c.id]
        msgs = c.meta['msgs']
        kind = c.meta['kind']
        if kind.startswith('lint'):
            want = b''.join(m + b'\n' for m in msgs)
            if not msgs and not c.meta['silent']:
                want += b'No errors found\n'
            got = unhx(i.get('out', ''))
            if i.get('status') in ('panic', 'timeout', 'crash') or got != want:
                ctx.problem('oracle', '`%s` does not list exactly the malformed lines (k=%d)%s' % (kind, len(msgs), ' and then prints "No errors found"' if msgs and got.endswith(b'No errors found\n') else ''), c,
                            {'impl': got.decode('utf-8', 'replace')[:1500], 'spec': want.decode('utf-8', 'replace')[:1500], 'status': i.get('status')},
                            signature='lint-no-errors-after-errors' if msgs and got == want + b'No errors found\n' else 'lint-output')
            continue
        if msgs:
            got = unhx(i.get('text', '')) if i.get('status') == 'err' else None
            if got != msgs[0]:
                ctx.problem('oracle', '`%s` on a file whose first malformed line is %r: expected failure quoting it, got status=%s %s' % (
                    kind, msgs[0].decode('utf-8', 'replace')[:120], i.get('status'), (got or b'').decode('utf-8', 'replace')[:200]), c,
                    {'impl_status': i.get('status'), 'impl_error': (got or b'').decode('utf-8', 'replace'), 'spec_error': msgs[0].decode('utf-8', 'replace')},
                    signature='nil-record-deref:' + kind if i.get('status') == 'panic' else 'first-error')
        else:
            if i.get('status') != 'ok':
                ctx.problem('oracle', '`%s` fails on a well-formed file' % kind, c, {'impl': i.get('status'), 'class': i.get('class')}, signature='wf-file-rejected')


def run(ctx):
    g = G(ctx.seed)
    cases = gen(g, 250 if ctx.tier == 'quick' else 1200)
    impl, model = run_apps(ctx, cases)
    judge(ctx, cases, impl)
    for c in cases:
        ctx.count('k:%d' % c.meta['k'])
        ctx.count('file:' + c.meta['which'])
        if c.meta['k'] >= 1 and b'line 2' not in c.meta['msgs'][0]:
            ctx.mark_nontrivial(sig(c.files))
    # what the user reads is what `main` prints: the same message, once, on standard error of the real program
    import re
    from ..common import real_observation
    cand = [c for c in cases if c.meta['k'] >= 1 and not c.meta['kind'].startswith('lint') and not c.disk]
    cand.sort(key=lambda c: (0 if (b'%' in c.meta['msgs'][0] or b'\\' in c.meta['msgs'][0]) else 1))
    nreal = 0
    for c in cand[:12] + cand[len(cand) // 2:len(cand) // 2 + (8 if ctx.tier == 'quick' else 60)]:
        r_ = real_observation(ctx, c)
        if r_ is None:
            continue
        rc, out, err = r_
        nreal += 1
        got = re.sub(rb'^\d{4}/\d\d/\d\d \d\d:\d\d:\d\d ', b'', err)
        if rc == 0 or got != c.meta['msgs'][0] + b'\n':
            ctx.problem('oracle', 'the real program run on `%s`: exit status %d, standard error is not the message of the first malformed line' % (c.meta['kind'], rc), c,
                        {'stderr': err.decode('utf-8', 'replace')[:600], 'expected_after_the_time_stamp': c.meta['msgs'][0].decode('utf-8', 'replace')}, signature='stderr-message')
    ctx.evaluations += nreal
    ctx.notes.append('%d malformed files also run through the untagged binary: exit status and the text on standard error' % nreal)
    c = next((c for c in cases if c.meta['k'] >= 2), cases[0])
    ctx.sample({'cmd': c.shell(), 'expected_errors': [m.decode('utf-8', 'replace') for m in c.meta['msgs']],
                'file': c.files[b'food.yaml' if c.meta['which'] == 'db' else b'log.yaml'].decode('utf-8', 'replace')[:600]})


def search(ctx, seed):
    g = G(seed)
    cases = gen(g, 60)
    for c in cases:
        c.id = ctx.fresh('s')
    impl = ctx.go([c.go() for c in cases])
    ctx.evaluations += len(cases)
    judge(ctx, cases, impl)
