"""C14 — print emits a normal form that reads back to the same log."""
import csv as pycsv
import io
from fractions import Fraction
from .. import spec
from ..gen import G, LAYOUTS, fmt_date_layout, Qty
from ..common import run_apps, app, out_of, sig
from ..core import unhx

THEOREMS = ['print_day', 'print_uses_parse_layout', 'print_days', 'printed_quantity_stable', 'printed_quantity_close', 'printed_quantity_reads_back', 'printed_date_reads_back', 'print_reparse', 'print_print', 'documented_notes_read_back', 'dayOK_of_plain', 'print_reparse_plain', 'print_layout_follows_source']
LEVEL = 'proof'
RULE = ('parseable logs (layout variants per line, names from several scripts, notes of the `# name: value` / `# text` forms, a stream of notes with '
        "'#', ':' and blanks inside) x date formats {default, ISO, day-first, month-first, dotted, unpadded} x periods; print is fed back to print and to csv log; "
        'non-trivial = a non-default date format or a note or a merged duplicate; distinct by (input hash, format, period)')
ASSUMPTIONS = ['quantities stay below 2^46 so that two decimals pin the float64 (exact dyadic inputs)']


def hard_note(g):
    r = g.r
    w = lambda: g.word(1, 5, 0.1)
    return r.choice([
        lambda: (w().encode(), (w() + ': ' + w()).encode()),           # colon inside the value
        lambda: (w().encode(), ('#' + w()).encode()),                   # value starts with '#'
        lambda: (b'', (w() + ' # ' + w()).encode()),                     # '#' inside a text note
        lambda: ((w() + ' ' + w()).encode(), w().encode()),             # blank inside the name
        lambda: (w().encode(), (w() + '  ' + w()).encode()),            # two blanks inside the value
        lambda: (b'', ('http://' + w() + '/' + w()).encode()),           # a text note that contains a colon
        lambda: (b'', (w() + ' 18%').encode()),                          # printf verbs in a text note
        lambda: (b'', ('50% ' + w() + ' %s %d').encode()),
        lambda: (w().encode(), ('18% ' + w() + '%').encode()),           # ... and in a value
        lambda: ((w() + '%').encode(), w().encode()),                   # ... and in a name
    ])()


def gen(g, count):
    r = g.r
    cases = []
    for n in range(count):
        layout = r.choice(LAYOUTS) if n % 2 else '2006/01/02'
        log = g.log(book=[], exact=True, unusual=0.3, notes=0.5, repeat=0.4)
        hard = False
        decimal = (n % 5 == 1)
        if decimal:
            # quantities that need all of a float64: large amounts with cents, integers above 2^24, three decimals next to a
            # rounding tie.  One entry per food and day, so that the expected value is the float64 of the literal itself.
            log2 = []
            for d, ents, ns in log:
                seen, e2 = set(), []
                for f, q in ents:
                    if f in seen:
                        continue
                    seen.add(f)
                    lit = r.choice([
                        lambda: '%d.%02d' % (r.randint(131072, 9999999), r.randint(1, 99)),
                        lambda: str(2 ** 24 + 1 + 2 * r.randint(0, 500)),
                        lambda: r.choice(['1.115', '2.675', '1.005', '0.125', '0.375', '8388609.5', '99999999.99', '1234567.89', '-803000.01', '0.005', '0.015', '1e-3', '33554433']),
                        lambda: '%d.%03d' % (r.randint(0, 99), r.randint(0, 999)),
                        lambda: '-%d.%02d' % (r.randint(131072, 999999), r.randint(1, 99)),
                    ])()
                    e2.append((f, Qty(lit, Fraction(float(lit)), False)))
                log2.append((d, e2, ns))
            log = log2
        if n % 3 == 0:
            log = [(d, ents, ns + [hard_note(g) for _ in range(r.randint(0, 2))]) for d, ents, ns in log]
            hard = True
        src = g.render_log(log, layout=layout, varied=True)
        # the date format reaches the program as a flag, through the environment or from the configuration file
        source = r.choice(['flag', 'flag', 'env', 'cfg']) if layout != '2006/01/02' else r.choice(['flag', 'none', 'none', 'none', 'none'])
        gflags = {'dateFormat': layout} if source == 'flag' else {}
        env, cfg = {}, None
        if source == 'env':
            env = {'dateFormat': layout}
        elif source == 'cfg':
            cfg = {'where': 'flag', 'path': 'my.cfg', 'exists': True, 'entries': {'DateFormat': layout}}
            gflags['config'] = 'my.cfg'
        sflags = {}
        days = sorted({d for d, _, _ in log})
        if days and r.random() < 0.3:
            sflags['begin'] = fmt_date_layout(r.choice(days), layout)
        if days and r.random() < 0.3:
            sflags['end'] = fmt_date_layout(r.choice(days), layout)
        gflags['today'] = fmt_date_layout(__import__('datetime').date(2021, 1, 28), layout)
        # (the model computes with the exact decimal value: for literals that are not binary fractions it is compared up to one unit of the last digit; the oracle uses the float64)
        c = app(['print'], {b'log.yaml': src, b'food.yaml': b''}, g=gflags, s=sflags, kind='print', env=env, cfg=cfg, disk=(cfg is not None), exact=not decimal)
        c.meta.update({'log': log, 'layout': layout, 'stage': 1, 'hard': hard, 'format_source': source})
        cases.append(c)
    return cases


def selected(c):
    log, layout = c.meta['log'], c.meta['layout']
    def parse(s):
        for d, _, _ in log:
            if fmt_date_layout(d, layout) == s:
                return d
        return None
    b = parse(c.s['begin']) if 'begin' in c.s else None
    e = parse(c.s['end']) if 'end' in c.s else None
    return [(d, ents, ns) for d, ents, ns in log if (b is None or d >= b) and (e is None or d <= e)]


def judge(ctx, stage1, impl1, stage2, impl2):
    by_parent = {}
    for c in stage2:
        by_parent.setdefault(c.meta['parent'].id, {})[c.meta['kind']] = c
    for c in stage1:
        i = impl1[c.id]
        if i.get('status') != 'ok':
            ctx.problem('oracle', '`print --date-format %s` fails on a readable log: %s' % (c.meta['layout'], unhx(i.get('text', '') or '').decode('utf-8', 'replace')[:200]), c, {}, signature='print-fails')
            continue
        kids = by_parent.get(c.id, {})
        p2 = kids.get('print(print)')
        if p2 is not None:
            j = impl2[p2.id]
            if j.get('status') != 'ok':
                ctx.problem('oracle', 'the printed log is not readable under the same options (date format %s): %s' % (c.meta['layout'], unhx(j.get('text', '') or '').decode('utf-8', 'replace')[:200]), c,
                            {'printed': out_of(i).decode('utf-8', 'replace')[:600]}, signature='print-not-readable-under-date-format')
            elif unhx(j['out']) != unhx(i['out']):
                ctx.problem('oracle', 'printing the printed log does not reproduce it byte for byte', c,
                            {'first': unhx(i['out']).decode('utf-8', 'replace')[:1200], 'second': unhx(j['out']).decode('utf-8', 'replace')[:1200]}, signature='print-not-idempotent')
        cl = kids.get('csv log(print)')
        if cl is not None:
            j = impl2[cl.id]
            want = []
            for d, ents, _ in selected(c):
                for f, q in spec.merge_day(ents):
                    v = spec.fmt_fixed(Fraction(spec.fmt_fixed(q, 2)), 3)
                    if v.startswith('-') and not v.strip('-0.'):
                        v = v[1:]
                    want.append([d.strftime('%Y-%m-%d'), f.decode('utf-8'), v])
            try:
                got = [[a, b_, (v[1:] if v.startswith('-') and not v.strip('-0.') else v)] for a, b_, v in pycsv.reader(io.StringIO(unhx(j.get('out', '')).decode('utf-8'), newline=''))] if j.get('status') == 'ok' else 'status %s' % j.get('status')
            except Exception as e:
                got = 'unreadable %s' % e
            if got != want:
                ctx.problem('oracle', 'the printed log does not read back to the same days / foods / quantities rounded to two decimals', c,
                            {'csv_of_printed': repr(got)[:1200], 'expected': repr(want)[:1200]}, signature='print-readback')


def expected_nodes(c):
    """what the printed log must read back to: one record per selected day"""
    out = []
    for d, ents, ns in selected(c):
        els = []
        for f, q in spec.merge_day(ents):
            v = Fraction(float(Fraction(spec.fmt_fixed(q, 2))))      # read back as the nearest float64
            els.append((f, '%d/%d' % (v.numerator, v.denominator)))
        out.append((fmt_date_layout(d, c.meta['layout']).encode(), els, [as_read(a, b_) for a, b_ in ns]))
    return out


def as_read(name, value):
    """a text note that contains a colon is a named note: the name ends at the first colon"""
    if name == b'' and b':' in value:
        i = value.index(b':')
        return (value[:i].strip(b'# \t'), value[i + 1:].strip())
    return (name, value)


def judge_readback(ctx, stage1, impl1):
    """parse the printed text with the program's own parser and compare days, foods and notes"""
    from .C04 import ParseCase, nodes_of
    pcs = []
    for c in stage1:
        i = impl1[c.id]
        if i.get('status') == 'ok':
            pc = ParseCase(unhx(i['out']), None, {'parent': c})
            pc.id = ctx.fresh('rb')
            pcs.append(pc)
    res = ctx.go([p.go() for p in pcs])
    ctx.evaluations += len(pcs)
    for pc in pcs:
        c = pc.meta['parent']
        if res[pc.id].get('status') == 'notrun':       # black-box fallback: the parser cannot be driven from outside
            continue
        got = nodes_of(res[pc.id])
        want = expected_nodes(c)
        if got != want:
            ctx.problem('oracle', 'the printed log does not read back to the same days, foods and notes', c,
                        {'printed': pc.src.decode('utf-8', 'replace')[:1000], 'reads_back_to': repr(got)[:1200], 'expected': repr(want)[:1200]}, signature='print-readback-days-notes')


def stage2_of(stage1, impl1):
    out = []
    for c in stage1:
        i = impl1[c.id]
        if i.get('status') != 'ok':
            continue
        files = {b'log.yaml': unhx(i['out']), b'food.yaml': b''}
        g = {k: v for k, v in c.g.items() if k in ('dateFormat', 'today', 'config')}
        a = app(['print'], files, g=g, kind='print(print)', env=c.env, cfg=c.cfg, disk=c.disk)
        a.meta['parent'] = c
        b_ = app(['csv', 'log'], files, g=g, kind='csv log(print)', env=c.env, cfg=c.cfg, disk=c.disk)
        b_.meta['parent'] = c
        out += [a, b_]
    return out


def run(ctx):
    g = G(ctx.seed)
    stage1 = gen(g, 700 if ctx.tier == 'quick' else 3000)
    impl1, model1 = run_apps(ctx, stage1)
    stage2 = stage2_of(stage1, impl1)
    impl2, model2 = run_apps(ctx, stage2)
    judge(ctx, stage1, impl1, stage2, impl2)
    judge_readback(ctx, stage1, impl1)
    for c in stage1:
        ctx.count('layout:' + c.meta['layout'])
        if c.meta['layout'] != '2006/01/02' or any(ns for _, _, ns in c.meta['log']):
            ctx.mark_nontrivial(sig(c.files, c.g, c.s))
    ctx.sample({'cmd': stage1[1].shell(), 'log': stage1[1].files[b'log.yaml'].decode('utf-8', 'replace')[:500]})


def search(ctx, seed):
    g = G(seed)
    stage1 = gen(g, 150)
    for c in stage1:
        c.id = ctx.fresh('s')
    impl1 = ctx.go([c.go() for c in stage1])
    stage2 = stage2_of(stage1, impl1)
    for c in stage2:
        c.id = ctx.fresh('s')
    impl2 = ctx.go([c.go() for c in stage2])
    ctx.evaluations += len(stage1) + len(stage2)
    judge(ctx, stage1, impl1, stage2, impl2)
    judge_readback(ctx, stage1, impl1)
