"""C01 — nested recipes resolve to the exact sum-of-products of their ingredients."""
from .. import spec
from ..gen import G, Qty
from ..common import BookCase, book_obs, frac_str, sig, run_apps, app, out_of
from ..core import unhx

THEOREMS = ['resolve_correct', 'undefined_is_itself', 'paths_unfold', 'book_ext', 'resolve_order_irrelevant', 'resolve_idempotent']
LEVEL = 'proof'
RULE = ('random layered DAG books (sharing, repeated ingredients, negative/zero/fractional coefficients, empty recipes, '
        'file order shuffled) x N in 1..12 x both public entry points x explicit visiting orders; '
        'non-trivial = depth >= 2 or a shared / repeated ingredient; distinct by book hash')
ASSUMPTIONS = ['float64 arithmetic is exact on the generated dyadic coefficients (checked: results are compared as exact rationals)']


def spec_obs(book):
    bm = spec.book_map(book)
    res = spec.resolved(bm)
    return [(n, [(leaf, frac_str(v)) for leaf, v in res[n]]) for n in sorted(res)]


def gen_cases(g, n, reps):
    cases = []
    for _ in range(n):
        depth = g.r.choice([0, 1, 1, 2, 2, 3, 3, 4, 6, 9])
        book = g.book(depth=depth, exact=True)
        bm = spec.book_map(book)
        if len(bm) != len(book):
            continue
        h = spec.max_height(bm)
        nmax = g.r.choice([h + 1, h + 1, h + 2, 10, 12])
        if nmax <= h:
            nmax = h + 1
        meta = {'depth': depth, 'height': h, 'N': nmax}
        names = [n_ for n_, _ in book]
        cases.append(BookCase(book, nmax, 'func', reps=reps, meta=dict(meta, api='func')))
        cases.append(BookCase(book, nmax, 'struct', reps=reps, meta=dict(meta, api='struct')))
        orders = [sorted(names), sorted(names, reverse=True)]
        for _ in range(2):
            o = list(names)
            g.r.shuffle(o)
            orders.append(o)
        for o in orders:
            cases.append(BookCase(book, nmax, 'hook', order=o, meta=dict(meta, api='hook')))
    return cases


def judge(ctx, cases, impl, model):
    for c in cases:
        i, m = impl[c.id], model.get(c.id) if model else None
        want = spec_obs(c.book)
        got = book_obs(i)
        if i.get('status') == 'driver-error' or (i.get('r') == 'other'):
            if c.api == 'hook':
                ctx.count('hook-unavailable')
                continue
        if m is not None:
            ok = book_obs(m) == got
            ctx.op('resolve:' + c.api, ok)
            if not ok:
                ctx.problem('corr', 'resolver result differs from the model (api=%s)' % c.api, c, {'impl': repr(got)[:1500], 'model': repr(book_obs(m))[:1500]})
        if got != want:
            ctx.problem('oracle', 'resolved book is not the sum over ingredient paths (api=%s, height %d < N=%d)' % (c.api, c.meta['height'], c.max_depth), c,
                        {'impl': repr(got)[:1500], 'spec': repr(want)[:1500]}, signature='resolve-spec')
        if i.get('distinct', 1) != 1:
            ctx.problem('oracle', 'repeated resolution of the same book gives different results', c, {'impl': repr(got)[:800], 'other': repr(i.get('other'))[:800]}, signature='resolve-nondeterministic')
        ctx.count('depth:%d' % c.meta['depth'])
        ctx.count('api:' + c.api)
        if c.meta['height'] >= 2 or any(len(set(x for x, _ in ings)) < len(ings) for _, ings in c.book):
            ctx.mark_nontrivial(sig([(n, [(a, q.lit) for a, q in ings]) for n, ings in c.book]))


def run(ctx):
    g = G(ctx.seed)
    n = 600 if ctx.tier == 'quick' else 3000
    cases = gen_cases(g, n, reps=3 if ctx.tier == 'quick' else 10)
    impl, model = ctx.both(cases)
    judge(ctx, cases, impl, model)
    for c in cases[:2]:
        ctx.sample({'book': c.describe()['book_file'][:500], 'N': c.max_depth})
    # idempotence: resolving the resolved book changes nothing
    again = []
    for c in cases:
        i = impl[c.id]
        if c.api == 'func' and i.get('r') == 'ok':
            book2 = [(unhx(r['name']), [(unhx(nm), Qty(b'0', __import__('fractions').Fraction(v))) for nm, v in r['els']]) for r in i['book']]
            bc = BookCase(book2, c.max_depth, 'func', meta={'first': i['book']})
            again.append(bc)
    impl2, model2 = ctx.both(again)
    for c in again:
        ok = impl2[c.id].get('r') == 'ok' and impl2[c.id]['book'] == c.meta['first']
        ctx.op('resolve:idempotent', impl2[c.id] == {**model2[c.id]} or book_obs(impl2[c.id]) == book_obs(model2[c.id]))
        if not ok:
            ctx.problem('oracle', 'resolving an already resolved book changes it', c, {'second': repr(book_obs(impl2[c.id]))[:1000]}, signature='resolve-not-idempotent')
    # through the CLI: csv database-resolved
    apps = []
    specs = {}
    for _ in range(250 if ctx.tier == 'quick' else 600):
        book = g.book(depth=g.r.choice([1, 2, 3]), exact=True)
        bm = spec.book_map(book)
        if len(bm) != len(book):
            continue
        c = app(['csv', 'database-resolved'], {b'food.yaml': g.render_book(book)})
        c.meta['book'] = book
        apps.append(c)
    impl3, model3 = run_apps(ctx, apps)
    import csv as pycsv, io
    for c in apps:
        i = impl3[c.id]
        res = spec.resolved(spec.book_map(c.meta['book']))
        want = [[n.decode(), leaf.decode(), spec.fmt_fixed(v, 2)] for n in sorted(res) for leaf, v in res[n]]
        try:
            got = list(pycsv.reader(io.StringIO(out_of(i).decode('utf-8'), newline='')))
        except Exception as e:
            got = 'unreadable: %s' % e
        want = [[x if not x.startswith('-0.00') or x.strip('-0.') else x[1:] for x in row] for row in want]
        if i.get('status') != 'ok' or got != want:
            ctx.problem('oracle', '`csv database-resolved` rows are not the resolved book', c, {'impl': repr(got)[:1500], 'spec': repr(want)[:1500]}, signature='csv-resolved-spec')


def search(ctx, seed):
    g = G(seed)
    cases = [c for c in gen_cases(g, 400, reps=4) if c.api != 'hook' or True]
    for c in cases:
        c.id = ctx.fresh('s')
    impl = ctx.go([c.go() for c in cases])
    ctx.evaluations += len(cases)
    judge(ctx, cases, impl, None)
