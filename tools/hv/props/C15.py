"""C15 — presentation options never change the numbers."""
import re
from .. import spec
from ..gen import G
from ..common import run_apps, app, out_of, sig, base_files
from ..core import unhx

THEOREMS = ['colour_by_sign', 'strip_colour_figure', 'strip_plain', 'default_is_interleave', 'old_reporter_same_totals', 'shorten_fits', 'shorten_keeps_ends', 'desc_same_rows', 'no_color_position_irrelevant', 'strip_colour_register', 'strip_colour_old_and_summary', 'value_format_follows_source']
LEVEL = 'proof'
RULE = ('logs with empty days and names longer than the columns (multi-byte runes included) x all combinations of {colour, template default / left-aligned / old reporter, '
        'shorten, no-totals / totals-only, desc} x flag position; relations are evaluated between outputs of the implementation; '
        'non-trivial = a name longer than its column or a day with both signs; distinct by (input hash, flags)')
ASSUMPTIONS = ['names in this stream contain no digits so that figures can be told from names when reading the layouts back']

NUM = rb'-?[0-9]+\.[0-9][0-9]'
ANSI = re.compile(rb'\x1b\[(31|32|0)m')
COLOURED = re.compile(rb'\x1b\[(31|32)m( *(' + NUM + rb'))\x1b\[0m')


def strip_ansi(b):
    return ANSI.sub(b'', b)


def parse_left(out):
    days = []
    cur = None
    in_tot = False
    for line in out.split(b'\n'):
        if not line:
            continue
        if line.startswith(b'-------') and line.endswith(b' TOTAL --'):
            cur['totals'] = []
            in_tot = True
            continue
        if not line.startswith(b'  '):
            cur = {'date': line, 'foods': [], 'totals': None}
            days.append(cur)
            in_tot = False
            continue
        if in_tot:
            m = re.match(rb'^ +(' + NUM + rb') +(' + NUM + rb') = +(' + NUM + rb')  (.*)$', line, re.S)
            cur['totals'].append((m.group(4), m.group(1), m.group(2), m.group(3)))
            continue
        m = re.match(rb'^ +(' + NUM + rb')(  |    )(\S.*)$', line, re.S)
        if len(m.group(2)) == 2:
            cur['foods'].append((m.group(3), m.group(1), []))
        else:
            cur['foods'][-1][2].append((m.group(3), m.group(1)))
    return days


def norm_days(days):
    out = []
    for d in days:
        tot = d['totals'] or None
        out.append((d['date'], d['foods'], tot))
    return out


def rune_len(b):
    return len(b.decode('utf-8', 'replace'))


def shorten_ok(short, orig, width):
    s = short.decode('utf-8', 'replace')
    o = orig.decode('utf-8', 'replace')
    if len(o) <= width:
        return s == o
    if len(s) != width or '…' not in s:
        return False
    i = s.index('…')
    delta = (width - 1 + 1) // 2 if len(o) % 2 == 0 else (width - 1) // 2
    return i == delta and o.startswith(s[:i]) and o.endswith(s[i + 1:]) and len(s[i + 1:]) == width - 1 - delta


def blocks(out):
    res = []
    for line in out.split(b'\n')[:-1]:
        if not line.startswith(b'\t'):
            res.append([line])
        else:
            res[-1].append(line)
    return res


def gen(g, count):
    r = g.r
    groups = []
    for _ in range(count):
        # letter-only names, some far longer than the 27 / 20 rune columns
        def nm():
            if r.random() < 0.35:
                return g.long_name()
            return b'/'.join(g.word(2, 7, 0.3).encode() for _ in range(r.randint(1, 3)))
        leaves = [g.word(3, 9, 0.2).encode() for _ in range(3)] + [g.word(22, 30, 0.3).encode()]
        recs = [nm() for _ in range(r.randint(1, 4))]
        recs = list(dict.fromkeys(x for x in recs if x not in leaves))
        book = [(n, [(r.choice(leaves), g.qty_exact()) for _ in range(r.randint(0, 4))]) for n in recs]
        foods = recs + [nm() for _ in range(2)] + leaves[:1]
        foods.append(foods[0] + b'/' + g.word(2, 5, 0).encode())      # a logged category that is a path-prefix of another
        log = g.log(book=book, exact=True, unusual=0, notes=0, days=r.randint(1, 4))
        log = [(d, [(r.choice(foods), q) for f, q in ents], ns) for d, ents, ns in log]
        if r.random() < 0.4:
            log.append((log[0][0], [], []))          # a day with no entries
        files = base_files(g, book, log, varied=False)
        grp = {}
        def add(key, path, args=(), gflags=None, s=None):
            gf = {'today': '2021/01/28'}
            gf.update(gflags or {})
            c = app(path, files, args=args, g=gf, s=s or {}, kind=key)
            c.g.pop('noColor', None)
            c.g.update(gflags or {})
            grp[key] = c
        for tname, ts in (('default', {}), ('left', {'template': 'left-aligned'}), ('old', {'oldReg': True})):
            add('reg %s colour' % tname, ['reg'], s=ts)
            add('reg %s plain' % tname, ['reg'], gflags={'noColor': True}, s=ts)
            add('reg %s plain(sub)' % tname, ['reg'], s=dict(ts, noColor=True))
        add('reg no-totals', ['reg'], gflags={'noColor': True}, s={'noTotals': True})
        add('reg totals-only', ['reg'], gflags={'noColor': True}, s={'totalsOnly': True})
        # the same two switches, and both together, under the other two layouts
        for tname, ts in (('left', {'template': 'left-aligned'}), ('old', {'oldReg': True})):
            add('reg %s no-totals' % tname, ['reg'], gflags={'noColor': True}, s=dict(ts, noTotals=True))
            add('reg %s totals-only' % tname, ['reg'], gflags={'noColor': True}, s=dict(ts, totalsOnly=True))
        for tname, ts in (('default', {}), ('left', {'template': 'left-aligned'}), ('old', {'oldReg': True})):
            add('reg %s totals-only no-totals' % tname, ['reg'], gflags={'noColor': True}, s=dict(ts, totalsOnly=True, noTotals=True))
        # the layout switches do not apply to the single-element and single-food reports: with them the output is what it is without
        for key, sw in (('reg -s', {'singleElement': leaves[0].decode('utf-8', 'surrogateescape')}), ('reg -s -g', {'singleElement': leaves[0].decode('utf-8', 'surrogateescape'), 'groupFood': True}),
                        ('reg -s --csv', {'singleElement': leaves[0].decode('utf-8', 'surrogateescape'), 'csv': True}), ('reg -f', {'singleFood': 'a'})):
            add(key, ['reg'], gflags={'noColor': True}, s=sw)
            add(key + ' old', ['reg'], gflags={'noColor': True}, s=dict(sw, oldReg=True))
            add(key + ' left', ['reg'], gflags={'noColor': True}, s=dict(sw, template='left-aligned'))
        add('reg shorten', ['reg'], gflags={'noColor': True}, s={'shorten': True})
        add('reg shorten colour', ['reg'], s={'shorten': True})
        add('summary colour', ['summary'], args=(log[0][0].strftime('%Y/%m/%d'),))
        add('summary plain', ['summary'], args=(log[0][0].strftime('%Y/%m/%d'),), gflags={'noColor': True})
        add('bal', ['bal'], gflags={'noColor': True})
        add('bal collapse', ['bal'], gflags={'noColor': True}, s={'collapse': True})
        add('bal collapse-last', ['bal'], gflags={'noColor': True}, s={'collapseLast': True})
        add('quantity asc', ['report', 'quantity'], gflags={'noColor': True})
        add('quantity desc', ['report', 'quantity'], gflags={'noColor': True}, s={'desc': True})
        add('element-total asc', ['report', 'element-total'], args=(leaves[0],), gflags={'noColor': True})
        add('element-total desc', ['report', 'element-total'], args=(leaves[0],), gflags={'noColor': True}, s={'desc': True})
        groups.append((grp, book, log))
    return groups


def judge(ctx, groups, impl):
    def bad(grp, key, what, detail=None, signature='presentation'):
        ctx.problem('oracle', what, grp[key], detail or {}, signature=signature, related=list(grp.values()))
    for grp, book, log in groups:
        o = {}
        fail = False
        for k, c in grp.items():
            i = impl[c.id]
            if i.get('status') != 'ok':
                bad(grp, k, '`%s` fails on valid input' % k, {'class': i.get('class')}, 'presentation-fails')
                fail = True
            o[k] = unhx(i.get('out', ''))
        if fail:
            continue
        try:
            # colour: stripping the escape codes gives the plain output; red iff > 0, green iff < 0, none iff zero
            for t in ('default', 'left', 'old'):
                col, plain, plain_sub = o['reg %s colour' % t], o['reg %s plain' % t], o['reg %s plain(sub)' % t]
                if strip_ansi(col) != plain:
                    bad(grp, 'reg %s colour' % t, 'coloured register (%s) minus escape codes differs from the plain register' % t, {'coloured': col.decode('utf-8', 'replace')[:800], 'plain': plain.decode('utf-8', 'replace')[:800]}, 'colour-changes-text')
                if plain_sub != plain:
                    bad(grp, 'reg %s plain(sub)' % t, '--no-color on the sub-command differs from --no-color given globally', {}, 'flag-position')
                check_colours(ctx, grp, 'reg %s colour' % t, col, plain)
            # the three register layouts colour the same figures the same way (a zero, of either sign, is uncoloured in all of them)
            seqs = {t: [(m.group(1) or b'', m.group(2)) for m in re.finditer(rb'(?:\x1b\[(31|32)m)? *(' + NUM + rb')', o['reg %s colour' % t])] for t in ('default', 'old')}
            if [x[1] for x in seqs['default']] == [x[1] for x in seqs['old']] and seqs['default'] != seqs['old']:
                diff = [(a, b) for a, b in zip(seqs['default'], seqs['old']) if a != b][:3]
                bad(grp, 'reg old colour', 'the old register reporter colours a figure differently from the default template: %r' % diff,
                    {'default': o['reg default colour'].decode('utf-8', 'replace')[:800], 'old': o['reg old colour'].decode('utf-8', 'replace')[:800]}, 'colour-sign')
            if strip_ansi(o['summary colour']) != o['summary plain']:
                bad(grp, 'summary colour', 'coloured summary minus escape codes differs from the plain summary', {}, 'colour-changes-text')
            check_colours(ctx, grp, 'summary colour', o['summary colour'], o['summary plain'])
            # templates: same records, same numbers
            d0 = norm_days(spec.parse_register_default(o['reg default plain']))
            d1 = norm_days(parse_left(o['reg left plain']))
            d2 = norm_days(spec.parse_register_default(o['reg old plain']))
            if not (d0 == d1 == d2):
                bad(grp, 'reg left plain', 'default / left-aligned / old register do not show the same records and numbers',
                    {'default': repr(d0)[:1200], 'left': repr(d1)[:1200], 'old': repr(d2)[:1200]}, 'templates-differ')
            for key in ('reg -s', 'reg -s -g', 'reg -s --csv', 'reg -f'):
                for lay in ('old', 'left'):
                    if o[key + ' ' + lay] != o[key]:
                        bad(grp, key + ' ' + lay, '`%s` changes when the %s layout is asked for as well' % (key, {'old': 'old reporter', 'left': 'left-aligned'}[lay]),
                            {'plain': o[key].decode('utf-8', 'replace')[:600], 'with_layout': o[key + ' ' + lay].decode('utf-8', 'replace')[:600]}, 'layout-overrides-mode')
            # ... and so do they under --no-totals, --totals-only and both
            for mode in ('no-totals', 'totals-only', 'totals-only no-totals'):
                k0 = 'reg %s' % mode if mode != 'totals-only no-totals' else 'reg default %s' % mode
                m0 = norm_days(spec.parse_register_default(o[k0]))
                m1 = norm_days(parse_left(o['reg left %s' % mode]))
                m2 = norm_days(spec.parse_register_default(o['reg old %s' % mode]))
                if not (m0 == m1 == m2):
                    bad(grp, 'reg old %s' % mode, 'default / left-aligned / old register do not show the same records and numbers under --%s' % mode.replace(' ', ' --'),
                        {'default': repr(m0)[:1000], 'left': repr(m1)[:1000], 'old': repr(m2)[:1000]}, 'templates-differ')
            # default = no-totals and totals-only interleaved per day
            D, A, B = blocks(o['reg default plain']), blocks(o['reg no-totals']), blocks(o['reg totals-only'])
            ok = len(D) == len(A) == len(B) and all(d == a + b[1:] and a[0] == b[0] for d, a, b in zip(D, A, B))
            if not ok:
                bad(grp, 'reg no-totals', 'default register is not the no-totals and totals-only outputs interleaved per day',
                    {'default': o['reg default plain'].decode('utf-8', 'replace')[:800], 'no_totals': o['reg no-totals'].decode('utf-8', 'replace')[:600], 'totals_only': o['reg totals-only'].decode('utf-8', 'replace')[:600]}, 'interleave')
            # shorten: numbers unchanged, names keep a prefix and a suffix within the column width
            L0, L1 = o['reg default plain'].split(b'\n'), o['reg shorten'].split(b'\n')
            if len(L0) != len(L1):
                bad(grp, 'reg shorten', '--shorten changes the number of rows', {}, 'shorten')
            else:
                for a, b in zip(L0, L1):
                    if not a.startswith(b'\t') or a.startswith(b'\t-- TOTAL'):
                        if a != b:
                            bad(grp, 'reg shorten', '--shorten changes a non-name line', {'plain': a.decode('utf-8', 'replace'), 'short': b.decode('utf-8', 'replace')}, 'shorten')
                        continue
                    width = 20 if a.startswith(b'\t\t') else 27
                    body_a, body_b = a.lstrip(b'\t'), b.lstrip(b'\t')
                    pat = (rb'^(.*?)( +' + NUM + rb' +' + NUM + rb' = *' + NUM + rb'| +' + NUM + rb')$') if width == 20 else (rb'^(.*?)( *: *' + NUM + rb')$')
                    ma, mb = re.match(pat, body_a, re.S), re.match(pat, body_b, re.S)
                    na, nb = ma.group(1).strip(b' '), mb.group(1).strip(b' ')
                    fig_a = re.findall(NUM, ma.group(2))
                    fig_b = re.findall(NUM, mb.group(2))
                    if fig_a != fig_b or not shorten_ok(nb, na, width):
                        bad(grp, 'reg shorten', '--shorten: %r became %r (column %d): figures changed or the name does not keep a prefix and suffix of the original' % (na.decode('utf-8', 'replace'), nb.decode('utf-8', 'replace'), width), {}, 'shorten')
                        break
            if strip_ansi(o['reg shorten colour']) != o['reg shorten']:
                bad(grp, 'reg shorten colour', 'coloured shortened register differs from the plain one', {}, 'colour-changes-text')
            # collapse modes only join labels: the top-level amounts are the same in every mode
            from fractions import Fraction
            tops = {}
            for k in ('bal', 'bal collapse', 'bal collapse-last'):
                rows, _ = spec.parse_balance(o[k])
                tops[k] = sorted(Fraction(a.decode()) for ind, _, a in rows if ind == 0)
            if not (tops['bal'] == tops['bal collapse'] == tops['bal collapse-last']):
                bad(grp, 'bal collapse', 'the top-level amounts of the balance differ between display modes', {k: [str(x) for x in v] for k, v in tops.items()}, 'collapse-changes-numbers')
            # desc: same rows, opposite order of values
            for kind in ('quantity', 'element-total'):
                asc = spec.parse_value_rows(o[kind + ' asc'])
                desc = spec.parse_value_rows(o[kind + ' desc'])
                va = [float(v) for _, v in asc]
                vd = [float(v) for _, v in desc]
                if sorted(asc) != sorted(desc) or va != sorted(va) or vd != sorted(vd, reverse=True):
                    bad(grp, kind + ' desc', '`report %s --desc` is not the same rows in the opposite order of values' % kind,
                        {'asc': repr(asc)[:600], 'desc': repr(desc)[:600]}, 'desc')
        except Exception as e:  # an output that cannot be read back is itself a failure of the relation
            bad(grp, 'reg default plain', 'outputs cannot be related: %r' % e, {}, 'presentation-unreadable')


def check_colours(ctx, grp, key, col, plain):
    # every figure of the plain output is coloured according to its sign
    pos = 0
    coloured = list(COLOURED.finditer(col))
    reds = [m for m in coloured if m.group(1) == b'31']
    greens = [m for m in coloured if m.group(1) == b'32']
    for m in reds:
        if not float(m.group(3)) > 0 and not (float(m.group(3)) == 0 and not m.group(3).startswith(b'-')):
            ctx.problem('oracle', '`%s`: %s is printed red' % (key, m.group(3).decode()), grp[key], {}, signature='colour-sign')
            return
    for m in greens:
        if not m.group(3).startswith(b'-'):
            ctx.problem('oracle', '`%s`: %s is printed green' % (key, m.group(3).decode()), grp[key], {}, signature='colour-sign')
            return
    # uncoloured figures must be zero: remove coloured tokens, look at what is left in figure position
    rest = COLOURED.sub(b'', col)
    for m in re.finditer(rb'(?<![0-9A-Za-z./])(' + NUM + rb')(?![0-9])', rest):
        tok = m.group(1)
        if float(tok) != 0:
            ctx.problem('oracle', '`%s`: non-zero figure %s is not coloured' % (key, tok.decode()), grp[key], {}, signature='colour-sign')
            return


def run(ctx):
    g = G(ctx.seed)
    groups = gen(g, 160 if ctx.tier == 'quick' else 700)
    cases = [c for grp, _, _ in groups for c in grp.values()]
    impl, model = run_apps(ctx, cases)
    judge(ctx, groups, impl)
    for grp, book, log in groups:
        names = [n for n, _ in book] + [f for _, ents, _ in log for f, _ in ents]
        if any(rune_len(n) > 20 for n in names):
            ctx.count('long-names')
            ctx.mark_nontrivial(sig(grp['reg default plain'].files))
        if any(not ents for _, ents, _ in log):
            ctx.count('empty-day')
    ctx.sample({'cmd': groups[0][0]['reg shorten colour'].shell(), 'log': groups[0][0]['reg shorten'].files[b'log.yaml'].decode('utf-8', 'replace')[:400]})


def search(ctx, seed):
    g = G(seed)
    groups = gen(g, 30)
    cases = [c for grp, _, _ in groups for c in grp.values()]
    for c in cases:
        c.id = ctx.fresh('s')
    impl = ctx.go([c.go() for c in cases])
    ctx.evaluations += len(cases)
    judge(ctx, groups, impl)
