"""C11 — depth limit rejects cycles, accepts legitimate nesting, independent of order."""
import itertools
from .. import spec
from ..gen import G
from ..common import BookCase, book_obs, sig, run_apps, app

THEOREMS = ['depth_exact', 'outcome_order_independent', 'only_depth_error', 'chain_shorter', 'chain_le', 'chain_of_reach', 'cyclic_fails', 'shallow_succeeds']
LEVEL = 'proof'
RULE = ('chains of every length N-2..N+2, chains that end in a recipe without ingredients (alone or shared by two recipes), cycles of length 1..4 reached through shallow and deep paths, DAGs with sharing, '
        'N in 1..12; through the CLI every command that resolves the book (register, balance in its display modes, the reports, summary, csv database-resolved) with the limit from --maxdepth / HR_MAXDEPTH / the configuration file; both entry points repeated (runtime map order) and explicit visiting orders (all permutations for <= 4 recipes); '
        'non-trivial = longest chain within 2 of N, or cyclic; distinct by (book, N)')
ASSUMPTIONS = ["Go's map iteration order is sampled by repetition; explicit orders go through the resolver hook"]


RESOLVING = [(['csv', 'database-resolved'], (), {}), (['csv', 'database-resolved'], (), {}), (['reg'], (), {}), (['reg'], (), {'singleElement': 'calories'}),
             (['bal'], (), {}), (['bal'], (), {'collapse': True}), (['bal'], (), {'collapseLast': True}), (['bal'], (), {'singleElement': 'calories'}),
             (['report', 'totals'], (), {}), (['report', 'unresolved'], (), {}), (['report', 'element-total'], ('calories',), {}), (['summary'], ('2021/01/24',), {})]


COMBOS = [(c_, s_) for s_ in ('flag', 'env', 'cfg') for c_ in RESOLVING[1:]]


def expect(book, n):
    bm = spec.book_map(book)
    return 'depth' if spec.max_height(bm) >= n else 'ok'


def gen_cases(g, count, reps):
    cases = []
    r = g.r
    for _ in range(count):
        n = r.randint(1, 12)
        kind = r.random()
        if kind < 0.12:
            # the chain ends in a recipe without ingredients (a bare heading): it is a recipe of height 0, like an undefined name;
            # sometimes two recipes share it (a diamond)
            length = max(1, n + r.choice([-2, -1, -1, -1, 0, 1]))
            book = g.chain_book(length, exact=True)
            tail = (g.word(3, 6, 0) + '/empty').encode()
            book = [(nm, [((tail if i == b'calories' else i), q) for i, q in ings]) for nm, ings in book] + [(tail, [])]
            if r.random() < 0.5 and len(book) >= 2:
                top, ings = book[0]
                side = (g.word(3, 6, 0) + '/side').encode()
                book = [(top, ings + [(side, ings[0][1])])] + book[1:] + [(side, [(tail, ings[0][1])])]
            r.shuffle(book)
            meta = {'kind': 'chain-empty-tail', 'len': length}
        elif kind < 0.5:
            length = max(0, n + r.choice([-2, -1, -1, 0, 0, 1, 2]))
            book = g.chain_book(length, exact=True)
            meta = {'kind': 'chain', 'len': length}
        elif kind < 0.75:
            length = r.randint(1, max(1, n + 1))
            book = g.chain_book(length, exact=True, cycle=r.randint(1, min(4, length)))
            meta = {'kind': 'cycle', 'len': length}
        else:
            book = g.book(depth=r.randint(0, min(n + 1, 6)), exact=True)
            meta = {'kind': 'dag'}
        bm = spec.book_map(book)
        if len(bm) != len(book) or not book:
            continue
        meta['N'] = n
        meta['height'] = min(spec.max_height(bm), 99)
        names = [x for x, _ in book]
        cases.append(BookCase(book, n, 'func', reps=reps, meta=dict(meta, api='func')))
        cases.append(BookCase(book, n, 'struct', reps=reps, meta=dict(meta, api='struct')))
        if len(names) <= 4:
            orders = list(itertools.permutations(names))
        else:
            orders = [sorted(names), sorted(names, reverse=True), list(names), list(reversed(names))]
            for _ in range(2):
                o = list(names)
                r.shuffle(o)
                orders.append(o)
        for o in orders:
            cases.append(BookCase(book, n, 'hook', order=list(o), meta=dict(meta, api='hook')))
    return cases


def judge(ctx, cases, impl, model):
    for c in cases:
        i = impl[c.id]
        if c.api == 'hook' and i.get('r') == 'other':
            ctx.count('hook-unavailable')
            continue
        want = expect(c.book, c.max_depth)
        got = i.get('r')
        if model is not None:
            m = model[c.id]
            ok = (m.get('r') == got) and (got != 'ok' or book_obs(m) == book_obs(i))
            ctx.op('resolve-outcome:' + c.api, ok)
            if not ok:
                ctx.problem('corr', 'resolver outcome differs from the model (api=%s)' % c.api, c, {'impl': got, 'model': m.get('r')})
        if i.get('distinct', 1) != 1:
            ctx.problem('oracle', 'resolving the same book with N=%d succeeds on some runs and fails on others (longest chain %s)' % (c.max_depth, c.meta['height']), c,
                        {'first': got, 'other': (i.get('other') or {}).get('r')}, signature='depth-order-dependent')
        elif got != want:
            ctx.problem('oracle', 'N=%d, longest chain %s: expected %s, got %s (api=%s, order=%s)' % (c.max_depth, c.meta['height'], want, got, c.api, 'explicit' if c.order else 'runtime'), c,
                        {'impl': got, 'spec': want}, signature='depth-order-dependent' if (want == 'depth' and got == 'ok' and c.meta['kind'] != 'cycle') else 'depth-outcome')
        ctx.count('kind:' + c.meta['kind'])
        ctx.count('N:%d' % c.max_depth)
        if c.meta['kind'] == 'cycle' or abs(c.meta['height'] - c.max_depth) <= 2:
            ctx.mark_nontrivial(sig([(n, [(a, q.lit) for a, q in ings]) for n, ings in c.book], c.max_depth))


def run(ctx):
    g = G(ctx.seed)
    cases = gen_cases(g, 900 if ctx.tier == 'quick' else 4000, reps=6 if ctx.tier == 'quick' else 30)
    impl, model = ctx.both(cases)
    judge(ctx, cases, impl, model)
    for c in cases[:2]:
        ctx.sample({'book': c.describe()['book_file'][:400], 'N': c.max_depth, 'longest_chain': c.meta['height']})
    # through the CLI: --maxdepth / HR_MAXDEPTH / [Resolver] MaxDepth
    apps = []
    for _ in range(330 if ctx.tier == "quick" else 660):
        n = g.r.randint(1, 12)
        length = max(0, n + g.r.choice([-1, 0, 0, 1]))
        book = g.chain_book(length, exact=True, cycle=g.r.choice([0, 0, 1, 2]) if length else 0)
        if len(spec.book_map(book)) != len(book):
            continue
        # every command that works with the resolved book refuses the same books, whatever else it is asked to do
        combo = COMBOS[len(apps) % len(COMBOS)]          # every command with every source of the limit, in turn
        path, args, sflags = combo[0]
        first = book[0][0] if book else b'calories'
        files = {b'food.yaml': g.render_book(book), b'log.yaml': b'' if path == ['csv', 'database-resolved'] and g.r.random() < 0.5 else b'2021/01/24:\n  ' + first + b': 1\n'}
        src = combo[1]
        cfgd = {'where': 'flag', 'path': 'my.cfg', 'exists': True, 'entries': {'MaxDepth': n}} if src == 'cfg' else None
        c = app(path, files, args=args, s=sflags, g={'maxdepth': n} if src == 'flag' else ({'config': 'my.cfg'} if src == 'cfg' else {}), env={'maxdepth': n} if src == 'env' else {},
                cfg=cfgd, disk=cfgd is not None, reps=4, kind=' '.join(path + list(sflags)))
        c.meta.update({'want': expect(book, n), 'N': n})
        apps.append(c)
    # ... and four fixed pairs (limit, chain) on either side of the limit and of the built-in default of 10, for every command and source
    for (path, args, sflags), src in COMBOS:
        for n, length in ((3, 3), (3, 2), (12, 11), (12, 12)):
            book = g.chain_book(length, exact=True)
            if len(spec.book_map(book)) != len(book):
                continue
            files = {b'food.yaml': g.render_book(book), b'log.yaml': b'2021/01/24:\n  ' + book[0][0] + b': 1\n'}
            cfgd = {'where': 'flag', 'path': 'my.cfg', 'exists': True, 'entries': {'MaxDepth': n}} if src == 'cfg' else None
            c = app(path, files, args=args, s=sflags, g={'maxdepth': n} if src == 'flag' else ({'config': 'my.cfg'} if src == 'cfg' else {}), env={'maxdepth': n} if src == 'env' else {},
                    cfg=cfgd, disk=cfgd is not None, kind=' '.join(path + list(sflags)))
            c.meta.update({'want': expect(book, n), 'N': n})
            apps.append(c)
    impl2, model2 = run_apps(ctx, apps)
    for c in apps:
        i = impl2[c.id]
        got = 'depth' if i.get('class') == 'depth' else i.get('status')
        if i.get('distinct', 1) != 1:
            ctx.problem('oracle', '`%s --maxdepth %d` succeeds on some runs and fails on others' % (c.meta['kind'], c.meta['N']), c, {}, signature='depth-order-dependent')
        elif got != c.meta['want']:
            ctx.problem('oracle', '`%s` with depth limit %d: expected %s, got %s' % (c.meta['kind'], c.meta['N'], c.meta['want'], got), c, {},
                        signature='depth-order-dependent' if c.meta['want'] == 'depth' and got == 'ok' else 'depth-outcome')


def search(ctx, seed):
    g = G(seed)
    cases = gen_cases(g, 300, reps=12)
    for c in cases:
        c.id = ctx.fresh('s')
    impl = ctx.go([c.go() for c in cases])
    ctx.evaluations += len(cases)
    judge(ctx, cases, impl, None)
