"""An invocation of the program as a structured value, rendered for both drivers."""
import datetime
from .core import hx

try:
    import zoneinfo
except ImportError:  # pragma: no cover
    zoneinfo = None

ENV_NAMES = {'database': 'HR_DATABASE', 'logfile': 'HR_LOGFILE', 'config': 'HR_CONFIG', 'dateFormat': 'HR_DATE_FORMAT', 'maxdepth': 'HR_MAXDEPTH'}

G_FLAGS = {  # name -> (long, short or None, has value)
    'begin': ('--begin', '-b', True), 'end': ('--end', '-e', True), 'today': ('--today', None, True),
    'database': ('--database', '-d', True), 'logfile': ('--logfile', '-l', True), 'config': ('--config', '-c', True),
    'dateFormat': ('--date-format', None, True), 'maxdepth': ('--maxdepth', None, True),
    'noColor': ('--no-color', None, False), 'noDatabase': ('--no-database', None, False),
}
S_FLAGS = {
    'begin': ('--begin', '-b', True), 'end': ('--end', '-e', True), 'singleFood': ('--single-food', '-f', True),
    'singleElement': ('--single-element', '-s', True), 'template': ('--internal-template-name', None, True),
    'groupFood': ('--group-food', '-g', False), 'csv': ('--csv', None, False), 'noColor': ('--no-color', None, False),
    'noTotals': ('--no-totals', None, False), 'totalsOnly': ('--totals-only', None, False), 'shorten': ('--shorten', None, False),
    'oldReg': ('--use-old-reg-reporter', None, False), 'collapse': ('--collapse', '-c', False),
    'collapseLast': ('--collapse-last', None, False), 'desc': ('--desc', None, False), 'silent': ('--silent', '-s', False),
}

EPOCH = datetime.date(1970, 1, 1)


def b(x):
    return x if isinstance(x, bytes) else str(x).encode('utf-8')


def tz_offset(tz, date):
    if not tz or tz == 'UTC' or zoneinfo is None:
        return 0
    z = zoneinfo.ZoneInfo(tz)
    dt = datetime.datetime(date.year, date.month, date.day, tzinfo=datetime.timezone.utc).astimezone(z)
    return int(dt.utcoffset().total_seconds())


class AppCase:
    """path: command words; args: positional arguments; g/s/env: flag dicts; cfg: None or dict
    {'where': 'default'|'flag'|'env', 'path': str, 'exists': bool, 'entries': {...}}"""

    def __init__(self, path, args=(), g=None, s=None, env=None, cfg=None, files=None, tz='UTC', read_fail=None,
                 sink_fail=None, reps=1, disk=False, meta=None, short=None, today_date=None, exact=True):
        self.path = [b(p) for p in path]
        self.args = [b(a) for a in args]
        self.g = dict(g or {})
        self.s = dict(s or {})
        self.env = dict(env or {})
        self.cfg = cfg
        self.files = dict(files or {})
        self.tz = tz
        self.read_fail = dict(read_fail or {})
        self.sink_fail = sink_fail
        self.reps = reps
        self.disk = disk
        self.meta = meta or {}
        self.short = short or set()      # flag names rendered with their short alias
        self.today_date = today_date
        self.exact = exact
        self.id = None

    def clone(self, **kw):
        c = AppCase(self.path, self.args, self.g, self.s, self.env, self.cfg, self.files, self.tz, self.read_fail,
                    self.sink_fail, self.reps, self.disk, dict(self.meta), set(self.short), self.today_date, self.exact)
        for k, v in kw.items():
            setattr(c, k, v)
        return c

    # ------------------------------------------------------------------ rendering
    def argv(self):
        out = []
        for k, v in self.g.items():
            long, short, hasv = G_FLAGS[k]
            flag = short if (short and ('g.' + k) in self.short) else long
            if hasv:
                out += [b(flag), b(v)]
            elif v:
                out += [b(flag)]
        out += self.path
        for k, v in self.s.items():
            long, short, hasv = S_FLAGS[k]
            flag = short if (short and ('s.' + k) in self.short) else long
            if hasv:
                out += [b(flag), b(v)]
            elif v:
                out += [b(flag)]
        out += self.args
        return out

    def config_text(self):
        e = self.cfg['entries']
        lines = []
        glob = [(k, e[k]) for k in ('Now', 'DbFileName', 'LogFileName', 'DateFormat') if k in e]
        if glob:
            lines.append('[Global]')
            for k, v in glob:
                lines.append('%s=%s' % (k, v.decode() if isinstance(v, bytes) else v))
        if 'MaxDepth' in e:
            lines.append('[Resolver]')
            lines.append('MaxDepth=%d' % e['MaxDepth'])
        pad = self.cfg.get('pad')
        if pad:
            # a long comment header: the settings come after the first kilobytes of the file
            head = []
            while sum(len(x) + 1 for x in head) < pad:
                head.append('; %s %d' % ('configuration of the diet tracker, kept under version control', len(head)))
            lines = head + [''] + lines
        return ('\n'.join(lines) + '\n').encode()

    def go(self):
        j = {'id': self.id, 'mode': 'app', 'argv': [hx(a) for a in self.argv()],
             'files': [{'name': hx(n), 'data': hx(d)} for n, d in self.files.items()],
             'osenv': {ENV_NAMES[k]: hx(b(v)) for k, v in self.env.items()},
             'tz': self.tz, 'reps': self.reps, 'disk': self.disk}
        if self.cfg and self.cfg.get('exists'):
            if self.cfg['where'] == 'default':
                j['homeConfig'] = hx(self.config_text())
            else:
                j['files'].append({'name': hx(self.cfg['path']), 'data': hx(self.config_text())})
                j['disk'] = True
        if self.read_fail:
            j['readFail'] = [{'name': hx(n), 'at': k} for n, k in self.read_fail.items()]
        if self.sink_fail is not None:
            j['sinkFail'] = self.sink_fail
        return j

    def lean(self):
        def conv(d):
            out = {}
            for k, v in d.items():
                if isinstance(v, bool):
                    out[k] = v
                elif k == 'maxdepth':
                    out[k] = int(v)
                else:
                    out[k] = hx(b(v))
            return out
        j = {'id': self.id, 'mode': 'app', 'cmd': [hx(x) for x in self.path + self.args],
             'g': conv(self.g), 's': conv(self.s), 'env': conv(self.env),
             'files': [{'name': hx(n), 'data': hx(d)} for n, d in self.files.items()]}
        if self.cfg:
            c = {'exists': bool(self.cfg.get('exists'))}
            e = self.cfg.get('entries', {})
            if 'Now' in e:
                dt = datetime.datetime.strptime(e['Now'], '%Y-%m-%dT%H:%M:%SZ')
                c['now'] = int((dt - datetime.datetime(1970, 1, 1)).total_seconds()) * 10 ** 9
            if 'DbFileName' in e:
                c['db'] = hx(b(e['DbFileName']))
            if 'LogFileName' in e:
                c['log'] = hx(b(e['LogFileName']))
            if 'DateFormat' in e:
                c['dateFormat'] = hx(b(e['DateFormat']))
            if 'MaxDepth' in e:
                c['maxDepth'] = int(e['MaxDepth'])
            j['cfg'] = c
        if self.tz and self.tz != 'UTC' and self.today_date is not None:
            j['tzOffset'] = tz_offset(self.tz, self.today_date)
        if self.read_fail:
            j['readFail'] = [{'name': hx(n), 'at': k} for n, k in self.read_fail.items()]
        if self.sink_fail is not None:
            j['sinkFail'] = self.sink_fail
        return j

    def shell(self):
        """a human-readable command line for replays"""
        import shlex
        env = ' '.join('%s=%s' % (ENV_NAMES[k], shlex.quote(b(v).decode('utf-8', 'replace'))) for k, v in self.env.items())
        return (env + ' ' if env else '') + 'TZ=%s hranoprovod-cli ' % self.tz + ' '.join(shlex.quote(a.decode('utf-8', 'replace')) for a in self.argv())

    def describe(self):
        return {'cmd': self.shell(), 'files': {n.decode('utf-8', 'replace') if isinstance(n, bytes) else n: d.decode('utf-8', 'replace') for n, d in self.files.items()},
                'readFail': {(n.decode() if isinstance(n, bytes) else n): k for n, k in self.read_fail.items()} or None,
                'sinkFail': self.sink_fail, 'cfg': self.cfg, 'meta': {k: v for k, v in self.meta.items() if isinstance(v, (str, int, float, bool, list))}}
