"""Shared machinery of the checks: build steps, the two drivers, evidence, known findings."""
import fcntl
import hashlib
import json
import os
import re
import shutil
import subprocess
import sys
import time
from concurrent.futures import ThreadPoolExecutor

VERIF = os.path.dirname(os.path.dirname(os.path.dirname(os.path.abspath(__file__))))
REPO = os.environ.get('VERIF_REPO', '/repo')
CACHE = os.path.join(VERIF, '.cache')
LEAN_DIR = os.path.join(VERIF, 'lean')
HMDRIVER = os.path.join(LEAN_DIR, '.lake', 'build', 'bin', 'hmdriver')
NPROC = int(os.environ.get('VERIF_JOBS', '0')) or min(16, os.cpu_count() or 4)

GO_ENV = {
    'GOFLAGS': '', 'GOPROXY': 'off', 'GOSUMDB': 'off', 'GOTOOLCHAIN': 'local', 'CGO_ENABLED': '0',
}


class Infra(Exception):
    pass


def _unlisted_uid():
    """a uid without a passwd entry: Go's user.Current() then falls back to $HOME, which lets a run
    use a scratch home directory (the default configuration file lives under the home directory)"""
    if os.geteuid() != 0:
        return None
    try:
        import pwd
        for uid in (54321, 54322, 61234):
            try:
                pwd.getpwuid(uid)
            except KeyError:
                return uid
    except Exception:
        pass
    return None


SCRATCH_UID = _unlisted_uid()


def as_scratch_user():
    return {'user': SCRATCH_UID, 'group': SCRATCH_UID, 'extra_groups': []} if SCRATCH_UID else {}


_SCRATCH = {}
_SCRATCH_LOCK = __import__('threading').Lock()


def scratch_root():
    """a directory the scratch user can reach: the cache of this /verif when it is traversable for that user, otherwise a
    fresh temporary directory (removed at exit) — e.g. when /verif itself sits under a directory closed to other users"""
    if 'root' in _SCRATCH:
        return _SCRATCH['root']
    os.makedirs(CACHE, exist_ok=True)
    root = CACHE
    if SCRATCH_UID:
        probe = os.path.join(CACHE, 'probe-%d' % os.getpid())
        os.makedirs(probe, exist_ok=True)
        os.chmod(probe, 0o777)
        ok = False
        try:
            ok = subprocess.run(['/bin/sh', '-c', 'cd "$0" && : > x && rm x', probe], capture_output=True, timeout=20, **as_scratch_user()).returncode == 0
        except Exception:
            ok = False
        shutil.rmtree(probe, ignore_errors=True)
        if not ok:
            import tempfile, atexit
            root = tempfile.mkdtemp(prefix='hrverif-')
            os.chmod(root, 0o755)
            atexit.register(lambda: shutil.rmtree(root, ignore_errors=True))
    _SCRATCH['root'] = root
    return root


def staged(binary):
    """the binary at a path the scratch user can execute"""
    with _SCRATCH_LOCK:
        root = scratch_root()
        if root == CACHE:
            return binary
        key = ('bin', binary, os.path.getmtime(binary))
        if key not in _SCRATCH:
            dst = os.path.join(root, 'bin-%d-%s' % (len(_SCRATCH), os.path.basename(binary)))
            shutil.copy2(binary, dst)
            os.chmod(dst, 0o755)
            _SCRATCH[key] = dst
        return _SCRATCH[key]


def open_up(path):
    try:
        os.chmod(path, 0o777)
    except OSError:
        pass


def hx(b):
    if isinstance(b, str):
        b = b.encode('utf-8')
    return b.hex()


def unhx(s):
    return bytes.fromhex(s)


def log(*a):
    print(*a, file=sys.stderr, flush=True)


class Lock:
    def __init__(self, name):
        os.makedirs(CACHE, exist_ok=True)
        self.path = os.path.join(CACHE, name + '.lock')

    def __enter__(self):
        self.f = open(self.path, 'w')
        fcntl.flock(self.f, fcntl.LOCK_EX)
        return self

    def __exit__(self, *a):
        fcntl.flock(self.f, fcntl.LOCK_UN)
        self.f.close()


def repo_key():
    """digest of the Go sources of the repo working tree (decides whether a rebuild is needed)"""
    h = hashlib.sha256()
    for root, dirs, files in os.walk(REPO):
        dirs[:] = sorted(d for d in dirs if d not in ('.git', 'docs', 'documentation', 'scripts', '.github'))
        for f in sorted(files):
            if f.endswith(('.go', '.mod', '.sum', '.work')):
                p = os.path.join(root, f)
                h.update(p.encode())
                with open(p, 'rb') as fh:
                    h.update(fh.read())
    return h.hexdigest()[:16]


def _gowork(dirpath):
    os.makedirs(dirpath, exist_ok=True)
    with open(os.path.join(dirpath, 'go.work'), 'w') as f:
        f.write('go 1.17\n\nuse (\n\t%s\n\t%s/cmd/hranoprovod-cli\n)\n' % (REPO, REPO))
    src = os.path.join(REPO, 'go.work.sum')
    if os.path.exists(src):
        shutil.copy(src, os.path.join(dirpath, 'go.work.sum'))
    return os.path.join(dirpath, 'go.work')


def build_go(tagged=True, race=False, cgo=False):
    """build the driver (tag verif) or the plain binary from the current working tree of the repo"""
    key = repo_key()
    cover = bool(os.environ.get('VERIF_COVER'))      # tools/coverage.sh: statement coverage of the repository's sources by the checks
    name = ('hrdriver' if tagged else 'hrbin') + ('-race' if race else '') + ('-cgo' if cgo else '') + ('-cover' if cover else '') + '-' + key
    out = os.path.join(CACHE, 'bin', name)
    with Lock('gobuild'):
        if os.path.exists(out):
            return out
        os.makedirs(os.path.dirname(out), exist_ok=True)
        # drop stale binaries of other source states
        for f in os.listdir(os.path.dirname(out)):
            if f.startswith(name.rsplit('-', 1)[0] + '-') and not f.endswith(key):
                try:
                    # (not the binary of a check that is running at this moment against another tree: VERIF_REPO)
                    if time.time() - os.path.getmtime(os.path.join(os.path.dirname(out), f)) < 6 * 3600:
                        continue
                    os.remove(os.path.join(os.path.dirname(out), f))
                except OSError:
                    pass
        gw = _gowork(os.path.join(CACHE, 'gowork'))
        env = dict(os.environ)
        env.update(GO_ENV)
        env['GOWORK'] = gw
        if race or cgo:
            env['CGO_ENABLED'] = '1'
        cmd = ['go', 'build']
        if tagged:
            cmd += ['-tags', 'verif']
        if race:
            cmd += ['-race']
        if cover:
            cmd += ['-cover', '-coverpkg=github.com/aquilax/hranoprovod-cli/v3/...,github.com/aquilax/hranoprovod-cli/cmd/hranoprovod-cli/v3/...']
        cmd += ['-o', out, '.']
        r = subprocess.run(cmd, cwd=os.path.join(REPO, 'cmd', 'hranoprovod-cli'), env=env, capture_output=True, text=True)
        if r.returncode != 0:
            raise Infra('go build failed:\n' + r.stdout + r.stderr)
        return out


def build_lean(targets=('hmdriver',)):
    with Lock('leanbuild'):
        r = subprocess.run(['lake', 'build'] + list(targets), cwd=LEAN_DIR, capture_output=True, text=True)
        return r.returncode, r.stdout + r.stderr


# ------------------------------------------------------------------------------------------
# drivers

def _run_stream(cmd, lines, env=None, cwd=None, timeout=600):
    p = subprocess.run(cmd, input=('\n'.join(lines) + '\n').encode(), capture_output=True, env=env, cwd=cwd, timeout=timeout)
    outs = [l for l in p.stdout.decode('utf-8', 'replace').split('\n') if l.strip()]
    return p.returncode, outs, p.stderr.decode('utf-8', 'replace')


def run_lean(cases, jobs=None):
    """cases: list of JSON-able dicts with unique 'id'. returns {id: observation}"""
    if not cases:
        return {}
    jobs = jobs or NPROC
    shards = [cases[i::jobs] for i in range(jobs)]
    shards = [s for s in shards if s]

    def work(shard):
        rc, outs, err = _run_stream([HMDRIVER], [json.dumps(c) for c in shard])
        res = {}
        for l in outs:
            try:
                j = json.loads(l)
            except Exception:
                continue
            res[j.get('id')] = j
        for c in shard:
            if c['id'] not in res:
                res[c['id']] = {'id': c['id'], 'status': 'driver-error', 'error': 'no answer from hmdriver rc=%s %s' % (rc, err[-300:])}
        return res

    out = {}
    with ThreadPoolExecutor(len(shards)) as ex:
        for r in ex.map(work, shards):
            out.update(r)
    return out


class GoDriver:
    def __init__(self, binary, tag):
        self.binary = binary
        self.tag = tag
        self.n = 0

    def _dirs(self):
        self.n += 1
        base = os.path.join(scratch_root(), 'run-%s-%07d-%05d' % (self.tag, os.getpid(), self.n))   # fixed width: `gen man` prints $HOME
        home = os.path.join(base, 'home')
        work = os.path.join(base, 'work')
        os.makedirs(home, exist_ok=True)
        os.makedirs(work, exist_ok=True)
        for d in (base, home, work):
            open_up(d)
        return base, home, work

    def run_shard(self, shard, base, home, work):
        env = {k: v for k, v in os.environ.items() if not k.startswith('HR_')}
        env.update({'HR_VERIF_DRIVER': '1', 'HOME': home, 'USER': 'verif', 'GOMEMLIMIT': '1GiB', 'TZ': 'UTC'})
        res = {}
        pending = list(shard)
        crashes = 0
        while pending:
            if crashes >= 25:
                # the driver dies on case after case: the violation is established, do not restart it thousands of times
                for c in pending:
                    res[c['id']] = {'id': c['id'], 'status': 'crash', 'text': hx('not run: the driver had crashed 25 times in this shard'), 'out': '', 'rc': -1}
                break
            lines = [json.dumps(c) for c in pending]
            try:
                p = subprocess.run(['/bin/sh', '-c', 'ulimit -v 4000000; exec "$0"', staged(self.binary)],
                                   input=('\n'.join(lines) + '\n').encode(), capture_output=True, env=env, cwd=work, timeout=300, **as_scratch_user())
                outs = p.stdout.decode('utf-8', 'replace').split('\n')
                rc = p.returncode
                stderr = p.stderr.decode('utf-8', 'replace')
            except subprocess.TimeoutExpired as e:
                outs = (e.stdout or b'').decode('utf-8', 'replace').split('\n')
                rc = -9
                stderr = 'driver timeout'
            answered = 0
            for l in outs:
                if not l.strip():
                    continue
                try:
                    j = json.loads(l)
                except Exception:
                    continue
                res[j.get('id')] = j
                answered += 1
            if answered >= len(pending):
                break
            if answered == 0 and not res and rc in (126, 127):
                raise Infra('the Go driver cannot be executed (rc=%d): %s' % (rc, stderr[-300:]))
            # the process died: the first unanswered case is the culprit
            culprit = pending[answered]
            kind = 'timeout' if rc == -9 else 'crash'
            m = re.search(r'(fatal error: [^\n]*|panic: [^\n]*|signal: [^\n]*)', stderr)
            crashes += 9 if kind == 'timeout' else 1      # three whole-shard timeouts are enough
            res[culprit['id']] = {'id': culprit['id'], 'status': kind, 'text': hx(m.group(1) if m else stderr[-200:]), 'out': '', 'rc': rc}
            pending = pending[answered + 1:]
        return res

    def run(self, cases, jobs=None):
        if not cases:
            return {}
        jobs = jobs or NPROC
        shards = [cases[i::jobs] for i in range(jobs)]
        shards = [s for s in shards if s]
        dirs = [self._dirs() for _ in shards]
        out = {}
        try:
            with ThreadPoolExecutor(len(shards)) as ex:
                for r in ex.map(lambda a: self.run_shard(a[0], *a[1]), zip(shards, dirs)):
                    out.update(r)
        finally:
            for base, _, _ in dirs:
                shutil.rmtree(base, ignore_errors=True)
        return out


_RUN_SEQ = __import__('itertools').count()


def new_slot():
    """a scratch directory number that no other call of this process uses (the path is an input of the program: `gen` prints $HOME)"""
    return 1 + next(_RUN_SEQ) % (10**9 - 1)


def run_real_binary(binary, argv, files, env_extra=None, tz='UTC', stdout_to=None, timeout=20, home_config=None, stable_dir=False, modes=None, drop_env=(), slot=None, links=None, fifos=None, fifo_delay=0):
    """run the untagged binary as a sub-process in a scratch directory with the given files"""
    # stable_dir: the same scratch path on every call of this process ($HOME is an input of the program: `gen` prints it)
    base = os.path.join(scratch_root(), 'real-%07d-%09d' % (os.getpid(), 0 if stable_dir else slot if slot is not None else new_slot()))
    shutil.rmtree(base, ignore_errors=True)       # (a stale directory of a killed process with the same pid)
    binary = staged(binary)
    home = os.path.join(base, 'home')
    work = os.path.join(base, 'work')
    os.makedirs(home)
    os.makedirs(work)
    for d in (base, home, work):
        open_up(d)
    try:
        for name, data in files.items():
            if isinstance(name, bytes):
                name = name.decode('utf-8', 'surrogateescape')
            with open(os.path.join(work, name), 'wb') as f:
                f.write(data)
        if home_config is not None:
            os.makedirs(os.path.join(home, '.hranoprovod'))
            open_up(os.path.join(home, '.hranoprovod'))
            with open(os.path.join(home, '.hranoprovod', 'config'), 'wb') as f:
                f.write(home_config)
        env = {k: v for k, v in os.environ.items() if not k.startswith('HR_')}
        env.update({'HOME': home, 'USER': 'verif', 'TZ': tz})
        env.update(env_extra or {})
        for k in drop_env:
            env.pop(k, None)
        for name, mode in (modes or {}).items():
            os.chmod(os.path.join(work, name), mode)
        for name, target in (links or {}).items():
            os.symlink(target, os.path.join(work, name) if not name.startswith('~/') else os.path.join(home, name[2:]))
        feeders = []
        for name, data in (fifos or {}).items():
            # a named pipe that delivers `data` once a reader opens it (its size, as stat reports it, is 0)
            path = os.path.join(work, name)
            os.mkfifo(path, 0o666)
            open_up(path)
            def feed(path=path, data=data):
                try:
                    if fifo_delay:
                        time.sleep(fifo_delay)      # a writer that opens the pipe after the program has
                    fd = os.open(path, os.O_WRONLY)
                    try:
                        os.write(fd, data)
                    finally:
                        os.close(fd)
                except OSError:
                    pass
            th = __import__('threading').Thread(target=feed, daemon=True)
            th.start()
            feeders.append((th, path))
        args = [binary] + [a.decode('utf-8', 'surrogateescape') if isinstance(a, bytes) else a for a in argv]
        if stdout_to == 'full':
            with open('/dev/full', 'wb') as sink:
                p = subprocess.run(args, cwd=work, env=env, stdout=sink, stderr=subprocess.PIPE, timeout=timeout, **as_scratch_user())
            return p.returncode, b'', p.stderr
        if stdout_to == 'fsize':
            # a regular file that cannot grow (file size limit 0): every write fails with EFBIG, the process is not killed
            # (the signal that comes with it is ignored, as a shell started with `ulimit -f` would have it)
            sh = 'trap "" XFSZ; ulimit -f 0; exec "$0" "$@" > out.txt'
            p = subprocess.run(['/bin/sh', '-c', sh] + args, cwd=work, env=env, stdout=subprocess.DEVNULL, stderr=subprocess.PIPE, timeout=timeout, **as_scratch_user())
            return p.returncode, b'', p.stderr
        if stdout_to == 'file':
            # a regular file in a directory of its own (the program's working directory stays as it is)
            outdir = os.path.join(base, 'out')
            os.makedirs(outdir)
            open_up(outdir)
            with open(os.path.join(outdir, 'stdout.txt'), 'wb') as sink:
                p = subprocess.run(args, cwd=work, env=env, stdout=sink, stderr=subprocess.PIPE, timeout=timeout, **as_scratch_user())
            with open(os.path.join(outdir, 'stdout.txt'), 'rb') as f:
                return p.returncode, f.read(), p.stderr
        if stdout_to == 'closed':
            # a pipe whose read end is closed *before* the program starts: every write fails (EPIPE / SIGPIPE), no race
            rfd, wfd = os.pipe()
            os.close(rfd)
            try:
                p = subprocess.Popen(args, cwd=work, env=env, stdout=wfd, stderr=subprocess.PIPE, **as_scratch_user())
            finally:
                os.close(wfd)
            _, err = p.communicate(timeout=timeout)
            return p.returncode, b'', err
        p = subprocess.run(args, cwd=work, env=env, capture_output=True, timeout=timeout, **as_scratch_user())
        for th, path in feeders:
            if th.is_alive():
                # nobody opened the pipe: open it ourselves so that the feeder can finish
                try:
                    fd = os.open(path, os.O_RDONLY | os.O_NONBLOCK)
                    th.join(1)
                    os.close(fd)
                except OSError:
                    pass
        return p.returncode, p.stdout, p.stderr
    finally:
        shutil.rmtree(base, ignore_errors=True)


# ------------------------------------------------------------------------------------------
# canonical observations

_NEGZERO = re.compile(rb'(?<![0-9.])-(0\.0+)(?![0-9])')


def canon_out(b):
    """signed zero is not modelled: `-0.00` and ` 0.00` are identified (same width when padded)"""
    def rep(m):
        s = m.start()
        if s > 0 and b[s - 1:s] == b' ':
            return b' ' + m.group(1)
        return m.group(1)
    return _NEGZERO.sub(rep, b)


_NUM = re.compile(rb'-?[0-9]+\.[0-9]+')


def tolerant_equal(a, b, ulps=1):
    """equal up to `ulps` units in the last printed digit of each number, text otherwise identical"""
    ta = _NUM.split(a)
    tb = _NUM.split(b)
    na = _NUM.findall(a)
    nb = _NUM.findall(b)
    if len(na) != len(nb):
        return False
    # padding may shift by a character when the number of digits differs; compare text modulo blanks
    if [re.sub(rb'[ ]+', b' ', t) for t in ta] != [re.sub(rb'[ ]+', b' ', t) for t in tb]:
        return False
    for x, y in zip(na, nb):
        dx = len(x.split(b'.')[1])
        dy = len(y.split(b'.')[1])
        if dx != dy:
            return False
        fx, fy = float(x), float(y)
        if abs(fx - fy) > ulps * 10 ** (-dx) * 1.0000001 + 1e-9 * max(abs(fx), abs(fy)):
            return False
    return True


def _negzero_cut(impl, model):
    """a failing sink cuts both outputs after the same number of raw bytes; each `-0.00` the implementation printed before
    the cut (signed zero is not modelled) makes its canonical text up to one byte shorter than the model's, and the model
    may even have finished within the budget.  Accept exactly that: the implementation fails writing, the model fails
    writing or succeeds, the canonical texts agree up to the cut and differ in length by at most the number of such zeros."""
    if impl.get('status') != 'err' or impl.get('class') != 'write':
        return False
    if not (model.get('status') == 'ok' or (model.get('status') == 'err' and model.get('class') == 'write')):
        return False
    raw = unhx(impl.get('out', ''))
    nz = len(_NEGZERO.findall(raw)) + (1 if re.search(rb'-(0(\.0*)?)?$', raw) else 0)
    if not nz:
        return False
    a = canon_out(raw)
    b = canon_out(unhx(model.get('out', '')))
    k = min(len(a), len(b))
    return 0 <= len(b) - len(a) <= nz and a[:max(0, k - 8)] == b[:max(0, k - 8)]


def obs_equal(impl, model, exact=True, fields=('status', 'class', 'out')):
    """compare two observations of app mode"""
    if model.get('status') == 'unsupported':
        return True
    if _negzero_cut(impl, model):
        return True
    if impl.get('status') != model.get('status'):
        return False
    if impl.get('status') == 'err':
        mclass = {'configMissing': 'other', 'badToday': 'date', 'badDepth': 'other', 'badDateNumeric': 'other'}.get(model.get('class'), model.get('class'))
        if impl.get('class') != mclass:
            return False
        if model.get('class') in ('badSyntax', 'conversion'):
            if impl.get('text') != model.get('text'):
                return False
    if model.get('nonfinite'):
        return True
    if 'out' in fields:
        a = canon_out(unhx(impl.get('out', '')))
        b = canon_out(unhx(model.get('out', '')))
        if a != b:
            if exact:
                return False
            return tolerant_equal(a, b)
    return True


# ------------------------------------------------------------------------------------------
# known findings, replays, evidence

def load_known():
    known, fixed = [], []
    p = os.path.join(VERIF, 'known-findings.txt')
    if os.path.exists(p):
        for l in open(p):
            l = l.strip()
            if not l or l.startswith('#'):
                continue
            if l.startswith('known:'):
                m = re.match(r'known:\s+property=(\S+)\s+signature=(\S+)\s+(.*)', l)
                if m:
                    known.append({'property': m.group(1), 'signature': m.group(2), 'what': m.group(3)})
            elif l.startswith('fixed:'):
                fixed.append(l)
    return known, fixed


def write_replay(pid, seed, n, payload):
    d = os.path.join(VERIF, 'replays')
    os.makedirs(d, exist_ok=True)
    p = os.path.join(d, '%s-%s-%s.json' % (pid, seed, n))
    with open(p, 'w') as f:
        json.dump(payload, f, indent=1, default=lambda o: o.hex() if isinstance(o, bytes) else str(o))
    return p


def write_evidence(pid, ev):
    d = os.path.join(VERIF, 'evidence')
    os.makedirs(d, exist_ok=True)
    with open(os.path.join(d, pid + '.json'), 'w') as f:
        json.dump(ev, f, indent=1, default=lambda o: o.hex() if isinstance(o, bytes) else str(o))
