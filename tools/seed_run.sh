#!/bin/sh
# seed_run.sh <patch> <check ids...> : apply a seeded change to /repo, run the checks, undo it straight afterwards.
# With SEED_APPLY=<dir> the change is applied to that scratch worktree of /repo instead and the checks are pointed at it
# (VERIF_REPO), so that a background sweep that uses /repo is not disturbed.
P=$1; shift
R=${SEED_APPLY:-/repo}
git -C $R apply "$P" || exit 2
# evidence and replays written while a seeded change is applied must not survive: keep the clean ones aside
rm -rf /verif/.cache/evidence.keep && cp -r /verif/evidence /verif/.cache/evidence.keep
for c in "$@"; do
  VERIF_REPO=$R /verif/check $c --tier ${TIER:-quick} 2>/dev/null | grep -E "VIOLATION|KNOWN|INFRA|tier=" | cut -c1-260
done
git -C $R checkout -- .
rm -rf /verif/evidence && mv /verif/.cache/evidence.keep /verif/evidence
git -C $R status --short | head -3
