#!/bin/sh
# seed_run.sh <patch> <check ids...> : apply a seeded change to /repo, run the checks, undo it straight afterwards.
P=$1; shift
git -C /repo apply "$P" || exit 2
for c in "$@"; do
  /verif/check $c --tier ${TIER:-quick} 2>/dev/null | grep -E "VIOLATION|KNOWN|INFRA|tier=" | cut -c1-260
done
git -C /repo checkout -- .
git -C /repo status --short | head -3
