#!/bin/sh
# seed_run.sh <patch> <check ids...> : apply a seeded change to /repo, run the checks, undo it straight afterwards.
P=$1; shift
git -C /repo apply "$P" || exit 2
# evidence and replays written while a seeded change is applied must not survive: keep the clean ones aside
rm -rf /verif/.cache/evidence.keep && cp -r /verif/evidence /verif/.cache/evidence.keep
for c in "$@"; do
  /verif/check $c --tier ${TIER:-quick} 2>/dev/null | grep -E "VIOLATION|KNOWN|INFRA|tier=" | cut -c1-260
done
git -C /repo checkout -- .
rm -rf /verif/evidence && mv /verif/.cache/evidence.keep /verif/evidence
git -C /repo status --short | head -3
