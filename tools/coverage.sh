#!/bin/sh
# coverage.sh [tier] : which statements of the repository's non-test sources do the checks execute?
# Builds the in-process driver and the plain binary with `go build -cover`, runs the 18 checks (default tier quick) with
# GOCOVERDIR set, and writes .cache/cover/summary.txt: percentage per file and the uncovered blocks.
# Not registered in MANIFEST.json; it measures the reach of the correspondence, it decides nothing.
TIER=${1:-quick}
cd /verif
D=/verif/.cache/cover
rm -rf $D && mkdir -p $D/data && chmod 777 $D $D/data
rm -rf .cache/evidence.cover && cp -r evidence .cache/evidence.cover
for i in 01 02 03 04 05 06 07 08 09 10 11 12 13 14 15 16 17 18; do
  VERIF_COVER=1 GOCOVERDIR=$D/data VERIF_SEED=${VERIF_SEED:-1} ./check C$i --tier $TIER 2>&1 | tail -1 | cut -c1-60
done
rm -rf evidence && mv .cache/evidence.cover evidence
export GOFLAGS= GOPROXY=off GOSUMDB=off GOTOOLCHAIN=local
go tool covdata textfmt -i=$D/data -o=$D/profile.txt || exit 2
python3 tools/coverage_report.py $D/profile.txt > $D/summary.txt
head -60 $D/summary.txt
