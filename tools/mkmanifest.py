#!/usr/bin/env python3
"""Regenerates MANIFEST.json from the property modules (level follows what is actually proved)."""
import importlib
import json
import os
import subprocess
import sys

HERE = os.path.dirname(os.path.abspath(__file__))
sys.path.insert(0, HERE)
VERIF = os.path.dirname(HERE)

TEXT = json.load(open(os.path.join(HERE, 'levels.json')))
props = [json.loads(l) for l in open(os.path.join(VERIF, 'properties.jsonl'))]
hooks = subprocess.run(['git', '-C', os.environ.get('VERIF_REPO', '/repo'), 'log', '--format=%h %s'], capture_output=True, text=True).stdout.splitlines()
hook_commits = [l.split()[0] for l in hooks if l.split(' ', 1)[1].startswith('verif hook:')]

checks = []
na = []
for p in props:
    pid = p['id']
    try:
        mod = importlib.import_module('hv.props.%s' % pid)
    except Exception:
        na.append({'property_id': pid, 'reason': 'no check built'})
        continue
    t = TEXT.get(pid, {})
    thms = getattr(mod, 'THEOREMS', [])
    level = getattr(mod, 'LEVEL', 'proof') if thms else 'translation_validation'
    checks.append({
        'property_id': pid,
        'quick_cmd': './check %s --tier quick' % pid,
        'thorough_cmd': './check %s --tier thorough' % pid,
        'evidence_file': 'evidence/%s.json' % pid,
        'replay_cmd_template': 'cat {path}   # the replay file names the command line, the files and the fault; run the real binary on them',
        'engine': 'lean-model+correspondence',
        'level_claimed': {'category': level, 'text': t.get('text', ''), 'design_ref': 'DESIGN.md section 6, %s' % pid},
        'level_note': t.get('note', ''),
        'technique': t.get('technique', 'Lean 4 theorems about a hand-written executable model; model tied to the code by generated constants and a differential correspondence check; property evaluated on the implementation to find replays'),
    })

m = {
    'version': 1,
    'setup_cmd': 'cd lean && lake build hmdriver HranoModel',
    'hooks': {'guard': 'verif', 'enable': 'go build -tags verif (private GOWORK in .cache, CGO_ENABLED=0); the binary reads JSON cases from stdin when HR_VERIF_DRIVER is set',
              'baseline_off_cmd': 'tools/baseline.sh', 'source_commits': hook_commits, 'add_only': True},
    'engines': [{'name': 'lean-model+correspondence', 'path': 'lean/ + tools/hv/ + check', 'serves_properties': [c['property_id'] for c in checks],
                 'kind_free_text': 'Lean 4 model and theorems (lean/HranoModel), compiled model driver (hmdriver), Go in-process driver behind the build tag verif, Python generators / comparators / oracles'}],
    'checks': checks,
    'not_applicable': na,
    'notes': 'Every check: regenerate Facts.lean from /repo, lake build the property module and audit its axioms, build the Go driver from the working tree, '
             'run generated + exhaustive cases through model and implementation, evaluate the property on the implementation, write evidence. See DESIGN.md.',
}
json.dump(m, open(os.path.join(VERIF, 'MANIFEST.json'), 'w'), indent=1)
print('MANIFEST.json: %d checks, %d not applicable' % (len(checks), len(na)))
