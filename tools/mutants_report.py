#!/usr/bin/env python3
"""summary of tools/mutants.py results: counts per outcome, the mutation score of the checks over the mutants the
repository's own tests do not kill, and the list of survivors for triage"""
import json, sys, collections
p = sys.argv[1] if len(sys.argv) > 1 else '/verif/.cache/mutants.jsonl'
rows = [json.loads(l) for l in open(p) if l.strip()]
c = collections.Counter()
by = collections.Counter()
for r in rows:
    k = r['result'].split(':')[0]
    c[k] += 1
    if k == 'caught':
        by[r['result'].split(':')[1].split(' ')[0]] += 1
print('mutants: %d' % len(rows), dict(c))
alive = c['caught'] + c['survived']
if alive:
    print('not killed by the repository tests: %d; caught by the checks: %d (%.1f%%); survived: %d' % (alive, c['caught'], 100.0 * c['caught'] / alive, c['survived']))
print('first check that caught:', dict(sorted(by.items())))
nf = [r for r in rows if 'no failing input' in r['result']]
print('caught without a failing input: %d' % len(nf))
for r in rows:
    if r['result'].startswith('survived') or r['result'].startswith('infra'):
        print('%-9s %s' % (r['result'][:9], r['desc']))
